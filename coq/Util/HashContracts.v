(* hash_table.c proofs, part 4: hash_table_create / search / insert (with rehash and
   tombstones) / remove preserve [wf], and the contracts of search and insert in terms of the
   live entries -- the statements C08's deduplication model assumes about the table. *)
From Coq Require Import NArith ZArith Znumtheory List Bool Lia Permutation.
From SqfsV Require Import Util.GenUtil Util.FastRem Util.Primes Util.HashModel Util.HashBase Util.HashRows
     Util.HashInv.
Import ListNotations.
Local Open Scope N_scope.

Section HT.
Variables K V : Type.
Variable keq : K -> K -> bool.

Notation slot := (slot K V).
Notation htab := (htab K V).
Notation entry := (N * K * V)%type.
Notation wf := (wf K V).
Notation row_wf := (row_wf K V).
Notation livel := (livel K V).
Notation count_del := (count_del K V).
Notation chain_ok := (chain_ok K V).
Notation nonfree := (nonfree K V).

Lemma matches_true : forall hash key (s : slot),
  matches K V keq hash key s = true -> exists k d, s = SPresent hash k d /\ keq key k = true.
Proof.
  intros hash key s H. destruct s as [| |h k d]; cbn in H; try discriminate.
  apply andb_true_iff in H. destruct H as [H1 H2]. apply N.eqb_eq in H1. subst. eauto.
Qed.

(* ---- search ---- *)
Theorem ht_search_spec : forall t hash key,
  wf t -> hash < two32 ->
  exists r, ht_search K V keq t hash key = Ok r /\
    match r with
    | Some a => exists k d, nthN (ht_table K V t) a = Some (SPresent hash k d) /\ keq key k = true
    | None => forall p k d, nthN (ht_table K V t) p = Some (SPresent hash k d) -> keq key k = false
    end.
Proof.
  intros t hash key W Hh.
  pose proof (wf_geom K V t (wf_row K V t W)) as G.
  pose proof (size_pos _ _ G) as Hpos.
  unfold ht_search. rewrite (wf_start K V t hash (wf_row K V t W) Hh), (wf_step K V t hash (wf_row K V t W) Hh).
  rewrite <- (ppath_0 _ _ G hash).
  destruct (search_loop_spec K V keq t (wf_len K V t W) G hash key (ht_table K V t) 0) as (r & E & Hr).
  - rewrite N.add_0_r. apply (wf_len K V t W).
  - exact Hpos.
  - intros j Hj. lia.
  - exists r. split; [exact E|]. destruct r as [a|].
    + destruct Hr as (m & s & _ & _ & Hs & Hm & _). apply matches_true in Hm.
      destruct Hm as (k & d & -> & Hk). eauto.
    + intros p k d Hp.
      destruct (wf_chain K V t W p hash k d Hp) as [_ (i0 & Hi0 & Ep & Hnf)].
      assert (Hnm : nomatch K V keq t hash key p).
      { destruct Hr as [(m & Hm & Hfree & Hc)|Hc].
        - assert (i0 < m).
          { destruct (N.lt_trichotomy i0 m) as [|[->|Hgt]]; [assumption|exfalso|exfalso].
            - rewrite Ep in Hfree. congruence.
            - apply (Hnf m Hgt). exact Hfree. }
          rewrite <- Ep. apply Hc. assumption.
        - rewrite <- Ep. apply Hc. assumption. }
      specialize (Hnm _ Hp). cbn in Hnm. rewrite N.eqb_refl in Hnm. exact Hnm.
Qed.

(* ---- updating a slot with a present entry ---- *)
Lemma nonfree_upd : forall (tbl : list slot) a h k d q,
  nonfree tbl q -> nonfree (updN tbl a (SPresent h k d)) q.
Proof.
  intros tbl a h k d q H. unfold HashInv.nonfree in *. destruct (N.eq_dec a q) as [->|Hne].
  - destruct (nthN tbl q) as [s|] eqn:E.
    + rewrite nthN_upd_same by (eapply nthN_some_lt; eauto). discriminate.
    + intro Hc. apply nthN_some_lt in Hc. rewrite updN_length in Hc.
      destruct (nthN_lt _ tbl q Hc) as [x Hx]. congruence.
  - rewrite nthN_upd_other by exact Hne. exact H.
Qed.

Lemma chain_upd : forall (tbl : list slot) size rehash h k d m,
  chain_ok tbl size rehash -> h < two32 -> m < size -> ppath size rehash h m < HashBase.lenN tbl ->
  (forall j, j < m -> nonfree tbl (ppath size rehash h j)) ->
  chain_ok (updN tbl (ppath size rehash h m) (SPresent h k d)) size rehash.
Proof.
  intros tbl size rehash h k d m C Hh Hm Hlt Hnf p h' k' d' Hp.
  destruct (N.eq_dec p (ppath size rehash h m)) as [->|Hne].
  - rewrite nthN_upd_same in Hp by exact Hlt. inversion Hp; subst. split; [exact Hh|].
    exists m. repeat split; auto. intros j Hj. apply nonfree_upd. apply Hnf. exact Hj.
  - rewrite nthN_upd_other in Hp by congruence.
    destruct (C _ _ _ _ Hp) as [H1 (i & Hi & Ei & Hn)]. split; [exact H1|].
    exists i. repeat split; auto. intros j Hj. apply nonfree_upd. apply Hn. exact Hj.
Qed.

Lemma livel_upd_add : forall (tbl : list slot) a (s : slot) h k d,
  nthN tbl a = Some s -> is_present K V s = false ->
  Permutation (livel (updN tbl a (SPresent h k d))) ((h, k, d) :: livel tbl) /\
  count_del (updN tbl a (SPresent h k d)) + (if is_deleted K V s then 1 else 0) = count_del tbl.
Proof.
  intros tbl a s h k d Hs Hp.
  destruct (nthN_split _ _ _ _ Hs) as (pre & post & -> & _ & Hu). rewrite Hu.
  rewrite !livel_app, !count_del_app. split.
  - destruct s; cbn in Hp; try discriminate; cbn [HashInv.livel]; symmetry; apply Permutation_middle.
  - destruct s; cbn in Hp; try discriminate; cbn [HashInv.count_del is_deleted]; lia.
Qed.

Lemma livel_upd_replace : forall (tbl : list slot) a h k0 d0 k d,
  nthN tbl a = Some (SPresent h k0 d0) ->
  exists rest,
    Permutation (livel tbl) ((h, k0, d0) :: rest) /\
    Permutation (livel (updN tbl a (SPresent h k d))) ((h, k, d) :: rest) /\
    count_del (updN tbl a (SPresent h k d)) = count_del tbl /\
    HashBase.lenN (livel (updN tbl a (SPresent h k d))) = HashBase.lenN (livel tbl).
Proof.
  intros tbl a h k0 d0 k d Hs.
  destruct (nthN_split _ _ _ _ Hs) as (pre & post & -> & _ & Hu). rewrite Hu.
  exists (livel pre ++ livel post). rewrite !livel_app, !count_del_app. cbn [HashInv.livel HashInv.count_del].
  repeat split; try (symmetry; apply Permutation_middle).
  rewrite !HashBase.lenN_app, !lenN_cons. reflexivity.
Qed.

(* ---- hash_table_create ---- *)
Lemma livel_repeat_free : forall n, livel (repeat SFree n) = [] /\ count_del (repeat SFree n) = 0.
Proof. induction n as [|n [IH1 IH2]]; cbn; auto. Qed.

Lemma of_row_pre : forall r i,
  nth_error util_hash_sizes i = Some r -> row_good r ->
  let t := ht_of_row K V r i 0 0 in
  row_wf t /\ HashBase.lenN (ht_table K V t) = ht_size K V t /\
  chain_ok (ht_table K V t) (ht_size K V t) (ht_rehash K V t) /\
  livel (ht_table K V t) = [] /\ count_del (ht_table K V t) = 0 /\
  (forall p, p < ht_size K V t -> nthN (ht_table K V t) p = Some SFree).
Proof.
  intros r i Hn Hg t. unfold t, ht_of_row. cbn.
  destruct (livel_repeat_free (N.to_nat (row_size r))) as [L1 L2].
  split; [|split; [|split; [|split; [|split]]]].
  - exists r. split; [exact Hn|]. split; [exact Hg|]. repeat split.
  - unfold HashBase.lenN. rewrite repeat_length. lia.
  - intros p h k d Hp. assert (Hlt : p < row_size r).
    { apply nthN_some_lt in Hp. unfold HashBase.lenN in Hp. rewrite repeat_length in Hp. lia. }
    rewrite nthN_repeat in Hp by lia. discriminate.
  - exact L1.
  - exact L2.
  - intros p Hp. apply nthN_repeat. lia.
Qed.

Theorem ht_create_wf : exists t, ht_create K V = Some t /\ wf t /\ livel (ht_table K V t) = [].
Proof.
  destruct row_first as (r & Hn & Hg). unfold ht_create. rewrite Hn.
  destruct (of_row_pre r 0 Hn Hg) as (R & L & C & Lv & Cd & _).
  eexists. split; [reflexivity|]. split; [|exact Lv].
  constructor; auto.
  - cbn [ht_of_row ht_entries]. rewrite Lv. reflexivity.
  - cbn [ht_of_row ht_deleted ht_entries ht_max_entries]. destruct Hg. lia.
Qed.

(* ---- hash_table_rehash ---- *)
Definition same_geometry (a b : htab) : Prop :=
  ht_size_index K V a = ht_size_index K V b /\ ht_size K V a = ht_size K V b /\
  ht_rehash K V a = ht_rehash K V b /\ ht_size_magic K V a = ht_size_magic K V b /\
  ht_rehash_magic K V a = ht_rehash_magic K V b /\ ht_max_entries K V a = ht_max_entries K V b.

Lemma same_geometry_row_wf : forall a b, same_geometry a b -> row_wf b -> row_wf a.
Proof.
  intros a b (E0 & E1 & E2 & E3 & E4 & E5) (r & Hn & Hg & (F1 & F2 & F3 & F4 & F5)).
  exists r. rewrite E0. split; [exact Hn|]. split; [exact Hg|]. repeat split; congruence.
Qed.

Lemma livel_hash_bound : forall (tbl : list slot) size rehash,
  chain_ok tbl size rehash -> Forall (fun e : entry => fst (fst e) < two32) (livel tbl).
Proof.
  intros tbl size rehash C. apply Forall_forall. intros [[h k] d] Hin.
  apply livel_In in Hin. destruct Hin as [p Hp]. apply (C _ _ _ _ Hp).
Qed.

Lemma free_slot_exists : forall (tbl : list slot),
  HashBase.lenN (livel tbl) + count_del tbl < HashBase.lenN tbl -> exists p, nthN tbl p = Some SFree.
Proof.
  induction tbl as [|s tbl IH]; intro H.
  - unfold HashBase.lenN in H. cbn in H. lia.
  - destruct s.
    + exists 0. reflexivity.
    + cbn [HashInv.livel HashInv.count_del] in H. rewrite lenN_cons in H.
      destruct IH as [p Hp]; [lia|]. exists (p + 1). cbn [nthN].
      replace (p + 1 =? 0) with false by (symmetry; apply N.eqb_neq; lia).
      replace (N.pred (p + 1)) with p by lia. exact Hp.
    + cbn [HashInv.livel HashInv.count_del] in H. rewrite !lenN_cons in H.
      destruct IH as [p Hp]; [lia|]. exists (p + 1). cbn [nthN].
      replace (p + 1 =? 0) with false by (symmetry; apply N.eqb_neq; lia).
      replace (N.pred (p + 1)) with p by lia. exact Hp.
Qed.

Lemma insert_rehash_spec : forall t h k d,
  row_wf t -> HashBase.lenN (ht_table K V t) = ht_size K V t ->
  chain_ok (ht_table K V t) (ht_size K V t) (ht_rehash K V t) ->
  count_del (ht_table K V t) = 0 ->
  HashBase.lenN (livel (ht_table K V t)) < ht_size K V t -> h < two32 ->
  exists t', insert_rehash K V t h k d = Ok t' /\ same_geometry t' t /\
    ht_entries K V t' = ht_entries K V t /\ ht_deleted K V t' = ht_deleted K V t /\
    HashBase.lenN (ht_table K V t') = ht_size K V t' /\
    chain_ok (ht_table K V t') (ht_size K V t') (ht_rehash K V t') /\
    count_del (ht_table K V t') = 0 /\
    Permutation (livel (ht_table K V t')) ((h, k, d) :: livel (ht_table K V t)).
Proof.
  intros t h k d R L C D Hroom Hh.
  pose proof (wf_geom K V t R) as G. pose proof (size_pos _ _ G) as Hpos.
  unfold insert_rehash. rewrite (wf_start K V t h R Hh), (wf_step K V t h R Hh).
  rewrite <- (ppath_0 _ _ G h).
  destruct (rehash_loop_spec K V (ht_size K V t) (ht_rehash K V t) (ht_table K V t) (SPresent h k d) h G L)
    with (fuel := ht_table K V t) (i := 0) as (m & Hm & Hfree & Hnf & E).
  - apply free_slot_exists. rewrite D, L. lia.
  - rewrite N.add_0_r. exact L.
  - exact Hpos.
  - intros j Hj. lia.
  - rewrite E. eexists. split; [reflexivity|]. cbn.
    assert (Hlt : ppath (ht_size K V t) (ht_rehash K V t) h m < HashBase.lenN (ht_table K V t))
      by (rewrite L; apply ppath_lt; exact G).
    destruct (livel_upd_add (ht_table K V t) _ SFree h k d Hfree eq_refl) as [P1 P2]. cbn in P2.
    split; [unfold same_geometry; cbn; repeat split|].
    split; [reflexivity|]. split; [reflexivity|].
    split; [rewrite updN_length; exact L|].
    split; [apply chain_upd; auto|].
    split; [lia|exact P1].
Qed.

Lemma rehash_all_spec : forall old t,
  row_wf t -> HashBase.lenN (ht_table K V t) = ht_size K V t ->
  chain_ok (ht_table K V t) (ht_size K V t) (ht_rehash K V t) ->
  count_del (ht_table K V t) = 0 ->
  Forall (fun e : entry => fst (fst e) < two32) (livel old) ->
  HashBase.lenN (livel (ht_table K V t)) + HashBase.lenN (livel old) < ht_size K V t + 1 ->
  exists t', rehash_all K V old t = Ok t' /\ same_geometry t' t /\
    ht_entries K V t' = ht_entries K V t /\ ht_deleted K V t' = ht_deleted K V t /\
    HashBase.lenN (ht_table K V t') = ht_size K V t' /\
    chain_ok (ht_table K V t') (ht_size K V t') (ht_rehash K V t') /\
    count_del (ht_table K V t') = 0 /\
    Permutation (livel (ht_table K V t')) (livel old ++ livel (ht_table K V t)).
Proof.
  induction old as [|s old IH]; intros t R L C D Hb Hroom.
  - exists t. cbn [rehash_all HashInv.livel app].
    split; [reflexivity|]. split; [unfold same_geometry; repeat split|].
    split; [reflexivity|]. split; [reflexivity|]. split; [exact L|]. split; [exact C|]. split; [exact D|].
    apply Permutation_refl.
  - destruct s as [| |h k d]; cbn [rehash_all HashInv.livel] in *; try (apply IH; assumption).
    inversion Hb as [|? ? Hh Hb']; subst. cbn [fst] in Hh. rewrite lenN_cons in Hroom.
    destruct (insert_rehash_spec t h k d R L C D ltac:(lia) Hh)
      as (t1 & E1 & G1 & En1 & De1 & L1 & C1 & D1 & P1).
    rewrite E1.
    assert (R1 : row_wf t1) by (eapply same_geometry_row_wf; eauto).
    destruct G1 as (a1 & a2 & a3 & a4 & a5 & a6).
    destruct (IH t1 R1 L1 C1 D1 Hb') as (t2 & E2 & G2 & En2 & De2 & L2 & C2 & D2 & P2).
    { apply Permutation_length in P1. unfold HashBase.lenN in *. rewrite P1, a2. cbn [length]. lia. }
    destruct G2 as (b1 & b2 & b3 & b4 & b5 & b6).
    exists t2. split; [exact E2|].
    split; [unfold same_geometry; repeat split; congruence|].
    split; [congruence|]. split; [congruence|]. split; [exact L2|]. split; [exact C2|]. split; [exact D2|].
    rewrite P2, P1. cbn [app]. symmetry. apply Permutation_middle.
Qed.

(* rehash into row [idx] (the same row or the next one) *)
Lemma ht_rehash_to_spec : forall t idx r,
  wf t -> nth_error util_hash_sizes idx = Some r -> row_good r ->
  ht_entries K V t < row_max r ->
  exists t', ht_rehash_to K V t idx = Ok t' /\ wf t' /\
    ht_size_index K V t' = idx /\ ht_max_entries K V t' = row_max r /\
    ht_entries K V t' = ht_entries K V t /\ ht_deleted K V t' = 0 /\
    Permutation (livel (ht_table K V t')) (livel (ht_table K V t)).
Proof.
  intros t idx r W Hn Hg Hroom. unfold ht_rehash_to. rewrite Hn.
  destruct (of_row_pre r idx Hn Hg) as (R0 & L0 & C0 & Lv0 & Cd0 & _).
  set (t0 := ht_of_row K V r idx 0 0) in *.
  destruct (rehash_all_spec (ht_table K V t) t0 R0 L0 C0 Cd0) as (t1 & E1 & G1 & En1 & De1 & L1 & C1 & D1 & P1).
  - eapply livel_hash_bound. apply (wf_chain K V t W).
  - rewrite Lv0. change (HashBase.lenN (@nil entry)) with 0. rewrite <- (wf_entries K V t W).
    unfold t0, ht_of_row. cbn [ht_size]. destruct Hg. lia.
  - rewrite E1. eexists. split; [reflexivity|].
    rewrite Lv0, app_nil_r in P1.
    assert (R1 : row_wf t1) by (eapply same_geometry_row_wf; eauto).
    destruct G1 as (I1 & S1 & H1 & M1 & M2 & X1).
    assert (Hlen : HashBase.lenN (livel (ht_table K V t1)) = ht_entries K V t).
    { rewrite (wf_entries K V t W). unfold HashBase.lenN. rewrite (Permutation_length P1). reflexivity. }
    unfold t0, ht_of_row in I1, X1, De1. cbn in I1, X1, De1.
    unfold set_entries.
    split; [|cbn; split; [exact I1|]; split; [exact X1|]; split; [reflexivity|]; split; [exact De1|exact P1]].
    constructor; cbn.
    + destruct R1 as (r1 & A & B & (F1 & F2 & F3 & F4 & F5)). exists r1.
      split; [exact A|]. split; [exact B|]. repeat split; auto.
    + exact L1.
    + exact C1.
    + symmetry. exact Hlen.
    + rewrite D1. exact De1.
    + rewrite De1, X1. lia.
Qed.

(* ---- hash_table_insert ---- *)
Definition grow_step (t : htab) : res htab :=
  if ht_max_entries K V t <=? ht_entries K V t then ht_rehash_to K V t (S (ht_size_index K V t))
  else if ht_max_entries K V t <=? (ht_deleted K V t + ht_entries K V t) mod two32
       then ht_rehash_to K V t (ht_size_index K V t)
       else Ok t.

Lemma grow_step_spec : forall t,
  wf t -> ht_entries K V t < ht_safe_limit ->
  exists t1, grow_step t = Ok t1 /\ wf t1 /\
    ht_entries K V t1 + ht_deleted K V t1 < ht_max_entries K V t1 /\
    ht_entries K V t1 = ht_entries K V t /\
    Permutation (livel (ht_table K V t1)) (livel (ht_table K V t)).
Proof.
  intros t W Hlim. unfold grow_step.
  destruct (wf_row K V t W) as (r & Hn & Hg & (F1 & F2 & F3 & F4 & F5)).
  pose proof (wf_load K V t W) as Hload.
  destruct (ht_max_entries K V t <=? ht_entries K V t) eqn:E1.
  - apply N.leb_le in E1.
    destruct (row_next _ r Hn) as (r' & Hn' & Hg' & Hmax); [lia|].
    destruct (ht_rehash_to_spec t _ r' W Hn' Hg') as (t1 & E & W1 & _ & M1 & En1 & D1 & P1); [lia|].
    exists t1. split; [exact E|]. split; [exact W1|]. split; [lia|]. split; [exact En1|exact P1].
  - apply N.leb_gt in E1.
    assert (Hsmall : (ht_deleted K V t + ht_entries K V t) mod two32 = ht_deleted K V t + ht_entries K V t).
    { apply N.mod_small. destruct Hg. lia. }
    rewrite Hsmall.
    destruct (ht_max_entries K V t <=? ht_deleted K V t + ht_entries K V t) eqn:E2.
    + destruct (ht_rehash_to_spec t _ r W Hn Hg) as (t1 & E & W1 & _ & M1 & En1 & D1 & P1); [lia|].
      exists t1. split; [exact E|]. split; [exact W1|]. split; [lia|]. split; [exact En1|exact P1].
    + apply N.leb_gt in E2. exists t. split; [reflexivity|]. split; [exact W|]. split; [lia|]. split; [reflexivity|apply Permutation_refl].
Qed.

Theorem ht_insert_spec : forall t hash key data,
  wf t -> hash < two32 -> ht_entries K V t < ht_safe_limit ->
  exists t' a,
    ht_insert K V keq t hash key data = Ok (t', Some a) /\ wf t' /\
    nthN (ht_table K V t') a = Some (SPresent hash key data) /\
    ((exists k0 d0 rest,
        keq key k0 = true /\
        Permutation (livel (ht_table K V t)) ((hash, k0, d0) :: rest) /\
        Permutation (livel (ht_table K V t')) ((hash, key, data) :: rest) /\
        ht_entries K V t' = ht_entries K V t)
     \/
     ((forall k0 d0, In (hash, k0, d0) (livel (ht_table K V t)) -> keq key k0 = false) /\
      Permutation (livel (ht_table K V t')) ((hash, key, data) :: livel (ht_table K V t)) /\
      ht_entries K V t' = ht_entries K V t + 1)).
Proof.
  intros t hash key data W Hh Hlim.
  destruct (grow_step_spec t W Hlim) as (t1 & Eg & W1 & Hroom & En1 & P1).
  unfold ht_insert. fold (grow_step t). rewrite Eg.
  pose proof (wf_row K V t1 W1) as R1.
  pose proof (wf_geom K V t1 R1) as G. pose proof (size_pos _ _ G) as Hpos.
  rewrite (wf_start K V t1 hash R1 Hh), (wf_step K V t1 hash R1 Hh).
  rewrite <- (ppath_0 _ _ G hash).
  destruct (insert_loop_spec K V keq t1 (wf_len K V t1 W1) G hash key (ht_table K V t1) 0 None)
    as (r & av & E & Hr).
  { rewrite N.add_0_r. apply (wf_len K V t1 W1). }
  { exact Hpos. }
  { intros j Hj. lia. }
  { cbn. intros j Hj. lia. }
  rewrite E. destruct r as [a|].
  - (* replacement *)
    destruct Hr as (m & s & Hm & Ea & Hs & Hmt & Hc).
    apply matches_true in Hmt. destruct Hmt as (k0 & d0 & -> & Hk).
    destruct (livel_upd_replace (ht_table K V t1) a hash k0 d0 key data Hs) as (rest & Q1 & Q2 & Q3 & Q4).
    assert (Hlt : a < HashBase.lenN (ht_table K V t1)) by (eapply nthN_some_lt; eauto).
    eexists. exists a. split; [reflexivity|]. split; [|split].
    + constructor; cbn.
      * destruct R1 as (r1 & A & B & (F1 & F2 & F3 & F4 & F5)). exists r1. split; [exact A|]. split; [exact B|]. repeat split; auto.
      * rewrite updN_length. apply (wf_len K V t1 W1).
      * subst a. apply chain_upd; auto.
        -- apply (wf_chain K V t1 W1).
        -- intros j Hj. apply Hc. exact Hj.
      * rewrite Q4. apply (wf_entries K V t1 W1).
      * rewrite Q3. apply (wf_deleted K V t1 W1).
      * apply (wf_load K V t1 W1).
    + cbn. apply nthN_upd_same. exact Hlt.
    + left. exists k0, d0, rest. cbn. repeat split; auto.
      rewrite <- P1. exact Q1.
  - (* no matching entry: the first available slot *)
    assert (Hnone : forall k0 d0, In (hash, k0, d0) (livel (ht_table K V t1)) -> keq key k0 = false).
    { intros k0 d0 Hin. apply livel_In in Hin. destruct Hin as [p Hp].
      destruct (wf_chain K V t1 W1 p hash k0 d0 Hp) as [_ (i0 & Hi0 & Ep & Hnf)].
      assert (Hnm : nomatch K V keq t1 hash key p).
      { destruct Hr as [(m & Hm & Hfree & Hc & _)|[Hc _]].
        - assert (i0 < m).
          { destruct (N.lt_trichotomy i0 m) as [|[->|Hgt]]; [assumption|exfalso|exfalso].
            - rewrite Ep in Hfree. congruence.
            - apply (Hnf m Hgt). exact Hfree. }
          rewrite <- Ep. apply Hc. assumption.
        - rewrite <- Ep. apply Hc. assumption. }
      specialize (Hnm _ Hp). cbn in Hnm. rewrite N.eqb_refl in Hnm. exact Hnm. }
    assert (Hav : exists a m, av = Some a /\ m < ht_size K V t1 /\
                   a = ppath (ht_size K V t1) (ht_rehash K V t1) hash m /\
                   ~ present_at K V t1 a /\
                   forall j, j < m -> nonfree (ht_table K V t1) (ppath (ht_size K V t1) (ht_rehash K V t1) hash j)).
    { assert (Hpn : forall j, present_at K V t1 (ppath (ht_size K V t1) (ht_rehash K V t1) hash j) ->
                              nonfree (ht_table K V t1) (ppath (ht_size K V t1) (ht_rehash K V t1) hash j)).
      { intros j (h' & k' & d' & Ej). unfold HashInv.nonfree. rewrite Ej. discriminate. }
      destruct av as [a|].
      - assert (Hi : exists i, i <= ht_size K V t1 /\ avinv K V t1 hash (Some a) i).
        { destruct Hr as [(m & Hm & _ & _ & Ha)|[_ Ha]]; [exists (m + 1); split; [lia|exact Ha]|eexists; split; [|exact Ha]; lia]. }
        destruct Hi as (i & Hi & (m & Hm & Ea & Hnp & Hb)).
        exists a, m. split; [reflexivity|]. split; [lia|]. split; [exact Ea|]. split; [rewrite Ea; exact Hnp|].
        intros j Hj. apply Hpn. apply Hb. exact Hj.
      - exfalso. destruct Hr as [(m & Hm & Hfree & _ & Ha)|[_ Ha]].
        + cbn in Ha. destruct (Ha m ltac:(lia)) as (h' & k' & d' & Ej). congruence.
        + cbn in Ha.
          assert (Hall : HashBase.lenN (livel (ht_table K V t1)) = HashBase.lenN (ht_table K V t1)).
          { apply livel_all_present. intros p Hp. rewrite (wf_len K V t1 W1) in Hp.
            destruct (ppath_surj _ _ G hash p Hp) as (j & Hj & Ej). rewrite <- Ej. apply Ha. exact Hj. }
          rewrite <- (wf_entries K V t1 W1), (wf_len K V t1 W1) in Hall.
          pose proof (wf_max_lt K V t1 R1). lia. }
    destruct Hav as (a & m & -> & Hm & Ea & Hnp & Hnf).
    assert (Hlt : a < HashBase.lenN (ht_table K V t1)).
    { rewrite Ea, (wf_len K V t1 W1). apply ppath_lt. exact G. }
    destruct (nthN_lt _ _ _ Hlt) as [s Hs].
    assert (Hps : is_present K V s = false).
    { destruct (is_present K V s) eqn:Ep; [|reflexivity]. exfalso. apply Hnp.
      apply is_present_iff in Ep. destruct Ep as (h' & k' & d' & ->). unfold present_at. eauto. }
    destruct (livel_upd_add (ht_table K V t1) a s hash key data Hs Hps) as [Q1 Q2].
    eexists. exists a. split; [reflexivity|]. split; [|split].
    + constructor; cbn.
      * destruct R1 as (r1 & A & B & (F1 & F2 & F3 & F4 & F5)). exists r1. split; [exact A|]. split; [exact B|]. repeat split; auto.
      * rewrite updN_length. apply (wf_len K V t1 W1).
      * rewrite Ea. apply chain_upd; auto.
        -- apply (wf_chain K V t1 W1).
        -- rewrite <- Ea. exact Hlt.
      * unfold HashBase.lenN. rewrite (Permutation_length Q1). cbn [length].
        rewrite (wf_entries K V t1 W1). unfold HashBase.lenN. lia.
      * rewrite Hs. pose proof (wf_deleted K V t1 W1) as Hd. destruct s; cbn in Hps, Q2; try discriminate; lia.
      * rewrite Hs. pose proof (wf_deleted K V t1 W1) as Hd. destruct s; cbn in Hps, Q2; try discriminate; lia.
    + cbn. apply nthN_upd_same. exact Hlt.
    + right. cbn. repeat split.
      * intros k0 d0 Hin. apply (Hnone k0 d0). eapply Permutation_in; [symmetry; exact P1|exact Hin].
      * rewrite Q1. constructor. exact P1.
      * lia.
Qed.

(* ---- upstream's hash_table_remove_entry ---- *)
Theorem ht_remove_spec : forall t a h k d,
  wf t -> nthN (ht_table K V t) a = Some (SPresent h k d) ->
  wf (ht_remove_entry K V t a) /\
  exists rest, Permutation (livel (ht_table K V t)) ((h, k, d) :: rest) /\
               livel (ht_table K V (ht_remove_entry K V t a)) = rest.
Proof.
  intros t a h k d W Hs. unfold ht_remove_entry. rewrite Hs.
  destruct (nthN_split _ _ _ _ Hs) as (pre & post & Et & Hl & Hu).
  pose proof (wf_entries K V t W) as He. pose proof (wf_deleted K V t W) as Hd.
  pose proof (wf_load K V t W) as Hload.
  rewrite Et in He, Hd. rewrite livel_app in He. rewrite count_del_app in Hd.
  cbn [HashInv.livel HashInv.count_del] in He, Hd. rewrite HashBase.lenN_app, lenN_cons in He.
  split.
  - constructor; cbn.
    + destruct (wf_row K V t W) as (r1 & A & B & (F1 & F2 & F3 & F4 & F5)). exists r1. split; [exact A|]. split; [exact B|]. repeat split; auto.
    + rewrite updN_length. apply (wf_len K V t W).
    + intros p h' k' d' Hp.
      destruct (N.eq_dec p a) as [->|Hne].
      * rewrite nthN_upd_same in Hp by (eapply nthN_some_lt; eauto). discriminate.
      * rewrite nthN_upd_other in Hp by congruence.
        destruct (wf_chain K V t W _ _ _ _ Hp) as [H1 (i & Hi & Ei & Hn)]. split; [exact H1|].
        exists i. repeat split; auto. intros j Hj. specialize (Hn j Hj). unfold HashInv.nonfree in *.
        destruct (N.eq_dec (ppath (ht_size K V t) (ht_rehash K V t) h' j) a) as [Ea|Hna].
        -- rewrite Ea, nthN_upd_same by (eapply nthN_some_lt; eauto). discriminate.
        -- rewrite nthN_upd_other by congruence. exact Hn.
    + rewrite Hu, livel_app. cbn [HashInv.livel]. rewrite HashBase.lenN_app. lia.
    + rewrite Hu, count_del_app. cbn [HashInv.count_del]. lia.
    + lia.
  - exists (livel pre ++ livel post). split.
    + rewrite Et, livel_app. cbn [HashInv.livel]. symmetry. apply Permutation_middle.
    + cbn. rewrite Hu, livel_app. reflexivity.
Qed.

End HT.
