(* hash_table.c proofs, part 2: facts about hash_sizes[] (Util/GenUtil.v, generated from the
   .c file), all established by computation on the generated table:
   every size is prime; every row carries the remainder magics of its own size / rehash;
   1 < rehash < size < 2^32, 0 < max_entries < size; max_entries grows from row to row;
   and all rows but the last satisfy 2*size <= 2^32, which keeps hash_address += double_hash
   inside 32 bits.  In the LAST row (size 2362232233) that addition can wrap: see
   [last_row_wraps] -- the theorems therefore assume fewer than [ht_safe_limit] = 2^30 entries
   (the table never grows into the last row). *)
From Coq Require Import NArith ZArith Znumtheory List Bool Lia.
From SqfsV Require Import Util.GenUtil Util.FastRem Util.Primes Util.HashModel Util.HashBase.
Import ListNotations.
Local Open Scope N_scope.

Definition row_prime_b (r : hrow) : bool := is_prime_b (Z.of_N (row_size r)).

Lemma rows_prime_b : forallb row_prime_b util_hash_sizes = true.
Proof. vm_compute. reflexivity. Qed.

Lemma rows_prime : forall i r, nth_error util_hash_sizes i = Some r -> prime (Z.of_N (row_size r)).
Proof.
  intros i r H. apply is_prime_b_sound.
  pose proof rows_prime_b as P. rewrite forallb_forall in P. apply (P r). eapply nth_error_In; eauto.
Qed.

(* the arithmetic facts of a row; [safe]: the 32 bit address arithmetic cannot wrap *)
Definition row_arith_b (r : hrow) : bool :=
  (row_size_magic r =? remainder_magic (row_size r)) &&
  (row_rehash_magic r =? remainder_magic (row_rehash r)) &&
  (1 <? row_rehash r) && (row_rehash r <? row_size r) && (row_size r <? two32) &&
  (0 <? row_max r) && (row_max r <? row_size r).

Definition row_safe_b (r : hrow) : bool := 2 * row_size r <=? two32.

Record row_good (r : hrow) : Prop := mk_row_good {
  rg_size_magic : row_size_magic r = remainder_magic (row_size r);
  rg_rehash_magic : row_rehash_magic r = remainder_magic (row_rehash r);
  rg_rehash_gt : 1 < row_rehash r;
  rg_rehash_lt : row_rehash r < row_size r;
  rg_size_lt : row_size r < two32;
  rg_max_pos : 0 < row_max r;
  rg_max_lt : row_max r < row_size r;
  rg_safe : 2 * row_size r <= two32;
  rg_prime : prime (Z.of_N (row_size r))
}.

Lemma rows_arith : forallb row_arith_b util_hash_sizes = true.
Proof. vm_compute. reflexivity. Qed.

(* number of leading rows whose address arithmetic is safe, and the entry count below which the
   table stays inside them *)
Fixpoint count_safe (l : list hrow) : nat :=
  match l with
  | r :: t => if row_safe_b r then S (count_safe t) else O
  | [] => O
  end.

Definition safe_rows : nat := count_safe util_hash_sizes.

Definition ht_safe_limit : N :=
  match nth_error util_hash_sizes (pred safe_rows) with
  | Some r => row_max r
  | None => 0
  end.

Lemma ht_safe_limit_val : ht_safe_limit = 1073741824 /\ safe_rows = 30%nat.
Proof. vm_compute. split; reflexivity. Qed.

Definition row_ok_at (i : nat) : bool :=
  match nth_error util_hash_sizes i with
  | None => true
  | Some r =>
    if row_max r <? ht_safe_limit then
      row_safe_b r &&
      match nth_error util_hash_sizes (S i) with
      | Some r' => row_safe_b r' && (row_max r <? row_max r')
      | None => false
      end
    else true
  end.

Lemma rows_chain : forallb row_ok_at (seq 0 (length util_hash_sizes)) = true.
Proof. vm_compute. reflexivity. Qed.

Lemma row_good_intro : forall i r,
  nth_error util_hash_sizes i = Some r -> row_safe_b r = true -> row_good r.
Proof.
  intros i r H Hs.
  pose proof rows_arith as A. rewrite forallb_forall in A. specialize (A r (nth_error_In _ _ H)).
  unfold row_arith_b in A. repeat (apply andb_true_iff in A; destruct A as [A ?]).
  unfold row_safe_b in Hs.
  constructor; try (apply N.eqb_eq; assumption); try (apply N.ltb_lt; assumption).
  - apply N.leb_le; assumption.
  - eapply rows_prime; eauto.
Qed.

Lemma row_first : exists r, nth_error util_hash_sizes 0 = Some r /\ row_good r.
Proof.
  destruct (nth_error util_hash_sizes 0) as [r|] eqn:E; [|vm_compute in E; discriminate].
  exists r. split; [reflexivity|]. apply (row_good_intro 0 r E).
  vm_compute in E. inversion E. vm_compute. reflexivity.
Qed.

(* a table below the limit can grow: the next row exists, is safe, and holds more entries *)
Lemma row_next : forall i r,
  nth_error util_hash_sizes i = Some r -> row_max r < ht_safe_limit ->
  exists r', nth_error util_hash_sizes (S i) = Some r' /\ row_good r' /\ row_max r < row_max r'.
Proof.
  intros i r H Hlim.
  pose proof rows_chain as C. rewrite forallb_forall in C.
  assert (Hi : (i < length util_hash_sizes)%nat) by (apply nth_error_Some; congruence).
  specialize (C i ltac:(apply in_seq; lia)). unfold row_ok_at in C. rewrite H in C.
  apply N.ltb_lt in Hlim. rewrite Hlim in C.
  apply andb_true_iff in C. destruct C as [_ C].
  destruct (nth_error util_hash_sizes (S i)) as [r'|] eqn:E'; [|discriminate].
  apply andb_true_iff in C. destruct C as [C1 C2].
  exists r'. split; [reflexivity|]. split; [eapply row_good_intro; eauto|apply N.ltb_lt; exact C2].
Qed.

(* observation: in the last row the 32 bit addition hash_address += double_hash wraps, the
   "subtract size" correction is then skipped and the probing sequence leaves (s + i*d) mod size *)
Lemma last_row_wraps :
  exists r addr dh,
    nth_error util_hash_sizes (pred (length util_hash_sizes)) = Some r /\
    addr < row_size r /\ dh <= row_rehash r /\
    next_addr (row_size r) addr dh <> (addr + dh) mod row_size r.
Proof.
  eexists. exists 2362232232, 2362232231. split; [vm_compute; reflexivity|].
  vm_compute. repeat split; discriminate.
Qed.
