(* hash_table.c proofs, part 1: list access lemmas, the probing sequence as (s + i*d) mod size,
   its injectivity / surjectivity for the prime sizes of hash_sizes[], the facts about the
   rows of the table that the invariant relies on (checked by computation on GenUtil.v). *)
From Coq Require Import NArith ZArith Znumtheory List Bool Lia.
From SqfsV Require Import Util.GenUtil Util.FastRem Util.Primes Util.HashModel.
Import ListNotations.
Local Open Scope N_scope.

Definition lenN {A : Type} (l : list A) : N := N.of_nat (length l).

Lemma lenN_cons : forall (A : Type) (x : A) l, lenN (x :: l) = lenN l + 1.
Proof. intros. unfold lenN. cbn [length]. lia. Qed.

Lemma lenN_app : forall (A : Type) (a b : list A), lenN (a ++ b) = lenN a + lenN b.
Proof. intros. unfold lenN. rewrite app_length. lia. Qed.

Lemma nthN_lt : forall (A : Type) (l : list A) i, i < lenN l -> exists x, nthN l i = Some x.
Proof.
  induction l as [|y l IH]; intros i H.
  - unfold lenN in H. cbn in H. lia.
  - cbn [nthN]. destruct (i =? 0) eqn:E; [eexists; reflexivity|].
    apply N.eqb_neq in E. apply IH. rewrite lenN_cons in H. lia.
Qed.

Lemma nthN_some_lt : forall (A : Type) (l : list A) i x, nthN l i = Some x -> i < lenN l.
Proof.
  induction l as [|y l IH]; intros i x H; cbn [nthN] in H; [discriminate|].
  rewrite lenN_cons. destruct (i =? 0) eqn:E.
  - apply N.eqb_eq in E. lia.
  - apply N.eqb_neq in E. apply IH in H. lia.
Qed.

Lemma nthN_split : forall (A : Type) (l : list A) i x, nthN l i = Some x ->
  exists pre post, l = pre ++ x :: post /\ lenN pre = i /\
                   forall y, updN l i y = pre ++ y :: post.
Proof.
  induction l as [|z l IH]; intros i x H; cbn [nthN] in H; [discriminate|].
  destruct (i =? 0) eqn:E.
  - apply N.eqb_eq in E. inversion H; subst. exists [], l. repeat split.
  - destruct (IH _ _ H) as (pre & post & -> & Hl & Hu).
    exists (z :: pre), post. apply N.eqb_neq in E. repeat split.
    + rewrite lenN_cons. lia.
    + intro y. cbn [updN]. replace (i =? 0) with false by (symmetry; apply N.eqb_neq; exact E).
      rewrite Hu. reflexivity.
Qed.

Lemma nthN_app_mid : forall (A : Type) (pre post : list A) x, nthN (pre ++ x :: post) (lenN pre) = Some x.
Proof.
  induction pre as [|z pre IH]; intros post x; cbn [app nthN].
  - reflexivity.
  - rewrite lenN_cons. replace (lenN pre + 1 =? 0) with false by (symmetry; apply N.eqb_neq; lia).
    replace (N.pred (lenN pre + 1)) with (lenN pre) by lia. apply IH.
Qed.

Lemma nthN_app_other : forall (A : Type) (pre post : list A) x y i,
  i <> lenN pre -> nthN (pre ++ y :: post) i = nthN (pre ++ x :: post) i.
Proof.
  induction pre as [|z pre IH]; intros post x y i H; cbn [app nthN].
  - unfold lenN in H. cbn in H. replace (i =? 0) with false by (symmetry; apply N.eqb_neq; exact H). reflexivity.
  - destruct (i =? 0) eqn:E; [reflexivity|]. apply N.eqb_neq in E. apply IH. rewrite lenN_cons in H. lia.
Qed.

Lemma updN_length : forall (A : Type) (l : list A) i y, lenN (updN l i y) = lenN l.
Proof.
  induction l as [|z l IH]; intros i y; cbn [updN]; [reflexivity|].
  destruct (i =? 0); rewrite !lenN_cons; [reflexivity|]. rewrite IH. reflexivity.
Qed.

Lemma nthN_upd_same : forall (A : Type) (l : list A) i y, i < lenN l -> nthN (updN l i y) i = Some y.
Proof.
  intros A l i y H. destruct (nthN_lt _ l i H) as [x Hx].
  destruct (nthN_split _ _ _ _ Hx) as (pre & post & -> & Hl & Hu). rewrite Hu, <- Hl. apply nthN_app_mid.
Qed.

Lemma nthN_upd_other : forall (A : Type) (l : list A) i j y, i <> j -> nthN (updN l i y) j = nthN l j.
Proof.
  intros A l i j y H. destruct (nthN l i) as [x|] eqn:Hx.
  - destruct (nthN_split _ _ _ _ Hx) as (pre & post & -> & Hl & Hu). rewrite Hu.
    apply nthN_app_other. congruence.
  - f_equal. clear H. revert i Hx. induction l as [|z l IH]; intros i Hx; cbn [nthN updN] in *; [reflexivity|].
    destruct (i =? 0); [discriminate|]. rewrite IH; auto.
Qed.

Lemma nthN_repeat : forall (A : Type) (x : A) n i, i < N.of_nat n -> nthN (repeat x n) i = Some x.
Proof.
  induction n as [|n IH]; intros i H; [lia|]. cbn [repeat nthN].
  destruct (i =? 0) eqn:E; [reflexivity|]. apply N.eqb_neq in E. apply IH. lia.
Qed.

(* ---- the probing sequence ---- *)
Definition path (s d size i : N) : N := (s + i * d) mod size.

Lemma next_addr_mod : forall size a d,
  2 * size <= two32 -> a < size -> d < size -> next_addr size a d = (a + d) mod size.
Proof.
  intros size a d H2 Ha Hd. unfold next_addr.
  rewrite (N.mod_small (a + d) two32) by lia.
  destruct (size <=? a + d) eqn:E.
  - apply N.leb_le in E. apply N.mod_unique with 1; lia.
  - apply N.leb_gt in E. symmetry. apply N.mod_small. lia.
Qed.

Lemma path_0 : forall s d size, s < size -> path s d size 0 = s.
Proof. intros. unfold path. rewrite N.mul_0_l, N.add_0_r. apply N.mod_small. assumption. Qed.

Lemma path_lt : forall s d size i, 0 < size -> path s d size i < size.
Proof. intros. unfold path. apply N.mod_upper_bound. lia. Qed.

Lemma path_succ : forall s d size i,
  2 * size <= two32 -> 0 < size -> d < size ->
  next_addr size (path s d size i) d = path s d size (i + 1).
Proof.
  intros s d size i H2 H0 Hd. rewrite next_addr_mod; auto; [|apply path_lt; assumption].
  unfold path. rewrite N.add_mod_idemp_l by lia. f_equal. lia.
Qed.

Lemma path_size : forall s d size, s < size -> path s d size size = s.
Proof.
  intros s d size H. unfold path. rewrite N.mul_comm. rewrite N.mod_add by lia. apply N.mod_small. assumption.
Qed.

Lemma path_inj : forall s d size i j,
  prime (Z.of_N size) -> 0 < d -> d < size -> i < size -> j < size ->
  path s d size i = path s d size j -> i = j.
Proof.
  intros s d size i j Hp H0 Hd Hi Hj E. unfold path in E.
  apply N2Z.inj. apply (probe_inj (Z.of_N size) (Z.of_N d) (Z.of_N s)); try lia; auto.
  apply (f_equal Z.of_N) in E. rewrite !N2Z.inj_mod, !N2Z.inj_add, !N2Z.inj_mul in E by lia. exact E.
Qed.

Lemma NoDup_map_inj_in : forall (A B : Type) (f : A -> B) (l : list A),
  (forall x y, In x l -> In y l -> f x = f y -> x = y) -> NoDup l -> NoDup (map f l).
Proof.
  induction l as [|x l IH]; intros Hinj Hn; cbn; [constructor|].
  inversion Hn; subst. constructor.
  - intro Hin. apply in_map_iff in Hin. destruct Hin as (y & Ey & Hy).
    assert (y = x) by (apply Hinj; [right; exact Hy|left; reflexivity|exact Ey]).
    subst. contradiction.
  - apply IH; auto. intros a b Ha Hb. apply Hinj; right; assumption.
Qed.

(* every slot is on the path *)
Lemma path_surj : forall s d size p,
  prime (Z.of_N size) -> 0 < d -> d < size -> p < size ->
  exists i, i < size /\ path s d size i = p.
Proof.
  intros s d size p Hp H0 Hd Hlt.
  set (n := N.to_nat size).
  set (dom := map N.of_nat (seq 0 n)).
  set (img := map (path s d size) dom).
  assert (Hdom : forall x, In x dom <-> x < size).
  { intro x. unfold dom. rewrite in_map_iff. split.
    - intros (k & <- & Hk). apply in_seq in Hk. unfold n in Hk. lia.
    - intro Hx. exists (N.to_nat x). split; [lia|]. apply in_seq. unfold n. lia. }
  assert (Nd : NoDup dom).
  { unfold dom. apply NoDup_map_inj_in; [|apply seq_NoDup]. intros a b _ _. lia. }
  assert (Ni : NoDup img).
  { unfold img. apply NoDup_map_inj_in; [|exact Nd].
    intros x y Hx Hy. apply path_inj; auto; apply Hdom; assumption. }
  assert (Hincl : incl img dom).
  { intros x Hx. unfold img in Hx. apply in_map_iff in Hx. destruct Hx as (y & <- & _).
    apply Hdom. apply path_lt. lia. }
  assert (Hlen : (length dom <= length img)%nat) by (unfold img; rewrite map_length; lia).
  pose proof (NoDup_length_incl Ni Hlen Hincl) as Hback.
  assert (Hin : In p img) by (apply Hback, Hdom; exact Hlt).
  unfold img in Hin. apply in_map_iff in Hin. destruct Hin as (i & E & Hi).
  exists i. split; [apply Hdom; exact Hi|exact E].
Qed.
