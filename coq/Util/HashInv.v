(* hash_table.c proofs, part 3: the invariant of the open-addressing table and the
   specifications of the three probing loops (search, insert, insert_rehash).

   [wf t]: the cached fields are those of row size_index of hash_sizes[], the table has size
   slots, entries / deleted_entries count the present / deleted slots, entries + deleted <=
   max_entries, and the probe-chain invariant: every present entry lies on the probing
   sequence of its own hash with no free slot before it. *)
From Coq Require Import NArith ZArith Znumtheory List Bool Lia Permutation.
From SqfsV Require Import Util.GenUtil Util.FastRem Util.Primes Util.HashModel Util.HashBase Util.HashRows.
Import ListNotations.
Local Open Scope N_scope.

Section HT.
Variables K V : Type.
Variable keq : K -> K -> bool.

Notation slot := (slot K V).
Notation htab := (htab K V).
Notation entry := (N * K * V)%type.

Fixpoint livel (l : list slot) : list entry :=
  match l with
  | [] => []
  | SPresent h k d :: r => (h, k, d) :: livel r
  | _ :: r => livel r
  end.

Fixpoint count_del (l : list slot) : N :=
  match l with
  | [] => 0
  | SDeleted :: r => 1 + count_del r
  | _ :: r => count_del r
  end.

Lemma livel_app : forall a b, livel (a ++ b) = livel a ++ livel b.
Proof.
  induction a as [|s a IH]; intro b; cbn; [reflexivity|].
  destruct s; cbn; rewrite IH; reflexivity.
Qed.

Lemma count_del_app : forall a b, count_del (a ++ b) = count_del a + count_del b.
Proof.
  induction a as [|s a IH]; intro b; cbn [app count_del]; [reflexivity|].
  destruct s; rewrite IH; lia.
Qed.

Lemma present_from_livel : forall l i, map snd (present_from K V l i) = livel l.
Proof.
  induction l as [|s l IH]; intro i; cbn; [reflexivity|].
  destruct s; cbn; rewrite IH; reflexivity.
Qed.

Lemma live_livel : forall t : htab, live K V t = livel (ht_table K V t).
Proof. intro t. unfold live, ht_foreach. apply present_from_livel. Qed.

Lemma livel_In : forall l h k d, In (h, k, d) (livel l) <-> exists p, nthN l p = Some (SPresent h k d).
Proof.
  induction l as [|s l IH]; intros h k d.
  - cbn. split; [contradiction|]. intros [p H]. discriminate.
  - split.
    + intro H. assert (Hc : s = SPresent h k d \/ In (h, k, d) (livel l)).
      { destruct s; cbn in H; auto. destruct H as [H|H]; [left; congruence|right; exact H]. }
      destruct Hc as [->|Hc].
      * exists 0. reflexivity.
      * apply IH in Hc. destruct Hc as [p Hp]. exists (p + 1). cbn [nthN].
        replace (p + 1 =? 0) with false by (symmetry; apply N.eqb_neq; lia).
        replace (N.pred (p + 1)) with p by lia. exact Hp.
    + intros [p Hp]. cbn [nthN] in Hp. destruct (p =? 0).
      * inversion Hp; subst. cbn. left. reflexivity.
      * assert (In (h, k, d) (livel l)) by (apply IH; eexists; eauto).
        destruct s; cbn; auto.
Qed.

Lemma livel_le : forall l, lenN (livel l) + count_del l <= lenN l.
Proof.
  induction l as [|s l IH]; [unfold lenN; cbn; lia|].
  destruct s; cbn [livel count_del]; rewrite ?lenN_cons; lia.
Qed.

Lemma livel_all_present : forall l,
  (forall p, p < lenN l -> exists h k d, nthN l p = Some (SPresent h k d)) -> lenN (livel l) = lenN l.
Proof.
  induction l as [|s l IH]; intro H; [reflexivity|].
  assert (Hs : exists h k d, s = SPresent h k d).
  { destruct (H 0) as (h & k & d & E); [rewrite lenN_cons; lia|]. cbn in E. inversion E. eauto. }
  destruct Hs as (h & k & d & ->). cbn [livel]. rewrite !lenN_cons. f_equal. apply IH.
  intros p Hp. destruct (H (p + 1)) as (h' & k' & d' & E); [rewrite lenN_cons; lia|].
  cbn [nthN] in E. replace (p + 1 =? 0) with false in E by (symmetry; apply N.eqb_neq; lia).
  replace (N.pred (p + 1)) with p in E by lia. eauto.
Qed.

(* ---- geometry of a row, as the loops use it ---- *)
Record geom (size rehash : N) : Prop := mk_geom {
  g_prime : prime (Z.of_N size);
  g_rehash_gt : 1 < rehash;
  g_rehash_lt : rehash < size;
  g_size_lt : size < two32;
  g_safe : 2 * size <= two32
}.

Definition hstart (size hash : N) : N := hash mod size.
Definition hstep (rehash hash : N) : N := 1 + hash mod rehash.
Definition ppath (size rehash hash i : N) : N := path (hstart size hash) (hstep rehash hash) size i.

Section GEOM.
Variables size rehash : N.
Hypothesis G : geom size rehash.

Lemma size_pos : 0 < size.
Proof. destruct G. lia. Qed.

Lemma hstart_lt : forall h, hstart size h < size.
Proof. intro h. unfold hstart. apply N.mod_upper_bound. pose proof size_pos. lia. Qed.

Lemma hstep_bounds : forall h, 0 < hstep rehash h /\ hstep rehash h < size.
Proof.
  intro h. unfold hstep. destruct G.
  pose proof (N.mod_upper_bound h rehash ltac:(lia)) as Hm.
  set (m := h mod rehash) in *. clearbody m. lia.
Qed.

Lemma ppath_lt : forall h i, ppath size rehash h i < size.
Proof. intros. unfold ppath. apply path_lt. apply size_pos. Qed.

Lemma ppath_0 : forall h, ppath size rehash h 0 = hstart size h.
Proof. intro h. unfold ppath. apply path_0. apply hstart_lt. Qed.

Lemma ppath_next : forall h i,
  next_addr size (ppath size rehash h i) (hstep rehash h) = ppath size rehash h (i + 1).
Proof.
  intros h i. unfold ppath. destruct (hstep_bounds h). destruct G.
  apply path_succ; auto. apply size_pos.
Qed.

Lemma ppath_inj : forall h i j, i < size -> j < size -> ppath size rehash h i = ppath size rehash h j -> i = j.
Proof.
  intros h i j Hi Hj E. unfold ppath in E. destruct (hstep_bounds h). destruct G.
  eapply path_inj; eauto.
Qed.

Lemma ppath_size : forall h, ppath size rehash h size = hstart size h.
Proof. intro h. unfold ppath. apply path_size. apply hstart_lt. Qed.

Lemma ppath_surj : forall h p, p < size -> exists i, i < size /\ ppath size rehash h i = p.
Proof.
  intros h p Hp. unfold ppath. destruct (hstep_bounds h). destruct G.
  apply path_surj; auto.
Qed.

(* the loop is back at the start exactly after size steps *)
Lemma ppath_wrap : forall h i, i < size ->
  (ppath size rehash h (i + 1) =? hstart size h) = (i + 1 =? size).
Proof.
  intros h i Hi. destruct (i + 1 =? size) eqn:E.
  - apply N.eqb_eq in E. rewrite E, ppath_size. apply N.eqb_refl.
  - apply N.eqb_neq in E. apply N.eqb_neq. intro Hc. rewrite <- ppath_0 in Hc.
    apply ppath_inj in Hc; lia.
Qed.

End GEOM.

(* ---- the probe-chain invariant ---- *)
Definition nonfree (tbl : list slot) (p : N) : Prop := nthN tbl p <> Some SFree.

Definition reach (tbl : list slot) (size rehash h p : N) : Prop :=
  exists i, i < size /\ ppath size rehash h i = p /\
            forall j, j < i -> nonfree tbl (ppath size rehash h j).

Definition chain_ok (tbl : list slot) (size rehash : N) : Prop :=
  forall p h k d, nthN tbl p = Some (SPresent h k d) -> h < two32 /\ reach tbl size rehash h p.

Definition row_fields (t : htab) (r : hrow) : Prop :=
  ht_size K V t = row_size r /\ ht_rehash K V t = row_rehash r /\
  ht_size_magic K V t = row_size_magic r /\ ht_rehash_magic K V t = row_rehash_magic r /\
  ht_max_entries K V t = row_max r.

Definition row_wf (t : htab) : Prop :=
  exists r, nth_error util_hash_sizes (ht_size_index K V t) = Some r /\ row_good r /\ row_fields t r.

Record wf (t : htab) : Prop := mk_wf {
  wf_row : row_wf t;
  wf_len : lenN (ht_table K V t) = ht_size K V t;
  wf_chain : chain_ok (ht_table K V t) (ht_size K V t) (ht_rehash K V t);
  wf_entries : ht_entries K V t = lenN (livel (ht_table K V t));
  wf_deleted : ht_deleted K V t = count_del (ht_table K V t);
  wf_load : ht_entries K V t + ht_deleted K V t <= ht_max_entries K V t
}.

Lemma row_good_geom : forall r, row_good r -> geom (row_size r) (row_rehash r).
Proof. intros r H. destruct H. constructor; auto. Qed.

Lemma wf_geom : forall t, row_wf t -> geom (ht_size K V t) (ht_rehash K V t).
Proof.
  intros t H. destruct H as (r & _ & Hg & (E1 & E2 & _)). rewrite E1, E2.
  apply row_good_geom. exact Hg.
Qed.

Lemma wf_start : forall t h, row_wf t -> h < two32 -> start_addr K V t h = hstart (ht_size K V t) h.
Proof.
  intros t h H Hh. destruct H as (r & _ & Hg & (E1 & E2 & E3 & E4 & E5)).
  unfold start_addr, hstart. rewrite E1, E3. destruct Hg.
  rewrite rg_size_magic. apply fast_urem32_correct; auto. lia.
Qed.

Lemma wf_step : forall t h, row_wf t -> h < two32 -> double_hash K V t h = hstep (ht_rehash K V t) h.
Proof.
  intros t h H Hh. destruct H as (r & _ & Hg & (E1 & E2 & E3 & E4 & E5)).
  unfold double_hash, hstep. rewrite E2, E4. destruct Hg.
  rewrite rg_rehash_magic. rewrite fast_urem32_correct; auto; [|lia].
  apply N.mod_small. pose proof (N.mod_upper_bound h (row_rehash r) ltac:(lia)). lia.
Qed.

Lemma wf_max_lt : forall t, row_wf t -> ht_max_entries K V t < ht_size K V t.
Proof.
  intros t H. destruct H as (r & _ & Hg & (E1 & E2 & E3 & E4 & E5)).
  rewrite E1, E5. destruct Hg. assumption.
Qed.

(* ---- hash_table_search ---- *)
Section LOOPS.
Variable t : htab.
Hypothesis W_len : lenN (ht_table K V t) = ht_size K V t.
Hypothesis W_geom : geom (ht_size K V t) (ht_rehash K V t).
Variable hash : N.
Variable key : K.

Let tbl := ht_table K V t.
Let size := ht_size K V t.
Let P := ppath (ht_size K V t) (ht_rehash K V t) hash.
Let dh := hstep (ht_rehash K V t) hash.

Definition nomatch (p : N) : Prop := forall s, nthN tbl p = Some s -> matches K V keq hash key s = false.

Definition clean (i : N) : Prop := forall j, j < i -> nonfree tbl (P j) /\ nomatch (P j).

Lemma slot_at : forall i, exists s, nthN tbl (P i) = Some s.
Proof. intro i. apply nthN_lt. unfold tbl. rewrite W_len. apply ppath_lt. exact W_geom. Qed.

Lemma is_free_eq : forall s : slot, is_free K V s = true -> s = SFree.
Proof. destruct s; cbn; congruence. Qed.

Lemma clean_step : forall i s, clean i -> nthN tbl (P i) = Some s ->
  is_free K V s = false -> matches K V keq hash key s = false -> clean (i + 1).
Proof.
  intros i s Hc Hs Hf Hm j Hj. destruct (N.eq_dec j i) as [->|Hne].
  - split.
    + unfold nonfree. fold tbl. rewrite Hs. intro E. inversion E; subst. discriminate.
    + intros s' Hs'. rewrite Hs in Hs'. inversion Hs'; subst. exact Hm.
  - apply Hc. lia.
Qed.

Definition found_at (a : N) : Prop :=
  exists m s, m < size /\ a = P m /\ nthN tbl a = Some s /\ matches K V keq hash key s = true /\ clean m.

Definition stopped_free : Prop :=
  exists m, m < size /\ nthN tbl (P m) = Some SFree /\ clean m.

Lemma search_loop_spec : forall fuel i,
  lenN fuel + i = size -> i < size -> clean i ->
  exists r, search_loop K V keq fuel t hash key (P 0) dh (P i) = Ok r /\
    match r with
    | Some a => found_at a
    | None => stopped_free \/ clean size
    end.
Proof.
  induction fuel as [|x fuel IH]; intros i Hlen Hi Hc.
  - unfold lenN in Hlen. cbn in Hlen. lia.
  - cbn [search_loop]. fold tbl. destruct (slot_at i) as [s Hs]. rewrite Hs.
    destruct (is_free K V s) eqn:Ef.
    + exists None. split; [reflexivity|]. left. exists i. apply is_free_eq in Ef. subst s. auto.
    + destruct (matches K V keq hash key s) eqn:Em.
      * exists (Some (P i)). split; [reflexivity|]. exists i, s. auto.
      * assert (Hw : (P (i + 1) =? P 0) = (i + 1 =? size)).
        { unfold P. rewrite (ppath_0 _ _ W_geom). apply (ppath_wrap _ _ W_geom). exact Hi. }
        unfold dh, P in *. rewrite (ppath_next _ _ W_geom). rewrite Hw.
        pose proof (clean_step i s Hc Hs Ef Em) as Hc'.
        destruct (i + 1 =? size) eqn:E.
        -- apply N.eqb_eq in E. exists None. split; [reflexivity|]. right. rewrite <- E. exact Hc'.
        -- apply N.eqb_neq in E. rewrite lenN_cons in Hlen.
           apply IH; auto; lia.
Qed.

(* ---- the probing loop of hash_table_insert ---- *)
Definition present_at (p : N) : Prop := exists h k d, nthN tbl p = Some (SPresent h k d).

Definition avinv (av : option N) (i : N) : Prop :=
  match av with
  | None => forall j, j < i -> present_at (P j)
  | Some a => exists m, m < i /\ a = P m /\ ~ present_at (P m) /\ forall j, j < m -> present_at (P j)
  end.

Lemma is_present_iff : forall s : slot, is_present K V s = true <-> exists h k d, s = SPresent h k d.
Proof.
  destruct s; cbn; split; try discriminate; try (intros (h' & k' & d' & E); discriminate); eauto.
Qed.

Lemma avinv_step : forall av i s, i < size -> avinv av i -> nthN tbl (P i) = Some s ->
  avinv (if is_present K V s then av else match av with None => Some (P i) | Some _ => av end) (i + 1).
Proof.
  intros av i s Hi Ha Hs. destruct (is_present K V s) eqn:Ep.
  - destruct av as [a|]; cbn [avinv] in *.
    + destruct Ha as (m & Hm & Ea & Hn & Hb). exists m. repeat split; auto. lia.
    + intros j Hj. destruct (N.eq_dec j i) as [->|Hne]; [|apply Ha; lia].
      apply is_present_iff in Ep. destruct Ep as (h & k & d & ->). unfold present_at. eauto.
  - destruct av as [a|]; cbn [avinv] in *.
    + destruct Ha as (m & Hm & Ea & Hn & Hb). exists m. repeat split; auto. lia.
    + exists i. repeat split; auto; [lia|].
      intros (h & k & d & E). fold tbl in E. rewrite Hs in E. inversion E; subst. cbn in Ep. discriminate.
Qed.

Lemma insert_loop_spec : forall fuel i av,
  lenN fuel + i = size -> i < size -> clean i -> avinv av i ->
  exists r av', insert_loop K V keq fuel t hash key (P 0) dh (P i) av = Ok (r, av') /\
    match r with
    | Some a => found_at a
    | None => (exists m, m < size /\ nthN tbl (P m) = Some SFree /\ clean m /\ avinv av' (m + 1))
              \/ (clean size /\ avinv av' size)
    end.
Proof.
  induction fuel as [|x fuel IH]; intros i av Hlen Hi Hc Ha.
  - unfold lenN in Hlen. cbn in Hlen. lia.
  - cbn [insert_loop]. fold tbl. destruct (slot_at i) as [s Hs]. rewrite Hs.
    pose proof (avinv_step av i s Hi Ha Hs) as Ha'.
    set (av1 := if is_present K V s then av else match av with None => Some (P i) | Some _ => av end) in *.
    destruct (is_free K V s) eqn:Ef.
    + exists None, av1. split; [reflexivity|]. left. exists i. apply is_free_eq in Ef. subst s. auto.
    + destruct (matches K V keq hash key s) eqn:Em.
      * exists (Some (P i)), av1. split; [reflexivity|]. exists i, s. auto.
      * assert (Hw : (P (i + 1) =? P 0) = (i + 1 =? size)).
        { unfold P. rewrite (ppath_0 _ _ W_geom). apply (ppath_wrap _ _ W_geom). exact Hi. }
        pose proof (clean_step i s Hc Hs Ef Em) as Hc'.
        unfold dh, P in *. rewrite (ppath_next _ _ W_geom). rewrite Hw.
        destruct (i + 1 =? size) eqn:E.
        -- apply N.eqb_eq in E. exists None, av1. split; [reflexivity|]. right. rewrite <- E. auto.
        -- apply N.eqb_neq in E. rewrite lenN_cons in Hlen.
           apply IH; auto; lia.
Qed.

End LOOPS.

(* ---- hash_table_insert_rehash: first free slot of the path ---- *)
Lemma rehash_loop_spec : forall size rehash (tbl : list slot) (e : slot) h,
  geom size rehash -> lenN tbl = size ->
  (exists p, nthN tbl p = Some SFree) ->
  forall fuel i,
    lenN fuel + i = size -> i < size ->
    (forall j, j < i -> nonfree tbl (ppath size rehash h j)) ->
    exists m, m < size /\ nthN tbl (ppath size rehash h m) = Some SFree /\
              (forall j, j < m -> nonfree tbl (ppath size rehash h j)) /\
              rehash_loop K V fuel size tbl e (hstep rehash h) (ppath size rehash h i)
              = Ok (updN tbl (ppath size rehash h m) e).
Proof.
  intros size rehash tbl e h G Hlen [pf Hpf].
  induction fuel as [|x fuel IH]; intros i Hl Hi Hc.
  - unfold lenN in Hl. cbn in Hl. lia.
  - cbn [rehash_loop].
    destruct (nthN_lt _ tbl (ppath size rehash h i)) as [s Hs]; [rewrite Hlen; apply ppath_lt; exact G|].
    rewrite Hs. destruct (is_free K V s) eqn:Ef.
    + apply is_free_eq in Ef. subst s. exists i. auto.
    + rewrite (ppath_next _ _ G).
      assert (Hc' : forall j, j < i + 1 -> nonfree tbl (ppath size rehash h j)).
      { intros j Hj. destruct (N.eq_dec j i) as [->|Hne]; [|apply Hc; lia].
        unfold nonfree. rewrite Hs. intro E. inversion E; subst. discriminate. }
      assert (Hlt : i + 1 < size).
      { destruct (N.eq_dec (i + 1) size) as [E|E]; [exfalso|lia].
        assert (Hp : pf < size) by (rewrite <- Hlen; eapply nthN_some_lt; eauto).
        destruct (ppath_surj _ _ G h pf Hp) as (j & Hj & Ej).
        apply (Hc' j); [lia|]. rewrite Ej. exact Hpf. }
      rewrite lenN_cons in Hl. apply IH; auto; lia.
Qed.

End HT.
