(* hash_table.c as a finite map keyed by (hash, equivalence class of the callback).
   If the callback is symmetric and transitive and at most one live entry matches any key
   ([uniq]: what a table has that was only ever filled through hash_table_insert), then insert
   keeps that property -- across rehash and tombstones -- and search returns THE entry of the
   class: the table is a map from (hash, class) to (key, data). *)
From Coq Require Import NArith ZArith List Bool Lia Permutation.
From SqfsV Require Import Util.GenUtil Util.FastRem Util.HashModel Util.HashBase Util.HashRows Util.HashInv
     Util.HashContracts.
Import ListNotations.
Local Open Scope N_scope.

Section MAP.
Variables K V : Type.
Variable keq : K -> K -> bool.
Hypothesis keq_sym : forall a b, keq a b = true -> keq b a = true.
Hypothesis keq_trans : forall a b c, keq a b = true -> keq b c = true -> keq a c = true.

Notation entry := (N * K * V)%type.

Definition ematch (h : N) (k : K) (e : entry) : bool := (fst (fst e) =? h) && keq k (snd (fst e)).

(* at most one live entry answers a search for (h, k) *)
Definition uniq (l : list entry) : Prop := forall h k, (length (filter (ematch h k) l) <= 1)%nat.

Lemma filter_perm_length : forall (f : entry -> bool) l l',
  Permutation l l' -> length (filter f l) = length (filter f l').
Proof.
  intros f l l' P. induction P; cbn.
  - reflexivity.
  - destruct (f x); cbn; congruence.
  - destruct (f x); destruct (f y); reflexivity.
  - congruence.
Qed.

Lemma uniq_perm : forall l l', Permutation l l' -> uniq l -> uniq l'.
Proof. intros l l' P U h k. rewrite <- (filter_perm_length _ _ _ P). apply U. Qed.

Lemma filter_le1_same : forall (f : entry -> bool) l x y,
  (length (filter f l) <= 1)%nat -> In x l -> In y l -> f x = true -> f y = true -> x = y.
Proof.
  induction l as [|z l IH]; intros x y H Hx Hy Fx Fy; [contradiction|].
  cbn in H. destruct Hx as [->|Hx]; destruct Hy as [->|Hy]; auto.
  - rewrite Fx in H. cbn in H. exfalso.
    assert (In y (filter f l)) by (apply filter_In; auto). destruct (filter f l); [contradiction|cbn in H; lia].
  - rewrite Fy in H. cbn in H. exfalso.
    assert (In x (filter f l)) by (apply filter_In; auto). destruct (filter f l); [contradiction|cbn in H; lia].
  - apply IH; auto. destruct (f z); cbn in H; lia.
Qed.

Lemma filter_none : forall (f : entry -> bool) l, (forall x, In x l -> f x = false) -> filter f l = [].
Proof.
  induction l as [|z l IH]; intro H; cbn; [reflexivity|].
  rewrite (H z (or_introl eq_refl)). apply IH. intros; apply H; right; assumption.
Qed.

(* search returns THE entry of the class *)
Theorem ht_search_unique : forall t hash key k0 d0,
  wf K V t -> hash < two32 -> uniq (livel K V (ht_table K V t)) ->
  In (hash, k0, d0) (livel K V (ht_table K V t)) -> keq key k0 = true ->
  exists a, ht_search K V keq t hash key = Ok (Some a) /\ ht_entry K V t a = Some (hash, k0, d0).
Proof.
  intros t hash key k0 d0 W Hh U Hin Hk.
  destruct (ht_search_spec K V keq t hash key W Hh) as (r & E & Hr). destruct r as [a|].
  - destruct Hr as (k & d & Hs & Hkk). exists a. split; [exact E|]. unfold ht_entry. rewrite Hs.
    assert (Hin2 : In (hash, k, d) (livel K V (ht_table K V t))) by (apply livel_In; eauto).
    f_equal. eapply (filter_le1_same (ematch hash key)); eauto.
    + unfold ematch. cbn. rewrite N.eqb_refl. exact Hkk.
    + unfold ematch. cbn. rewrite N.eqb_refl. exact Hk.
  - exfalso. apply livel_In in Hin. destruct Hin as [p Hp]. rewrite (Hr p k0 d0 Hp) in Hk. discriminate.
Qed.

(* insert keeps the map property, whatever rehash it performs *)
Theorem ht_insert_keeps_uniq : forall t hash key data t' a,
  wf K V t -> hash < two32 -> ht_entries K V t < ht_safe_limit ->
  uniq (livel K V (ht_table K V t)) ->
  ht_insert K V keq t hash key data = Ok (t', Some a) ->
  uniq (livel K V (ht_table K V t')).
Proof.
  intros t hash key data t' a W Hh Hlim U E.
  destruct (ht_insert_spec K V keq t hash key data W Hh Hlim) as (t2 & a2 & E2 & _ & _ & Hcase).
  rewrite E in E2. inversion E2; subst t2 a2. clear E2.
  destruct Hcase as [(k0 & d0 & rest & Hk & P0 & P1 & _)|(Hno & P1 & _)].
  - apply (uniq_perm _ _ (Permutation_sym P1)). pose proof (uniq_perm _ _ P0 U) as U0.
    intros h' k'. specialize (U0 h' k'). cbn [filter] in *.
    destruct (ematch h' k' (hash, key, data)) eqn:Em.
    + unfold ematch in Em. cbn in Em. apply andb_true_iff in Em. destruct Em as [Eh Ek].
      assert (Eo : ematch h' k' (hash, k0, d0) = true).
      { unfold ematch. cbn. rewrite Eh. cbn. eapply keq_trans; eauto. }
      rewrite Eo in U0. exact U0.
    + destruct (ematch h' k' (hash, k0, d0)); cbn in U0; lia.
  - apply (uniq_perm _ _ (Permutation_sym P1)).
    intros h' k'. specialize (U h' k'). cbn [filter].
    destruct (ematch h' k' (hash, key, data)) eqn:Em; [|exact U].
    unfold ematch in Em. cbn in Em. apply andb_true_iff in Em. destruct Em as [Eh Ek]. apply N.eqb_eq in Eh. subst h'.
    rewrite filter_none; [cbn; lia|].
    intros [[h1 k1] d1] Hin. unfold ematch. cbn. destruct (h1 =? hash) eqn:E1; [|reflexivity]. cbn.
    apply N.eqb_eq in E1. subst h1.
    destruct (keq k' k1) eqn:E2; [|reflexivity]. exfalso.
    assert (keq key k1 = true) by (eapply keq_trans; [apply keq_sym; exact Ek|exact E2]).
    rewrite (Hno k1 d1 Hin) in H. discriminate.
Qed.

(* the empty table has the property *)
Lemma uniq_nil : uniq [].
Proof. intros h k. cbn. lia. Qed.

(* tombstoning keeps it *)
Lemma uniq_remove : forall e rest l, Permutation l (e :: rest) -> uniq l -> uniq rest.
Proof.
  intros e rest l P U h k. pose proof (uniq_perm _ _ P U h k) as H. cbn [filter] in H.
  destruct (ematch h k e); cbn in H; lia.
Qed.

End MAP.
