(* rbtree.c: the comparators of the callers meet the order hypotheses (so the theorems are not
   vacuous), and computed witnesses for what goes wrong without them / with a short copy. *)
From Coq Require Import NArith ZArith List Bool Lia.
From SqfsV Require Import Gen.Constants Util.GenUtil Util.RbModel Util.RbOrder Util.RbBalance Util.RbTheorems.
Import ListNotations.
Local Open Scope Z_scope.

(* dir_reader.c dcache_key_compare *)
Lemma cmp_u32_antisym : forall a b, cmp_u32 a b < 0 <-> 0 < cmp_u32 b a.
Proof.
  intros a b. unfold cmp_u32.
  set (x := rd_le (firstn 4 a)). set (y := rd_le (firstn 4 b)).
  destruct (x <? y)%N eqn:E1; destruct (y <? x)%N eqn:E2;
    try apply N.ltb_lt in E1; try apply N.ltb_lt in E2; try apply N.ltb_ge in E1; try apply N.ltb_ge in E2;
    split; intro H; try lia.
Qed.

Lemma cmp_u32_trans : forall a b c, cmp_u32 a b <= 0 -> cmp_u32 b c <= 0 -> cmp_u32 a c <= 0.
Proof.
  intros a b c. unfold cmp_u32.
  set (x := rd_le (firstn 4 a)). set (y := rd_le (firstn 4 b)). set (z := rd_le (firstn 4 c)).
  destruct (x <? y)%N eqn:E1; destruct (y <? x)%N eqn:E2;
  destruct (y <? z)%N eqn:E3; destruct (z <? y)%N eqn:E4;
  destruct (x <? z)%N eqn:E5; destruct (z <? x)%N eqn:E6;
    try apply N.ltb_lt in E1; try apply N.ltb_lt in E2; try apply N.ltb_lt in E3;
    try apply N.ltb_lt in E4; try apply N.ltb_lt in E5; try apply N.ltb_lt in E6;
    try apply N.ltb_ge in E1; try apply N.ltb_ge in E2; try apply N.ltb_ge in E3;
    try apply N.ltb_ge in E4; try apply N.ltb_ge in E5; try apply N.ltb_ge in E6;
    intros H1 H2; lia.
Qed.

(* memcmp over the key bytes *)
Lemma cmp_bytes_antisym : forall a b, cmp_bytes a b < 0 <-> 0 < cmp_bytes b a.
Proof.
  induction a as [|x a IH]; destruct b as [|y b]; cbn; try (split; intro; lia).
  destruct (x <? y)%N eqn:E1; destruct (y <? x)%N eqn:E2;
    try apply N.ltb_lt in E1; try apply N.ltb_lt in E2; try apply N.ltb_ge in E1; try apply N.ltb_ge in E2;
    try (split; intro; lia). apply IH.
Qed.

Lemma cmp_bytes_trans : forall a b c, cmp_bytes a b <= 0 -> cmp_bytes b c <= 0 -> cmp_bytes a c <= 0.
Proof.
  induction a as [|x a IH]; destruct b as [|y b]; destruct c as [|z c]; cbn; try lia.
  destruct (x <? y)%N eqn:E1; destruct (y <? x)%N eqn:E2;
  destruct (y <? z)%N eqn:E3; destruct (z <? y)%N eqn:E4;
  destruct (x <? z)%N eqn:E5; destruct (z <? x)%N eqn:E6;
    try apply N.ltb_lt in E1; try apply N.ltb_lt in E2; try apply N.ltb_lt in E3;
    try apply N.ltb_lt in E4; try apply N.ltb_lt in E5; try apply N.ltb_lt in E6;
    try apply N.ltb_ge in E1; try apply N.ltb_ge in E2; try apply N.ltb_ge in E3;
    try apply N.ltb_ge in E4; try apply N.ltb_ge in E5; try apply N.ltb_ge in E6;
    try lia. apply IH.
Qed.

(* the hypotheses of rbtree_refines_map are met by a concrete run: the directory reader's tree *)
Definition le4 (v : N) : list N :=
  [v mod 256; (v / 256) mod 256; (v / 65536) mod 256; (v / 16777216) mod 256]%N.

Definition ex_tree0 : rbtree := snd (rbtree_init 4 8).
Definition ex_ops : list (list N * list N) :=
  [(le4 5, [1;2;3;4;5;6;7;8]); (le4 2147483653, [9;9;9;9;9;9;9;9]); (le4 1073741824, [1;1;1;1;1;1;1;1]);
   (le4 7, [2;2;2;2;2;2;2;2]); (le4 2147483648, [3;3;3;3;3;3;3;3])]%N.

Example ex_rb_hypotheses :
  fst (rbtree_init 4 8) = 0 /\
  Forall (fun kv => lenN (fst kv) = rb_key_size ex_tree0 /\ lenN (snd kv) = rb_value_size ex_tree0) ex_ops /\
  rb_key_size_padded ex_tree0 = 8%N.
Proof. vm_compute. repeat split; repeat constructor. Qed.

(* with the total order every key is found again, with all its value bytes *)
Example ex_rb_found :
  match rb_puts cmp_u32 (ex_tree0, 0%N) ex_ops with
  | Some (t, next) =>
    next = 5%N /\
    map (fun kv => node_value 8 (rbtree_lookup cmp_u32 t (fst kv))) ex_ops = map snd ex_ops
  | None => False
  end.
Proof. vm_compute. split; reflexivity. Qed.

(* the comparator  (int)(lhs - rhs)  on 32 bit keys is not an order: <= is not transitive ... *)
Theorem cmp_sub32_not_transitive_refuted :
  exists a b c, cmp_sub32 a b <= 0 /\ cmp_sub32 b c <= 0 /\ ~ cmp_sub32 a c <= 0.
Proof.
  exists (le4 0), (le4 2147483647), (le4 4294967294).
  split; [vm_compute; discriminate|]. split; [vm_compute; discriminate|].
  intro H. vm_compute in H. apply H. reflexivity.
Qed.

(* ... and the tree loses a key: the same five inserts, each preceded by a lookup as the callers
   do, and 2147483653 is no longer found although its node is in the tree *)
Theorem rbtree_lookup_loses_key_refuted :
  exists ops k,
    In k (map fst ops) /\
    match rb_puts cmp_sub32 (ex_tree0, 0%N) ops with
    | Some (t, _) =>
      rbtree_lookup cmp_sub32 t k = Leaf /\
      In k (map (fun e => firstnN 4 (e_data e)) (elements (rb_root t)))
    | None => False
    end.
Proof.
  exists ex_ops, (le4 2147483653). split; [vm_compute; tauto|]. vm_compute. split; [reflexivity|tauto].
Qed.

(* copy_node with key_size + value_size instead of key_size_padded + value_size bytes (the
   memcpy length one would get by forgetting the padding): the copy loses the tail of the value *)
Theorem copy_node_unpadded_refuted :
  exists t next,
    layout_ok t /\
    let short := (util_sizeof_rbnode + rb_key_size t + rb_value_size t)%N in
    let full := (util_sizeof_rbnode + rb_key_size_padded t + rb_value_size t)%N in
    match copy_node full short (rb_root t) next, copy_node full full (rb_root t) next with
    | Some (c1, _), Some (c2, _) => erase c2 = erase (rb_root t) /\ erase c1 <> erase (rb_root t)
    | _, _ => False
    end.
Proof.
  destruct (rb_puts cmp_u32 (ex_tree0, 0%N) ex_ops) as [[t next]|] eqn:E; [|vm_compute in E; discriminate].
  exists t, next. vm_compute in E. inversion E; subst. split.
  - split; [vm_compute; discriminate|]. vm_compute. repeat constructor.
  - vm_compute. split; [reflexivity|discriminate].
Qed.
