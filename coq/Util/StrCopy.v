(* str_table.c: str_table_copy.  The destination is an existing struct (its caller memcpy's the
   enclosing object first); the function rebuilds the index array, clones the hash table and then
   re-points every entry to a fresh copy of its bucket.  Under the invariant, and if the
   destination's next_index is the source's (the function does not assign it), the result is a
   table with the same abstract value whose buckets are all new, and the source is untouched. *)
From Coq Require Import NArith ZArith List Bool Lia Permutation.
From SqfsV Require Import Gen.Constants Util.GenUtil Util.FastRem Util.HashModel Util.HashBase Util.HashRows
     Util.HashInv Util.HashContracts Util.ArrayModel Util.ArrayProofs Util.StrModel Util.StrProofs Util.StrIndex.
Import ListNotations.
Local Open Scope N_scope.

(* ---- small list facts ---- *)
Lemma map_updN : forall (A B : Type) (g : A -> B) (l : list A) i y,
  map g (updN l i y) = updN (map g l) i (g y).
Proof.
  induction l as [|x l IH]; intros i y; cbn [updN map]; [reflexivity|].
  destruct (i =? 0); cbn [map]; [reflexivity|]. rewrite IH. reflexivity.
Qed.

Lemma updN_same : forall (A : Type) (l : list A) i x, nthN l i = Some x -> updN l i x = l.
Proof.
  intros A l i x H. destruct (nthN_split _ _ _ _ H) as (pre & post & E & _ & Hu). rewrite Hu. symmetry. exact E.
Qed.

Lemma present_from_spec : forall (K V : Type) (l : list (slot K V)) i a e,
  In (a, e) (present_from K V l i) <->
  i <= a /\ nthN l (a - i) = Some (SPresent (fst (fst e)) (snd (fst e)) (snd e)).
Proof.
  induction l as [|s l IH]; intros i a e.
  - cbn. split; [contradiction|]. intros [_ H]. discriminate.
  - assert (Hrec : In (a, e) (present_from K V l (i + 1)) <->
                   i + 1 <= a /\ nthN l (a - (i + 1)) = Some (SPresent (fst (fst e)) (snd (fst e)) (snd e)))
      by apply IH.
    assert (Hshift : i + 1 <= a -> nthN (s :: l) (a - i) = nthN l (a - (i + 1))).
    { intro Hle. cbn [nthN]. replace (a - i =? 0) with false by (symmetry; apply N.eqb_neq; lia).
      f_equal. lia. }
    destruct s as [| |h k d]; cbn [present_from].
    + rewrite Hrec. split.
      * intros [Hle Hn]. split; [lia|]. rewrite Hshift by exact Hle. exact Hn.
      * intros [Hle Hn]. destruct (N.eq_dec a i) as [->|Hne].
        -- rewrite N.sub_diag in Hn. cbn in Hn. discriminate.
        -- split; [lia|]. rewrite <- Hshift by lia. exact Hn.
    + rewrite Hrec. split.
      * intros [Hle Hn]. split; [lia|]. rewrite Hshift by exact Hle. exact Hn.
      * intros [Hle Hn]. destruct (N.eq_dec a i) as [->|Hne].
        -- rewrite N.sub_diag in Hn. cbn in Hn. discriminate.
        -- split; [lia|]. rewrite <- Hshift by lia. exact Hn.
    + cbn [In]. rewrite Hrec. split.
      * intros [Heq|[Hle Hn]].
        -- inversion Heq; subst. split; [lia|]. rewrite N.sub_diag. reflexivity.
        -- split; [lia|]. rewrite Hshift by exact Hle. exact Hn.
      * intros [Hle Hn]. destruct (N.eq_dec a i) as [->|Hne].
        -- left. rewrite N.sub_diag in Hn. cbn in Hn. inversion Hn. destruct e as [[eh ek] ed]. reflexivity.
        -- right. split; [lia|]. rewrite <- Hshift by lia. exact Hn.
Qed.

Lemma present_from_ge : forall (K V : Type) (l : list (slot K V)) i a e,
  In (a, e) (present_from K V l i) -> i <= a.
Proof. intros. apply present_from_spec in H. tauto. Qed.

Lemma present_from_nodup : forall (K V : Type) (l : list (slot K V)) i,
  NoDup (map fst (present_from K V l i)).
Proof.
  induction l as [|s l IH]; intro i; [constructor|].
  destruct s as [| |h k d]; cbn [present_from]; try apply IH.
  cbn [map fst]. constructor; [|apply IH].
  intro Hin. apply in_map_iff in Hin. destruct Hin as ([a e] & Ea & Hin). cbn in Ea. subst a.
  apply present_from_ge in Hin. lia.
Qed.

(* ---- consequences of the invariant ---- *)
Lemma str_inv_data_inj : forall h t i j bid,
  str_inv h t -> nthN (a_data (st_arr t)) i = Some bid -> nthN (a_data (st_arr t)) j = Some bid -> i = j.
Proof.
  intros h t i j bid I Hi Hj.
  destruct (si_idx h t I _ _ Hi) as (b1 & G1 & X1 & _). destruct (si_idx h t I _ _ Hj) as (b2 & G2 & X2 & _).
  congruence.
Qed.

Definition entry_of (h : bheap) (bid : N) : N * skey * N :=
  match bh_get h bid with
  | Some b => (strhash (b_string b), (Some bid, b_string b), bid)
  | None => (0, (None, []), bid)
  end.

Lemma str_inv_livel_nodup : forall h t, str_inv h t -> NoDup (slivel (ht_table skey N (st_ht t))).
Proof.
  intros h t I.
  set (L := map (entry_of h) (a_data (st_arr t))).
  assert (Nd : NoDup (a_data (st_arr t))).
  { apply NoDup_nth_error. intros i j Hi E.
    destruct (nth_error (a_data (st_arr t)) i) as [bid|] eqn:Ei; [|apply nth_error_Some in Hi; contradiction].
    assert (H1 : nthN (a_data (st_arr t)) (N.of_nat i) = Some bid) by (rewrite nthN_nth_error, Nat2N.id; exact Ei).
    assert (H2 : nthN (a_data (st_arr t)) (N.of_nat j) = Some bid) by (rewrite nthN_nth_error, Nat2N.id; congruence).
    pose proof (str_inv_data_inj h t _ _ _ I H1 H2). lia. }
  assert (NL : NoDup L).
  { unfold L. apply NoDup_map_inj_in; [|exact Nd].
    intros x y _ _ E. unfold entry_of in E. destruct (bh_get h x); destruct (bh_get h y); inversion E; reflexivity. }
  assert (Hincl : incl L (slivel (ht_table skey N (st_ht t)))).
  { intros e He. unfold L in He. apply in_map_iff in He. destruct He as (bid & <- & Hb).
    apply In_nth_error in Hb. destruct Hb as [n Hb].
    assert (Hb' : nthN (a_data (st_arr t)) (N.of_nat n) = Some bid) by (rewrite nthN_nth_error, Nat2N.id; exact Hb).
    destruct (si_idx h t I _ _ Hb') as (b & Hg & _ & _ & Hin). unfold entry_of. rewrite Hg. exact Hin. }
  assert (Hlen : (length (slivel (ht_table skey N (st_ht t))) <= length L)%nat).
  { unfold L. rewrite map_length.
    pose proof (wf_entries skey N (st_ht t) (si_wf h t I)) as He. rewrite (si_entries h t I) in He.
    destruct (si_arr h t I) as [Hl _]. rewrite (si_used h t I) in Hl. unfold lenN in *. lia. }
  eapply Permutation_NoDup; [|exact NL]. apply NoDup_Permutation_bis; assumption.
Qed.

(* an entry is determined by its bucket *)
Lemma str_inv_entry_of : forall h t hh o s bid,
  str_inv h t -> In (hh, (o, s), bid) (slivel (ht_table skey N (st_ht t))) ->
  (hh, (o, s), bid) = entry_of h bid.
Proof.
  intros h t hh o s bid I Hin. destruct (si_ent h t I _ _ _ _ Hin) as (b & Hg & Hs & Ho & Hh & _).
  unfold entry_of. rewrite Hg. subst. reflexivity.
Qed.

(* ---- one iteration of the loop: the entry at slot a moves to a fresh copy of its bucket ---- *)
Definition with_data (a : arr N) (d : list N) : arr N := mk_arr N (a_size a) (a_count a) (a_used a) d.

Lemma repoint_step : forall h t a hh key bid,
  str_inv h t ->
  nthN (ht_table skey N (st_ht t)) a = Some (SPresent hh key bid) ->
  exists old,
    bh_get h bid = Some old /\ snd key = b_string old /\
    lenN_le (a_data (st_arr t)) (b_index old) = false /\
    let nb := mk_bucket (b_index old) (b_refcount old) (firstn (length (snd key)) (b_string old)) in
    let h1 := fst (bh_alloc h nb) in
    let ht1 := set_slot skey N (st_ht t) a (SPresent hh (Some (bh_next h), b_string nb) (bh_next h))
                        (ht_entries skey N (st_ht t)) (ht_deleted skey N (st_ht t)) in
    let t1 := mk_str_table (with_data (st_arr t) (updN (a_data (st_arr t)) (b_index nb) (bh_next h))) ht1
                           (st_next_index t) in
    str_inv h1 t1 /\ str_abs h1 t1 = str_abs h t /\
    nthN (a_data (st_arr t)) (b_index old) = Some bid /\ bid < bh_next h.
Proof.
  intros h t a hh key bid I Hs.
  destruct key as [o s].
  assert (Hin : In (hh, (o, s), bid) (slivel (ht_table skey N (st_ht t)))) by (apply livel_In; eauto).
  destruct (si_ent h t I _ _ _ _ Hin) as (old & Hg & Hstr & Ho & Hhh & Hn).
  destruct (si_idx h t I _ _ Hn) as (_ & _ & _ & Hlt & _).
  exists old. split; [exact Hg|]. split; [cbn; congruence|].
  assert (Hidx : b_index old < lenN (a_data (st_arr t))) by (eapply nthN_some_lt; eauto).
  split.
  { clear - Hidx. revert Hidx. generalize (b_index old). induction (a_data (st_arr t)) as [|x l IH]; intros i Hi.
    - unfold lenN in Hi. cbn in Hi. lia.
    - cbn [lenN_le]. destruct (i =? 0) eqn:E; [reflexivity|]. apply N.eqb_neq in E. apply IH.
      rewrite lenN_cons in Hi. lia. }
  cbn [snd]. rewrite Hstr. rewrite firstn_all. cbn zeta.
  set (nb := mk_bucket (b_index old) (b_refcount old) s).
  set (newid := bh_next h).
  set (h1 := fst (bh_alloc h nb)).
  assert (Hget1 : forall id, bh_get h1 id = if newid =? id then Some nb else bh_get h id)
    by (intro id; apply bh_get_alloc).
  assert (Hold : forall id, id < newid -> bh_get h1 id = bh_get h id).
  { intros id Hid. rewrite Hget1. replace (newid =? id) with false; [reflexivity|]. symmetry. apply N.eqb_neq. lia. }
  destruct (wf_repoint skey N (st_ht t) a hh (o, s) bid (Some newid, s) newid (si_wf h t I) Hs)
    as (W1 & rest & Q1 & Q2).
  set (ht1 := set_slot skey N (st_ht t) a (SPresent hh (Some newid, s) newid)
                       (ht_entries skey N (st_ht t)) (ht_deleted skey N (st_ht t))) in *.
  pose proof (str_inv_livel_nodup h t I) as NdL.
  assert (Hnr : ~ In (hh, (o, s), bid) rest).
  { intro Hr. pose proof (Permutation_NoDup Q1 NdL) as N2. inversion N2; subst. contradiction. }
  assert (Hmap : map (bucket_of h1) (a_data (st_arr t)) = map (bucket_of h) (a_data (st_arr t))).
  { apply map_ext_in. intros x Hx. apply In_nth_error in Hx. destruct Hx as [n Hx].
    assert (Hx' : nthN (a_data (st_arr t)) (N.of_nat n) = Some x) by (rewrite nthN_nth_error, Nat2N.id; exact Hx).
    destruct (si_idx h t I _ _ Hx') as (_ & _ & _ & Hl & _). unfold bucket_of. rewrite Hold by exact Hl. reflexivity. }
  assert (Habs : str_abs h1 (mk_str_table (with_data (st_arr t) (updN (a_data (st_arr t)) (b_index nb) newid)) ht1
                                          (st_next_index t)) = str_abs h t).
  { unfold str_abs. cbn [st_arr with_data a_data]. rewrite map_updN, Hmap.
    replace (bucket_of h1 newid) with (bucket_of h bid).
    - apply updN_same. rewrite nthN_map. cbn [b_index nb]. rewrite Hn. reflexivity.
    - unfold bucket_of. rewrite Hget1, N.eqb_refl, Hg. cbn. congruence. }
  split; [|split; [exact Habs|split; [exact Hn|exact Hlt]]].
  destruct (si_arr h t I) as [Hl Hu].
  constructor; cbn [st_ht st_arr st_next_index with_data a_data a_used a_count a_size].
  - exact W1.
  - unfold arr_inv. cbn. rewrite updN_length. auto.
  - apply (si_used h t I).
  - apply (si_entries h t I).
  - intros i bid' Hi. destruct (N.eq_dec i (b_index old)) as [->|Hne].
    + cbn [b_index nb] in Hi. rewrite nthN_upd_same in Hi by exact Hidx. inversion Hi; subst bid'.
      exists nb. rewrite Hget1, N.eqb_refl. split; [reflexivity|]. split; [reflexivity|].
      split; [unfold h1; cbn; lia|]. cbn [b_string nb]. rewrite <- Hhh.
      eapply Permutation_in; [symmetry; exact Q2|left; reflexivity].
    + cbn [b_index nb] in Hi. rewrite nthN_upd_other in Hi by congruence.
      destruct (si_idx h t I _ _ Hi) as (b' & G' & X' & L' & In').
      exists b'. rewrite Hold by exact L'. split; [exact G'|]. split; [exact X'|]. split; [unfold h1; cbn; lia|].
      assert (Hne2 : (strhash (b_string b'), (Some bid', b_string b'), bid') <> (hh, (o, s), bid)).
      { intro E. inversion E; subst. apply Hne. eapply (str_inv_data_inj h t); eauto. }
      apply (Permutation_in _ Q1) in In'. destruct In' as [E|In']; [congruence|].
      eapply Permutation_in; [symmetry; exact Q2|right; exact In'].
  - intros h' o' s' bid' Hin'. apply (Permutation_in _ Q2) in Hin'. destruct Hin' as [E|Hin'].
    + injection E as E1 E2 E3 E4. subst h' o' s' bid'. exists nb. rewrite Hget1, N.eqb_refl.
      split; [reflexivity|]. split; [reflexivity|]. split; [reflexivity|]. split; [exact Hhh|].
      cbn [b_index nb]. apply nthN_upd_same. exact Hidx.
    + assert (Hin0 : In (h', (o', s'), bid') (slivel (ht_table skey N (st_ht t))))
        by (eapply Permutation_in; [symmetry; exact Q1|right; exact Hin']).
      destruct (si_ent h t I _ _ _ _ Hin0) as (b' & G' & S' & O' & H' & N').
      destruct (si_idx h t I _ _ N') as (_ & _ & _ & L' & _).
      exists b'. rewrite Hold by exact L'. split; [exact G'|]. split; [exact S'|]. split; [exact O'|].
      split; [exact H'|]. cbn [b_index nb].
      rewrite nthN_upd_other; [exact N'|].
      intro Eidx. rewrite <- Eidx in N'. rewrite Hn in N'. inversion N'; subst bid'.
      apply Hnr. rewrite (str_inv_entry_of h t _ _ _ _ I Hin). rewrite <- (str_inv_entry_of h t _ _ _ _ I Hin0).
      exact Hin'.
  - change (NoDup (map fst (str_abs h1 (mk_str_table (with_data (st_arr t) (updN (a_data (st_arr t)) (b_index nb) newid))
                                                      ht1 (st_next_index t))))).
    rewrite Habs. apply (si_nodup h t I).
Qed.

(* the invariant only looks at the table's own buckets: it survives any extension of the heap *)
Lemma str_inv_frame : forall h h' t,
  str_inv h t -> bh_next h <= bh_next h' -> (forall id, id < bh_next h -> bh_get h' id = bh_get h id) ->
  str_inv h' t /\ str_abs h' t = str_abs h t.
Proof.
  intros h h' t I Hn Hf.
  assert (Habs : str_abs h' t = str_abs h t).
  { unfold str_abs. apply map_ext_in. intros x Hx. apply In_nth_error in Hx. destruct Hx as [n Hx].
    assert (Hx' : nthN (a_data (st_arr t)) (N.of_nat n) = Some x) by (rewrite nthN_nth_error, Nat2N.id; exact Hx).
    destruct (si_idx h t I _ _ Hx') as (_ & _ & _ & Hl & _). unfold bucket_of. rewrite Hf by exact Hl. reflexivity. }
  split; [|exact Habs].
  constructor; try apply I.
  - intros i bid Hi. destruct (si_idx h t I _ _ Hi) as (b & G & X & L & In1).
    exists b. rewrite Hf by exact L. split; [exact G|]. split; [exact X|]. split; [lia|exact In1].
  - intros hh o s bid Hin. destruct (si_ent h t I _ _ _ _ Hin) as (b & G & S & O & H & Nn).
    destruct (si_idx h t I _ _ Nn) as (_ & _ & _ & L & _).
    exists b. rewrite Hf by exact L. auto.
  - unfold strings. rewrite Habs. apply (si_nodup h t I).
Qed.

Lemma copy_entries_spec : forall todo h arr ht next n0,
  str_inv h (mk_str_table arr ht next) ->
  (forall a hh k bid, In (a, (hh, k, bid)) todo -> nthN (ht_table skey N ht) a = Some (SPresent hh k bid)) ->
  NoDup (map fst todo) ->
  n0 <= bh_next h ->
  (forall i bid, nthN (a_data arr) i = Some bid -> n0 <= bid \/ exists a hh k, In (a, (hh, k, bid)) todo) ->
  exists h' ht' d',
    copy_entries todo h ht (a_data arr) = SOk (h', ht', d') /\
    str_inv h' (mk_str_table (with_data arr d') ht' next) /\
    str_abs h' (mk_str_table (with_data arr d') ht' next) = str_abs h (mk_str_table arr ht next) /\
    bh_next h <= bh_next h' /\ (forall id, id < bh_next h -> bh_get h' id = bh_get h id) /\
    (forall i bid, nthN d' i = Some bid -> n0 <= bid).
Proof.
  induction todo as [|[a [[hh k] bid]] todo IH]; intros h arr ht next n0 I Hslots Hnd Hn0 Hids.
  - exists h, ht, (a_data arr). cbn [copy_entries].
    assert (Ew : with_data arr (a_data arr) = arr) by (destruct arr; reflexivity). rewrite Ew.
    split; [reflexivity|]. split; [exact I|]. split; [reflexivity|]. split; [lia|]. split; [auto|].
    intros i b Hb. destruct (Hids i b Hb) as [Hge|(a & hh & k & [])]. exact Hge.
  - assert (Hs : nthN (ht_table skey N ht) a = Some (SPresent hh k bid)) by (apply Hslots; left; reflexivity).
    destruct (repoint_step h (mk_str_table arr ht next) a hh k bid I Hs)
      as (old & Hg & Hk & Hle & I1 & A1 & Hn & Hlt).
    cbn [st_arr st_ht st_next_index] in *.
    cbn [copy_entries]. rewrite Hg. cbn [bh_alloc b_index]. rewrite Hle.
    set (nb := mk_bucket (b_index old) (b_refcount old) (firstn (length (snd k)) (b_string old))) in *.
    set (h1 := fst (bh_alloc h nb)) in *.
    set (ht1 := set_slot skey N ht a (SPresent hh (Some (bh_next h), b_string nb) (bh_next h))
                         (ht_entries skey N ht) (ht_deleted skey N ht)) in *.
    set (arr1 := with_data arr (updN (a_data arr) (b_index nb) (bh_next h))) in *.
    inversion Hnd as [|? ? Hna Hnd']; subst.
    destruct (IH h1 arr1 ht1 next n0 I1) as (h' & ht' & d' & E & I' & A' & Hnx & Hfr & Hfresh).
    + intros a' hh' k' bid' Hin. unfold ht1. cbn [set_slot ht_table].
      rewrite nthN_upd_other.
      * apply Hslots. right. exact Hin.
      * intro Ea. subst a'. apply Hna. apply in_map_iff. exists (a, (hh', k', bid')). auto.
    + exact Hnd'.
    + unfold h1. cbn. lia.
    + intros i bid' Hi. unfold arr1 in Hi. cbn [with_data a_data] in Hi.
      destruct (N.eq_dec i (b_index nb)) as [->|Hne].
      * rewrite nthN_upd_same in Hi by (eapply nthN_some_lt; eauto). inversion Hi. left. lia.
      * rewrite nthN_upd_other in Hi by congruence.
        destruct (Hids i bid' Hi) as [Hge|(a' & hh' & k' & [Eq|Hin])]; [left; exact Hge| |right; eauto].
        inversion Eq; subst. exfalso. apply Hne.
        eapply (str_inv_data_inj h (mk_str_table arr ht next)); eauto.
    + exists h', ht', d'. split; [exact E|].
      assert (Ew : with_data arr1 d' = with_data arr d') by reflexivity. rewrite Ew in I', A'.
      split; [exact I'|]. split; [rewrite A'; exact A1|].
      assert (Hn1 : bh_next h1 = bh_next h + 1) by reflexivity.
      split; [lia|]. split; [|exact Hfresh].
      intros id Hid. rewrite Hfr by lia. unfold h1. rewrite bh_get_alloc.
      replace (bh_next h =? id) with false; [reflexivity|]. symmetry. apply N.eqb_neq. lia.
Qed.

Theorem str_table_copy_equiv : forall h dst src,
  str_inv h src -> st_next_index dst = st_next_index src ->
  a_size (st_arr src) = util_sizeof_ptr -> st_next_index src < ht_safe_limit ->
  exists h' t',
    str_table_copy h dst src = SOk (h', t', 0%Z) /\
    str_inv h' t' /\ str_abs h' t' = str_abs h src /\
    st_next_index t' = st_next_index src /\
    (forall i bid, nthN (a_data (st_arr t')) i = Some bid -> bh_next h <= bid) /\
    (forall id, id < bh_next h -> bh_get h' id = bh_get h id) /\
    str_inv h' src /\ str_abs h' src = str_abs h src.
Proof.
  intros h dst src I Hnext Hsz Hlim. unfold str_table_copy.
  pose proof (array_init_copy_equiv N (st_arr src) (si_arr h src I)) as Hc.
  destruct (array_init_copy N (st_arr src)) as [z arr1].
  assert (z = 0%Z).
  { destruct z; [reflexivity| |]; destruct Hc as [_ Hov]; exfalso;
      rewrite Hsz, (si_used h src I) in Hov; pose proof ht_safe_limit_val as [Hv _]; rewrite Hv in Hlim;
      change util_sizeof_ptr with 8 in Hov; change util_size_max with 18446744073709551615 in Hov; lia. }
  subst z. destruct Hc as (Ai & Ad & Au & As & Ac).
  unfold ht_clone.
  assert (I0 : str_inv h (mk_str_table arr1 (st_ht src) (st_next_index dst))).
  { constructor; cbn [st_ht st_arr st_next_index].
    - apply (si_wf h src I).
    - exact Ai.
    - rewrite Au, Hnext. apply (si_used h src I).
    - rewrite Hnext. apply (si_entries h src I).
    - rewrite Ad. apply (si_idx h src I).
    - rewrite Ad. apply (si_ent h src I).
    - unfold strings, str_abs. cbn [st_arr]. rewrite Ad. apply (si_nodup h src I). }
  destruct (copy_entries_spec (ht_foreach skey N (st_ht src)) h arr1 (st_ht src) (st_next_index dst) (bh_next h) I0)
    as (h' & ht' & d' & E & I' & A' & Hnx & Hfr & Hfresh).
  - intros a hh k bid Hin. unfold ht_foreach in Hin. apply present_from_spec in Hin.
    destruct Hin as [_ Hin]. rewrite N.sub_0_r in Hin. exact Hin.
  - apply present_from_nodup.
  - lia.
  - intros i bid Hi. right. rewrite Ad in Hi.
    destruct (si_idx h src I _ _ Hi) as (b & _ & _ & _ & Hin). apply livel_In in Hin. destruct Hin as [p Hp].
    exists p, (strhash (b_string b)), (Some bid, b_string b). unfold ht_foreach. apply present_from_spec.
    split; [lia|]. rewrite N.sub_0_r. exact Hp.
  - rewrite E. unfold with_data in I', A'. eexists. eexists. split; [reflexivity|].
    destruct (str_inv_frame h h' src I Hnx Hfr) as [Isrc Asrc].
    split; [exact I'|]. split.
    + rewrite A'. unfold str_abs. cbn [st_arr]. rewrite Ad. reflexivity.
    + split; [exact Hnext|]. split; [exact Hfresh|]. split; [exact Hfr|]. split; [exact Isrc|exact Asrc].
Qed.

(* ---- original and copy side by side: an operation on one table leaves the other's value alone ---- *)
Lemma str_inv_frame_own : forall h h' t,
  str_inv h t -> bh_next h <= bh_next h' ->
  (forall i bid, nthN (a_data (st_arr t)) i = Some bid -> bh_get h' bid = bh_get h bid) ->
  str_inv h' t /\ str_abs h' t = str_abs h t.
Proof.
  intros h h' t I Hn Hf.
  assert (Habs : str_abs h' t = str_abs h t).
  { unfold str_abs. apply map_ext_in. intros x Hx. apply In_nth_error in Hx. destruct Hx as [n Hx].
    assert (Hx' : nthN (a_data (st_arr t)) (N.of_nat n) = Some x) by (rewrite nthN_nth_error, Nat2N.id; exact Hx).
    unfold bucket_of. rewrite (Hf _ _ Hx'). reflexivity. }
  split; [|exact Habs].
  constructor; try apply I.
  - intros i bid Hi. destruct (si_idx h t I _ _ Hi) as (b & G & X & L & In1).
    exists b. rewrite (Hf _ _ Hi). split; [exact G|]. split; [exact X|]. split; [lia|exact In1].
  - intros hh o s bid Hin. destruct (si_ent h t I _ _ _ _ Hin) as (b & G & S & O & H & Nn).
    exists b. rewrite (Hf _ _ Nn). auto.
  - unfold strings. rewrite Habs. apply (si_nodup h t I).
Qed.


Inductive st_op : Type :=
| StGetIndex (s : list N)
| StAddRef (i : N)
| StDelRef (i : N).

Definition st_step (h : bheap) (t : str_table) (op : st_op) : sres (bheap * str_table) :=
  match op with
  | StGetIndex s =>
    match str_table_get_index h t s with
    | SOk (h', t', _, _) => SOk (h', t')
    | SCrash => SCrash
    | SOutOfFuel => SOutOfFuel
    end
  | StAddRef i =>
    match str_table_add_ref h t i with SOk h' => SOk (h', t) | SCrash => SCrash | SOutOfFuel => SOutOfFuel end
  | StDelRef i =>
    match str_table_del_ref h t i with SOk h' => SOk (h', t) | SCrash => SCrash | SOutOfFuel => SOutOfFuel end
  end.

Definition disjoint_tables (a b : str_table) : Prop :=
  forall i j bid, nthN (a_data (st_arr a)) i = Some bid -> nthN (a_data (st_arr b)) j <> Some bid.

Definition st_roomy (t : str_table) : Prop :=
  st_next_index t < ht_safe_limit /\ a_size (st_arr t) = util_sizeof_ptr /\ a_count (st_arr t) <= 1099511627776.

(* original and copy side by side: any operation on table a (with room to grow) keeps a's
   invariant, leaves b's invariant AND abstract value alone, and the two still share no bucket *)
Theorem str_table_step_independent : forall h a b op,
  str_inv h a -> str_inv h b -> disjoint_tables a b -> st_roomy a ->
  exists h' a', st_step h a op = SOk (h', a') /\
    str_inv h' a' /\ str_inv h' b /\ str_abs h' b = str_abs h b /\ disjoint_tables a' b.
Proof.
  intros h a b op Ia Ib Hd (Hlim & Hsz & Hcnt).
  assert (Hbids : forall j bid, nthN (a_data (st_arr b)) j = Some bid -> bid < bh_next h).
  { intros j bid Hj. destruct (si_idx h b Ib _ _ Hj) as (_ & _ & _ & L & _). exact L. }
  destruct op as [s|i|i]; cbn [st_step].
  - destruct (in_dec (list_eq_dec N.eq_dec) s (strings h a)) as [Hin|Hnin].
    + apply In_nth_error in Hin. destruct Hin as [n Hn].
      rewrite (str_table_get_index_found h a s n Ia Hn). exists h, a. auto.
    + destruct (str_table_get_index_new h a s Ia Hnin Hlim Hsz Hcnt)
        as (h' & a' & E & Ia' & _ & _ & Hnext & Hfr & _ & _ & Hdata).
      rewrite E. exists h', a'. split; [reflexivity|]. split; [exact Ia'|].
      destruct (str_inv_frame_own h h' b Ib ltac:(lia)) as [Ib' Ab'].
      { intros j bid Hj. apply Hfr. eapply Hbids; eauto. }
      split; [exact Ib'|]. split; [exact Ab'|].
      intros i j bid Hi Hj. rewrite Hdata in Hi. apply nthN_app_inv in Hi.
      destruct Hi as [Hi|[_ ->]]; [exact (Hd _ _ _ Hi Hj)|].
      apply Hbids in Hj. lia.
  - destruct (str_table_add_ref_spec h a i Ia) as (h' & E & Ia' & _ & _ & Hnx). rewrite E.
    destruct (str_table_ref_frame h a i h' Ia (or_introl E)) as [_ Hfr].
    exists h', a. split; [reflexivity|]. split; [exact Ia'|].
    destruct (str_inv_frame_own h h' b Ib ltac:(lia)) as [Ib' Ab'].
    { intros j bid Hj. apply Hfr. intros j' Hj'. exact (Hd _ _ _ Hj' Hj). }
    auto.
  - destruct (str_table_del_ref_spec h a i Ia) as (h' & E & Ia' & _ & _ & Hnx). rewrite E.
    destruct (str_table_ref_frame h a i h' Ia (or_intror E)) as [_ Hfr].
    exists h', a. split; [reflexivity|]. split; [exact Ia'|].
    destruct (str_inv_frame_own h h' b Ib ltac:(lia)) as [Ib' Ab'].
    { intros j bid Hj. apply Hfr. intros j' Hj'. exact (Hd _ _ _ Hj' Hj). }
    auto.
Qed.

(* the copy and its source are such a pair, in both directions *)
Corollary str_table_copy_disjoint : forall h dst src h' t',
  str_inv h src -> st_next_index dst = st_next_index src ->
  a_size (st_arr src) = util_sizeof_ptr -> st_next_index src < ht_safe_limit ->
  str_table_copy h dst src = SOk (h', t', 0%Z) ->
  disjoint_tables src t' /\ disjoint_tables t' src.
Proof.
  intros h dst src h' t' I Hn Hs Hl E.
  destruct (str_table_copy_equiv h dst src I Hn Hs Hl) as (h2 & t2 & E2 & _ & _ & _ & Hfresh & _).
  rewrite E in E2. inversion E2; subst h2 t2.
  assert (Hold : forall j bid, nthN (a_data (st_arr src)) j = Some bid -> bid < bh_next h).
  { intros j bid Hj. destruct (si_idx h src I _ _ Hj) as (_ & _ & _ & L & _). exact L. }
  split; intros i j bid Hi Hj.
  - apply Hold in Hi. apply Hfresh in Hj. lia.
  - apply Hfresh in Hi. apply Hold in Hj. lia.
Qed.
