(* str_table.c: str_table_get_index against the invariant -- a known string yields its index and
   changes nothing; a new string gets the next index, one new bucket, one new hash entry whose
   key pointer points into that bucket, and the abstract list grows by (string, 0). *)
From Coq Require Import NArith ZArith List Bool Lia Permutation.
From SqfsV Require Import Gen.Constants Util.GenUtil Util.FastRem Util.HashModel Util.HashBase Util.HashRows
     Util.HashInv Util.HashContracts Util.ArrayModel Util.ArrayProofs Util.StrModel Util.StrProofs.
Import ListNotations.
Local Open Scope N_scope.

(* re-pointing key / data of a present entry (same hash, same slot) keeps the table well-formed *)
Lemma wf_repoint : forall (K V : Type) (t : htab K V) a h k0 d0 k d,
  wf K V t -> nthN (ht_table K V t) a = Some (SPresent h k0 d0) ->
  wf K V (set_slot K V t a (SPresent h k d) (ht_entries K V t) (ht_deleted K V t)) /\
  exists rest,
    Permutation (livel K V (ht_table K V t)) ((h, k0, d0) :: rest) /\
    Permutation (livel K V (ht_table K V (set_slot K V t a (SPresent h k d) (ht_entries K V t) (ht_deleted K V t))))
                ((h, k, d) :: rest).
Proof.
  intros K V t a h k0 d0 k d W Hs.
  destruct (livel_upd_replace K V (ht_table K V t) a h k0 d0 k d Hs) as (rest & Q1 & Q2 & Q3 & Q4).
  destruct (wf_chain K V t W a h k0 d0 Hs) as [Hh (i & Hi & Ei & Hn)].
  assert (Hlt : a < lenN (ht_table K V t)) by (eapply nthN_some_lt; eauto).
  split; [|exists rest; split; [exact Q1|exact Q2]].
  constructor; cbn.
  - destruct (wf_row K V t W) as (r1 & A & B & (F1 & F2 & F3 & F4 & F5)). exists r1.
    split; [exact A|]. split; [exact B|]. repeat split; auto.
  - rewrite updN_length. apply (wf_len K V t W).
  - rewrite <- Ei. apply chain_upd; auto.
    + apply (wf_chain K V t W).
    + rewrite Ei. exact Hlt.
  - rewrite Q4. apply (wf_entries K V t W).
  - rewrite Q3. apply (wf_deleted K V t W).
  - apply (wf_load K V t W).
Qed.

Lemma nth_error_strings : forall h t i s,
  nth_error (strings h t) i = Some s ->
  exists bid, nth_error (a_data (st_arr t)) i = Some bid /\ fst (bucket_of h bid) = s.
Proof.
  intros h t i s H. unfold strings, str_abs in H. rewrite map_map in H.
  destruct (nth_error (a_data (st_arr t)) i) as [bid|] eqn:E.
  - exists bid. split; [reflexivity|]. erewrite map_nth_error in H by exact E. inversion H. reflexivity.
  - exfalso. apply nth_error_None in E.
    assert (Hn : nth_error (map (fun x => fst (bucket_of h x)) (a_data (st_arr t))) i = None)
      by (apply nth_error_None; rewrite map_length; exact E).
    congruence.
Qed.

Lemma In_strings : forall h t s,
  str_inv h t ->
  (In s (strings h t) <-> exists o bid, In (strhash s, (o, s), bid) (slivel (ht_table skey N (st_ht t)))).
Proof.
  intros h t s I. split.
  - intro H. apply In_nth_error in H. destruct H as [i Hi].
    destruct (nth_error_strings _ _ _ _ Hi) as (bid & Hb & Hs).
    assert (Hb' : nthN (a_data (st_arr t)) (N.of_nat i) = Some bid)
      by (rewrite nthN_nth_error, Nat2N.id; exact Hb).
    destruct (si_idx h t I _ _ Hb') as (b & Hg & _ & _ & Hin).
    unfold bucket_of in Hs. rewrite Hg in Hs. cbn in Hs. subst s. eauto.
  - intros (o & bid & Hin). destruct (si_ent h t I _ _ _ _ Hin) as (b & Hg & Hs & _ & _ & Hn).
    unfold strings, str_abs. rewrite map_map. apply in_map_iff. exists bid. split.
    + unfold bucket_of. rewrite Hg. exact Hs.
    + rewrite nthN_nth_error in Hn. eapply nth_error_In; eauto.
Qed.

Lemma str_keq_true : forall s k, str_keq (None, s) k = true -> snd k = s.
Proof. intros s [o s'] H. unfold str_keq in H. cbn in H. apply list_eqb_eq in H. auto. Qed.

Lemma str_keq_refl : forall o o' s, str_keq (o, s) (o', s) = true.
Proof. intros. unfold str_keq. cbn. apply list_eqb_eq. reflexivity. Qed.

(* a string of the table: its index, nothing changes *)
Theorem str_table_get_index_found : forall h t s i,
  str_inv h t -> nth_error (strings h t) i = Some s ->
  str_table_get_index h t s = SOk (h, t, 0%Z, N.of_nat i).
Proof.
  intros h t s i I Hi. unfold str_table_get_index.
  destruct (ht_search_spec skey N str_keq (st_ht t) (strhash s) (None, s) (si_wf h t I) (strhash_lt s))
    as (r & -> & Hr).
  destruct r as [a|].
  - destruct Hr as (k & d & Hs & Hk). unfold ht_entry. rewrite Hs.
    apply str_keq_true in Hk. destruct k as [o s']. cbn in Hk. subst s'.
    assert (Hin : In (strhash s, (o, s), d) (slivel (ht_table skey N (st_ht t)))) by (apply livel_In; eauto).
    destruct (si_ent h t I _ _ _ _ Hin) as (b & Hg & Hbs & _ & _ & Hn). rewrite Hg.
    f_equal. f_equal.
    (* the bucket's index is i: strings are distinct *)
    assert (Hj : nth_error (strings h t) (N.to_nat (b_index b)) = Some s).
    { unfold strings, str_abs. rewrite map_map. rewrite nthN_nth_error in Hn.
      erewrite map_nth_error; [|exact Hn]. unfold bucket_of. rewrite Hg. cbn. congruence. }
    assert (N.to_nat (b_index b) = i).
    { eapply (proj1 (NoDup_nth_error (strings h t)) (si_nodup h t I)); [|congruence].
      apply nth_error_Some. congruence. }
    lia.
  - exfalso.
    assert (Hin : In s (strings h t)) by (eapply nth_error_In; eauto).
    apply (In_strings h t s I) in Hin. destruct Hin as (o & bid & Hin).
    apply livel_In in Hin. destruct Hin as [p Hp].
    specialize (Hr p (o, s) bid Hp). rewrite str_keq_refl in Hr. discriminate.
Qed.

Lemma array_append_ok_z : forall (a : arr N) x,
  a_size a = util_sizeof_ptr -> a_count a <= 1099511627776 -> fst (array_append N a x) = 0%Z.
Proof.
  intros a x Hs Hc. unfold array_append.
  destruct (a_used a =? a_count a); [|reflexivity].
  set (nc := if a_count a =? 0 then util_array_first_count else a_count a * util_array_growth).
  assert (Hnc : nc <= 2199023255552).
  { unfold nc. destruct (a_count a =? 0); [vm_compute; discriminate|]. change util_array_growth with 2. lia. }
  unfold sz_ov. rewrite Hs. change util_size_max with 18446744073709551615. change util_sizeof_ptr with 8.
  replace (18446744073709551615 <? nc) with false by (symmetry; apply N.ltb_ge; lia).
  replace (18446744073709551615 <? nc * 8) with false by (symmetry; apply N.ltb_ge; lia).
  reflexivity.
Qed.

Lemma array_append_count_le : forall (a : arr N) x,
  a_used a < 1073741824 -> a_count a <= 1099511627776 ->
  a_count (snd (array_append N a x)) <= 1099511627776.
Proof.
  intros a x Hu Hc. unfold array_append.
  destruct (a_used a =? a_count a) eqn:E; [|cbn; exact Hc].
  apply N.eqb_eq in E.
  destruct (a_count a =? 0) eqn:E0.
  - destruct (sz_ov util_array_first_count); [cbn; exact Hc|].
    destruct (sz_ov (util_array_first_count * a_size a)); [cbn; exact Hc|]. cbn. vm_compute. discriminate.
  - destruct (sz_ov (a_count a * util_array_growth)); [cbn; exact Hc|].
    destruct (sz_ov (a_count a * util_array_growth * a_size a)); [cbn; exact Hc|]. cbn.
    change util_array_growth with 2. lia.
Qed.

Lemma NoDup_snoc : forall (A : Type) (l : list A) x, NoDup l -> ~ In x l -> NoDup (l ++ [x]).
Proof.
  induction l as [|y l IH]; intros x Hn Hx; cbn.
  - constructor; [intros []|constructor].
  - inversion Hn; subst. constructor.
    + intro Hin. apply in_app_or in Hin. destruct Hin as [Hin|[->|[]]]; [contradiction|].
      apply Hx. left. reflexivity.
    + apply IH; auto. intro Hin. apply Hx. right. exact Hin.
Qed.

Lemma nthN_app_l : forall (A : Type) (l : list A) x i y, nthN l i = Some y -> nthN (l ++ [x]) i = Some y.
Proof.
  induction l as [|z l IH]; intros x i y H; cbn [nthN app] in *; [discriminate|].
  destruct (i =? 0); [exact H|]. apply IH. exact H.
Qed.

Lemma nthN_app_last : forall (A : Type) (l : list A) x, nthN (l ++ [x]) (lenN l) = Some x.
Proof. intros. apply nthN_app_mid. Qed.

Lemma nthN_app_inv : forall (A : Type) (l : list A) x i y,
  nthN (l ++ [x]) i = Some y -> nthN l i = Some y \/ (i = lenN l /\ y = x).
Proof.
  induction l as [|z l IH]; intros x i y H; cbn [nthN app] in *.
  - destruct (i =? 0) eqn:E; [|destruct (N.pred i); discriminate].
    apply N.eqb_eq in E. inversion H. right. split; [subst; reflexivity|reflexivity].
  - destruct (i =? 0) eqn:E; [left; exact H|]. apply N.eqb_neq in E.
    destruct (IH _ _ _ H) as [Hl|[Hi Hy]]; [left; exact Hl|right]. split; [|exact Hy]. rewrite lenN_cons. lia.
Qed.

(* a new string: next index, one bucket, one entry, abstract list grows by (s, 0) *)
Theorem str_table_get_index_new : forall h t s,
  str_inv h t -> ~ In s (strings h t) ->
  st_next_index t < ht_safe_limit ->
  a_size (st_arr t) = util_sizeof_ptr -> a_count (st_arr t) <= 1099511627776 ->
  exists h' t',
    str_table_get_index h t s = SOk (h', t', 0%Z, st_next_index t) /\
    str_inv h' t' /\
    str_abs h' t' = str_abs h t ++ [(s, 0)] /\
    st_next_index t' = st_next_index t + 1 /\
    bh_next h' = bh_next h + 1 /\
    (forall id, id < bh_next h -> bh_get h' id = bh_get h id) /\
    a_size (st_arr t') = util_sizeof_ptr /\ a_count (st_arr t') <= 1099511627776 /\
    a_data (st_arr t') = a_data (st_arr t) ++ [bh_next h].
Proof.
  intros h t s I Hnew Hlim Hsz Hcnt. unfold str_table_get_index.
  pose proof (si_wf h t I) as W.
  destruct (ht_search_spec skey N str_keq (st_ht t) (strhash s) (None, s) W (strhash_lt s)) as (r & -> & Hr).
  assert (Hno : forall o bid, ~ In (strhash s, (o, s), bid) (slivel (ht_table skey N (st_ht t)))).
  { intros o bid Hin. apply Hnew. apply (In_strings h t s I). eauto. }
  destruct r as [a|].
  { exfalso. destruct Hr as (k & d & Hs & Hk). apply str_keq_true in Hk. destruct k as [o s']. cbn in Hk. subst s'.
    apply (Hno o d). apply livel_In. eauto. }
  clear Hr. cbn [bh_alloc].
  set (newid := bh_next h).
  set (nb := mk_bucket (st_next_index t) 0 s).
  set (h1 := mk_bheap (bh_next h + 1) ((bh_next h, nb) :: bh_cells h)).
  destruct (ht_insert_spec skey N str_keq (st_ht t) (strhash s) (None, s) newid W (strhash_lt s))
    as (ht1 & a & E & W1 & Hslot & Hcase).
  { rewrite (si_entries h t I). exact Hlim. }
  rewrite E.
  destruct Hcase as [(k0 & d0 & rest0 & Hk & P0 & _)|(_ & P1 & En1)].
  { exfalso. apply str_keq_true in Hk. destruct k0 as [o s']. cbn in Hk. subst s'.
    apply (Hno o d0). eapply Permutation_in; [symmetry; exact P0|left; reflexivity]. }
  destruct (wf_repoint skey N ht1 a (strhash s) (None, s) newid (Some newid, s) newid W1 Hslot)
    as (W2 & rest & Q1 & Q2).
  set (ht2 := set_slot skey N ht1 a (SPresent (strhash s) (Some newid, s) newid)
                       (ht_entries skey N ht1) (ht_deleted skey N ht1)) in *.
  assert (Hrest : Permutation rest (slivel (ht_table skey N (st_ht t)))).
  { eapply Permutation_cons_inv. rewrite <- Q1. exact P1. }
  assert (P2 : Permutation (slivel (ht_table skey N ht2))
                           ((strhash s, (Some newid, s), newid) :: slivel (ht_table skey N (st_ht t)))).
  { eapply Permutation_trans; [exact Q2|]. constructor. exact Hrest. }
  pose proof (array_append_ok_z (st_arr t) newid Hsz Hcnt) as Hz.
  assert (Hu30 : a_used (st_arr t) < 1073741824).
  { rewrite (si_used h t I). pose proof ht_safe_limit_val as [Hv _]. rewrite Hv in Hlim. exact Hlim. }
  pose proof (array_append_count_le (st_arr t) newid Hu30 Hcnt) as Hcnt1.
  pose proof (array_append_spec N (st_arr t) newid (si_arr h t I)) as Hap.
  destruct (array_append N (st_arr t) newid) as [z arr1]. cbn in Hz, Hcnt1. subst z.
  destruct Hap as (Ai1 & Ad1 & Au1 & As1 & Ac1).
  destruct (si_arr h t I) as [Hl Hu]. pose proof (si_used h t I) as Hused.
  assert (Hget1 : forall id, bh_get h1 id = if bh_next h =? id then Some nb else bh_get h id).
  { intro id. reflexivity. }
  assert (Hold : forall id, id < bh_next h -> bh_get h1 id = bh_get h id).
  { intros id Hid. rewrite Hget1. replace (bh_next h =? id) with false; [reflexivity|].
    symmetry. apply N.eqb_neq. lia. }
  assert (Hlen : lenN (a_data (st_arr t)) = st_next_index t) by congruence.
  assert (Habs : map (bucket_of h1) (a_data (st_arr t)) = map (bucket_of h) (a_data (st_arr t))).
  { apply map_ext_in. intros bid Hb. apply In_nth_error in Hb. destruct Hb as [n Hb].
    assert (Hb' : nthN (a_data (st_arr t)) (N.of_nat n) = Some bid)
      by (rewrite nthN_nth_error, Nat2N.id; exact Hb).
    destruct (si_idx h t I _ _ Hb') as (b & _ & _ & Hlt & _).
    unfold bucket_of. rewrite Hold by exact Hlt. reflexivity. }
  exists h1. eexists. split; [reflexivity|].
  assert (Habs1 : str_abs h1 (mk_str_table arr1 ht2 (st_next_index t + 1)) = str_abs h t ++ [(s, 0)]).
  { unfold str_abs. cbn [st_arr]. rewrite Ad1, map_app, Habs. cbn [map]. f_equal.
    unfold bucket_of. rewrite Hget1, N.eqb_refl. reflexivity. }
  split; [|split; [exact Habs1|split; [reflexivity|split; [reflexivity|split; [exact Hold|]]]]].
  - constructor; cbn [st_ht st_arr st_next_index].
    + exact W2.
    + exact Ai1.
    + rewrite Au1, Hused. reflexivity.
    + unfold ht2. cbn [set_slot ht_entries]. rewrite En1, (si_entries h t I). reflexivity.
    + intros i bid Hn. rewrite Ad1 in Hn. apply nthN_app_inv in Hn. destruct Hn as [Hn|[Hi Hb]].
      * destruct (si_idx h t I i bid Hn) as (b & Hg & Hbi & Hlt & Hin).
        exists b. rewrite Hold by exact Hlt. split; [exact Hg|]. split; [exact Hbi|].
        split; [cbn; lia|]. eapply Permutation_in; [symmetry; exact P2|right; exact Hin].
      * subst bid. exists nb. rewrite Hget1. unfold newid. rewrite N.eqb_refl.
        split; [reflexivity|]. split; [cbn; congruence|]. split; [cbn; lia|].
        eapply Permutation_in; [symmetry; exact P2|left; reflexivity].
    + intros hh o s' bid Hin. apply (Permutation_in _ P2) in Hin. destruct Hin as [Heq|Hin].
      * inversion Heq; subst. exists nb. rewrite Hget1, N.eqb_refl.
        split; [reflexivity|]. split; [reflexivity|]. split; [reflexivity|]. split; [reflexivity|].
        rewrite Ad1. cbn [b_index nb]. rewrite <- Hlen. apply nthN_app_last.
      * destruct (si_ent h t I hh o s' bid Hin) as (b & Hg & Hs' & Ho & Hh & Hn).
        assert (Hlt : bid < bh_next h).
        { destruct (si_idx h t I _ _ Hn) as (_ & _ & _ & Hlt & _). exact Hlt. }
        exists b. rewrite Hold by exact Hlt. split; [exact Hg|]. split; [exact Hs'|]. split; [exact Ho|].
        split; [exact Hh|]. rewrite Ad1. apply nthN_app_l. exact Hn.
    + unfold strings. rewrite Habs1, map_app. cbn [map fst].
      apply NoDup_snoc; [apply (si_nodup h t I)|exact Hnew].
  - cbn [st_arr]. split; [congruence|]. split; [exact Hcnt1|exact Ad1].
Qed.
