(* Little-endian integer codecs over byte lists (bytes are N < 256). *)
From Coq Require Import List NArith Lia.
Import ListNotations.
Local Open Scope N_scope.

Definition byte_ok (b : N) : Prop := b < 256.
Definition bytes_ok (l : list N) : Prop := Forall byte_ok l.

(* k-byte little-endian encoding of n (truncating: n mod 256^k is what is stored) *)
Fixpoint le (k : nat) (n : N) : list N :=
  match k with
  | O => []
  | S k' => n mod 256 :: le k' (n / 256)
  end.

(* read k bytes little-endian from the front of l; missing bytes read as 0 *)
Fixpoint rd (k : nat) (l : list N) : N :=
  match k, l with
  | S k', b :: r => b + 256 * rd k' r
  | _, _ => 0
  end.

Definition le16 := le 2.
Definition le32 := le 4.
Definition le64 := le 8.
Definition rd16 := rd 2.
Definition rd32 := rd 4.
Definition rd64 := rd 8.

Lemma le_length k n : length (le k n) = k.
Proof. revert n; induction k as [|k IH]; intro n; simpl; [reflexivity|]. rewrite IH. reflexivity. Qed.

Lemma le_bytes_ok k n : bytes_ok (le k n).
Proof.
  revert n; induction k as [|k IH]; intro n; simpl; constructor.
  - unfold byte_ok. apply N.mod_lt. discriminate.
  - apply IH.
Qed.

Lemma rd_le k : forall n r, n < 256 ^ N.of_nat k -> rd k (le k n ++ r) = n.
Proof.
  induction k as [|k IH]; intros n r H.
  - simpl in *. lia.
  - cbn [le rd app]. rewrite IH.
    + pose proof (N.div_mod n 256). lia.
    + rewrite Nat2N.inj_succ, N.pow_succ_r' in H.
      apply N.div_lt_upper_bound; [discriminate|]. exact H.
Qed.

Lemma rd_le_mod k : forall n r, rd k (le k n ++ r) = n mod 256 ^ N.of_nat k.
Proof.
  induction k as [|k IH]; intros n r.
  - simpl. rewrite N.mod_1_r. reflexivity.
  - cbn [le rd app]. rewrite IH.
    rewrite Nat2N.inj_succ, N.pow_succ_r'.
    rewrite N.mod_mul_r by (try discriminate; apply N.pow_nonzero; discriminate).
    reflexivity.
Qed.

Lemma rd_bound k : forall l, bytes_ok l -> rd k l < 256 ^ N.of_nat k.
Proof.
  induction k as [|k IH]; intros l H.
  - simpl. lia.
  - destruct l as [|b r]; cbn [rd].
    + apply N.neq_0_lt_0, N.pow_nonzero. discriminate.
    + inversion H; subst. specialize (IH r H3). unfold byte_ok in H2.
      rewrite Nat2N.inj_succ, N.pow_succ_r'. lia.
Qed.

Lemma le_rd k : forall l, bytes_ok l -> (k <= length l)%nat -> le k (rd k l) = firstn k l.
Proof.
  induction k as [|k IH]; intros l H Hl; [reflexivity|].
  destruct l as [|b r]; [simpl in Hl; lia|].
  inversion H; subst. unfold byte_ok in H2. cbn [rd le firstn].
  assert (E1 : (b + 256 * rd k r) mod 256 = b).
  { rewrite (N.mul_comm 256), N.mod_add by discriminate. apply N.mod_small. exact H2. }
  assert (E2 : (b + 256 * rd k r) / 256 = rd k r).
  { rewrite (N.mul_comm 256), N.div_add by discriminate.
    rewrite (N.div_small b 256) by exact H2. lia. }
  rewrite E1, E2, IH; [reflexivity|assumption|simpl in Hl; lia].
Qed.

Lemma rd_app_exact k : forall a r, length a = k -> rd k (a ++ r) = rd k a.
Proof.
  induction k as [|k IH]; intros a r H.
  - destruct a; [reflexivity|discriminate].
  - destruct a as [|b a]; [discriminate|]. cbn [rd app]. rewrite IH; [reflexivity|].
    simpl in H. lia.
Qed.

Lemma bytes_ok_app a b : bytes_ok (a ++ b) <-> bytes_ok a /\ bytes_ok b.
Proof. unfold bytes_ok. apply Forall_app. Qed.

Lemma bytes_ok_firstn n l : bytes_ok l -> bytes_ok (firstn n l).
Proof.
  revert l; induction n as [|n IH]; intros l H; simpl; [constructor|].
  destruct l; [constructor|]. inversion H; subst. constructor; [assumption|apply IH; assumption].
Qed.

Lemma bytes_ok_skipn n l : bytes_ok l -> bytes_ok (skipn n l).
Proof.
  revert l; induction n as [|n IH]; intros l H; simpl; [assumption|].
  destruct l; [constructor|]. inversion H; subst. apply IH; assumption.
Qed.
