(* ImgValid — the cursor variant of v_data that valid_image_full evaluates computes v_data, and valid_refs follows from its
   two parts. *)
From Coq Require Import List NArith ZArith Bool Lia ZifyBool ZifyNat ZifyN.
From SqfsV Require Import Base.Bytes C03.Common.
From SqfsV Require C14.SuperModel.
From SqfsV Require Import C01.InodeModel Img.TreeModel Image.ReaderModel Image.ValidModel.
From SqfsV Require Import ImgValid.ValidFull.
Import ListNotations.
Local Open Scope N_scope.

Lemma dropN_dropN {A} (a b : N) (l : list A) : dropN a (dropN b l) = dropN (a + b) l.
Proof.
  unfold dropN. rewrite N2Nat.inj_add. generalize (N.to_nat a) (N.to_nat b). intros x y. revert l.
  induction y as [|y IH]; intro l; [rewrite Nat.add_0_r; reflexivity|].
  destruct l as [|h t]; [destruct x; reflexivity|]. rewrite Nat.add_succ_r. cbn [skipn]. apply IH.
Qed.

Lemma suffixes_nth : forall fuel l k sfx, nth_error (suffixes fuel l) k = Some sfx -> sfx = dropN (N.of_nat k * CHUNK) l.
Proof.
  induction fuel as [|f IH]; intros l k sfx H; [destruct k; discriminate|].
  destruct k as [|k]; cbn [suffixes nth_error] in H.
  - injection H as <-. reflexivity.
  - rewrite (IH _ _ _ H), dropN_dropN. f_equal. lia.
Qed.

Lemma seek_spec img start : seek img (suffix_table img) start = dropN start img.
Proof.
  unfold seek. destruct (nth_error (suffix_table img) (N.to_nat (start / CHUNK))) as [sfx|] eqn:E; [|reflexivity].
  rewrite (suffixes_nth _ _ _ _ E), dropN_dropN. f_equal. rewrite N2Nat.id.
  pose proof (N.div_mod start CHUNK ltac:(discriminate)). lia.
Qed.

Section F.
  Variable muncompress : list N -> option (list N).
  Variable duncompress : list N -> nat -> option (list N).

  Lemma frag_lens_fast_eq img lo hi bs : forall l,
    frag_lens_fast duncompress img (suffix_table img) lo hi bs l = frag_lens duncompress img lo hi bs l.
  Proof.
    induction l as [|e r IH]; [reflexivity|]. cbn [frag_lens_fast frag_lens]. rewrite IH, seek_spec. reflexivity.
  Qed.

  Lemma v_data_fast_eq img lo hi bs flens l :
    v_data_fast duncompress img (suffix_table img) lo hi bs flens l = v_data duncompress img lo hi bs flens l.
  Proof.
    unfold v_data_fast, v_data. induction l as [|p r IH]; [reflexivity|]. cbn [forallb]. rewrite IH, seek_spec. reflexivity.
  Qed.

  Lemma valid_refs_split img s :
    valid_core muncompress duncompress img s = true -> valid_nlinks muncompress img s = true ->
    valid_refs muncompress duncompress img s = true.
  Proof.
    unfold valid_core, valid_nlinks, valid_refs.
    destruct (inodes_of muncompress img s) as [[bt l]|]; [|discriminate].
    destruct (tables_of img s) as [[it dtbl]|]; [|discriminate].
    destruct (read_frags muncompress img s) as [frags|]; [|discriminate].
    destruct (read_export muncompress img s) as [ex|]; [|discriminate].
    cbv zeta. rewrite frag_lens_fast_eq.
    destruct (frag_lens duncompress img (data_start muncompress img s) (SuperModel.s_inode_start s)
                (SuperModel.s_block_size s) frags) as [flens|]; [|discriminate].
    rewrite v_data_fast_eq.
    unfold v_links. destruct (dir_listings muncompress dtbl l) as [dirs|]; [|discriminate].
    intros A B. rewrite !andb_true_iff in A. destruct A as [[[A1 A2] A3] A4].
    rewrite A1, A2, A3, A4, B. reflexivity.
  Qed.
End F.
