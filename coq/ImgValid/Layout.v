(* ImgValid — layout facts of a written image that the data clauses need: where the validator places the start of the
   data area (behind the compressor options it finds through the super block flag), and where that area ends. *)
From Coq Require Import List NArith ZArith Lia Bool ZifyBool ZifyNat ZifyN.
From SqfsV Require Import Base.Bytes Gen.Constants C03.Common C03.ListN C03.MetaModel C03.MetaProofs.
From SqfsV Require C14.SuperModel.
From SqfsV Require Import C01.GenC01 C01.Res Img.TreeModel.
From SqfsV Require Import Image.FinishModel Image.ReaderModel Image.ValidModel Image.ReadLemmas Image.FinishProofs
  Image.ImageProofs.
From SqfsV Require Import ImgValid.ValidFull.
Import ListNotations.
Local Open Scope N_scope.

Section LY.
  Variable compress : list N -> cres.
  Variable uncompress : list N -> option (list N).
  Hypothesis compress_ok :
    forall b c, compress b = CData c -> lenN c <= lenN b /\ uncompress c = Some b.
  Variable limit : N.
  Hypothesis limit_ok : limit <= 65535.
  Variable cfg : wcfg.
  Variable inp : winput.
  Variable w : wimage.
  Hypothesis Hw : write_image compress limit cfg inp = Ok w.
  Hypothesis Hdom : image_domain cfg inp = true.

  Let sf := w_super w.
  Let opts := in_opts inp.

  Lemma data_start_written : data_start uncompress (image_bytes w) sf = SBN + lenN opts.
  Proof.
    destruct (dom_facts cfg inp Hdom) as (_ & _ & _ & _ & Oo & _).
    unfold data_start, sf. rewrite (flags_eq compress limit cfg inp w Hw). unfold flags_of.
    destruct (final_flags_bits (negb (is_nil (in_opts inp))) (is_nil (in_frags inp))
                (existsb frag_compressed (in_frags inp)) (ImageProofs.is_some (w_export w))
                (if c_no_xattr cfg then None else Some (ImageProofs.is_some (in_xattr inp)))) as (B & _).
    change FLAG_COMP_OPTS with c_SQFS_FLAG_COMPRESSOR_OPTIONS. cbv zeta in B.
    apply (f_equal negb) in B. rewrite negb_involutive in B. rewrite B. clear B.
    unfold opts. destruct (in_opts inp) as [|o0 orest] eqn:EO.
    - cbn [is_nil negb]. rewrite lenN_nil. change SUPER_SIZE with SBN. lia.
    - cbn [is_nil negb].
      unfold opts_okb in Oo. rewrite !andb_true_iff, N.leb_le, N.ltb_lt, N.eqb_eq in Oo.
      destruct Oo as [[[O1 O2] O3] _].
      set (o := o0 :: orest) in *.
      rewrite (bytes_eq compress limit cfg inp w Hw), EO. fold o. unfold read_block.
      replace SUPER_SIZE with (lenN (SuperModel.encode (w_super w))) by (rewrite enc_len; reflexivity).
      rewrite dropN_app_exact by reflexivity.
      set (rest := in_data inp ++ si_itbl (w_img w) ++ si_dtbl (w_img w) ++ w_fragb w ++ w_exportb w ++ w_idb w ++
                   w_xattrb w ++ zeros (w_pad w)).
      assert (L2 : lenN (o ++ rest) <? 2 = false) by (apply N.ltb_ge; rewrite lenN_app; lia).
      rewrite L2. unfold rd16 in O3 |- *. rewrite (rd_app_ge 2 o rest) by (unfold lenN in O1; lia). rewrite O3.
      assert (M : (lenN o - 2 + 32768) mod META_FLAG = lenN o - 2).
      { rewrite FLAG_val. replace (lenN o - 2 + 32768) with (lenN o - 2 + 1 * 32768) by lia.
        rewrite N.mod_add by discriminate. apply N.mod_small. lia. }
      rewrite M. rewrite (dropN_app_le 2 o rest) by lia.
      rewrite takeN_app_le by (rewrite lenN_dropN; lia).
      assert (T : lenN (takeN (lenN o - 2) (dropN 2 o)) <? lenN o - 2 = false).
      { apply N.ltb_ge. rewrite lenN_takeN, lenN_dropN. lia. }
      rewrite T.
      assert (F : META_FLAG <=? lenN o - 2 + 32768 = true) by (apply N.leb_le; rewrite FLAG_val; lia).
      rewrite F, enc_len. unfold SBN. lia.
  Qed.

  Lemma inode_start_written : SuperModel.s_inode_start sf = SBN + lenN opts + lenN (in_data inp).
  Proof. destruct (layout compress limit cfg inp w Hw Hdom) as [Li _ _ _ _ _ _ _]. exact Li. Qed.

  (* the image begins with the (final) super block, the options and the data area *)
  Lemma image_front :
    exists rest, image_bytes w = (SuperModel.encode sf ++ opts ++ in_data inp) ++ rest /\
                 lenN (SuperModel.encode sf ++ opts ++ in_data inp) = SuperModel.s_inode_start sf.
  Proof.
    eexists. split.
    - rewrite (bytes_eq compress limit cfg inp w Hw). rewrite <- !app_assoc. reflexivity.
    - rewrite inode_start_written, !lenN_app. unfold sf. rewrite enc_len. lia.
  Qed.
End LY.
