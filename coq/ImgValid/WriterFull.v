(* ImgValid — writer_valid_full: Image.writer_valid extended to valid_image_full, for write_image with ABSTRACT data area,
   fragment entries, xattr section and tree: the validator accepts the image whenever the inputs satisfy the statements of
   Clauses.v (data_ok / xattr_ok / tree_dirs / tree_nlinks) and the xattr section passes xattr_tail in place.  The packer
   models discharge all of them (PackValid.pack_all_image_valid). *)
From Coq Require Import List NArith ZArith Bool.
From SqfsV Require Import Base.Bytes C03.Common.
From SqfsV Require Import C01.Res Img.TreeModel.
From SqfsV Require Import Image.FinishModel Image.ReaderModel Image.ValidModel Image.ImageProofs.
From SqfsV Require Import ImgValid.ValidFull ImgValid.Fast ImgValid.Clauses.
Local Open Scope N_scope.

Theorem writer_valid_full_l :
  forall (compress : list N -> cres) (uncompress : list N -> option (list N)),
  (forall b c, compress b = CData c -> lenN c <= lenN b /\ uncompress c = Some b) ->
  forall (duncompress : list N -> nat -> option (list N)) limit, limit <= 65535 ->
  forall cfg inp w,
  write_image compress limit cfg inp = Ok w -> image_domain cfg inp = true -> image_fits w = true ->
  xattr_section_ok uncompress w ->
  data_ok duncompress cfg inp w -> xattr_ok uncompress inp w ->
  tree_dirs (in_tree inp) -> tree_nlinks (in_tree inp) ->
  valid_image_full uncompress duncompress (c_devblk cfg) (image_bytes w) = true.
Proof.
  intros c u H du limit Hl cfg inp w Hw Hd Hf HX D X TD TN. unfold valid_image_full.
  rewrite (writer_valid_l c u H limit Hl cfg inp w Hw Hd Hf (c_devblk cfg) eq_refl HX).
  rewrite (super_roundtrip_l c u H limit Hl cfg inp w Hw Hd Hf). cbn [andb].
  apply valid_refs_split.
  - exact (valid_core_written c u H du limit Hl cfg inp w Hw Hd Hf D X TD).
  - exact (valid_nlinks_written c u H limit Hl cfg inp w Hw Hd Hf TD TN).
Qed.
