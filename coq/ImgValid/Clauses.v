(* ImgValid — the new clauses of valid_image_full on an image written by Image.FinishModel.write_image, reduced to
   statements about the INPUTS of write_image (the post-processed tree, the data area, the fragment entries):

     data_ok     the clause v_frag / v_data evaluated on the tree's file payloads instead of on the decoded inodes
     xattr_ok    every node's xattr index is 0xFFFFFFFF or below the count of the section in the image
     tree_links  the link counts / parent numbers of the tree are those of its directory structure, and every node but
                 the last (the root) is listed by some directory

   writer_valid_full_l: under these (and the hypotheses of writer_valid) the validator accepts the image.  The packer
   models discharge them (PackData.v, PackTree.v). *)
From Coq Require Import List NArith ZArith Lia Bool ZifyBool ZifyNat ZifyN.
From SqfsV Require Import Base.Bytes Gen.Constants C03.Common C03.ListN C03.MetaModel C03.DirModel.
From SqfsV Require C14.SuperModel.
From SqfsV Require C03.GenC03.
From SqfsV Require Import C01.GenC01 C01.Res C01.InodeModel C01.InodeProofs.
From SqfsV Require Import Img.TreeModel Img.InodeLemmas Img.Domain Img.ReadProofs Img.Total.
From SqfsV Require Import Image.FinishModel Image.ReaderModel Image.ValidModel Image.FinishProofs Image.ExportInv
  Image.ImageProofs.
From SqfsV Require Import ImgXattr.XattrRead.
From SqfsV Require Import ImgValid.ValidFull ImgValid.Fast ImgValid.Inodes ImgValid.Layout.
Import ListNotations.
Local Open Scope N_scope.

(* ---- the tree-level statements ---- *)
Definition children_of (n : fnode) : list (list N * N) :=
  match fn_payload n with PDir _ ch => ch | _ => [] end.

Definition all_children (t : fstree) : list (list N * N) := flat_map children_of t.

Definition refs_to (t : fstree) (c : N) : N := lenN (filter (fun e => snd e =? c) (all_children t)).

Record tree_dirs (t : fstree) : Prop := {
  tl_dir : forall j n par ch, nth_error t j = Some n -> fn_payload n = PDir par ch ->
      fn_nlink n = 2 + nlen ch /\
      forall nm c cn par' ch', In (nm, c) ch -> get t c = Some cn -> fn_payload cn = PDir par' ch' ->
                               par' = N.of_nat j + 1;
  tl_linked : forall j, (S j < length t)%nat -> In (N.of_nat j + 1) (kids_upto t (length t))
}.

(* the link count of every node that is not a directory is the number of entries that name it *)
Definition tree_nlinks (t : fstree) : Prop :=
  forall j n, nth_error t j = Some n -> (forall par ch, fn_payload n <> PDir par ch) ->
    fn_nlink n = refs_to t (N.of_nat j + 1).

(* ---- small lemmas ---- *)
Lemma lview_fields ids i ino n :
  lview_of_inode ids i = lview_of_fnode ino n ->
  ib_mode (i_base i) = fn_mode n /\ ib_ino (i_base i) = ino /\ nlink_of (i_body i) = fn_nlink n /\
  get_xattr_index (i_body i) = fn_xattr n /\ lkind_of_body (i_body i) = lkind_of_payload (fn_payload n).
Proof. unfold lview_of_inode, lview_of_fnode. intro H. injection H as A _ _ _ B C D E. repeat split; assumption. Qed.

Lemma parent_of_lkind b p : lkind_of_body b = LDir p -> parent_of b = Some p.
Proof. destruct b; cbn; intro H; try discriminate; injection H as <-; reflexivity. Qed.

Lemma dir_type_payload m p :
  get_type m = Some c_SQFS_INODE_DIR -> N.land m c_S_IFMT = payload_fmt p -> exists par ch, p = PDir par ch.
Proof.
  unfold get_type. cbv zeta. intros G E.
  change (N.land m C03.GenC03.c_S_IFMT) with (N.land m C01.GenC01.c_S_IFMT) in G. rewrite E in G.
  destruct p as [par ch|b|tg|[]|[]]; [eauto| | | | | |]; vm_compute in G; discriminate.
Qed.

Lemma ref_of_nth' refs j r : nth_error refs j = Some r -> ref_of refs (N.of_nat j + 1) = r.
Proof.
  intro H. unfold ref_of. replace (N.to_nat (N.of_nat j + 1 - 1)) with j by lia.
  apply nth_error_nth. exact H.
Qed.

Lemma forallb_nth {A} (f : A -> bool) (l : list A) :
  (forall j x, nth_error l j = Some x -> f x = true) -> forallb f l = true.
Proof.
  intro H. apply forallb_forall. intros x Hx. destruct (In_nth_error _ _ Hx) as [j Hj]. exact (H j x Hj).
Qed.

Lemma Forall2_in_r {A B} (R : A -> B -> Prop) l1 l2 y : Forall2 R l1 l2 -> In y l2 -> exists x, In x l1 /\ R x y.
Proof.
  induction 1 as [|a b l1 l2 Hab _ IH]; intro Hin; [destruct Hin|].
  destruct Hin as [<-|Hin]; [exists a; split; [left; reflexivity|exact Hab]|].
  destruct (IH Hin) as (x & Hx & Rx). exists x. split; [right; exact Hx|exact Rx].
Qed.

Lemma Forall2_app' {A B} (R : A -> B -> Prop) a1 b1 a2 b2 :
  Forall2 R a1 b1 -> Forall2 R a2 b2 -> Forall2 R (a1 ++ a2) (b1 ++ b2).
Proof. induction 1; intro H2; [exact H2|]. cbn [app]. constructor; [assumption|]. apply IHForall2. exact H2. Qed.

Lemma filter_rel_len {A B} (R : A -> B -> Prop) (f : A -> bool) (g : B -> bool) l1 l2 :
  Forall2 R l1 l2 -> (forall a b, R a b -> f a = g b) -> length (filter f l1) = length (filter g l2).
Proof.
  intros F H. induction F as [|a b l1 l2 Hab _ IH]; [reflexivity|].
  cbn [filter]. rewrite (H a b Hab). destruct (g b); cbn [length]; congruence.
Qed.

Section CL.
  Variable compress : list N -> cres.
  Variable uncompress : list N -> option (list N).
  Hypothesis compress_ok :
    forall b c, compress b = CData c -> lenN c <= lenN b /\ uncompress c = Some b.
  Variable duncompress : list N -> nat -> option (list N).
  Variable limit : N.
  Hypothesis limit_ok : limit <= 65535.
  Variable cfg : wcfg.
  Variable inp : winput.
  Variable w : wimage.
  Hypothesis Hw : write_image compress limit cfg inp = Ok w.
  Hypothesis Hdom : image_domain cfg inp = true.
  Hypothesis Hfit : image_fits w = true.

  Let sf := w_super w.
  Let img := w_img w.
  Let t := in_tree inp.
  Let bs := c_block_size cfg.
  Let imgb := image_bytes w.
  Let lo := SBN + lenN (in_opts inp).
  Let hi := SuperModel.s_inode_start sf.
  Let frags3 := map (fun f : N * N => (fst f, snd f, 0)) (in_frags inp).

  Definition data_ok : Prop :=
    exists flens, frag_lens duncompress imgb lo hi bs frags3 = Some flens /\
      forall n b, In n t -> fn_payload n = PFile b -> file_ok duncompress imgb lo hi bs flens (lkind_of_body b) = true.

  Definition xattr_ok : Prop :=
    forall n, In n t -> fn_xattr n = NOX \/ fn_xattr n < xattr_count uncompress imgb sf.

  Hypothesis Hdata : data_ok.
  Hypothesis Hxattr : xattr_ok.
  Hypothesis Hdirs : tree_dirs t.

  Let refs := si_refs img.
  Let dtbl := si_dtbl img.

  Lemma rep : representable bs t = true.
  Proof. destruct (dom_facts cfg inp Hdom) as (R & _). exact R. Qed.

  Lemma node_mode n : In n t -> N.land (fn_mode n) c_S_IFMT = payload_fmt (fn_payload n).
  Proof.
    intro Hn. destruct (In_nth_error _ _ Hn) as [j Hj].
    destruct (repr_facts bs t rep) as (_ & _ & _ & _ & F).
    destruct (fnode_okb_facts _ _ _ _ (F j n Hj)) as [M _ _ _ _ _ _].
    apply land_fmt; [apply payload_fmt_in|exact M].
  Qed.

  (* what the scan shows of one node, without its index *)
  Definition Q (bt : list (N * N * N)) (sl : list (N * inode)) (p : N * inode) (n : fnode) : Prop :=
    exists ino,
      lview_of_inode (si_ids img) (snd p) = lview_of_fnode ino n /\
      (tree_nlinks t -> (forall par ch, fn_payload n <> PDir par ch) -> fn_nlink n = refs_to t ino) /\
      match fn_payload n with
      | PDir par ch =>
          (exists ents sb off sz,
             dir_loc (i_body (snd p)) = Some (sb, off, sz) /\
             read_listing uncompress dtbl sb off sz = Some ents /\
             Forall2 (ent_rel t refs) ch ents) /\
          fn_nlink n = 2 + nlen ch /\
          forall nm c cn par' ch', In (nm, c) ch -> get t c = Some cn -> fn_payload cn = PDir par' ch' -> par' = ino
      | _ => dir_loc (i_body (snd p)) = None
      end.

  (* one directory with its listing, as v_links sees it *)
  Definition D (d : inode * list dent) : Prop :=
    exists n ino par ch,
      In n t /\ lview_of_inode (si_ids img) (fst d) = lview_of_fnode ino n /\ fn_payload n = PDir par ch /\
      Forall2 (ent_rel t refs) ch (snd d) /\ fn_nlink n = 2 + nlen ch /\
      forall nm c cn par' ch', In (nm, c) ch -> get t c = Some cn -> fn_payload cn = PDir par' ch' -> par' = ino.

  Lemma dir_listings_spec bt sl0 : forall sl ns,
    Forall2 (Q bt sl0) sl ns -> (forall n, In n ns -> In n t) ->
    exists dirs,
      dir_listings uncompress dtbl sl = Some dirs /\ Forall D dirs /\
      Forall2 (ent_rel t refs) (flat_map children_of ns) (concat (map snd dirs)).
  Proof.
    induction 1 as [|[o i] n sl ns Hq _ IH]; intro Hin.
    - exists []. split; [reflexivity|]. split; constructor.
    - destruct IH as (dirs & E & FD & FE); [intros m Hm; apply Hin; right; exact Hm|].
      destruct Hq as (ino & LV & _ & Hp). cbn [snd] in LV, Hp.
      cbn [dir_listings flat_map]. unfold children_of at 1.
      destruct (fn_payload n) as [par ch|b|tg|c d|s] eqn:Pn.
      2-5: rewrite Hp; exists dirs; split; [exact E|]; split; [exact FD|exact FE].
      destruct Hp as ((ents & sb & off & sz & DL & RL & Rel) & NL & PA).
      rewrite DL, RL, E. exists ((i, ents) :: dirs). split; [reflexivity|]. split.
      + constructor; [|exact FD]. exists n, ino, par, ch. cbn [fst snd].
        split; [apply Hin; left; reflexivity|]. repeat split; assumption.
      + cbn [map snd concat]. apply Forall2_app'; assumption.
  Qed.

  Lemma dir_links_D bt sl :
    (forall c r j n, nth_error t j = Some n -> c = N.of_nat j + 1 -> r = ref_of refs c ->
                     exists o i, resolve bt sl r = Some i /\ nth_error sl j = Some (o, i) /\
                                 lview_of_inode (si_ids img) i = lview_of_fnode c n) ->
    forall d, D d -> dir_links_ok bt sl d = true.
  Proof.
    intros RES [i ents] (n & ino & par & ch & Hn & LV & Pn & Rel & NL & PA). cbn [fst snd] in *.
    destruct (lview_fields _ _ _ _ LV) as (_ & Ei & En & _ & _).
    unfold dir_links_ok. rewrite En, NL.
    assert (Len : nlen ch = lenN ents) by (unfold nlen, lenN; rewrite (Forall2_len _ _ _ Rel); reflexivity).
    rewrite Len, N.eqb_refl. cbn [orb andb].
    apply forallb_forall. intros e He.
    destruct (is_dir_ent e) eqn:De; [|reflexivity].
    destruct (Forall2_in_r _ _ _ _ Rel He) as ([nm c] & Hc & E1 & E2 & E3 & tgt & G & Ty). cbn [fst snd] in *.
    unfold is_dir_ent in De. apply N.eqb_eq in De. rewrite De in Ty.
    pose proof G as G'. apply get_nth in G'. destruct G' as [Hc1 G'].
    assert (Ht : In tgt t) by (eapply nth_error_In; exact G').
    destruct (dir_type_payload _ _ Ty (node_mode tgt Ht)) as (par' & ch' & Pt).
    pose proof (PA nm c tgt par' ch' Hc G Pt) as Ep. subst par'.
    destruct (RES c (de_ref e) (N.to_nat (c - 1)) tgt G' ltac:(lia) E3) as (o & ic & Rs & _ & LVc).
    rewrite Rs. destruct (lview_fields _ _ _ _ LVc) as (_ & _ & _ & _ & Lk). rewrite Pt in Lk. cbn [lkind_of_payload] in Lk.
    rewrite (parent_of_lkind _ _ Lk), Ei. apply N.eqb_refl.
  Qed.

  (* what both parts start from *)
  Lemma scan_facts :
    exists bt sl dirs,
      inodes_of uncompress imgb sf = Some (bt, sl) /\ tables_of imgb sf = Some (si_itbl img, dtbl) /\
      length sl = length t /\
      (forall j n, nth_error t j = Some n -> inode_view uncompress inp w bt sl j n) /\
      (forall j p, nth_error sl j = Some p -> exists n, nth_error t j = Some n /\ inode_view uncompress inp w bt sl j n) /\
      dir_listings uncompress dtbl sl = Some dirs /\ Forall D dirs /\
      Forall2 (ent_rel t refs) (all_children t) (concat (map snd dirs)) /\
      Forall2 (Q bt sl) sl t.
  Proof.
    destruct (inodes_written compress uncompress compress_ok limit limit_ok cfg inp w Hw Hdom Hfit)
      as (bt & sl & IO & Lsl & Lrefs & IV).
    assert (PER : forall j p, nth_error sl j = Some p ->
              exists n, nth_error t j = Some n /\ inode_view uncompress inp w bt sl j n).
    { intros j p Hp. assert (Hj : (j < length t)%nat) by (unfold t; rewrite <- Lsl; apply nth_error_Some; congruence).
      destruct (nth_error t j) as [n|] eqn:En; [|apply nth_error_None in En; lia].
      exists n. split; [reflexivity|]. apply IV. exact En. }
    assert (FQ : Forall2 (Q bt sl) sl t).
    { apply Forall2_of_nth; [exact Lsl|]. intros j p n Hp Hn.
      destruct (IV j n Hn) as (o & i & r & Hs & Hr & RO & RS & LV & DP).
      rewrite Hp in Hs. injection Hs as ->. exists (N.of_nat j + 1). cbn [snd].
      split; [exact LV|]. split; [intros NLK C2; exact (NLK j n Hn C2)|].
      destruct (fn_payload n) as [par ch|b|tg|c d|s] eqn:Pn; try exact DP.
      split; [exact DP|]. exact (tl_dir t Hdirs j n par ch Hn Pn). }
    destruct (dir_listings_spec bt sl sl t FQ (fun n H => H)) as (dirs & DLs & FD & FE).
    exists bt, sl, dirs. split; [exact IO|].
    split; [exact (tables_ok compress uncompress compress_ok limit limit_ok cfg inp w Hw Hdom Hfit)|].
    split; [exact Lsl|]. split; [exact IV|]. split; [exact PER|]. split; [exact DLs|]. split; [exact FD|].
    split; [exact FE|exact FQ].
  Qed.

  Theorem valid_core_written : valid_core uncompress duncompress imgb sf = true.
  Proof.
    destruct scan_facts as (bt & sl & dirs & IO' & TB & Lsl & IV & PER & DLs & FD & FE & FQ).
    assert (FR : read_frags uncompress imgb sf = Some frags3)
      by exact (frags_roundtrip_l compress uncompress compress_ok limit limit_ok cfg inp w Hw Hdom Hfit).
    assert (DS : data_start uncompress imgb sf = lo)
      by exact (data_start_written compress uncompress compress_ok limit limit_ok cfg inp w Hw Hdom).
    assert (BS : SuperModel.s_block_size sf = bs).
    { destruct (fixed_fields compress uncompress compress_ok limit limit_ok cfg inp w Hw Hdom) as (_ & _ & _ & M4 & _).
      exact M4. }
    unfold valid_core. rewrite IO', TB, FR, DS, BS. fold hi.
    destruct Hdata as (flens & FL & FO). rewrite FL.
    assert (EXP : exists ex, read_export uncompress imgb sf = Some ex /\ v_export bt sl ex = true).
    { destruct (export_roundtrip_l compress uncompress compress_ok limit limit_ok cfg inp w Hw Hdom Hfit)
        as [(_ & _ & RE)|(_ & l & _ & RE & Ll & _ & K2)].
      - exists None. split; [exact RE|reflexivity].
      - exists (Some l). split; [exact RE|]. cbn [v_export]. unfold export_ok. apply forallb_nth. intros j p Hp.
        destruct (PER j p Hp) as (n & Hn & o & i & r & Hs & Hr & RO & _ & LV & _).
        rewrite Hp in Hs. injection Hs as ->. cbn [fst snd].
        destruct (lview_fields _ _ _ _ LV) as (_ & Ei & _). rewrite Ei.
        assert (Hj : (j < length t)%nat) by (apply nth_error_Some; congruence).
        replace (N.to_nat (N.of_nat j + 1 - 1)) with j by lia.
        assert (Hjl : (j < length l)%nat) by (fold t in Ll; unfold lenN, nlen in Ll; lia).
        rewrite (nth_error_nth' l U64MAX Hjl).
        assert (Ev : nth j l U64MAX = r).
        { specialize (K2 (N.of_nat j + 1)). replace (N.to_nat (N.of_nat j + 1 - 1)) with j in K2 by lia.
          fold t img in K2. rewrite K2; [apply (ref_of_nth' _ _ _ Hr)|].
          destruct (Nat.eq_dec (S j) (length t)) as [E|E]; [left; unfold nlen; lia|right].
          apply (tl_linked t Hdirs). lia. }
        rewrite Ev, RO, N.eqb_refl. destruct (N.leb_spec 1 (N.of_nat j + 1)); [reflexivity|lia]. }
    destruct EXP as (ex & RE & VE). rewrite RE, VE.
    assert (VD : v_data duncompress imgb lo hi bs flens sl = true).
    { unfold v_data. apply forallb_nth. intros j p Hp.
      destruct (PER j p Hp) as (n & Hn & o & i & r & Hs & _ & _ & _ & LV & _).
      rewrite Hp in Hs. injection Hs as ->. cbn [snd].
      destruct (lview_fields _ _ _ _ LV) as (_ & _ & _ & _ & Lk). rewrite Lk.
      destruct (fn_payload n) as [par ch|b|tg|c d|s] eqn:Pn; cbn [lkind_of_payload]; try reflexivity.
      apply (FO n b); [eapply nth_error_In; exact Hn|exact Pn]. }
    rewrite VD.
    assert (VX : xattr_idx_ok (xattr_count uncompress imgb sf) sl = true).
    { unfold xattr_idx_ok. apply forallb_nth. intros j p Hp.
      destruct (PER j p Hp) as (n & Hn & o & i & r & Hs & _ & _ & _ & LV & _).
      rewrite Hp in Hs. injection Hs as ->. cbn [snd].
      destruct (lview_fields _ _ _ _ LV) as (_ & _ & _ & Ex & _). rewrite Ex.
      destruct (Hxattr n (nth_error_In _ _ Hn)) as [->|Hlt]; [reflexivity|].
      apply orb_true_iff. right. apply N.ltb_lt. exact Hlt. }
    rewrite VX, DLs. cbn [andb].
    unfold v_dir_links. apply forallb_forall. intros d Hd. apply dir_links_D.
    - intros c r j n Hn -> ->. destruct (IV j n Hn) as (o & i & r & Hs & Hr & RO & RS & LV & _).
      exists o, i. unfold refs, img. rewrite (ref_of_nth' _ _ _ Hr). repeat split; assumption.
    - rewrite Forall_forall in FD. apply FD. exact Hd.
  Qed.

  Hypothesis Hnl : tree_nlinks t.

  Theorem valid_nlinks_written : valid_nlinks uncompress imgb sf = true.
  Proof.
    destruct scan_facts as (bt & sl & dirs & IO' & TB & Lsl & IV & PER & DLs & FD & FE & FQ).
    unfold valid_nlinks. rewrite IO', TB, DLs.
    unfold nondir_links_ok. apply forallb_nth. intros j p Hp.
    destruct (PER j p Hp) as (n & Hn & o & i & r & Hs & _ & _ & _ & LV & DP).
    rewrite Hp in Hs. injection Hs as ->. cbn [snd].
    destruct (lview_fields _ _ _ _ LV) as (_ & Ei & En & _ & _).
    destruct (fn_payload n) as [par ch|b|tg|c d|s] eqn:Pn.
    { destruct DP as (ents & sb & off & sz & DL & _). rewrite DL. reflexivity. }
    all: rewrite DP, En, Ei.
    all: rewrite (Hnl j n Hn) by (rewrite Pn; intros; discriminate).
    all: apply N.eqb_eq; unfold refs_to, count_refs, lenN; f_equal.
    all: apply (filter_rel_len (ent_rel t refs) _ _ _ _ FE); intros [nm0 c0] e0 (_ & E2 & _); cbn [snd] in *; rewrite E2; reflexivity.
  Qed.

  Theorem valid_refs_written : valid_refs uncompress duncompress imgb sf = true.
  Proof. exact (valid_refs_split _ _ _ _ valid_core_written valid_nlinks_written). Qed.
End CL.
