(* ImgValid — non-vacuity: valid_image_full computes to true on the images of two concrete packing runs (the instance
   of ImgE2E/Example.v — two files sharing a data block and a fragment, a hard link, three xattr sets — with the
   zero-run-length metadata compressor, and the same run with a metadata compressor that never compresses, so that
   every inode field sits at a known byte position), and to false on byte-patched variants of the second image, each
   violating one of the new clauses. *)
From Coq Require Import List NArith ZArith Bool.
From SqfsV Require Import Base.Bytes Gen.Constants C03.Common.
From SqfsV Require Import C01.GenC01 C01.InodeModel Img.TreeModel.
From SqfsV Require Import C08.DedupModel C08.DedupTheorems.
From SqfsV Require Import Image.FinishModel Image.ReaderModel Image.ValidModel.
From SqfsV Require Import ImgE2E.PackAll ImgE2E.Hyps ImgE2E.Example.
From SqfsV Require Import ImgValid.ValidFull.
Import ListNotations.
Local Open Scope N_scope.

(* the run of ImgE2E/Example.v with uncompressed metadata *)
Definition ex_run0 : pres :=
  pack_all const_hash toy_compress toy_uncompress ex_half (img_compress 0) c_id_table_limit ex_cfg ex_pi.

Definition patch (pos : N) (b : list N) (img : list N) : list N :=
  takeN pos img ++ b ++ dropN (pos + lenN b) img.

Definition vfull (mode : N) (img : list N) : bool * N :=
  (valid_image_full (img_uncompress mode) toy_uncompress 4096 img,
   first_failure_full (img_uncompress mode) toy_uncompress 4096 img).

(* the decidable hypotheses of pack_all_image_valid hold of both runs and the validator accepts both images *)
Example ex_full_valid :
  match ex_run, ex_run0 with
  | PDone r, PDone r0 =>
      e2e_okb ex_half ex_cfg ex_pi r = true /\ e2e_okb ex_half ex_cfg ex_pi r0 = true /\
      vfull 3 (image_bytes (r_w r)) = (true, 0) /\ vfull 0 (image_bytes (r_w r0)) = (true, 0)
  | _, _ => False
  end.
Proof. vm_compute. repeat split; reflexivity. Qed.

(* the second image: inode table = one uncompressed metadata block at byte 105 (content from 107); inode 1 (d/a, an
   extended file inode: blocks_start 96, size 4101, link count 2, fragment 0 offset 0, xattr index 0, one size word 4) starts
   at stream offset 0: blocks_start at 107 + 16, nlink + 40, fragment index + 44, xattr index + 52, size word + 56; fragment
   table entry (100, 5 | 1 << 24) in the block at 369 (content from 371); export table block at 395 (content from 397);
   one fragment entry, three xattr sets.  Each patch below makes exactly one clause fail (second component: the number
   first_failure_full reports). *)
Example ex_full_corrupted :
  match ex_run0 with
  | PDone r0 =>
      let b := image_bytes (r_w r0) in
      rd32 (dropN 163 b) = 4 /\ rd32 (dropN 151 b) = 0 /\ rd32 (dropN 159 b) = 0 /\ rd32 (dropN 147 b) = 2 /\
      rd64 (dropN 123 b) = 96 /\ rd64 (dropN 371 b) = 100 /\ rd32 (dropN 379 b) = 16777221 /\
      (* a size word above the block size (4097, compressed) *)
      vfull 0 (patch 163 (le32 4097) b) = (false, 14) /\
      (* the size word's "uncompressed" bit set: 4 stored bytes are not a whole block *)
      vfull 0 (patch 163 (le32 16777220) b) = (false, 14) /\
      (* the stored size one byte longer: the block no longer decompresses *)
      vfull 0 (patch 163 (le32 5) b) = (false, 14) /\
      (* blocks_start inside the super block *)
      vfull 0 (patch 123 (le64 90) b) = (false, 14) /\
      (* fragment index = number of fragment entries *)
      vfull 0 (patch 151 (le32 1) b) = (false, 14) /\
      (* fragment offset 1: offset + tail size exceeds the 5 byte fragment block *)
      vfull 0 (patch 155 (le32 1) b) = (false, 14) /\
      (* fragment entry: start in the inode table / stored size 6 (beyond the data area) *)
      vfull 0 (patch 371 (le64 200) b) = (false, 13) /\
      vfull 0 (patch 379 (le32 16777222) b) = (false, 13) /\
      (* xattr index = number of sets *)
      vfull 0 (patch 159 (le32 3) b) = (false, 15) /\
      (* export table: slot 0 names the second inode *)
      vfull 0 (patch 397 (le64 60) b) = (false, 16) /\
      (* link count of a file 2 -> 3 *)
      vfull 0 (patch 147 (le32 3) b) = (false, 18)
  | _ => False
  end.
Proof. vm_compute. repeat split; reflexivity. Qed.

(* directory clauses of v_links: the link count of the root (basic directory inode at stream offset 159: nlink at + 20,
   parent at + 28) and the parent number of directory d (inode 3 at stream offset 96) *)
Example ex_full_corrupted_dirs :
  match ex_run0 with
  | PDone r0 =>
      let b := image_bytes (r_w r0) in
      rd32 (dropN (107 + 159 + 20) b) = 5 /\ rd32 (dropN (107 + 96 + 28) b) = 5 /\
      vfull 0 (patch (107 + 159 + 20) (le32 6) b) = (false, 17) /\
      vfull 0 (patch (107 + 96 + 28) (le32 4) b) = (false, 17)
  | _ => False
  end.
Proof. vm_compute. repeat split; reflexivity. Qed.

(* ---- tar2sqfs: the instance of ImgTarFull/Example.v (a directory with xattrs, a regular file with two pairs, a hard link
   record, a sparse file, a symbolic link) meets the hypotheses of tar2sqfs_image_valid and its image is accepted ---- *)
From SqfsV Require ImgTarFull.Example.
From SqfsV Require Import ImgTar.Model ImgTarFull.Model ImgTarFull.Bridge.
Example ex_full_valid_tar :
  tree_shapeb ImgTarFull.Example.fx_vs = true /\
  match ImgTarFull.Example.fx_t2s ImgTarFull.Example.fx_vs with
  | PDone r =>
      ImgTarFull.Example.fx_okb ImgTarFull.Example.fx_vs r = true /\
      vfull 3 (image_bytes (r_w r)) = (true, 0)
  | _ => False
  end.
Proof. vm_compute. repeat split; reflexivity. Qed.
