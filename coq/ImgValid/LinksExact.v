(* ImgValid — fs->links_unresolved holds every hard link node EXACTLY once and nothing else (ImgPost.TreeInv.links_queued
   is the "every" half), and fstree_resolve_hard_links records one (link, target) pair per element of that list. *)
From Coq Require Import List NArith ZArith Bool Lia Permutation.
From SqfsV Require Import C11.StrOrder C11.FstreeModel C11.PostModel C11.TreeProofs C11.PostProofs.
From SqfsV Require Import ImgPost.Bridge ImgPost.TreeInv.
From SqfsV Require Import ImgScan.AddLookup.
Import ListNotations.

Definition links_exact (root : tnode) (unres : list path) : Prop :=
  NoDup unres /\ forall l, In l unres -> exists nd, lookup_path l root = Some nd /\ is_hardlink nd = true.

Lemma init_links_exact d : links_exact (fs_root (fs_init d)) (fs_unres (fs_init d)).
Proof. split; [constructor|intros l []]. Qed.

Lemma fs_add_links_exact d fs e x fs' :
  links_exact (fs_root fs) (fs_unres fs) -> fs_add d fs e x = Some fs' -> links_exact (fs_root fs') (fs_unres fs').
Proof.
  intros [ND Q] H. unfold fs_add in H.
  destruct (add_generic d (fs_root fs) e x) as [r|] eqn:A; [|discriminate]. injection H as <-. cbn [fs_root fs_unres].
  unfold add_generic in A.
  destruct (ftype_eqb (e_type e) FLnk && match x with None => true | Some _ => false end); [discriminate|].
  (* the old hard links are where they were *)
  assert (Old : forall l, In l (fs_unres fs) -> exists nd, lookup_path l r = Some nd /\ is_hardlink nd = true).
  { intros l Hl. destruct (Q l Hl) as (nd & L & Hh). exists nd. split; [|exact Hh].
    destruct (e_path e) as [|c pth] eqn:P.
    - destruct (fill_dir_shape _ _ _ A) as (_ & C1 & D1 & D0).
      destruct l as [|c' l'].
      + cbn in L. injection L as <-. apply hardlink_not_dir in Hh. congruence.
      + rewrite (lookup_same_children (c' :: l') (fs_root fs) r C1); [exact L|congruence|discriminate].
    - exact (add_path_keeps_link d _ _ _ _ _ A l nd L Hh). }
  destruct (e_hard e && is_none (lookup_path (e_path e) (fs_root fs))) eqn:G; [|split; [exact ND|exact Old]].
  apply andb_true_iff in G. destruct G as [G1 G2].
  assert (LN : lookup_path (e_path e) (fs_root fs) = None) by (destruct (lookup_path (e_path e) (fs_root fs)); [discriminate|reflexivity]).
  split.
  - constructor; [|exact ND]. intro Hin. destruct (Q _ Hin) as (nd & L & _). congruence.
  - intros l [<-|Hl]; [|exact (Old l Hl)].
    destruct (e_path e) as [|c pth] eqn:P; [cbn in LN; discriminate|].
    destruct (add_path_new d _ _ _ _ _ A LN) as (nd & L & MK). exists nd. split; [exact L|].
    rewrite (mknode_hard _ _ _ _ MK). exact G1.
Qed.

Lemma run_adds_links_exact d : forall ops fs fs',
  links_exact (fs_root fs) (fs_unres fs) -> run_adds d fs ops = Some fs' -> links_exact (fs_root fs') (fs_unres fs').
Proof.
  induction ops as [|[e x] r IH]; intros fs fs' Q H; cbn [run_adds] in H.
  - injection H as <-. exact Q.
  - destruct (fs_add d fs e x) as [fs1|] eqn:A; [|discriminate].
    eapply IH; [|exact H]. eapply fs_add_links_exact; eauto.
Qed.

(* one pair per queued link, most recently resolved first *)
Lemma resolve_all_fst root : forall l st st',
  resolve_all root l st = POk st' -> map fst (rs_res st') = rev l ++ map fst (rs_res st).
Proof.
  induction l as [|p r IH]; intros st st' H; cbn [resolve_all] in H.
  - injection H as <-. reflexivity.
  - destruct (lookup_path p root) as [sn|]; [|discriminate].
    destruct (resolve_walk (S (tree_size root)) root (rs_res st) p p sn) as [t| |]; try discriminate.
    rewrite (IH _ _ H). cbn [rs_res map fst rev]. rewrite <- app_assoc. reflexivity.
Qed.

(* ---- counting ---- *)
Lemma assoc_path_nodup : forall (m : list (path * path)) l t,
  NoDup (map fst m) -> In (l, t) m -> assoc_path l m = Some t.
Proof.
  induction m as [|[q u] r IH]; intros l t ND Hin; [destruct Hin|].
  cbn [map fst] in ND. inversion ND as [|? ? Hq ND']; subst. cbn [assoc_path].
  destruct Hin as [E|Hin].
  - injection E as -> ->. rewrite path_eqb_refl. reflexivity.
  - destruct (path_eqb q l) eqn:E; [|exact (IH l t ND' Hin)].
    apply path_eqb_eq in E. subst q. exfalso. apply Hq. apply in_map_iff. exists (l, t). split; [reflexivity|exact Hin].
Qed.

Definition to_p (p : path) (o : option path) : bool :=
  match o with Some t => path_eqb t p | None => false end.

(* the number of link_count++ for p = the number of resolved links whose target is p *)
Lemma count_path_assoc (m : list (path * path)) p :
  NoDup (map fst m) ->
  count_path p (map snd m) = N.of_nat (length (filter (fun l => to_p p (assoc_path l m)) (map fst m))).
Proof.
  intro ND.
  assert (G : forall r, (forall e, In e r -> In e m) ->
            count_path p (map snd r) = N.of_nat (length (filter (fun l => to_p p (assoc_path l m)) (map fst r)))).
  { induction r as [|[l t] r IH]; intro Sub; [reflexivity|].
    cbn [map fst snd count_path filter].
    rewrite (assoc_path_nodup m l t ND (Sub _ (or_introl eq_refl))). cbn [to_p].
    rewrite IH by (intros e He; apply Sub; right; exact He).
    destruct (path_eqb t p); cbn [length]; lia. }
  apply G. auto.
Qed.

Lemma filter_length_perm {A} (f : A -> bool) l1 l2 : Permutation l1 l2 -> length (filter f l1) = length (filter f l2).
Proof.
  induction 1 as [|x l1 l2 _ IH|x y l|l1 l2 l3 _ IH1 _ IH2]; cbn [filter]; try reflexivity.
  - destruct (f x); cbn [length]; congruence.
  - destruct (f x); destruct (f y); reflexivity.
  - congruence.
Qed.
