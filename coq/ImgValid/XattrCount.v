(* ImgValid — the number of entries the validator reads from the xattr id table of a written image (ValidFull.xattr_count)
   is the number of distinct key-value blocks of the xattr writer whose flush produced the section, whenever that
   number is not zero.  (From the same layer lemmas as ImgXattr.ImageXattr.image_xattr_roundtrip_l.) *)
From Coq Require Import List NArith ZArith Bool Lia ZifyBool ZifyNat ZifyN.
From SqfsV Require Import Base.Bytes Gen.Constants C03.Common C03.ListN C03.MetaModel C03.MetaProofs.
From SqfsV Require C14.SuperModel.
From SqfsV Require Import C01.GenC01 C01.Res C01.XattrModel C01.XattrProofs C01.XattrWriterProofs.
From SqfsV Require Import Image.FinishModel Image.ReaderModel Image.ValidModel Image.FinishProofs Image.ImageProofs.
From SqfsV Require Import ImgXattr.FlushModel ImgXattr.CodecRel ImgXattr.FlushShape ImgXattr.XattrRead ImgXattr.SectionProofs
  ImgXattr.ImageXattr.
From SqfsV Require Import ImgValid.ValidFull.
Import ListNotations.
Local Open Scope N_scope.

Section XC.
  Variable compress : list N -> cres.
  Variable uncompress : list N -> option (list N).
  Hypothesis compress_ok :
    forall b c, compress b = CData c -> lenN c <= lenN b /\ uncompress c = Some b.
  Variable limit : N.
  Hypothesis limit_ok : limit <= 65535.
  Variable cfg : wcfg.
  Variable inp : winput.
  Variable w : wimage.
  Hypothesis Hw : write_image compress limit cfg inp = Ok w.
  Hypothesis Hdom : image_domain cfg inp = true.
  Hypothesis Hfit : image_fits w = true.
  Variable xw : xwr.
  Hypothesis Hx : xflush compress (o_xattr w) xw = Ok (in_xattr inp).
  Hypothesis Hcount : nlen (x_blocks xw) < 4294967296.
  Hypothesis Hbne : blocks_ne xw.
  Hypothesis Hnox : c_no_xattr cfg = false.

  Theorem xattr_count_written :
    x_blocks xw <> [] -> xattr_count uncompress (image_bytes w) (w_super w) = nlen (x_blocks xw).
  Proof.
    intro NE.
    assert (EX0 : exists xb off, in_xattr inp = Some (xb, off)).
    { pose proof Hx as Hx'. destruct (in_xattr inp) as [[xb off]|]; [eauto|].
      exfalso. apply NE. apply (xflush_none compress (o_xattr w) xw Hbne). exact Hx'. }
    destruct EX0 as (xb & off & EX).
    destruct (write_image_shape compress limit cfg inp w Hw) as (dwr & f1 & f2 & _ & _ & _ & _ & _ & XW & _).
    rewrite EX, Hnox in XW. unfold xattr_write in XW. injection XW as EB ES _.
    pose proof (lay compress uncompress compress_ok limit limit_ok cfg inp w Hw Hdom Hfit) as LAY.
    destruct (il_used _ _ _ _ LAY) as [U _].
    assert (EX' : in_xattr inp = Some (w_xattrb w, off)) by (rewrite EX, EB; reflexivity).
    destruct (section_shape compress uncompress compress_ok inp w xw Hx off EX') as (kvr & idr & descs & SH).
    pose proof (pre_len compress uncompress compress_ok limit limit_ok cfg inp w Hw Hdom) as PL.
    pose proof (used64 compress uncompress compress_ok limit limit_ok cfg inp w Hw Hdom Hfit) as U64.
    unfold xattr_count. rewrite (img_eq compress limit cfg inp w Hw).
    rewrite (xs_present compress uncompress compress_ok _ _ _ _ _ _ _ SH _ (w_super w) PL (eq_sym ES) U U64 Hcount).
    rewrite (read_xattr_table_written compress uncompress compress_ok _ _ _ _ _ _ _ SH _ _ (w_super w) PL
               (eq_sym ES) U U64 Hcount).
    reflexivity.
  Qed.
End XC.
