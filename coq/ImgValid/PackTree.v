(* ImgValid — the tree lib/fstree hands to sqfs_serialize_fstree (ImgPost.Bridge.to_img of a tree built by
   fstree_add_generic* and fstree_post_process) satisfies Clauses.tree_dirs:
     a directory's link count is 2 + the number of its entries (fstree_add_generic counts every child; no hard link is
       ever resolved to a directory: resolve_link fails with EPERM, so fstree_resolve_hard_links adds nothing),
     an entry that names a directory inode is that directory's own entry in its parent (a hard link entry names a
       non-directory), so the child's parent number is the listing directory's number,
     every node but the root is the child (not a hard link) of a directory that has a number itself.
   Also: which path a node of the tree stands for (node_of), used for the file payloads and the xattr indices. *)
From Coq Require Import List NArith ZArith Bool Arith Lia Sorted ZifyBool ZifyNat ZifyN.
From SqfsV Require Import C01.GenC01 C01.Res C01.InodeModel Img.TreeModel.
From SqfsV Require Import C11.StrOrder C11.FstreeModel C11.PostModel C11.OrderProofs C11.TreeProofs C11.PostProofs.
From SqfsV Require Import ImgPost.Bridge ImgPost.InputOk ImgPost.TreeInv ImgPost.ResolveInv ImgPost.ListPos
  ImgPost.AllocInv ImgPost.ReorderInv ImgPost.StructInv ImgPost.BridgeProofs.
From SqfsV Require Import Img.Domain Image.ExportInv.
From SqfsV Require Import ImgValid.Clauses.
Import ListNotations.
Local Open Scope N_scope.

(* the parent of a node found at q ++ [x] *)
Lemma lookup_snoc_inv : forall q x n nd,
  lookup_path (q ++ [x]) n = Some nd ->
  exists ndq, lookup_path q n = Some ndq /\ is_dir ndq = true /\ find_child x (node_children ndq) = Some nd.
Proof.
  induction q as [|b q IH]; intros x n nd L.
  - cbn [app lookup_path] in L. destruct (negb (is_dir n)) eqn:D; [discriminate|]. apply negb_false_iff in D.
    destruct (find_child x (node_children n)) as [y|] eqn:F; [|discriminate]. injection L as <-.
    exists n. split; [reflexivity|]. split; [exact D|exact F].
  - cbn [app lookup_path] in L |- *. destruct (negb (is_dir n)); [discriminate|].
    destruct (find_child b (node_children n)) as [y|]; [|discriminate]. apply IH. exact L.
Qed.

(* link_count++ happens once per resolved link, for its target *)
Lemma resolve_all_cnt root : forall l st st',
  rs_cnt st = map snd (rs_res st) -> resolve_all root l st = POk st' -> rs_cnt st' = map snd (rs_res st').
Proof.
  induction l as [|p r IH]; intros st st' E H; cbn [resolve_all] in H.
  - injection H as <-. exact E.
  - destruct (lookup_path p root) as [sn|]; [|discriminate].
    destruct (resolve_walk (S (tree_size root)) root (rs_res st) p p sn) as [t| |]; try discriminate.
    apply (IH (mkRs ((p, t) :: rs_res st) (t :: rs_cnt st)) st'); [cbn [rs_cnt rs_res map snd]; rewrite E; reflexivity|exact H].
Qed.

Lemma count_path_zero p l : (forall t, In t l -> t <> p) -> count_path p l = 0.
Proof.
  induction l as [|q r IH]; intro H; [reflexivity|]. cbn [count_path].
  destruct (path_eqb q p) eqn:E.
  - apply path_eqb_eq in E. exfalso. apply (H q); [left; reflexivity|exact E].
  - apply IH. intros t Ht. apply H. right. exact Ht.
Qed.

Lemma removelast_snoc {A} (l : list A) x : removelast (l ++ [x]) = l.
Proof. rewrite removelast_app by discriminate. cbn. apply app_nil_r. Qed.

Section PT.
  Variable bs : N.
  Variable d : fsdefaults.
  Variable ops : list op.
  Variable fs : fstree.
  Variable pp : ppout.
  Variable fb : path -> ibody.
  Variable xa : path -> N.
  Hypothesis Hin : input_okb bs d ops = true.
  Hypothesis Hrun : run_adds d (fs_init d) ops = Some fs.
  Hypothesis Hpost : post_process fs = POk pp.

  Let root0 := fs_root fs.
  Let root := pp_root pp.
  Let arr := pp_inodes pp.
  Let t := to_img fb xa pp.

  (* everything known about the post-processed tree, with ONE resolution state *)
  Record Post (st : rstate) : Prop := {
    po_res : resolve_all root0 (fs_unres fs) (mkRs [] []) = POk st;
    po_root : root = decorate st [] root0;
    po_files : pp_files pp = file_list [] root;
    po_inv : Inv root arr;
    po_pd : PD root arr (length arr)
  }.

  Lemma post : exists st, Post st.
  Proof.
    destruct (facts bs d ops fs pp Hin Hrun Hpost) as (st & R & Er & Ef & _ & I & P).
    exists st. constructor; assumption.
  Qed.

  Lemma wf0 : wf root0.
  Proof. exact (root0_wf bs d ops fs Hin Hrun). Qed.

  Lemma snames_root st : Post st -> snames root.
  Proof. intros [_ Er _ _ _]. rewrite Er. apply snames_decorate, wf_snames, wf0. Qed.

  (* the node a position of fs->inodes stands for *)
  Lemma at_pos st j p : Post st -> nth_error arr j = Some p ->
    exists nd0, lookup_path p root0 = Some nd0 /\ wf nd0 /\ lookup_path p root = Some (decorate st p nd0) /\
                is_hardlink nd0 = false /\ index_of p arr = Some j.
  Proof.
    intros [R Er _ I _] Hj.
    pose proof (inv_numbered _ _ I) as Nm. rewrite Forall_forall in Nm.
    destruct (Nm p (nth_error_In _ _ Hj)) as (nd & L & Hh).
    pose proof L as L'. rewrite Er in L'. destruct (lookup_decorate_root _ _ _ _ L') as (nd0 & L0 & ->).
    rewrite decorate_is_hardlink in Hh.
    exists nd0. split; [exact L0|]. split; [eapply wf_lookup; [exact wf0|exact L0]|]. split; [exact L|].
    split; [exact Hh|]. apply nth_index_nodup; [exact (inv_nodup _ _ I)|exact Hj].
  Qed.

  Lemma t_nth j n : nth_error t j = Some n -> exists p, nth_error arr j = Some p /\ n = node_img fb xa arr root p.
  Proof.
    unfold t, to_img. fold arr root. rewrite nth_error_map. destruct (nth_error arr j) as [p|]; [|discriminate].
    cbn. intro H. injection H as <-. exists p. split; reflexivity.
  Qed.

  Lemma ino_at j p : NoDup arr -> nth_error arr j = Some p -> ino_of arr p = N.of_nat j + 1.
  Proof. intros ND Hj. unfold ino_of. rewrite (nth_index_nodup arr j p ND Hj). lia. Qed.

  Lemma get_t c cn : get t c = Some cn -> exists k p, c = N.of_nat k + 1 /\ nth_error arr k = Some p /\ cn = node_img fb xa arr root p.
  Proof.
    intro G. apply get_nth in G. destruct G as [Hc G]. destruct (t_nth _ _ G) as (p & Hp & E).
    exists (N.to_nat (c - 1)), p. split; [lia|]. split; assumption.
  Qed.

  (* no hard link is resolved to a directory *)
  Lemma dir_count_zero st p nd0 : Post st -> lookup_path p root0 = Some nd0 -> is_dir nd0 = true ->
    count_path p (rs_cnt st) = 0.
  Proof.
    intros [R _ _ _ _] L D.
    rewrite (resolve_all_cnt root0 (fs_unres fs) (mkRs [] []) st eq_refl R).
    destruct (resolve_all_good root0 (fs_unres fs) (mkRs [] []) st (Forall_nil _) R) as (G & _ & _).
    apply count_path_zero. intros tg Ht E. subst tg. apply in_map_iff in Ht. destruct Ht as (e & Es & He).
    rewrite Forall_forall in G. destruct (G e He) as (ndt & Lt & _ & Dt). rewrite Es, L in Lt. injection Lt as <-.
    congruence.
  Qed.

  (* a node that is not a directory does not serialize as one *)
  Lemma node_img_nondir p nd :
    lookup_path p root = Some nd -> is_dir nd = false ->
    forall par' ch', fn_payload (node_img fb xa arr root p) <> PDir par' ch'.
  Proof.
    intros L D par' ch'. unfold node_img. rewrite L. destruct nd as [nm a chn]. unfold is_dir in D. cbn [node_attr] in D.
    destruct (a_type a); try discriminate; cbn [fn_payload]; try discriminate.
    destruct (a_hard a); cbn; discriminate.
  Qed.

  Theorem pack_tree_dirs : tree_dirs t.
  Proof.
    destruct post as (st & PO). pose proof PO as [R Er Ef I P].
    pose proof (inv_nodup _ _ I) as ND. pose proof (snames_root st PO) as S1.
    assert (Len : length t = length arr) by (unfold t, to_img; apply map_length).
    constructor.
    - (* directories *)
      intros j n par ch Hn Pn. destruct (t_nth j n Hn) as (p & Hj & En).
      destruct (at_pos st j p PO Hj) as (nd0 & L0 & W0 & L & Hh & _).
      destruct nd0 as [nm a ch0]. subst n. unfold node_img in Pn |- *. rewrite L in Pn |- *. cbn [decorate] in Pn |- *.
      cbn [set_post a_type a_perm a_uid a_gid a_mtime a_links a_hard a_target a_devno] in Pn |- *.
      destruct (a_type a) eqn:Ty; cbn [fn_payload] in Pn; try discriminate Pn.
      2: { destruct (a_hard a); cbn in Pn; discriminate Pn. }
      injection Pn as <- <-. cbn [fn_nlink].
      assert (D0 : is_dir (TNode nm a ch0) = true) by (unfold is_dir; cbn; rewrite Ty; reflexivity).
      split.
      + rewrite (dir_count_zero st p _ PO L0 D0). destruct (wf_inv _ _ _ W0) as (_ & W2 & _).
        unfold links_ok in W2. rewrite Ty in W2. cbn [ftype_eqb] in W2. rewrite W2. unfold nlen. rewrite !map_length. lia.
      + intros nm' c cn par' ch' Hc G Pc.
        apply in_map_iff in Hc. destruct Hc as (cd & Ec & Hcd).
        set (ndd := TNode nm (set_post a (count_path p (rs_cnt st)) (assoc_path p (rs_res st)))
                          (map (fun c0 => decorate st (p ++ [node_name c0]) c0) ch0)) in *.
        assert (Dd : is_dir ndd = true) by (unfold is_dir, ndd; cbn; rewrite Ty; reflexivity).
        pose proof (snames_lookup p root ndd S1 L) as Sn. destruct (snames_inv _ _ _ Sn) as [Sn1 _].
        pose proof (find_child_of_in _ cd (sorted_names_nodup _ Sn1) Hcd) as F.
        pose proof (lookup_app1 p root ndd cd L Dd F) as Lc.
        destruct (get_t c cn G) as (k & q & Eck & Hk & Ecn).
        apply (f_equal snd) in Ec. unfold entry_of in Ec. cbn [snd] in Ec.
        destruct (is_hardlink cd) eqn:Hcl.
        * (* a hard link entry names a non-directory *)
          exfalso. rewrite Er in Lc.
          destruct (resolved_links root0 (fs_unres fs) st (root0_queued d ops fs Hrun) R _ cd Lc Hcl) as (tg & Et & ndt & Lt & _ & Dt).
          rewrite Et in Ec. rewrite <- Er in Lt.
          assert (Eq : q = tg).
          { unfold ino_of in Ec. destruct (index_of tg arr) as [kk|] eqn:Ei; [|lia].
            apply index_of_nth in Ei. assert (kk = k) by lia. subst kk. congruence. }
          subst q. rewrite Ecn in Pc.
          exact (node_img_nondir tg ndt Lt Dt par' ch' Pc).
        * (* the child itself *)
          assert (Eq : q = p ++ [node_name cd]).
          { unfold ino_of in Ec. destruct (index_of (p ++ [node_name cd]) arr) as [kk|] eqn:Ei; [|lia].
            apply index_of_nth in Ei. assert (kk = k) by lia. subst kk. congruence. }
          subst q. rewrite Ecn in Pc. unfold node_img in Pc. rewrite Lc in Pc.
          destruct cd as [nmc ac chc]. cbn [node_name] in *.
          destruct (a_type ac); cbn [fn_payload] in Pc; try discriminate Pc.
          2: { destruct (a_hard ac); cbn in Pc; discriminate Pc. }
          injection Pc as <- _. unfold parent_ino.
          destruct (p ++ [nmc]) as [|x0 r0] eqn:Epp; [destruct p; discriminate|].
          rewrite <- Epp, removelast_snoc. apply (ino_at j p ND Hj).
    - (* every node but the root is listed *)
      intros j Hjl. rewrite Len in Hjl.
      destruct (nth_error arr j) as [p|] eqn:Hj; [|apply nth_error_None in Hj; lia].
      destruct (at_pos st j p PO Hj) as (nd0 & L0 & W0 & L & Hh & _).
      assert (Pne : p <> []).
      { intro E. subst p. pose proof (inv_last _ _ I) as La.
        rewrite NoDup_nth_error in ND. assert (j = (length arr - 1)%nat) by (apply ND; [lia|rewrite Hj; symmetry; exact La]). lia. }
      destruct (exists_last Pne) as (q & x & ->).
      destruct (lookup_snoc_inv q x root _ L) as (ndq & Lq & Dq & Fq).
      assert (Nq : numbered root q).
      { exists ndq. split; [exact Lq|]. destruct (is_hardlink ndq) eqn:E; [|reflexivity].
        apply is_hardlink_not_dir in E. congruence. }
      pose proof (inv_complete _ _ I q Nq) as Inq. destruct (In_nth_error _ _ Inq) as [k Hk].
      unfold kids_upto. rewrite firstn_all. apply in_flat_map.
      exists (node_img fb xa arr root q). split.
      + unfold t, to_img. fold arr root. apply in_map. exact Inq.
      + unfold kids, node_img. rewrite Lq. destruct ndq as [nmq aq chq]. unfold is_dir in Dq. cbn [node_attr] in Dq.
        apply ftype_eqb_eq in Dq. rewrite Dq. cbn [fn_payload]. rewrite map_map. apply in_map_iff.
        exists (decorate st (q ++ [x]) nd0). split.
        * unfold entry_of. cbn [snd]. rewrite decorate_is_hardlink, Hh, decorate_name.
          cbn [node_children] in Fq.
          pose proof (find_child_name _ _ _ Fq) as Nx. rewrite decorate_name in Nx. rewrite Nx.
          apply (ino_at j _ ND Hj).
        * cbn [node_children] in Fq. eapply find_child_in. exact Fq.
  Qed.

  (* ---- which path a node of the tree stands for ---- *)
  Lemma node_of n : In n t ->
    exists p, In p arr /\ fn_xattr n = xa p /\
              forall b, fn_payload n = PFile b -> b = fb p /\ In p (pp_files pp).
  Proof.
    intro Hn. destruct post as (st & PO). pose proof PO as [R Er Ef I P].
    destruct (In_nth_error _ _ Hn) as [j Hj]. destruct (t_nth j n Hj) as (p & Hp & En).
    destruct (at_pos st j p PO Hp) as (nd0 & L0 & W0 & L & Hh & _).
    exists p. split; [eapply nth_error_In; exact Hp|].
    subst n. unfold node_img. rewrite L. destruct nd0 as [nm a ch0]. cbn [decorate].
    cbn [set_post a_type a_perm a_uid a_gid a_mtime a_links a_hard a_target a_devno].
    unfold is_hardlink in Hh. cbn [node_attr] in Hh.
    destruct (a_type a) eqn:Ty; cbn [fn_xattr fn_payload].
    3: { cbn in Hh. rewrite Hh. cbn [fn_xattr fn_payload]. split; [reflexivity|intros b E; discriminate E]. }
    all: split; [reflexivity|]; intros b E; try discriminate E.
    injection E as <-. split; [reflexivity|].
    rewrite Ef. apply (file_list_complete p root [] _ L). cbn. exact Ty.
  Qed.
End PT.
