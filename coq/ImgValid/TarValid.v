(* ImgValid — the tar2sqfs corollaries: ImgTarFull.t2s_full (tar2sqfs as a run of pack_all: tar2sqfs_is_pack_all, and
   tar2sqfs_rooted_is_pack_all for an archive with a root entry in front) writes a valid image. *)
From Coq Require Import List NArith ZArith Bool Lia.
From SqfsV Require Import Base.Bytes Gen.Constants C03.Common.
From SqfsV Require Import C01.GenC01 C01.InodeModel Img.TreeModel.
From SqfsV Require Import C11.FstreeModel.
From SqfsV Require Import Image.FinishModel Image.ReaderModel Image.ValidModel.
From SqfsV Require Import ImgTar.Model.
From SqfsV Require Import ImgE2E.PackAll ImgE2E.Hyps ImgE2E.Compose.
From SqfsV Require Import ImgTarFull.Model ImgTarFull.Rooted ImgTarFull.Bridge ImgTarFull.Closed.
From SqfsV Require Import ImgValid.ValidFull ImgValid.Clauses ImgValid.PackValid.
Import ListNotations.
Local Open Scope N_scope.

Lemma okb_xattrs_on half cfg pi r : e2e_okb half cfg pi r = true -> c_no_xattr cfg = false.
Proof. intro H. destruct (hyps half cfg pi r H) as (_ & _ & _ & _ & _ & _ & X & _). exact X. Qed.

Theorem tar2sqfs_image_valid_l :
  forall hashf dcompress duncompress, dcontract dcompress duncompress ->
  forall mcompress muncompress, mcontract mcompress muncompress ->
  forall limit, limit <= 65535 ->
  forall half cfg no_tail_pack d opts sched vs r,
  tree_shapeb vs = true ->
  t2s_full opts0 no_tail_pack false d hashf dcompress duncompress half mcompress limit cfg opts sched vs = PDone r ->
  e2e_okb half cfg (pi_of no_tail_pack cfg d opts sched vs) (with_root r) = true ->
  valid_image_full muncompress duncompress (c_devblk cfg) (image_bytes (r_w r)) = true.
Proof.
  intros hashf dc du Hd mc mu Hm limit Hl half cfg ntp d opts sched vs r Ts Hrun Hok.
  pose proof (tar2sqfs_is_pack_all_l ntp d hashf dc du half mc limit cfg opts sched vs r Ts (okb_xattrs_on _ _ _ _ Hok) Hrun) as P.
  exact (pack_all_image_valid_l hashf dc du Hd mc mu Hm limit Hl half cfg _ (with_root r) P Hok).
Qed.

(* an archive with an entry for the root directory in front *)
Theorem tar2sqfs_rooted_image_valid_l :
  forall hashf dcompress duncompress, dcontract dcompress duncompress ->
  forall mcompress muncompress, mcontract mcompress muncompress ->
  forall limit, limit <= 65535 ->
  forall half cfg no_tail_pack d0 opts sched t0 e0 vs r,
  pt_op_of opts0 d0 t0 = PRootAttr e0 -> tree_shapeb vs = true ->
  t2s_full opts0 no_tail_pack false d0 hashf dcompress duncompress half mcompress limit cfg opts sched (t0 :: vs) = PDone r ->
  e2e_okb half cfg (pi_gen no_tail_pack cfg (root_defaults true d0 e0) opts sched (xkept (te_xattr t0)) vs) r = true ->
  valid_image_full muncompress duncompress (c_devblk cfg) (image_bytes (r_w r)) = true.
Proof.
  intros hashf dc du Hd mc mu Hm limit Hl half cfg ntp d0 opts sched t0 e0 vs r Er Ts Hrun Hok.
  pose proof (tar2sqfs_rooted_is_pack_all_l ntp d0 hashf dc du half mc limit cfg opts sched t0 e0 vs r Er Ts
                (okb_xattrs_on _ _ _ _ Hok) Hrun) as P.
  exact (pack_all_image_valid_l hashf dc du Hd mc mu Hm limit Hl half cfg _ r P Hok).
Qed.
