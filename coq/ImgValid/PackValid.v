(* ImgValid — C03's headline as a statement about the COMPOSED packer model ImgE2E.PackAll.pack_all (gensquashfs after
   option parsing: lib/fstree, block processor + block writer, xattr writer + flush, sqfs_writer_finish):

     pack_all_image_valid           for every run in the decidable domain of pack_all_reads_back (e2e_okb) and all
                                    compressors meeting their contracts: valid_image_full = true on the image bytes.
     pack_all_image_valid_clauses   the same by parts: valid_image (every clause of Image.ValidModel), valid_core
                                    (v_frag, v_data, v_xattr_inodes, v_export, the directory part of v_links) and
                                    valid_nlinks (link counts of non-directories). *)
From Coq Require Import List NArith ZArith Bool Lia ZifyBool ZifyNat ZifyN.
From SqfsV Require Import Base.Bytes Gen.Constants C03.Common C03.ListN.
From SqfsV Require C14.SuperModel C14.SuperProofs.
From SqfsV Require Import C01.GenC01 C01.InodeModel C01.XattrModel C01.XattrProofs C01.XattrWriterProofs Img.TreeModel.
From SqfsV Require C01.Res.
From SqfsV Require Import C11.StrOrder C11.FstreeModel C11.PostModel.
From SqfsV Require Import ImgPost.Bridge ImgPost.InputOk ImgPost.PathsModel ImgPost.ListPos.
From SqfsV Require Import C08.DedupModel C08.DedupLemmas C08.DedupPipeProofs C08.DedupTheorems.
From SqfsV Require Import Image.FinishModel Image.FinishProofs Image.ReaderModel Image.ValidModel Image.ImageProofs.
From SqfsV Require Import ImgData.GlueModel ImgData.BoundInv ImgData.Compose ImgData.RealCompose.
From SqfsV Require Import ImgXattr.FlushModel ImgXattr.CodecRel ImgXattr.XattrRead ImgXattr.ImageXattr.
From SqfsV Require C05.RBase C10.MetaModel.
From SqfsV Require Import ImgE2E.PackAll ImgE2E.Hyps ImgE2E.BodyProofs ImgE2E.Facts ImgE2E.Compose.
From SqfsV Require Import ImgValid.ValidFull ImgValid.Fast ImgValid.Layout ImgValid.Clauses ImgValid.PackData ImgValid.PackTree
  ImgValid.PackLinks ImgValid.XattrCount.
Import ListNotations.
Local Open Scope N_scope.

Section PV.
  Variable hashf : list N -> N.
  Variable dcompress : list N -> option (list N).
  Variable duncompress : list N -> nat -> option (list N).
  Hypothesis Hdcomp : forall b c, dcompress b = Some c ->
    (length c < length b)%nat /\ forall n, (length b <= n)%nat -> duncompress c n = Some b.
  Variable half : nat.
  Variable mcompress : list N -> cres.
  Variable muncompress : list N -> option (list N).
  Hypothesis Hmcomp : forall b c, mcompress b = CData c -> lenN c <= lenN b /\ muncompress c = Some b.
  Variable limit : N.
  Hypothesis Hlimit : limit <= 65535.
  Variable cfg : wcfg.
  Variable pi : pinput.
  Variable r : prun.
  Hypothesis Hrun : pack_all hashf dcompress duncompress half mcompress limit cfg pi = PDone r.
  Hypothesis Hok : e2e_okb half cfg pi r = true.

  Let bsn := N.to_nat (c_block_size cfg).
  Let fs := r_fs r.
  Let pp := r_pp r.
  Let st := r_st r.
  Let xw := r_xw r.
  Let idxs := r_idxs r.
  Let inp := r_inp r.
  Let w := r_w r.
  Let img := image_bytes w.
  Let paths := xattr_paths pp.
  Let sets := map (pi_xattrs pi) paths.
  Let fb := fb_of bsn st (pi_contents pi) (pp_files pp).
  Let xa := xa_of paths idxs.
  Let t := in_tree inp.

  Let HY := hyps half cfg pi r Hok.
  Let RF := run_facts hashf dcompress duncompress half mcompress limit cfg pi r Hrun.
  Let W := image_written hashf dcompress duncompress half mcompress limit cfg pi r Hrun.
  Let DOM := image_dom hashf dcompress duncompress Hdcomp half mcompress muncompress Hmcomp limit Hlimit cfg pi r Hrun Hok.
  Let FIT := image_fit half cfg pi r Hok.
  Let FLUSH := flush_at_final_offset hashf dcompress duncompress half mcompress limit cfg pi r Hrun.

  Lemma count32 : Res.nlen (x_blocks xw) < 4294967296.
  Proof. destruct HY as (_ & _ & _ & _ & _ & _ & _ & _ & _ & _ & _ & _ & H & _). unfold NOIDX in H. fold xw in H. lia. Qed.

  (* ---- the clauses of Image.ValidModel ---- *)
  Lemma base_valid : valid_image muncompress (c_devblk cfg) img = true.
  Proof.
    exact (writer_valid_with_xattrs_l mcompress muncompress Hmcomp limit Hlimit cfg inp w W DOM FIT xw FLUSH count32).
  Qed.

  Lemma tree_eq : t = to_img fb xa pp.
  Proof.
    destruct RF as (s0 & w0 & _ & _ & _ & _ & _ & _ & _ & E & _).
    destruct (inp_fields cfg pi r s0 E) as (_ & _ & _ & Et). exact Et.
  Qed.

  (* ---- tree_dirs ---- *)
  Lemma dirs_ok : tree_dirs t.
  Proof.
    destruct HY as (H1 & _). destruct RF as (s0 & w0 & _ & A & P & _).
    rewrite tree_eq. exact (pack_tree_dirs (c_block_size cfg) (pi_defaults pi) (pi_ops pi) fs pp fb xa H1 A P).
  Qed.

  Lemma node_path n : In n t ->
    exists p, In p (pp_inodes pp) /\ fn_xattr n = xa p /\
              forall b, fn_payload n = PFile b -> b = fb p /\ In p (pp_files pp).
  Proof.
    destruct HY as (H1 & _). destruct RF as (s0 & w0 & _ & A & P & _).
    rewrite tree_eq. exact (node_of (c_block_size cfg) (pi_defaults pi) (pi_ops pi) fs pp fb xa H1 A P n).
  Qed.

  (* ---- v_xattr_inodes ---- *)
  Lemma xattrs_ok : xattr_ok muncompress inp w.
  Proof.
    intros n Hn. destruct (node_path n Hn) as (p & _ & -> & _).
    destruct HY as (_ & H2 & _ & _ & _ & _ & Hnox & _ & _ & _ & _ & _ & Hnoidx & _).
    destruct RF as (s0 & w0 & _ & _ & _ & XS & _).
    destruct winv_empty as [I0 B0].
    destruct (xw_sets_spec sets xw_empty I0 B0 (sets_okb_ok _ H2)) as (w' & idxs' & E' & _ & _ & _ & L & D).
    assert (XS' : xw_sets xw_empty sets = Res.Ok (xw, idxs)) by exact XS. clear XS. rename XS' into XS.
    rewrite XS in E'. injection E' as <- <-.
    assert (BNE : blocks_ne xw) by (apply (xw_sets_blocks_ne sets xw_empty xw idxs); [constructor|exact XS]).
    unfold xa, xa_of. destruct (index_of p paths) as [k|]; [|left; reflexivity].
    destruct (Nat.lt_ge_cases k (length idxs)) as [Hk|Hk]; [|left; rewrite nth_overflow by exact Hk; reflexivity].
    pose proof (nth_error_nth' idxs NOX Hk) as Hi.
    assert (Hs : exists kvs, nth_error sets k = Some kvs).
    { destruct (nth_error sets k) eqn:E; [eauto|]. apply nth_error_None in E. lia. }
    destruct Hs as [kvs Hs].
    destruct (D k kvs _ Hs Hi) as [[_ ->]|(j & blk & -> & Nb & _)]; [left; reflexivity|right].
    assert (NE : x_blocks xw <> []) by (intro Z; rewrite Z in Nb; destruct j; discriminate).
    rewrite (xattr_count_written mcompress muncompress Hmcomp limit Hlimit cfg inp w W DOM FIT xw FLUSH count32 BNE Hnox NE).
    assert (j < length (x_blocks xw))%nat by (apply nth_error_Some; congruence).
    unfold Res.nlen. lia.
  Qed.

  (* ---- v_frag, v_data ---- *)
  Lemma datas_ok : data_ok duncompress cfg inp w.
  Proof.
    destruct HY as (_ & _ & H3 & _ & _ & _ & _ & Hh & _).
    destruct RF as (s0 & w0 & _ & _ & _ & _ & PK & _ & _ & E & _).
    destruct (inp_fields cfg pi r s0 E) as (Eo & Ed & Ef & _).
    destruct (bs_facts hashf dcompress duncompress Hdcomp half mcompress muncompress Hmcomp limit Hlimit cfg pi r Hrun)
      as (Hbs & Hmax & Hcbs).
    fold bsn in Hbs, Hmax, Hcbs, PK. fold pp st in PK. fold inp in Eo, Ed, Ef. fold st in Ed, Ef.
    set (file0 := SuperModel.encode s0 ++ pi_opts pi) in *.
    set (files := pack_files_list pi pp) in *.
    pose proof (max_block_size_small bsn Hmax) as Hsmall.
    assert (Hfile0 : length file0 = (96 + length (in_opts inp))%nat).
    { unfold file0. rewrite app_length, SuperProofs.encode_length, Eo. reflexivity. }
    pose proof (image_small half cfg pi r Hok) as Small. fold w img in Small.
    assert (Hoff : N.of_nat (length (image_bytes w)) < MetaModel.off_t_limit).
    { unfold lenN, RBase.two63 in Small. exact Small. }
    destruct (pack_inv hashf dcompress duncompress bsn half (length file0) Hdcomp Hbs Hsmall Hh files file0 (pi_sched pi) eq_refl)
      as (st' & claims & fbd & E' & PI & Hfb & _).
    rewrite PK in E'. inversion E'; subst st'. clear E'.
    pose proof (pack_refs_behind hashf dcompress duncompress bsn false true half file0 files (pi_sched pi) st PK) as Hrefs.
    pose proof (pack_no_block_start hashf dcompress duncompress bsn false true half file0 files (pi_sched pi) st PK) as Hnob.
    pose proof (image_agrees hashf dcompress duncompress bsn half Hdcomp Hbs Hmax Hh mcompress muncompress Hmcomp
                  limit Hlimit cfg inp w file0 files (pi_sched pi) st Hfile0 Hcbs PK Ed W DOM FIT) as Hag.
    pose proof (image_len_ge hashf dcompress duncompress bsn half Hdcomp Hbs Hmax Hh mcompress muncompress Hmcomp
                  limit Hlimit cfg inp w file0 files (pi_sched pi) st Hfile0 Hcbs PK Ed W DOM FIT Hoff) as Hlen.
    pose proof (nfrag_small hashf dcompress duncompress Hdcomp half mcompress muncompress Hmcomp limit Hlimit cfg pi r Hrun Hok)
      as Hnf. fold st in Hnf.
    (* the bounds of the data area *)
    assert (Elo : SBN + lenN (in_opts inp) = N.of_nat (length file0)).
    { rewrite Hfile0. change SBN with 96. unfold lenN. lia. }
    assert (Ehi : SuperModel.s_inode_start (w_super w) = N.of_nat (length (w_file (p_wr st)))).
    { rewrite (inode_start_written mcompress limit cfg inp w W DOM), Ed.
      destruct (dedup_sound_l hashf dcompress duncompress bsn half Hdcomp Hbs Hmax Hh file0 files (pi_sched pi))
        as (st' & E' & _ & Hpre).
      rewrite PK in E'. inversion E'; subst st'. clear E'.
      assert (Hle : (length file0 <= length (w_file (p_wr st)))%nat).
      { rewrite <- Hpre at 1. rewrite firstn_length. lia. }
      unfold data_of, lenN. rewrite skipn_length. change SBN with 96. rewrite Hfile0 in *. lia. }
    exists (flens_of st fbd). unfold data_ok. rewrite Elo, Ehi, Hcbs, Ef. split.
    - exact (pack_frag_lens hashf dcompress duncompress bsn half Hdcomp Hbs Hsmall Hh files (length file0) st claims fbd
               PI Hfb Hrefs Hnf (image_bytes w) Hag Hlen Hoff).
    - intros n b Hn Pn. destruct (node_path n Hn) as (p & _ & _ & F). destruct (F b Pn) as [-> Hp].
      destruct (index_of_in p (pp_files pp) Hp) as [fid Hfid].
      pose proof (index_of_nth _ _ _ Hfid) as Hnth.
      unfold fb, fb_of. rewrite Hfid, pack_body_lkind.
      apply (pack_file_ok hashf dcompress duncompress bsn half Hdcomp Hbs Hsmall Hh files (length file0) st claims fbd
               PI Hrefs Hnob Hnf (image_bytes w) Hag Hlen Hoff fid (fst (pi_contents pi p)) (snd (pi_contents pi p))).
      unfold files, pack_files_list. rewrite (map_nth_error (pi_contents pi) fid (pp_files pp) Hnth), <- surjective_pairing.
      reflexivity.
  Qed.

  Theorem core_valid : valid_core muncompress duncompress img (w_super w) = true.
  Proof.
    exact (valid_core_written mcompress muncompress Hmcomp duncompress limit Hlimit cfg inp w W DOM FIT datas_ok xattrs_ok dirs_ok).
  Qed.

  (* ---- link counts ---- *)
  Lemma nlinks_ok : tree_nlinks t.
  Proof.
    destruct HY as (H1 & _). destruct RF as (s0 & w0 & _ & A & P & _).
    rewrite tree_eq. exact (pack_tree_nlinks (c_block_size cfg) (pi_defaults pi) (pi_ops pi) fs pp fb xa H1 A P).
  Qed.

  Theorem nlinks_valid : valid_nlinks muncompress img (w_super w) = true.
  Proof.
    exact (valid_nlinks_written mcompress muncompress Hmcomp limit Hlimit cfg inp w W DOM FIT dirs_ok nlinks_ok).
  Qed.

  Lemma super_read : read_super img = Some (w_super w).
  Proof. exact (super_roundtrip_l mcompress muncompress Hmcomp limit Hlimit cfg inp w W DOM FIT). Qed.
End PV.

(* ---- closed statements ---- *)
Definition dcontract (dcompress : list N -> option (list N)) (duncompress : list N -> nat -> option (list N)) : Prop :=
  forall b c, dcompress b = Some c ->
    (length c < length b)%nat /\ forall n, (length b <= n)%nat -> duncompress c n = Some b.
Definition mcontract (mcompress : list N -> cres) (muncompress : list N -> option (list N)) : Prop :=
  forall b c, mcompress b = CData c -> lenN c <= lenN b /\ muncompress c = Some b.

Theorem pack_all_image_valid_clauses_l :
  forall hashf dcompress duncompress, dcontract dcompress duncompress ->
  forall mcompress muncompress, mcontract mcompress muncompress ->
  forall limit, limit <= 65535 ->
  forall half cfg pi r,
  pack_all hashf dcompress duncompress half mcompress limit cfg pi = PDone r ->
  e2e_okb half cfg pi r = true ->
  let img := image_bytes (r_w r) in
  valid_image muncompress (c_devblk cfg) img = true /\
  exists s, read_super img = Some s /\ valid_core muncompress duncompress img s = true /\
            valid_nlinks muncompress img s = true.
Proof.
  intros hashf dc du Hd mc mu Hm limit Hl half cfg pi r Hrun Hok img. split.
  - exact (base_valid hashf dc du Hd half mc mu Hm limit Hl cfg pi r Hrun Hok).
  - exists (w_super (r_w r)). split; [|split].
    + exact (super_read hashf dc du Hd half mc mu Hm limit Hl cfg pi r Hrun Hok).
    + exact (core_valid hashf dc du Hd half mc mu Hm limit Hl cfg pi r Hrun Hok).
    + exact (nlinks_valid hashf dc du Hd half mc mu Hm limit Hl cfg pi r Hrun Hok).
Qed.

Theorem pack_all_image_valid_l :
  forall hashf dcompress duncompress, dcontract dcompress duncompress ->
  forall mcompress muncompress, mcontract mcompress muncompress ->
  forall limit, limit <= 65535 ->
  forall half cfg pi r,
  pack_all hashf dcompress duncompress half mcompress limit cfg pi = PDone r ->
  e2e_okb half cfg pi r = true ->
  valid_image_full muncompress duncompress (c_devblk cfg) (image_bytes (r_w r)) = true.
Proof.
  intros hashf dc du Hd mc mu Hm limit Hl half cfg pi r Hrun Hok.
  unfold valid_image_full.
  rewrite (base_valid hashf dc du Hd half mc mu Hm limit Hl cfg pi r Hrun Hok).
  rewrite (super_read hashf dc du Hd half mc mu Hm limit Hl cfg pi r Hrun Hok). cbn [andb].
  apply valid_refs_split.
  - exact (core_valid hashf dc du Hd half mc mu Hm limit Hl cfg pi r Hrun Hok).
  - exact (nlinks_valid hashf dc du Hd half mc mu Hm limit Hl cfg pi r Hrun Hok).
Qed.
