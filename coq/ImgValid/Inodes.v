(* ImgValid — what the executable validator's inode scan (ValidModel.inodes_of) finds in a written image, as ONE
   reusable statement: the j-th scanned inode shows a reader exactly what the tree says about node j (mode, ids, mtime,
   number j + 1, link count, xattr index, kind), the reference recorded for node j names its stream offset and resolves to
   it, and a directory inode leads to the listing of the node's children.  (Image.ImageProofs.valid_tree_l derives the
   same facts inside its proof; they are re-derived here from the same layer lemmas because that proof does not export
   them.) *)
From Coq Require Import List NArith ZArith Lia Bool ZifyBool ZifyNat ZifyN.
From SqfsV Require Import Base.Bytes Gen.Constants C03.Common C03.ListN C03.MetaModel C03.MetaProofs C03.MetaRT
  C03.DirModel.
From SqfsV Require C14.SuperModel.
From SqfsV Require Import C01.GenC01 C01.Res C01.InodeModel C01.InodeProofs.
From SqfsV Require Import Img.TreeModel Img.InodeLemmas Img.SerDefs Img.SerProofs Img.Final Img.Domain Img.ReadProofs
  Img.TreeRT.
From SqfsV Require Import Image.FinishModel Image.ReaderModel Image.ValidModel Image.FinishProofs Image.ValidLemmas
  Image.ScanLemmas Image.ImageProofs.
Import ListNotations.
Local Open Scope N_scope.

Lemma scan_result_nth : forall bl is off j b i,
  nth_error bl j = Some b -> nth_error is j = Some i ->
  nth_error (scan_result off bl is) j = Some (off + lenN (concat (firstn j bl)), clear_slack i).
Proof.
  induction bl as [|b0 bl IH]; intros is off j b i Hb Hi; [destruct j; discriminate|].
  destruct is as [|i0 is]; [destruct j; discriminate|].
  destruct j as [|j].
  - cbn [nth_error] in *. injection Hi as <-. cbn [scan_result nth_error firstn concat]. rewrite lenN_nil, N.add_0_r.
    reflexivity.
  - cbn [nth_error] in Hb, Hi. cbn [scan_result nth_error firstn concat]. rewrite (IH is _ j b i Hb Hi), lenN_app.
    f_equal. f_equal. lia.
Qed.

Lemma Forall2_of_nth {A B} (P : A -> B -> Prop) : forall (a : list A) (b : list B),
  length a = length b -> (forall j x y, nth_error a j = Some x -> nth_error b j = Some y -> P x y) -> Forall2 P a b.
Proof.
  induction a as [|x a IH]; intros b L H; destruct b as [|y b]; try discriminate; constructor.
  - apply (H 0%nat); reflexivity.
  - apply IH; [simpl in L; lia|]. intros j x' y' Hx Hy. apply (H (S j)); assumption.
Qed.

Section IV.
  Variable compress : list N -> cres.
  Variable uncompress : list N -> option (list N).
  Hypothesis compress_ok :
    forall b c, compress b = CData c -> lenN c <= lenN b /\ uncompress c = Some b.
  Variable limit : N.
  Hypothesis limit_ok : limit <= 65535.
  Variable cfg : wcfg.
  Variable inp : winput.
  Variable w : wimage.
  Hypothesis Hw : write_image compress limit cfg inp = Ok w.
  Hypothesis Hdom : image_domain cfg inp = true.
  Hypothesis Hfit : image_fits w = true.

  Let sf := w_super w.
  Let img := w_img w.
  Let t := in_tree inp.
  Let bs := c_block_size cfg.

  (* what the scan shows of node j *)
  Definition inode_view (bt : list (N * N * N)) (sl : list (N * inode)) (j : nat) (n : fnode) : Prop :=
    exists o i r,
      nth_error sl j = Some (o, i) /\
      nth_error (si_refs img) j = Some r /\
      ref_offset bt r = Some o /\ resolve bt sl r = Some i /\
      lview_of_inode (si_ids img) i = lview_of_fnode (N.of_nat j + 1) n /\
      match fn_payload n with
      | PDir par ch =>
          exists ents sb off sz,
            dir_loc (i_body i) = Some (sb, off, sz) /\
            read_listing uncompress (si_dtbl img) sb off sz = Some ents /\
            Forall2 (ent_rel t (si_refs img)) ch ents
      | _ => dir_loc (i_body i) = None
      end.

  Theorem inodes_written :
    exists bt sl,
      inodes_of uncompress (image_bytes w) sf = Some (bt, sl) /\
      length sl = length t /\ length (si_refs img) = length t /\
      forall j n, nth_error t j = Some n -> inode_view bt sl j n.
  Proof.
    destruct (dom_facts cfg inp Hdom) as (R & _). destruct (fit_facts w Hfit) as (Ft & _).
    assert (L65536 : limit <= 65536) by lia.
    pose proof (ser_ok compress limit cfg inp w Hw) as SER. fold t img in SER.
    destruct (serialize_final compress uncompress compress_ok limit t img (repr_children_before bs t R) SER)
      as (a & im & dm & FIN).
    destruct (repr_facts bs t R) as (Hbs & T1 & T2 & _ & _).
    pose proof FIN as ([(A1 & _ & C1 & _) _] & Cu1 & TI & [(A2 & _ & C2 & _) _] & _ & TD & _ & _ & _ & _ & _ & _ & CC &
                       Lr & _ & Li & Lb & _ & RT & _).
    set (rawsI := a_rawsI a) in *. set (bl := a_bl a) in *. set (ins := si_inodes img) in *.
    assert (NR : forall j, (j < length t)%nat ->
              exists n tn i b r, ReadProofs.node_run compress limit bs t img a j n tn i b r).
    { intros j Hj. exact (ReadProofs.node_run_of compress uncompress compress_ok limit L65536 bs t img R Ft a im dm j FIN Hj). }
    assert (F2 : Forall2 (fun b i => encode i = Ok b /\ inode_wfb bs i = true) bl ins).
    { apply Forall2_of_nth; [lia|]. intros j b i Hb Hi.
      assert (Hj : (j < length t)%nat) by (rewrite <- Lb; apply nth_error_Some; congruence).
      destruct (NR j Hj) as (n & tn & i' & b' & r & N0). destruct N0.
      fold bl in nr_b. fold ins in nr_i. rewrite Hb in nr_b. injection nr_b as <-. rewrite Hi in nr_i. injection nr_i as <-.
      split; assumption. }
    assert (Fb : Forall (fun b => 0 < lenN b) bl).
    { apply Forall_forall. intros b Hb. destruct (In_nth_error _ _ Hb) as [j Hj].
      assert (Hjl : (j < length ins)%nat) by (rewrite Li, <- Lb; apply nth_error_Some; congruence).
      destruct (nth_error ins j) as [i|] eqn:Ei; [|apply nth_error_None in Ei; lia].
      assert (Q : encode i = Ok b).
      { clear - F2 Hj Ei. revert j Hj Ei. induction F2 as [|b0 i0 bl0 is0 [E0 _] _ IH]; intros j Hj Ei; [destruct j; discriminate|].
        destruct j; cbn [nth_error] in *; [injection Hj as <-; injection Ei as <-; exact E0|eapply IH; eassumption]. }
      pose proof (ReadProofs.encode_nonempty _ _ Q). lia. }
    assert (AR : area uncompress (image_bytes w) (SuperModel.s_inode_start sf) (SuperModel.s_dir_start sf)
                 = Some (parsed compress rawsI)).
    { apply (area_written compress uncompress compress_ok (image_bytes w) rawsI (pre_inode inp w)
               (si_dtbl img ++ w_fragb w ++ w_exportb w ++ w_idb w ++ tail_x w)); [exact C1| | |].
      - rewrite (split_inode compress limit cfg inp w Hw). fold img. rewrite TI, A1. reflexivity.
      - symmetry. exact (len_pre_inode compress uncompress compress_ok limit limit_ok cfg inp w Hw Hdom).
      - rewrite (len_pre_inode compress uncompress compress_ok limit limit_ok cfg inp w Hw Hdom).
        destruct (layout compress limit cfg inp w Hw Hdom) as [_ Ld _ _ _ _ _ _]. unfold sf. rewrite Ld.
        fold img. rewrite TI, A1. reflexivity. }
    destruct (fixed_fields compress uncompress compress_ok limit limit_ok cfg inp w Hw Hdom)
      as (_ & M2 & _ & M4 & _ & _ & M7 & _ & _ & M10).
    fold sf t in M2. fold sf in M4.
    set (bt := block_index (parsed compress rawsI) 0 0).
    set (sl := scan_result 0 bl ins).
    exists bt, sl.
    split.
    { unfold inodes_of. rewrite AR, M2, M4, (concat_parsed compress). fold rawsI in CC. rewrite CC.
      replace (N.to_nat (nlen t)) with (length bl) by (unfold nlen; lia).
      fold bs. rewrite (scan_spec bs Hbs bl ins 0 F2). reflexivity. }
    split; [unfold sl; rewrite scan_result_length by lia; exact Lb|]. split; [exact Lr|].
    intros j n Hn.
    assert (Hj : (j < length t)%nat) by (apply nth_error_Some; congruence).
    destruct (NR j Hj) as (n' & tn & i & b & r & N0). pose proof N0 as N0'. destruct N0'.
    rewrite Hn in nr_n. injection nr_n as <-.
    (* the reference *)
    destruct nr_pos as (k & Hk & P1 & P2 & P3). unfold split_ref in P1, P2, P3. cbn [fst snd] in P1, P2, P3.
    fold rawsI bl in Hk, P1, P2, P3.
    assert (HL : lenN (concat (firstn j bl)) < lenN (concat rawsI)).
    { rewrite CC. destruct (nth_error_split _ _ nr_b) as (l1 & l2 & Hbl & Hl1). fold bl in Hbl.
      rewrite Hbl. rewrite <- Hl1, firstn_app, Nat.sub_diag, firstn_all. cbn [firstn]. rewrite app_nil_r.
      rewrite concat_app. cbn [concat]. rewrite !lenN_app. pose proof (ReadProofs.encode_nonempty _ _ nr_enc). lia. }
    assert (Hlt : (k < length rawsI)%nat).
    { destruct (Nat.eq_dec k (length rawsI)) as [->|Hne]; [|lia].
      rewrite app_nth2, Nat.sub_diag in P3 by lia. cbn [nth] in P3. rewrite lenN_nil in P3.
      rewrite firstn_all in P2. lia. }
    rewrite app_nth1 in P3 by lia.
    assert (RO : ref_offset bt r = Some (0 + lenN (concat (firstn j bl)))).
    { unfold bt. rewrite (ref_offset_spec compress uncompress compress_ok rawsI 0 0 k r C1 Hlt ltac:(lia) P3).
      f_equal. lia. }
    exists (0 + lenN (concat (firstn j bl))), (clear_slack i), r.
    split; [unfold sl; apply (scan_result_nth bl ins 0 j b i); [exact nr_b|exact nr_i]|].
    split; [exact nr_r|]. split; [exact RO|].
    split.
    { unfold resolve. rewrite RO. unfold sl. apply inode_at_offset_spec; [exact Fb|exact nr_i|].
      rewrite Lb. exact Hj. }
    split.
    { rewrite lview_clear_slack.
      destruct nr_ser as (tbl & tbl' & more & S1 & S2 & S3).
      destruct (lview_serialize bs limit tbl tn tbl' i more nr_ok L65536 S2 S1) as [V _].
      rewrite S3, V, nr_node. cbn [tn_mode tn_uid tn_gid tn_mtime tn_ino tn_nlink tn_xattr tn_kind].
      unfold lview_of_fnode. f_equal.
      destruct (fn_payload n) as [par ch|fbody|tg|c d|s]; destruct (tn_kind tn) as [rr s0 c0 idx par'|b'|tg'|c' d'|s'];
        cbn [SerDefs.KindOk] in nr_kind; try contradiction; cbn [lkind_of_nkind lkind_of_payload].
      - destruct nr_kind as [-> _]. reflexivity.
      - subst b'. reflexivity.
      - subst tg'. reflexivity.
      - destruct nr_kind as [-> ->]. reflexivity.
      - subst s'. reflexivity. }
    rewrite dir_loc_clear_slack, nr_body.
    destruct (fn_payload n) as [par ch|fbody|tg|c d|s] eqn:Pn.
    2-5: rewrite (not_dir_loc compress limit bs t img a j n tn i b r N0) by (intros; congruence); reflexivity.
    destruct (ReadProofs.read_dir compress uncompress compress_ok limit L65536 bs t img R Ft a im dm _ _ _ _ _ _ par ch FIN N0 Pn)
      as (ents & sb & off & sz & DL & RL & Rel).
    exists ents, sb, off, sz. split; [exact DL|]. split; [exact RL|exact Rel].
  Qed.
End IV.
