(* ImgValid — [valid_image_full]: Image.ValidModel.valid_image extended by the clauses about DATA and about the cross
   references between the tables, written from doc/format.adoc ("Data and Fragment Blocks", "File Inodes", "Fragment
   Table", "Export Table", "Directory Inodes", "Extended Attribute Table"), not from the writer.  Definitions only.

   valid_image (coq/Image/ValidModel.v) already has: v_size v_order v_opts v_meta v_chain v_tables (layout, padding,
   metadata blocks <= 8 KiB and not larger than their content, lookup tables sized by their counts), v_inodes (the
   inode table decodes into exactly inode_count inodes numbered 1 .. N, id indices in range), v_root, v_dirs (listings
   where the inode says, header runs of 1 .. 256 entries, names strictly sorted, every entry reference is the START
   of an inode with the entry's number and type).  New here (each again a boolean function of the image bytes):

     v_frag          every fragment table entry: no bits above bit 24 in the size word, stored size >= 1, the stored
                     bytes lie inside the data area [data start, inode table start), they decode (bit 24 clear =
                     compressed: through the data decompressor with capacity block size; set: as they are) into 1 ..
                     block size bytes, stored size <= decoded size.  Result: the decoded length per fragment block.
     v_data          every file inode: walking its block list from blocks_start — block k has uncompressed size
                     ub = min(block size, bytes left) >= 1; size word 0 = sparse, nothing stored; otherwise no bits above
                     bit 24, stored size <= ub ("no stored block is larger than its uncompressed size or the block
                     limit"), the stored bytes lie inside the data area, directly behind the previous stored block of
                     the file, and decode into EXACTLY ub bytes (so an uncompressed block has stored size = ub) — the
                     words cover exactly the file size (without the tail end when the inode names a fragment: block
                     count = floor(size / block size), else ceil); fragment index < number of fragment entries and
                     offset + tail size <= decoded length of THAT fragment block.
     v_xattr_inodes  every inode's xattr index is 0xFFFFFFFF or < the count of the xattr id table (0 without a table)
     v_export        if the export table is present: for every inode (number k, starting at stream offset o) slot k-1
                     is a reference that names offset o  (with v_inodes: slot k-1 resolves to inode k for ALL k)
     v_links         directories: link count = 2 + number of entries (what libsquashfs writes) or 2 + number of
                     sub-directory entries (what mksquashfs writes; the format text fixes neither); every entry of
                     directory type resolves to a directory inode whose parent inode number is the listing
                     directory's number (the root's own parent field is not constrained: libsquashfs writes 0,
                     mksquashfs inode_count + 1).
                     other inodes: link count = number of directory entries, over all listings, with that inode number

   The data decompressor has the calling convention of sqfs_compressor_t.do_block: (input, capacity). *)
From Coq Require Import List NArith ZArith Bool.
From SqfsV Require Import Base.Bytes Gen.Constants C03.Common C03.MetaModel C03.DirModel.
From SqfsV Require C14.SuperModel.
From SqfsV Require Import C01.Res C01.InodeModel Img.TreeModel Image.ReaderModel Image.ValidModel.
From SqfsV Require Import ImgXattr.XattrRead.
Import ListNotations.
Local Open Scope N_scope.

Definition W24 : N := 16777216.            (* 1 << 24: "uncompressed" bit of a data / fragment block size word *)

Section Full.
  Variable muncompress : list N -> option (list N).            (* metadata blocks *)
  Variable duncompress : list N -> nat -> option (list N).     (* data blocks: input, capacity *)
  Variable devblk : N.

  (* where the data area begins: behind the super block and the compressor options, if present (v_opts checks that
     block) *)
  Definition data_start (img : list N) (s : SuperModel.super) : N :=
    if N.land (SuperModel.s_flags s) FLAG_COMP_OPTS =? 0 then SUPER_SIZE
    else match read_block muncompress img SUPER_SIZE with
         | Some (_, size, _) => SUPER_SIZE + 2 + size
         | None => SUPER_SIZE
         end.

  (* the content of a stored block given its bytes: bit 24 of the size word clear = compressed *)
  Definition decode_data (w : N) (raw : list N) (cap : N) : option (list N) :=
    if w <? W24 then duncompress raw (N.to_nat cap) else Some raw.

  (* ---- v_frag ---- *)
  (* [rest] = the image from byte [start] on *)
  Definition frag_len_at (lo hi bs : N) (rest : list N) (e : N * N * N) : option N :=
    let '(start, w, _) := e in
    let size := w mod W24 in
    if (w <? 2 * W24) && (1 <=? size) && (lo <=? start) && (start + size <=? hi) then
      match decode_data w (takeN size rest) bs with
      | Some c => if (1 <=? lenN c) && (lenN c <=? bs) && (size <=? lenN c) then Some (lenN c) else None
      | None => None
      end
    else None.

  Definition frag_len (img : list N) (lo hi bs : N) (e : N * N * N) : option N :=
    frag_len_at lo hi bs (dropN (fst (fst e)) img) e.

  Fixpoint frag_lens (img : list N) (lo hi bs : N) (l : list (N * N * N)) : option (list N) :=
    match l with
    | [] => Some []
    | e :: r =>
      match frag_len img lo hi bs e, frag_lens img lo hi bs r with
      | Some n, Some ns => Some (n :: ns)
      | _, _ => None
      end
    end.

  (* ---- v_data ---- *)
  (* [rest] = the image from byte [off] on; [rem] = bytes of the file the remaining words stand for *)
  Fixpoint blocks_ok (lo hi bs : N) (words : list N) (off : N) (rest : list N) (rem : N) : bool :=
    match words with
    | [] => rem =? 0
    | w :: r =>
      let ub := N.min bs rem in
      let size := w mod W24 in
      (1 <=? ub) && (w <? 2 * W24) &&
      (if size =? 0 then (w =? 0) && blocks_ok lo hi bs r off rest (rem - ub)
       else
         (lo <=? off) && (off + size <=? hi) && (size <=? ub) &&
         match decode_data w (takeN size rest) ub with
         | Some c => (lenN c =? ub) && blocks_ok lo hi bs r (off + size) (dropN size rest) (rem - ub)
         | None => false
         end)
    end.

  (* [rest] = the image from the file's blocks_start on *)
  Definition file_ok_at (lo hi bs : N) (flens : list N) (rest : list N) (k : lkind) : bool :=
    match k with
    | LFile start fsize _ fi fo words =>
      let tail := fsize mod bs in
      let hasf := negb (fi =? NOX) in
      let in_frag := hasf && negb (tail =? 0) in
      blocks_ok lo hi bs words start rest (if in_frag then fsize - tail else fsize) &&
      (if hasf then
         match nth_error flens (N.to_nat fi) with
         | Some fl => fo + tail <=? fl
         | None => false
         end
       else true)
    | _ => true
    end.

  Definition file_start (k : lkind) : N := match k with LFile start _ _ _ _ _ => start | _ => 0 end.

  Definition file_ok (img : list N) (lo hi bs : N) (flens : list N) (k : lkind) : bool :=
    file_ok_at lo hi bs flens (dropN (file_start k) img) k.

  Definition v_data (img : list N) (lo hi bs : N) (flens : list N) (l : list (N * inode)) : bool :=
    forallb (fun p => file_ok img lo hi bs flens (lkind_of_body (i_body (snd p)))) l.

  (* ---- the same with a table of the image's suffixes at every 64 KiB, so that "the image from byte p on" costs at most
          64 Ki steps: what valid_image_full evaluates (Fast.v: frag_lens_fast = frag_lens, v_data_fast = v_data) ---- *)
  Definition CHUNK : N := 65536.

  Fixpoint suffixes (fuel : nat) (l : list N) : list (list N) :=
    match fuel with
    | O => []
    | S f => l :: suffixes f (dropN CHUNK l)
    end.

  Definition suffix_table (img : list N) : list (list N) := suffixes (S (N.to_nat (lenN img / CHUNK))) img.

  Definition seek (img : list N) (tbl : list (list N)) (start : N) : list N :=
    match nth_error tbl (N.to_nat (start / CHUNK)) with
    | Some sfx => dropN (start mod CHUNK) sfx
    | None => dropN start img
    end.

  Fixpoint frag_lens_fast (img : list N) (tbl : list (list N)) (lo hi bs : N) (l : list (N * N * N)) : option (list N) :=
    match l with
    | [] => Some []
    | e :: r =>
      match frag_len_at lo hi bs (seek img tbl (fst (fst e))) e, frag_lens_fast img tbl lo hi bs r with
      | Some n, Some ns => Some (n :: ns)
      | _, _ => None
      end
    end.

  Definition v_data_fast (img : list N) (tbl : list (list N)) (lo hi bs : N) (flens : list N) (l : list (N * inode)) : bool :=
    forallb (fun p => let k := lkind_of_body (i_body (snd p)) in
                      file_ok_at lo hi bs flens (seek img tbl (file_start k)) k) l.

  (* ---- v_xattr_inodes ---- *)
  Definition xattr_count (img : list N) (s : SuperModel.super) : N :=
    if present (SuperModel.s_xattr_start s)
    then match read_xattr_table muncompress img s with Some t => xt_count t | None => 0 end
    else 0.

  Definition xattr_idx_ok (count : N) (l : list (N * inode)) : bool :=
    forallb (fun p => let x := get_xattr_index (i_body (snd p)) in (x =? NOX) || (x <? count)) l.

  (* ---- v_export ---- *)
  Definition export_ok (bt : list (N * N * N)) (l : list (N * inode)) (arr : list N) : bool :=
    forallb (fun p =>
               let k := ib_ino (i_base (snd p)) in
               (1 <=? k) &&
               match nth_error arr (N.to_nat (k - 1)) with
               | Some r => match ref_offset bt r with Some o => o =? fst p | None => false end
               | None => false
               end) l.

  Definition v_export (bt : list (N * N * N)) (l : list (N * inode)) (x : option (list N)) : bool :=
    match x with
    | Some arr => export_ok bt l arr
    | None => true
    end.

  (* ---- v_links ---- *)
  (* every directory inode with its entries *)
  Fixpoint dir_listings (dtbl : list N) (l : list (N * inode)) : option (list (inode * list dent)) :=
    match l with
    | [] => Some []
    | (_, i) :: r =>
      match dir_loc (i_body i) with
      | None => dir_listings dtbl r
      | Some (sb, off, sz) =>
        match read_listing muncompress dtbl sb off sz, dir_listings dtbl r with
        | Some ents, Some ds => Some ((i, ents) :: ds)
        | _, _ => None
        end
      end
    end.

  Definition parent_of (b : ibody) : option N :=
    match b with
    | BDir _ _ _ _ par => Some par
    | BDirX _ _ _ par _ _ _ _ => Some par
    | _ => None
    end.

  Definition is_dir_ent (e : dent) : bool := de_type e =? c_SQFS_INODE_DIR.

  Definition count_refs (all : list dent) (k : N) : N := lenN (filter (fun e => de_num e =? k) all).

  Definition dir_links_ok (bt : list (N * N * N)) (l : list (N * inode)) (d : inode * list dent) : bool :=
    let '(i, ents) := d in
    let nl := nlink_of (i_body i) in
    ((nl =? 2 + lenN ents) || (nl =? 2 + lenN (filter is_dir_ent ents))) &&
    forallb (fun e =>
               if is_dir_ent e then
                 match resolve bt l (de_ref e) with
                 | Some c => match parent_of (i_body c) with
                             | Some par => par =? ib_ino (i_base i)
                             | None => false
                             end
                 | None => false
                 end
               else true) ents.

  Definition nondir_links_ok (all : list dent) (l : list (N * inode)) : bool :=
    forallb (fun p =>
               let i := snd p in
               match dir_loc (i_body i) with
               | Some _ => true
               | None => nlink_of (i_body i) =? count_refs all (ib_ino (i_base i))
               end) l.

  Definition v_dir_links (bt : list (N * N * N)) (l : list (N * inode)) (dirs : list (inode * list dent)) : bool :=
    forallb (dir_links_ok bt l) dirs.

  Definition v_links (bt : list (N * N * N)) (l : list (N * inode)) (dtbl : list N) : bool :=
    match dir_listings dtbl l with
    | Some dirs => v_dir_links bt l dirs && nondir_links_ok (concat (map snd dirs)) l
    | None => false
    end.

  (* ---- the new clauses on the image bytes ---- *)
  Definition valid_refs (img : list N) (s : SuperModel.super) : bool :=
    match inodes_of muncompress img s, tables_of img s, read_frags muncompress img s, read_export muncompress img s with
    | Some (bt, l), Some (_, dtbl), Some frags, Some ex =>
      let lo := data_start img s in
      let hi := SuperModel.s_inode_start s in
      let bs := SuperModel.s_block_size s in
      let tbl := suffix_table img in
      match frag_lens_fast img tbl lo hi bs frags with
      | Some flens =>
        v_data_fast img tbl lo hi bs flens l && xattr_idx_ok (xattr_count img s) l && v_export bt l ex &&
        v_links bt l dtbl
      | None => false
      end
    | _, _, _, _ => false
    end.

  (* the same in two parts, for statements about a part (Fast.valid_refs_split: valid_core and valid_nlinks give valid_refs):
     everything but the link counts of non-directories, and those *)
  Definition valid_core (img : list N) (s : SuperModel.super) : bool :=
    match inodes_of muncompress img s, tables_of img s, read_frags muncompress img s, read_export muncompress img s with
    | Some (bt, l), Some (_, dtbl), Some frags, Some ex =>
      let lo := data_start img s in
      let hi := SuperModel.s_inode_start s in
      let bs := SuperModel.s_block_size s in
      match frag_lens img lo hi bs frags with
      | Some flens =>
        v_data img lo hi bs flens l && xattr_idx_ok (xattr_count img s) l && v_export bt l ex &&
        match dir_listings dtbl l with Some dirs => v_dir_links bt l dirs | None => false end
      | None => false
      end
    | _, _, _, _ => false
    end.

  Definition valid_nlinks (img : list N) (s : SuperModel.super) : bool :=
    match inodes_of muncompress img s, tables_of img s with
    | Some (bt, l), Some (_, dtbl) =>
      match dir_listings dtbl l with Some dirs => nondir_links_ok (concat (map snd dirs)) l | None => false end
    | _, _ => false
    end.

  Definition valid_image_full (img : list N) : bool :=
    valid_image muncompress devblk img &&
    match read_super img with
    | Some s => valid_refs img s
    | None => false
    end.

  (* which clause fails first: 0 = none, 1 .. 12 = Image.ValidModel.first_failure, 13 = v_frag, 14 = v_data,
     15 = v_xattr_inodes, 16 = v_export, 17 = v_links (directories), 18 = v_links (other inodes),
     19 = a table does not read *)
  Definition first_failure_full (img : list N) : N :=
    let f := first_failure muncompress devblk img in
    if negb (f =? 0) then f else
    match read_super img with
    | None => 1
    | Some s =>
      match inodes_of muncompress img s, tables_of img s, read_frags muncompress img s, read_export muncompress img s with
      | Some (bt, l), Some (_, dtbl), Some frags, Some ex =>
        let lo := data_start img s in
        let hi := SuperModel.s_inode_start s in
        let bs := SuperModel.s_block_size s in
        let tbl := suffix_table img in
        match frag_lens_fast img tbl lo hi bs frags with
        | None => 13
        | Some flens =>
          if negb (v_data_fast img tbl lo hi bs flens l) then 14
          else if negb (xattr_idx_ok (xattr_count img s) l) then 15
          else if negb (v_export bt l ex) then 16
          else match dir_listings dtbl l with
               | None => 17
               | Some dirs =>
                 if negb (v_dir_links bt l dirs) then 17
                 else if negb (nondir_links_ok (concat (map snd dirs)) l) then 18 else 0
               end
        end
      | _, _, _, _ => 19
      end
    end.
End Full.

(* a data decompressor (input, capacity) from a metadata-style one: the result must fit the capacity *)
Definition dunc_of (u : list N -> option (list N)) (raw : list N) (cap : nat) : option (list N) :=
  match u raw with
  | Some d => if Nat.leb (length d) cap then Some d else None
  | None => None
  end.
