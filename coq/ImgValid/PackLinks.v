(* ImgValid — Clauses.tree_nlinks for the tree lib/fstree hands to the serializer: the link count of a node that is not a
   directory (1 from fstree_add_generic + one link_count++ per hard link fstree_resolve_hard_links resolved to it) is the
   number of directory entries that carry its inode number: its own entry in its parent directory, and one entry per
   hard link node whose target_node it is.  The counting argument: the (directory, child) pairs of all numbered
   directories name every node but the root exactly once; the hard link nodes among them are a permutation of
   fs->links_unresolved (LinksExact), whose elements the resolver paired with their targets one by one. *)
From Coq Require Import List NArith ZArith Bool Arith Lia Sorted Permutation ZifyBool ZifyNat ZifyN.
From SqfsV Require Import C03.Common C01.GenC01 C01.Res C01.InodeModel Img.TreeModel Img.Domain.
From SqfsV Require Import C11.StrOrder C11.FstreeModel C11.PostModel C11.OrderProofs C11.TreeProofs C11.PostProofs.
From SqfsV Require Import ImgPost.Bridge ImgPost.InputOk ImgPost.TreeInv ImgPost.ResolveInv ImgPost.ListPos
  ImgPost.AllocInv ImgPost.ReorderInv ImgPost.StructInv ImgPost.BridgeProofs.
From SqfsV Require Import ImgValid.Clauses ImgValid.PackTree ImgValid.LinksExact.
Import ListNotations.
Local Open Scope N_scope.

(* ---- list lemmas ---- *)
Lemma filter_map_len {A B} (f : A -> B) (g : B -> bool) l : length (filter g (map f l)) = length (filter (fun x => g (f x)) l).
Proof. induction l as [|x l IH]; [reflexivity|]. cbn [map filter]. destruct (g (f x)); cbn [length]; congruence. Qed.

Lemma filter_if_len {A} (h a b : A -> bool) l :
  length (filter (fun x => if h x then a x else b x) l)
  = (length (filter (fun x => negb (h x) && b x) l) + length (filter (fun x => h x && a x) l))%nat.
Proof.
  induction l as [|x l IH]; [reflexivity|]. cbn [filter]. destruct (h x); cbn [negb andb].
  - destruct (a x); cbn [length]; lia.
  - destruct (b x); cbn [length]; lia.
Qed.

Lemma filter_key_one {A} (key : A -> path) (p : path) : forall l x,
  NoDup (map key l) -> In x l -> key x = p -> length (filter (fun y => path_eqb (key y) p) l) = 1%nat.
Proof.
  induction l as [|y l IH]; intros x ND Hin E; [destruct Hin|].
  cbn [map] in ND. inversion ND as [|? ? Hy ND']; subst. cbn [filter].
  destruct Hin as [->|Hin].
  - rewrite path_eqb_refl. cbn [length]. f_equal.
    assert (Z : filter (fun y => path_eqb (key y) (key x)) l = []).
    { clear - Hy. induction l as [|z l IH]; [reflexivity|]. cbn [filter].
      destruct (path_eqb (key z) (key x)) eqn:E.
      - apply path_eqb_eq in E. exfalso. apply Hy. cbn [map]. left. exact E.
      - apply IH. intro H. apply Hy. right. exact H. }
    rewrite Z. reflexivity.
  - destruct (path_eqb (key y) (key x)) eqn:E'.
    + apply path_eqb_eq in E'. exfalso. apply Hy. rewrite E'. apply in_map. exact Hin.
    + exact (IH x ND' Hin eq_refl).
Qed.

Lemma NoDup_map_filter {A B} (f : A -> B) (g : A -> bool) l : NoDup (map f l) -> NoDup (map f (filter g l)).
Proof.
  induction l as [|x l IH]; intro ND; [constructor|]. cbn [map] in ND. inversion ND as [|? ? Hx ND']; subst.
  cbn [filter]. destruct (g x); [|exact (IH ND')]. cbn [map]. constructor; [|exact (IH ND')].
  intro H. apply Hx. apply in_map_iff in H. destruct H as (y & E & Hy). apply filter_In in Hy. destruct Hy as [Hy _].
  apply in_map_iff. exists y. split; assumption.
Qed.

Lemma map_flat_map {A B C} (f : B -> C) (g : A -> list B) l : map f (flat_map g l) = flat_map (fun x => map f (g x)) l.
Proof. induction l as [|x l IH]; [reflexivity|]. cbn [flat_map]. rewrite map_app, IH. reflexivity. Qed.

Lemma flat_map_map' {A B C} (f : A -> B) (g : B -> list C) l : flat_map g (map f l) = flat_map (fun x => g (f x)) l.
Proof. induction l as [|x l IH]; [reflexivity|]. cbn [map flat_map]. rewrite IH. reflexivity. Qed.

(* a flat_map is duplicate free when the pieces are, and every element tells which piece it is from *)
Lemma NoDup_flat_map_key {A B} (g : A -> list B) (key : B -> A) : forall l,
  NoDup l -> (forall x, In x l -> NoDup (g x)) -> (forall x y, In y (g x) -> key y = x) -> NoDup (flat_map g l).
Proof.
  induction l as [|x l IH]; intros ND Hp Hk; [constructor|]. inversion ND as [|? ? Hx ND']; subst.
  cbn [flat_map]. apply NoDup_app_intro.
  - apply Hp. left. reflexivity.
  - apply IH; [exact ND'|intros z Hz; apply Hp; right; exact Hz|exact Hk].
  - intros y H1 H2. apply in_flat_map in H2. destruct H2 as (z & Hz & Hy).
    apply Hx. rewrite <- (Hk x y H1), (Hk z y Hy). exact Hz.
Qed.

(* ---- the (directory, child) pairs ---- *)
Definition pc_of (root : tnode) (q : path) : list (path * tnode) :=
  match lookup_path q root with
  | Some nd => if is_dir nd then map (fun c => (q, c)) (node_children nd) else []
  | None => []
  end.

Definition cpath (x : path * tnode) : path := fst x ++ [node_name (snd x)].

Definition hl (x : path * tnode) : bool := is_hardlink (snd x).

Section PL.
  Variable bs : N.
  Variable d : fsdefaults.
  Variable ops : list op.
  Variable fs : fstree.
  Variable pp : ppout.
  Variable fb : path -> ibody.
  Variable xa : path -> N.
  Hypothesis Hin : input_okb bs d ops = true.
  Hypothesis Hrun : run_adds d (fs_init d) ops = Some fs.
  Hypothesis Hpost : post_process fs = POk pp.

  Let root0 := fs_root fs.
  Let root := pp_root pp.
  Let arr := pp_inodes pp.
  Let t := to_img fb xa pp.
  Let PC := flat_map (pc_of root) arr.
  Let E (x : path * tnode) : list N * N := entry_of arr (fst x) (snd x).

  Lemma children_img q : children_of (node_img fb xa arr root q) = map E (pc_of root q).
  Proof.
    unfold children_of, node_img, pc_of. destruct (lookup_path q root) as [[nm a ch]|]; [|reflexivity].
    unfold is_dir. cbn [node_attr node_children].
    destruct (a_type a); cbn [ftype_eqb fn_payload map]; try reflexivity.
    - rewrite map_map. reflexivity.
    - destruct (a_hard a); reflexivity.
  Qed.

  Lemma all_children_eq : all_children t = map E PC.
  Proof.
    unfold all_children, t, to_img. fold arr root. rewrite flat_map_map'. unfold PC. rewrite map_flat_map.
    apply flat_map_ext. intro q. apply children_img.
  Qed.

  Section WithPost.
    Variable st : rstate.
    Hypothesis PO : Post fs pp st.

    Let I : Inv root arr := po_inv fs pp st PO.
    Let S1 : snames root := snames_root bs d ops fs pp Hin Hrun st PO.

    Lemma pc_lookup x : In x PC -> lookup_path (cpath x) root = Some (snd x) /\ In (fst x) arr.
    Proof.
      intro H. unfold PC in H. apply in_flat_map in H. destruct H as (q & Hq & Hx).
      unfold pc_of in Hx. destruct (lookup_path q root) as [nd|] eqn:L; [|destruct Hx].
      destruct (is_dir nd) eqn:D; [|destruct Hx]. apply in_map_iff in Hx. destruct Hx as (c & <- & Hc).
      unfold cpath. cbn [fst snd]. split; [|exact Hq].
      pose proof (snames_lookup q root nd S1 L) as Sn. destruct nd as [nm a ch]. destruct (snames_inv _ _ _ Sn) as [Sn1 _].
      exact (lookup_app1 q root _ c L D (find_child_of_in ch c (sorted_names_nodup _ Sn1) Hc)).
    Qed.

    Lemma pc_complete l nd : l <> [] -> lookup_path l root = Some nd -> exists x, In x PC /\ cpath x = l /\ snd x = nd.
    Proof.
      intros Hl L. destruct (exists_last Hl) as (q & c & ->).
      destruct (lookup_snoc_inv q c root nd L) as (ndq & Lq & Dq & Fq).
      assert (Nq : numbered root q).
      { exists ndq. split; [exact Lq|]. destruct (is_hardlink ndq) eqn:Eh; [|reflexivity].
        apply is_hardlink_not_dir in Eh. congruence. }
      exists (q, nd). split.
      - unfold PC. apply in_flat_map. exists q. split; [exact (inv_complete _ _ I q Nq)|].
        unfold pc_of. rewrite Lq, Dq. apply in_map. eapply find_child_in. exact Fq.
      - unfold cpath. cbn [fst snd]. rewrite (find_child_name _ _ _ Fq). split; reflexivity.
    Qed.

    Lemma pc_nodup : NoDup (map cpath PC).
    Proof.
      unfold PC. rewrite map_flat_map.
      apply (NoDup_flat_map_key (fun q => map cpath (pc_of root q)) (@removelast name)).
      - exact (inv_nodup _ _ I).
      - intros q _. unfold pc_of. destruct (lookup_path q root) as [nd|] eqn:L; [|constructor].
        destruct (is_dir nd); [|constructor]. rewrite map_map. unfold cpath. cbn [fst snd].
        pose proof (snames_lookup q root nd S1 L) as Sn. destruct nd as [nm a ch]. destruct (snames_inv _ _ _ Sn) as [Sn1 _].
        cbn [node_children]. pose proof (sorted_names_nodup _ Sn1) as ND. clear - ND.
        induction ch as [|c ch IH]; [constructor|]. cbn [map] in ND |- *. inversion ND as [|? ? Hc ND']; subst.
        constructor; [|exact (IH ND')]. intro H. apply Hc. apply in_map_iff in H. destruct H as (c' & E' & Hc').
        apply app_inj_tail in E'. destruct E' as [_ E']. rewrite <- E'. apply in_map. exact Hc'.
      - intros q y Hy. unfold pc_of in Hy. destruct (lookup_path q root) as [nd|]; [|destruct Hy].
        destruct (is_dir nd); [|destruct Hy]. rewrite map_map in Hy. apply in_map_iff in Hy. destruct Hy as (c & <- & _).
        unfold cpath. cbn [fst snd]. apply removelast_snoc.
    Qed.

    (* which entries carry the number of the node at position j *)
    Lemma entry_number j p x : nth_error arr j = Some p -> In x PC ->
      (snd (E x) =? N.of_nat j + 1) =
      (if hl x then to_p p (a_resolved (node_attr (snd x))) else path_eqb (cpath x) p).
    Proof.
      intros Hj Hx. pose proof (inv_nodup _ _ I) as ND.
      assert (K : forall l, (ino_of arr l =? N.of_nat j + 1) = path_eqb l p).
      { intro l. unfold ino_of. destruct (index_of l arr) as [k|] eqn:Ei.
        - apply index_of_nth in Ei.
          destruct (path_eqb l p) eqn:Ep.
          + apply path_eqb_eq in Ep. subst l. rewrite NoDup_nth_error in ND.
            assert (k = j) by (apply ND; [apply nth_error_Some; congruence|congruence]). subst k. apply N.eqb_eq. lia.
          + apply N.eqb_neq. intro Q. assert (k = j) by lia. subst k. rewrite Hj in Ei. injection Ei as ->.
            rewrite path_eqb_refl in Ep. discriminate.
        - destruct (path_eqb l p) eqn:Ep.
          + apply path_eqb_eq in Ep. subst l. apply index_of_none in Ei. exfalso. apply Ei. eapply nth_error_In. exact Hj.
          + apply N.eqb_neq. lia. }
      unfold E, entry_of, hl. cbn [snd]. destruct (is_hardlink (snd x)).
      - destruct (a_resolved (node_attr (snd x))) as [tg|]; cbn [to_p]; [apply K|apply N.eqb_neq; lia].
      - apply K.
    Qed.

    (* ---- the hard link entries are the queued links ---- *)
    Lemma exact0 : links_exact root0 (fs_unres fs).
    Proof. exact (run_adds_links_exact d ops (fs_init d) fs (init_links_exact d) Hrun). Qed.

    Lemma root_eq : root = decorate st [] root0.
    Proof. exact (po_root fs pp st PO). Qed.

    Lemma hl_perm : Permutation (map cpath (filter hl PC)) (fs_unres fs).
    Proof.
      destruct exact0 as [ND0 Q0].
      apply NoDup_Permutation; [apply NoDup_map_filter; exact pc_nodup|exact ND0|].
      intro l. split.
      - intro H. apply in_map_iff in H. destruct H as (x & <- & Hx). apply filter_In in Hx. destruct Hx as [Hx Hh].
        destruct (pc_lookup x Hx) as [L _]. rewrite root_eq in L.
        destruct (lookup_decorate_root _ _ _ _ L) as (nd0 & L0 & Ex).
        unfold hl in Hh. rewrite Ex, decorate_is_hardlink in Hh.
        exact (root0_queued d ops fs Hrun _ nd0 L0 Hh).
      - intro H. destruct (Q0 l H) as (nd0 & L0 & Hh).
        assert (Hl : l <> []).
        { intro Z. subst l. cbn in L0. injection L0 as <-. apply is_hardlink_not_dir in Hh.
          pose proof (root0_dir d ops fs Hrun). unfold root0 in Hh. congruence. }
        assert (L : lookup_path l root = Some (decorate st l nd0)).
        { rewrite root_eq, lookup_decorate. fold root0. rewrite L0. reflexivity. }
        destruct (pc_complete l _ Hl L) as (x & Hx & Ec & En).
        apply in_map_iff. exists x. split; [exact Ec|]. apply filter_In. split; [exact Hx|].
        unfold hl. rewrite En, decorate_is_hardlink. exact Hh.
    Qed.

    Lemma resolved_assoc x : In x PC -> a_resolved (node_attr (snd x)) = assoc_path (cpath x) (rs_res st).
    Proof.
      intro Hx. destruct (pc_lookup x Hx) as [L _]. rewrite root_eq in L.
      destruct (lookup_decorate_root _ _ _ _ L) as (nd0 & _ & ->). apply decorate_resolved.
    Qed.

    Lemma filter_and {A} (h a : A -> bool) l : filter (fun x => h x && a x) l = filter a (filter h l).
    Proof. induction l as [|x l IH]; [reflexivity|]. cbn [filter]. destruct (h x); cbn [andb filter]; rewrite IH; reflexivity. Qed.

    Theorem nlinks_at j p nd0 :
      nth_error arr j = Some p -> lookup_path p root0 = Some nd0 -> is_dir nd0 = false -> is_hardlink nd0 = false ->
      refs_to t (N.of_nat j + 1) = 1 + count_path p (rs_cnt st).
    Proof.
      intros Hj L0 Dn Hn.
      assert (Lp : lookup_path p root = Some (decorate st p nd0)).
      { rewrite root_eq, lookup_decorate. fold root0. rewrite L0. reflexivity. }
      assert (Pne : p <> []).
      { intro Z. subst p. cbn in L0. injection L0 as <-. pose proof (root0_dir d ops fs Hrun). unfold root0 in Dn. congruence. }
      set (g := fun l => to_p p (assoc_path l (rs_res st))).
      unfold refs_to, lenN. rewrite all_children_eq, filter_map_len.
      rewrite (filter_ext_in _ (fun x => if hl x then to_p p (a_resolved (node_attr (snd x))) else path_eqb (cpath x) p) PC)
        by (intros x Hx; exact (entry_number j p x Hj Hx)).
      rewrite filter_if_len.
      (* the node's own entry *)
      assert (One : length (filter (fun x => negb (hl x) && path_eqb (cpath x) p) PC) = 1%nat).
      { rewrite (filter_ext_in _ (fun x => path_eqb (cpath x) p) PC).
        - destruct (pc_complete p _ Pne Lp) as (x & Hx & Ec & _).
          exact (filter_key_one cpath p PC x pc_nodup Hx Ec).
        - intros x Hx. destruct (path_eqb (cpath x) p) eqn:Ep; [|apply andb_false_r].
          apply path_eqb_eq in Ep. destruct (pc_lookup x Hx) as [L _]. rewrite Ep, Lp in L. injection L as E'.
          unfold hl. rewrite <- E', decorate_is_hardlink, Hn. reflexivity. }
      rewrite One.
      (* the hard links resolved to it *)
      assert (Two : length (filter (fun x => hl x && to_p p (a_resolved (node_attr (snd x)))) PC)
                    = length (filter g (fs_unres fs))).
      { rewrite filter_and.
        rewrite (filter_ext_in _ (fun x => g (cpath x)) (filter hl PC)).
        - rewrite <- (filter_map_len cpath g). apply filter_length_perm. exact hl_perm.
        - intros x Hx. apply filter_In in Hx. destruct Hx as [Hx _]. unfold g. rewrite (resolved_assoc x Hx). reflexivity. }
      rewrite Two.
      pose proof (po_res fs pp st PO) as R. fold root0 in R.
      rewrite (resolve_all_cnt root0 (fs_unres fs) (mkRs [] []) st eq_refl R).
      pose proof (resolve_all_fst root0 _ _ _ R) as F. cbn [rs_res map] in F. rewrite app_nil_r in F.
      destruct exact0 as [ND0 _].
      rewrite count_path_assoc by (rewrite F; apply NoDup_rev; exact ND0).
      rewrite F. fold g. rewrite <- (filter_length_perm g _ _ (Permutation_rev (fs_unres fs))). lia.
    Qed.
  End WithPost.

  Theorem pack_tree_nlinks : tree_nlinks t.
  Proof.
    destruct (post bs d ops fs pp Hin Hrun Hpost) as (st & PO).
    intros j n Hn Nd. destruct (t_nth pp fb xa j n Hn) as (p & Hj & En).
    destruct (at_pos bs d ops fs pp Hin Hrun st j p PO Hj) as (nd0 & L0 & W0 & L & Hh & _).
    fold arr root in Hj, En, L. fold root0 in L0.
    assert (Dn : is_dir nd0 = false).
    { destruct (is_dir nd0) eqn:Ed; [|reflexivity]. exfalso.
      subst n. unfold node_img in Nd. rewrite L in Nd. destruct nd0 as [nm a ch0]. cbn [decorate] in Nd.
      unfold is_dir in Ed. cbn [node_attr] in Ed. apply ftype_eqb_eq in Ed.
      cbn [set_post a_type] in Nd. rewrite Ed in Nd. cbn [fn_payload] in Nd. eapply Nd. reflexivity. }
    rewrite (nlinks_at st PO j p nd0 Hj L0 Dn Hh).
    subst n. unfold node_img. rewrite L. destruct nd0 as [nm a ch0]. cbn [decorate].
    cbn [set_post a_type a_perm a_uid a_gid a_mtime a_links a_hard a_target a_devno].
    destruct (wf_inv _ _ _ W0) as (_ & W2 & _). unfold links_ok in W2.
    unfold is_dir in Dn. cbn [node_attr] in Dn. rewrite Dn in W2. destruct W2 as [W2 _].
    unfold is_hardlink in Hh. cbn [node_attr] in Hh.
    destruct (a_type a) eqn:Ty; cbn [fn_nlink]; try (rewrite W2; reflexivity).
    cbn in Hh. rewrite Hh. cbn [fn_nlink]. rewrite W2. reflexivity.
  Qed.
End PL.
