(* ImgValid — the data clauses (v_frag, v_data) for what C08's [pack] leaves, on any byte string that holds the
   block writer's file from [base] on (the image: ImgData.Compose.image_agrees).  From C08's invariant of the block
   processor at the end of [pack] (PInv) through ImgData.RealReader.file_struct:
     pack_frag_lens   every fragment table entry decodes in place into the fragment block's 1 .. block size bytes
     pack_file_ok     the inode fields recorded for a file (GlueModel.file_lkind) pass ValidFull.file_ok: every stored
                      block of the file lies behind [base], directly behind the previous one from blocks_start, is not
                      larger than the data it decodes into, and that is min(block size, bytes left) bytes; the words
                      cover exactly the bytes that are not in the fragment; the tail end lies inside its fragment block *)
From Coq Require Import List NArith ZArith Arith Bool Lia.
From SqfsV Require Import Gen.Constants C03.Common.
From SqfsV Require Import C08.DedupModel C08.DedupLemmas C08.DedupWriterProofs C08.DedupReaderProofs
  C08.DedupPipeProofs C08.DedupTheorems.
From SqfsV Require C10.MetaModel.
From SqfsV Require Import C01.InodeModel Img.TreeModel.
From SqfsV Require Import ImgData.GlueModel ImgData.BoundInv ImgData.ShiftProofs ImgData.RealBlocks ImgData.RealReader.
From SqfsV Require Import ImgValid.ValidFull.
Import ListNotations.

Lemma takeN_of_nat {A} n (l : list A) : takeN (N.of_nat n) l = firstn n l.
Proof. unfold takeN. rewrite Nat2N.id. reflexivity. Qed.
Lemma dropN_of_nat {A} n (l : list A) : dropN (N.of_nat n) l = skipn n l.
Proof. unfold dropN. rewrite Nat2N.id. reflexivity. Qed.

Lemma sw_mod n c : small n -> (sw_of n c mod W24 = N.of_nat n)%N.
Proof.
  unfold small, sw_of, W24, two24. intro H. destruct c.
  - apply N.mod_small. exact H.
  - replace (N.of_nat n + 16777216)%N with (N.of_nat n + 1 * 16777216)%N by lia.
    rewrite N.mod_add by discriminate. apply N.mod_small. exact H.
Qed.

Lemma sw_lt n c : small n -> (sw_of n c <? 2 * W24)%N = true.
Proof. unfold small, sw_of, W24, two24. intro H. apply N.ltb_lt. destruct c; lia. Qed.

Lemma sw_comp_bit n c : small n -> (sw_of n c <? W24)%N = c.
Proof.
  unfold small, sw_of, W24, two24. intro H. destruct c.
  - apply N.ltb_lt. exact H.
  - apply N.ltb_ge. lia.
Qed.

Section PD.
Variable hashf : list N -> N.
Variable dcompress : list N -> option (list N).
Variable duncompress : list N -> nat -> option (list N).
Variable bs half : nat.
Hypothesis Hdcomp : forall b c, dcompress b = Some c ->
  length c < length b /\ forall n, length b <= n -> duncompress c n = Some b.
Hypothesis Hbs : 0 < bs.
Hypothesis Hsmall : small bs.
Hypothesis Hhalf : 0 < half.

Variable files : list (uflags * list N).
Variable base : nat.
Variable st : proc.
Variable claims : list (nat * list N).
Variable fbd : nat -> list N.
Hypothesis HP : PInv hashf dcompress duncompress bs base files st [] claims fbd (length files) (length files).
Hypothesis Hfb : p_fragblk st = None.
Hypothesis Hrefs : refs_behind base st (length files).
Hypothesis Hnob : no_block_start hashf dcompress bs files st.
Hypothesis Hnfrag : (N.of_nat (p_nfrag st) < 4294967296)%N.

Variable img : list N.
Hypothesis Hagree : agree base (w_file (p_wr st)) img.
Hypothesis Hlen : length (w_file (p_wr st)) <= length img.
Hypothesis Himg : (N.of_nat (length img) < MetaModel.off_t_limit)%N.

Notation dec_ok := (dec_ok duncompress).
Let lo : N := N.of_nat base.
Let hi : N := N.of_nat (length (w_file (p_wr st))).
Let bsN : N := N.of_nat bs.

(* a claim of the block writer read in the image *)
Lemma claim_in_img loc data :
  In (loc, data) claims -> data <> [] -> base <= loc \/ loc = 0 ->
  (loc = 0 -> False) \/ base <= loc ->
  base <= loc ->
  loc + length data <= length (w_file (p_wr st)) /\ slice img loc (length data) = data.
Proof.
  intros Hin _ _ _ Hb.
  pose proof (claim_holds hashf dcompress duncompress bs base files _ _ _ _ _ _ _ HP Hin) as Hh.
  pose proof Hh as [H1 _]. cbn [fst snd] in H1.
  destruct (holds_img bs half Hbs Hhalf base st img Hagree Hlen Himg (loc, data) Hh (or_introl Hb)) as [_ H2].
  cbn [fst snd] in H2. split; assumption.
Qed.

(* one stored block decodes into the data the worker was given *)
Lemma decode_stored p d cap :
  dec_ok p d -> pb_sparse p = false -> length d <= cap -> length d <= bs ->
  decode_data duncompress (word p) (pb_data p) (N.of_nat cap) = Some d /\
  (word p mod W24 = N.of_nat (length (pb_data p)))%N /\ (word p <? 2 * W24)%N = true /\
  pb_data p <> [] /\ length (pb_data p) <= length d.
Proof.
  intros (Hd & L & _ & S2) Es Hc Hl. destruct (S2 Es) as (NE & R1 & R2).
  assert (Sm : small (length (pb_data p))) by (eapply small_le; [|exact Hsmall]; lia).
  unfold word. rewrite Es. split; [|split; [apply sw_mod; exact Sm|split; [apply sw_lt; exact Sm|split; assumption]]].
  unfold decode_data. rewrite (sw_comp_bit _ _ Sm). rewrite Nat2N.id.
  destruct (pb_compressed p); [apply R2; [reflexivity|exact Hc]|rewrite (R1 eq_refl); reflexivity].
Qed.

(* ---- v_frag ---- *)
Definition flens_of : list N := map (fun i => N.of_nat (length (fbd i))) (seq 0 (p_nfrag st)).

Lemma on_disk idx : idx < p_nfrag st -> OnDisk duncompress bs st claims fbd idx.
Proof.
  intro Hi. destruct HP as [_ _ _ _ _ P6 _ _ _ _ _ _ _].
  destruct (P6 idx Hi) as [(fb & C & _)|[[]|H]]; [congruence|exact H].
Qed.

Lemma frag_entry_len idx : idx < p_nfrag st ->
  frag_len duncompress img lo hi bsN (N.of_nat (fst (p_ftab st idx)), snd (p_ftab st idx), 0%N)
  = Some (N.of_nat (length (fbd idx))).
Proof.
  intro Hi. destruct (on_disk idx Hi) as (loc & p & H1 & H2 & H3 & H4 & [H5 H6]).
  rewrite H1. cbn [fst snd].
  destruct (decode_stored p (fbd idx) bs H4 H3 H6 H6) as (DD & Wm & Wl & NE & Lp).
  assert (Hb : base <= loc).
  { destruct Hrefs as [B _]. destruct (B idx) as [Z|Z]; [|rewrite H1 in Z; exact Z].
    rewrite H1 in Z. injection Z as _ Zw. exfalso. rewrite Zw in Wm.
    destruct (pb_data p); [contradiction|]. cbn in Wm. discriminate. }
  destruct (claim_in_img loc (pb_data p) H2 NE (or_introl Hb) (or_intror Hb) Hb) as [C1 C2].
  unfold frag_len, frag_len_at. cbn [fst]. rewrite Wm, Wl.
  assert (Lpos : 0 < length (pb_data p)) by (destruct (pb_data p); [contradiction|simpl; lia]).
  assert (E1 : (1 <=? N.of_nat (length (pb_data p)))%N = true) by (apply N.leb_le; lia).
  assert (E2 : (lo <=? N.of_nat loc)%N = true) by (apply N.leb_le; unfold lo; lia).
  assert (E3 : (N.of_nat loc + N.of_nat (length (pb_data p)) <=? hi)%N = true) by (apply N.leb_le; unfold hi; lia).
  rewrite E1, E2, E3. cbn [andb].
  rewrite dropN_of_nat, takeN_of_nat. fold (slice img loc (length (pb_data p))). rewrite C2.
  unfold bsN. rewrite DD. unfold lenN.
  assert (F1 : (1 <=? N.of_nat (length (fbd idx)))%N = true) by (apply N.leb_le; lia).
  assert (F2 : (N.of_nat (length (fbd idx)) <=? N.of_nat bs)%N = true) by (apply N.leb_le; lia).
  assert (F3 : (N.of_nat (length (pb_data p)) <=? N.of_nat (length (fbd idx)))%N = true) by (apply N.leb_le; lia).
  rewrite F1, F2, F3. reflexivity.
Qed.

Definition frags3_of : list (N * N * N) := map (fun f : N * N => (fst f, snd f, 0%N)) (frag_table_of st).

Theorem pack_frag_lens : frag_lens duncompress img lo hi bsN frags3_of = Some flens_of.
Proof.
  unfold frags3_of, frag_table_of, flens_of. rewrite map_map. cbn [fst snd].
  assert (G : forall n k, k + n <= p_nfrag st ->
            frag_lens duncompress img lo hi bsN
              (map (fun i => (N.of_nat (fst (p_ftab st i)), snd (p_ftab st i), 0%N)) (seq k n))
            = Some (map (fun i => N.of_nat (length (fbd i))) (seq k n))).
  { induction n as [|n IH]; intros k Hk; [reflexivity|].
    cbn [seq map frag_lens]. rewrite (frag_entry_len k) by lia. rewrite (IH (S k)) by lia. reflexivity. }
  apply (G (p_nfrag st) 0). lia.
Qed.

Lemma flens_nth i : i < p_nfrag st -> nth_error flens_of i = Some (N.of_nat (length (fbd i))).
Proof.
  intro Hi. unfold flens_of. rewrite nth_error_map.
  assert (E : nth_error (seq 0 (p_nfrag st)) i = Some i).
  { rewrite (nth_error_nth' _ 0) by (rewrite seq_length; exact Hi). rewrite seq_nth by exact Hi. reflexivity. }
  rewrite E. reflexivity.
Qed.

(* ---- v_data: the blocks of one file ---- *)
Lemma blocks_walk : forall (pds : list (pblock * list N)) off,
  Forall (fun pd => dec_ok (fst pd) (snd pd)) pds ->
  sized bs 0 (map snd pds) ->
  (filter stored (map fst pds) <> [] -> base <= off) ->
  off + length (cat (filter stored (map fst pds))) <= length (w_file (p_wr st)) ->
  slice img off (length (cat (filter stored (map fst pds)))) = cat (filter stored (map fst pds)) ->
  blocks_ok duncompress lo hi bsN (map (fun pd => word (fst pd)) pds) (N.of_nat off) (skipn off img)
            (N.of_nat (length (concat (map snd pds)))) = true.
Proof.
  induction pds as [|[p d] pds IH]; intros off Hdec Hsz Hb Hr Hs.
  - cbn. reflexivity.
  - inversion Hdec as [|? ? Hd Hdec']; subst. cbn [fst snd] in Hd.
    cbn [map fst snd sized] in Hsz. destruct Hsz as [Hdlen Hsz].
    pose proof Hd as (Hdn & Lp & S1 & S2).
    assert (Hdp : 0 < length d) by (destruct d; [contradiction|simpl; lia]).
    assert (Hdl : length d <= bs) by lia.
    cbn [map fst snd concat blocks_ok]. rewrite app_length.
    assert (Eub : N.min bsN (N.of_nat (length d + length (concat (map snd pds)))) = N.of_nat (length d)).
    { unfold bsN. rewrite Nat.add_0_r in Hdlen. lia. }
    rewrite Eub.
    assert (E1 : (1 <=? N.of_nat (length d))%N = true) by (apply N.leb_le; lia). rewrite E1. cbn [andb].
    replace (N.of_nat (length d + length (concat (map snd pds))) - N.of_nat (length d))%N
      with (N.of_nat (length (concat (map snd pds)))) by lia.
    cbn [map fst filter] in Hb, Hr, Hs.
    destruct (pb_sparse p) eqn:Es.
    + (* sparse: nothing stored *)
      assert (Est : stored p = false) by (unfold stored; rewrite Es; apply andb_false_r).
      rewrite Est in Hb, Hr, Hs.
      unfold word at 1 2 3. rewrite Es. cbn. apply (IH off Hdec' Hsz Hb Hr Hs).
    + destruct (decode_stored p d (length d) Hd Es (le_n _) Hdl) as (DD & Wm & Wl & NE & Lp').
      assert (Lpos : 0 < length (pb_data p)) by (destruct (pb_data p); [contradiction|simpl; lia]).
      assert (Est : stored p = true).
      { unfold stored. rewrite Es. destruct (length (pb_data p) =? 0) eqn:E0; [apply Nat.eqb_eq in E0; lia|reflexivity]. }
      rewrite Est in Hb, Hr, Hs. rewrite cat_cons, app_length in Hr, Hs. rewrite slice_split in Hs.
      apply app_inj_len in Hs; [|rewrite slice_length by lia; reflexivity]. destruct Hs as [Hs1 Hs2].
      assert (Hbo : base <= off) by (apply Hb; discriminate).
      rewrite Wl, Wm.
      assert (Z0 : (N.of_nat (length (pb_data p)) =? 0)%N = false) by (apply N.eqb_neq; lia). rewrite Z0.
      assert (E2 : (lo <=? N.of_nat off)%N = true) by (apply N.leb_le; unfold lo; lia).
      assert (E3 : (N.of_nat off + N.of_nat (length (pb_data p)) <=? hi)%N = true) by (apply N.leb_le; unfold hi; lia).
      assert (E4 : (N.of_nat (length (pb_data p)) <=? N.of_nat (length d))%N = true) by (apply N.leb_le; lia).
      rewrite E2, E3, E4. cbn [andb].
      rewrite takeN_of_nat. fold (slice img off (length (pb_data p))). rewrite Hs1, DD.
      unfold lenN. rewrite N.eqb_refl. cbn [andb].
      rewrite dropN_of_nat, skipn_skipn'.
      replace (N.of_nat off + N.of_nat (length (pb_data p)))%N with (N.of_nat (off + length (pb_data p))) by lia.
      apply (IH (off + length (pb_data p)) Hdec' Hsz); [intros _; lia|lia|exact Hs2].
Qed.

Lemma sized_zero_of_full extra : forall ds, Forall (fun c : list N => length c = bs) ds -> sized bs extra ds -> sized bs 0 ds.
Proof.
  induction ds as [|d r IH]; intros F S; [exact I|]. inversion F; subst. destruct S as [_ S].
  split; [lia|apply IH; assumption].
Qed.

Theorem pack_file_ok fid fl d sp :
  nth_error files fid = Some (fl, d) ->
  file_ok duncompress img lo hi bsN flens_of (file_lkind bs st fid (length d) sp) = true.
Proof.
  intro Hn.
  destruct (file_struct hashf dcompress duncompress bs half Hdcomp Hbs Hsmall Hhalf files base st claims fbd HP Hnob
              img Hlen Himg fid fl d Hn)
    as (pds & tail & Hcat & Hdec & Hsz & Hw & Hcl & Hcnt & Htl).
  assert (Hfid : fid < length files) by (apply nth_error_Some; congruence).
  unfold file_lkind, file_ok, file_ok_at. cbn [file_start].
  set (fr := p_frag st fid) in *.
  (* the words *)
  assert (Hwords : file_words st fid (DedupModel.block_count bs (length d) (has_frag fr))
                   = map (fun pd => word (fst pd)) pds).
  { unfold file_words. rewrite <- Hcnt. apply map_seq_nth. intros j pd Hj. rewrite (Hw j pd Hj). reflexivity. }
  rewrite Hwords.
  (* where the stored blocks are *)
  assert (Hwalk : forall rem, rem = N.of_nat (length (concat (map snd pds))) -> sized bs 0 (map snd pds) ->
            blocks_ok duncompress lo hi bsN (map (fun pd => word (fst pd)) pds) (N.of_nat (p_start st fid))
                      (dropN (N.of_nat (p_start st fid)) img) rem = true).
  { intros rem -> S0. rewrite dropN_of_nat.
    destruct Hcl as [[Hnone Hz]|Hin].
    - apply (blocks_walk pds (p_start st fid) Hdec S0); rewrite Hnone.
      + intro C. contradiction C. reflexivity.
      + cbn. lia.
      + reflexivity.
    - destruct (list_eq_dec (list_eq_dec N.eq_dec) [cat (filter stored (map fst pds))] [[]]) as [E|E].
      + injection E as E. apply (blocks_walk pds (p_start st fid) Hdec S0).
        * intro C. exfalso.
          (* something stored but empty: impossible, a stored block has data *)
          destruct (filter stored (map fst pds)) as [|q qs] eqn:Ef; [contradiction C; reflexivity|].
          assert (Hq : In q (filter stored (map fst pds))) by (rewrite Ef; left; reflexivity).
          apply filter_In in Hq. destruct Hq as [_ Hq]. unfold stored in Hq. apply andb_true_iff in Hq.
          destruct Hq as [Hq _]. apply negb_true_iff, Nat.eqb_neq in Hq.
          rewrite cat_cons in E. destruct (pb_data q); [simpl in Hq; lia|discriminate].
        * rewrite E. pose proof (claim_holds hashf dcompress duncompress bs base files _ _ _ _ _ _ _ HP Hin) as [H1 _].
          cbn [fst snd] in H1. rewrite E in H1. exact H1.
        * rewrite E. reflexivity.
      + assert (NE : cat (filter stored (map fst pds)) <> []) by (intro C; apply E; rewrite C; reflexivity).
        assert (Hb : base <= p_start st fid).
        { destruct Hrefs as [_ B]. destruct (B fid Hfid) as [Z|Z]; [exact Z|]. exfalso.
          (* all words sparse: nothing is stored *)
          apply NE. clear - Z Hw Hdec Hsmall Hbs Hsz.
          assert (G : forall (l : list (pblock * list N)) k,
                    (forall j pd, nth_error l j = Some pd -> p_size st fid (k + j) = Some (word (fst pd))) ->
                    Forall (fun pd => dec_ok (fst pd) (snd pd)) l ->
                    Forall (fun pd => length (snd pd) <= bs) l ->
                    cat (filter stored (map fst l)) = []).
          { induction l as [|[p d] l IH]; intros k Hk Fd Fl; [reflexivity|].
            inversion Fd as [|? ? Hd Fd']; subst. inversion Fl as [|? ? Hl Fl']; subst. cbn [fst snd] in Hd, Hl.
            cbn [map fst filter].
            assert (Hs : stored p = false).
            { destruct (pb_sparse p) eqn:Es; [unfold stored; rewrite Es; apply andb_false_r|].
              pose proof (Hk 0 (p, d) eq_refl) as W0. rewrite Nat.add_0_r in W0. cbn [fst] in W0.
              pose proof (Z _ _ W0) as Sp. unfold word in Sp. rewrite Es in Sp.
              destruct Hd as (_ & Lp & _ & S2). destruct (S2 Es) as (NE & _).
              assert (Sm : small (length (pb_data p))) by (eapply small_le; [|exact Hsmall]; lia).
              unfold sw_sparse in Sp. change two24 with W24 in Sp. rewrite (sw_mod _ _ Sm) in Sp.
              apply N.eqb_eq in Sp. destruct (pb_data p); [contradiction|discriminate]. }
            rewrite Hs. apply (IH (S k)); [|exact Fd'|exact Fl'].
            intros j pd Hj. replace (S k + j) with (k + S j) by lia. apply Hk. exact Hj. }
          apply (G pds 0); [exact Hw|exact Hdec|].
          clear - Hsz. revert Hsz. generalize (length tail). induction pds as [|q qs IH]; intros ex Hs; [constructor|].
          cbn [map sized] in Hs. destruct Hs as [Hs1 Hs2]. constructor; [lia|]. eapply IH; eassumption. }
        destruct (claim_in_img _ _ Hin NE (or_introl Hb) (or_intror Hb) Hb) as [C1 C2].
        apply (blocks_walk pds (p_start st fid) Hdec S0); [intros _; exact Hb|exact C1|exact C2]. }
  assert (Hdlen : length d = length (concat (map snd pds)) + length tail) by (rewrite <- Hcat, app_length; reflexivity).
  destruct Htl as [[Ht Hfr]|(Hfull & Htlen & i & o & Hfr & Hi & Ho & _)].
  - (* no fragment *)
    rewrite Hfr. cbn [has_frag]. rewrite N.eqb_refl. cbn [negb andb].
    subst tail. cbn [length] in Hsz, Hdlen. rewrite Nat.add_0_r in Hdlen.
    rewrite andb_true_r. apply Hwalk; [rewrite Hdlen; reflexivity|exact Hsz].
  - rewrite Hfr. cbn [has_frag].
    assert (Hne : (N.of_nat i =? NOX)%N = false) by (apply N.eqb_neq; unfold NOX; lia).
    rewrite Hne. cbn [negb andb].
    assert (Hcl' : length (concat (map snd pds)) = length pds * bs).
    { clear - Hfull. induction pds as [|q qs IH]; [reflexivity|]. inversion Hfull; subst.
      cbn [map concat length]. rewrite app_length, IH by assumption. lia. }
    assert (Hmod : (N.of_nat (length d) mod bsN = N.of_nat (length tail))%N).
    { unfold bsN. rewrite <- Nat2N.inj_mod. f_equal. rewrite Hdlen, Hcl'.
      rewrite Nat.add_comm, Nat.mod_add by lia. apply Nat.mod_small. lia. }
    rewrite Hmod.
    assert (Hz : (N.of_nat (length tail) =? 0)%N = false) by (apply N.eqb_neq; lia). rewrite Hz. cbn [negb].
    rewrite Nat2N.id, (flens_nth i Hi).
    apply andb_true_iff. split; [|apply N.leb_le; lia].
    apply Hwalk; [lia|]. apply (sized_zero_of_full (length tail)); assumption.
Qed.
End PD.
