(* C06 model driver.
   stdin, one case per line, blank-separated tokens ("-" = empty byte string, otherwise hex):
     FLAGS NINIT { PATH KIND [TARGET] } TREE
     FLAGS  four characters out of "COTX" or '-' (chmod, chown, times, xattr) e.g. "C-T-"
     init   objects that exist below R before the run: PATH relative to R ("a/b"), KIND d|f|l (l has TARGET)
     TREE   N NAME KIND TARGET NX { KEY } NCHILDREN { TREE }      KIND d f l b c p s
   stdout, one line per case, TAB separated:
     status(OPS|DUP|FUEL)  ops  executed  final-objects  skipped-names
   The world: / (dir), /w (dir), /w/R (dir, the unpack root = cwd), /w/side (file), /outside (dir),
   /outside/secret (file), /secret (file). *)
open C06_model

let rec pos_of_int i = if i = 1 then XH else if i land 1 = 1 then XI (pos_of_int (i lsr 1)) else XO (pos_of_int (i lsr 1))
let n_of_int i = if i = 0 then N0 else Npos (pos_of_int i)
let rec int_of_pos = function XH -> 1 | XO p -> 2 * int_of_pos p | XI p -> 2 * int_of_pos p + 1
let int_of_n = function N0 -> 0 | Npos p -> int_of_pos p
let rec nat_of_int i = if i <= 0 then O else S (nat_of_int (i - 1))
let rec int_of_nat = function O -> 0 | S n -> 1 + int_of_nat n

let unhex s =
  if s = "-" then [] else
  let n = String.length s / 2 in
  List.init n (fun i -> n_of_int (int_of_string ("0x" ^ String.sub s (2*i) 2)))
let hex l =
  let b = Buffer.create 64 in
  List.iter (fun c -> Buffer.add_string b (Printf.sprintf "%02x" (int_of_n c))) l;
  if Buffer.length b = 0 then "-" else Buffer.contents b

let s2n s = List.init (String.length s) (fun i -> n_of_int (Char.code s.[i]))

exception Bad of string

let kind_of = function
  | "d" -> KDir | "f" -> KReg | "l" -> KLnk | "b" -> KBlk | "c" -> KChr | "p" -> KFifo | "s" -> KSock
  | k -> raise (Bad ("kind " ^ k))

let toks = ref [||]
let pos = ref 0
let next () = if !pos >= Array.length !toks then raise (Bad "eof") else (let t = !toks.(!pos) in incr pos; t)

let rec parse_tree () =
  let t = next () in
  if t <> "N" then raise (Bad ("expected N, got " ^ t));
  let name = unhex (next ()) in
  let k = kind_of (next ()) in
  let tgt = unhex (next ()) in
  let nx = int_of_string (next ()) in
  let keys = List.init nx (fun _ -> 0) |> List.map (fun _ -> unhex (next ())) in
  let nc = int_of_string (next ()) in
  let ch = List.init nc (fun _ -> 0) |> List.map (fun _ -> parse_tree ()) in
  INode (name, k, tgt, keys, ch)

let op_str = function
  | OMkdir p -> "mkdir:" ^ hex p
  | OSymlink (t, p) -> "symlink:" ^ hex p ^ ":" ^ hex t
  | OMknod p -> "mknod:" ^ hex p
  | OCreatExcl p -> "creat:" ^ hex p
  | OOpenTrunc p -> "open:" ^ hex p
  | OSetxattr (p, k) -> "setxattr:" ^ hex p ^ ":" ^ hex k
  | OUtimens p -> "utimens:" ^ hex p
  | OChown p -> "chown:" ^ hex p
  | OChmod p -> "chmod:" ^ hex p
  | OAbort -> "abort"
  | OAssert -> "assert"

let op_path = function
  | OMkdir p | OSymlink (_, p) | OMknod p | OCreatExcl p | OOpenTrunc p | OSetxattr (p, _)
  | OUtimens p | OChown p | OChmod p -> Some p
  | _ -> None

let root_r = [s2n "w"; s2n "R"]
let slash = n_of_int 47
let pp_str (pp : n list list) = hex (List.concat (List.map (fun c -> slash :: c) pp))

let () =
  try
    while true do
      let line = input_line stdin in
      (try
        toks := Array.of_list (List.filter (fun s -> s <> "") (String.split_on_char ' ' line));
        pos := 0;
        let fl = next () in
        let has c = String.contains fl c in
        let flags = { f_chmod = has 'C'; f_chown = has 'O'; f_times = has 'T'; f_xattr = has 'X' } in
        let ninit = int_of_string (next ()) in
        let init = List.init ninit (fun _ -> 0) |> List.map (fun _ ->
          let p = unhex (next ()) in
          let k = next () in
          let o = match k with
            | "d" -> ODir N0 | "f" -> OFile (N0, n_of_int 7)
            | "l" -> OLink (N0, unhex (next ()))
            | _ -> raise (Bad "init kind") in
          (root_r @ split_slash p, o)) in
        let tree = parse_tree () in
        let base = [ ([], ODir N0); ([s2n "w"], ODir N0); (root_r, ODir N0);
                     ([s2n "w"; s2n "side"], OFile (N0, n_of_int 7));
                     ([s2n "outside"], ODir N0);
                     ([s2n "outside"; s2n "secret"], OFile (N0, n_of_int 7));
                     ([s2n "secret"], OFile (N0, n_of_int 7)) ] in
        (* world_of: the head of the list wins, so later init entries are put in front *)
        let w0 = world_of (List.rev (base @ init)) in
        let skipped_names = match tree_sort (load tree) with
          | SortOk t -> String.concat " " (List.map hex (skipped t))
          | _ -> "" in
        (match unpack_ops (fun l -> l) flags tree with
         | UDup -> print_string "DUP\t\t0\t\t\n"
         | UFuel -> print_string "FUEL\t\t0\t\t\n"
         | UOps ops ->
           let (wf, k) = run (fun _ -> N0) (fun _ m -> m) (fun _ -> n_of_int 1) (nat_of_int 100000) w0 root_r ops in
           (* the world is a function: collect the physical paths that can hold an object = the initial ones
              plus, stepping through the calls once more with exec_op, whatever their paths resolve to *)
           let cands = Hashtbl.create 64 in
           let add pp = Hashtbl.replace cands pp () in
           List.iter (fun (pp, _) -> add pp) (base @ init);
           let fuel = nat_of_int 100000 in
           let rec step w = function
             | [] -> ()
             | o :: rest ->
               (match op_path o with
                | Some p ->
                  List.iter (fun fl -> match resolve fuel w root_r p fl with
                    | RFound (pp, _) -> add pp | RMissing pp -> add pp | RErr -> ()) [false; true]
                | None -> ());
               (match exec_op (fun _ -> N0) (fun _ m -> m) (fun _ -> n_of_int 1) fuel w root_r o with
                | Some w' -> step w' rest
                | None -> ()) in
           step w0 ops;
           let ents = Hashtbl.fold (fun pp () acc ->
             match wf pp with
             | None -> acc
             | Some (ODir _) -> (pp_str pp ^ ":d") :: acc
             | Some (OFile (_, d)) -> (pp_str pp ^ ":f:" ^ string_of_int (int_of_n d)) :: acc
             | Some (OLink (_, t)) -> (pp_str pp ^ ":l:" ^ hex t) :: acc
             | Some (ONod _) -> (pp_str pp ^ ":n") :: acc) cands [] in
           let ents = List.sort compare ents in
           Printf.printf "OPS\t%s\t%d\t%s\t%s\n" (String.concat " " (List.map op_str ops)) (int_of_nat k)
             (String.concat " " ents) skipped_names)
      with Bad m -> Printf.printf "BAD\t%s\t0\t\t\n" m
         | Failure m -> Printf.printf "BAD\t%s\t0\t\t\n" m)
    done
  with End_of_file -> ()
