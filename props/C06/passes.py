"""C06, class "the walks of the unpacker agree" (strengthening after seed C18-9).

rdsquashfs walks the image tree three times (create_node_dfs, gen_file_list_dfs, set_attribs); each walk must apply the
same gate `is_filename_sane(name)` to EVERY inode kind, before a path is built from the name.  Theorems behind the
oracle (coq/Properties_C06.v): skip_is_local (the operations of an image = the operations of the image without the
entries the gate refuses, for all three walks and every option set), passes_agree / attr_touches_only_created /
created_get_chmod (the attribute walk touches exactly the entries the create walk created).

Every case: an image with sane entries of all kinds carrying distinctive modes / owners / time stamps / xattrs, plus
one to three entries with names the gate refuses ('.', '..', names containing '/'), of every inode kind, sorting in
front of, between and behind the sane ones, at the top level and inside a directory; unpacked in a fresh chroot jail
with each option set of FLAGS.  Oracle, evaluated on the implementation (no model involved):
  * same complete observable as the run, with the same options, on the image WITHOUT the refused entries (`prune`):
    exit status and, for every object beneath R: type, permission bits, owner, size + content hash, link target,
    device number, xattr names and values, and (with -T, completed runs) the time stamp;
  * nothing outside R changes;
  * when the run completes: every sane entry exists and carries what the options promise (-C mode, -O owner, -T time,
    -X the keys of its xattr set where the file system accepted them in the reference run).
A disagreement is a concrete (image, options) pair: reported with the tree as replay."""
import hashlib
import os
import random
import shutil
import stat
import subprocess
import sys
from concurrent.futures import ThreadPoolExecutor

HERE = os.path.dirname(os.path.abspath(__file__))
sys.path.insert(0, HERE)
import c06lib as L  # noqa: E402
from c06lib import T  # noqa: E402

TIMEOUT = 20
FLAGS = ["----", "C---", "--T-", "-O--", "---X", "COTX"]
# names is_filename_sane refuses (no NUL: those are the main leg's business), chosen to sort in front of / between /
# behind the sane names 'a' 'd' 'e' 'm' 'z' and to collide, as paths, with sane entries (d/b, d/zz, a/b)
BAD = [b".", b"..", b"/", b"//", b"/abs", b"a/b", b"a/", b"d/b", b"d/zz", b"d/..", b"./a", b"../x", b"..a/b", b".../x",
       b"e/new", b"m/x", b"y/", b"zz/z", b"~/", b"\xff/\xff"]
BAD_IN_D = [b".", b"..", b"/", b"b/", b"b/x", b"../a", b"../../outside/pwn", b"l/x", b"zz/", b"~/~", b"p/."]
KINDS = "ffflpcsd"


def sane(name):
    return name not in (b".", b"..") and b"/" not in name and name != b""


def base_tree(rnd):
    md = lambda: rnd.choice([0o600, 0o640, 0o444, 0o711, 0o4755, 0o2750])     # never what the umask would give
    own = lambda: dict(uid=rnd.choice([1000, 65534, 7]), gid=rnd.choice([100, 8]))
    mt = lambda: rnd.choice([1, 86400, 1234567890])
    d = T(b"d", "d", mode=0o750, mtime=mt(), xkeys=[b"user.d"], **own(), children=[
        T(b"b", "f", data=b"bee", mode=md(), mtime=mt(), **own()),
        T(b"l", "l", target=b"b", mode=0o777, mtime=mt(), **own()),
        T(b"p", "p", mode=0o640, mtime=mt(), **own()),
        T(b"zz", "f", data=b"last", mode=md(), mtime=mt(), xkeys=[b"user.zz"], **own())])
    return T(b"", "d", mode=0o755, children=[
        T(b"a", "f", data=b"hello", mode=md(), mtime=mt(), xkeys=[b"user.a", b"user.b"], **own()),
        d,
        T(b"e", "d", mode=0o700, mtime=mt(), **own()),
        T(b"m", "l", target=b"d", mode=0o777, mtime=mt(), **own()),
        T(b"z", "f", data=b"zed" * 2000, mode=md(), mtime=mt(), xkeys=[b"trusted.z"], **own())])


def bad_entry(rnd, name, kind=None):
    kind = kind or rnd.choice(KINDS)
    n = T(name, kind, mode=rnd.choice([0o666, 0o777, 0o6777, 0o000]), uid=rnd.choice([0, 4242]), gid=rnd.choice([0, 4242]),
          mtime=rnd.choice([0, 99]), data=b"must-not-appear")
    if kind == "l":
        n.target = rnd.choice([b"../../outside", b"/outside", b"..", b"a", b"d"])
    if kind == "d":
        n.children = [T(b"inner", "f", data=b"inner"), T(b"x/y", "f", data=b"deep")]
    if rnd.random() < 0.4:
        n.xkeys = [b"user.bad"]
    return n


def insert_sorted(children, n):
    children.append(n)
    children.sort(key=lambda c: c.name)


def clone(t):
    return T.from_json(t.to_json())


def prune(t):
    """the image without the entries the gate refuses (coq/C06/UnpackModel.v: prune)"""
    n = clone(t)
    n.children = [prune(c) for c in t.children if sane(c.name)]
    return n


def gen_cases(ctx, only=None):
    if only:
        return [dict(tree=T.from_json(only["tree"]), flags=only["flags"], tag=only.get("tag", "replay"))]
    rnd = random.Random(ctx.seed * 104729 + 66)
    bases = [base_tree(rnd) for _ in range(2)]
    trees = []
    # every refused name once as a regular file, once as another kind; top level and inside d
    for i, nm in enumerate(BAD):
        for kind in ("f", KINDS[3 + i % 5]):
            t = clone(bases[i % 2])
            if any(c.name == nm for c in t.children):
                continue
            insert_sorted(t.children, bad_entry(rnd, nm, kind))
            trees.append(("top:" + kind, t))
    for i, nm in enumerate(BAD_IN_D):
        t = clone(bases[i % 2])
        insert_sorted(t.children[1].children, bad_entry(rnd, nm, "flpcsd"[i % 6]))
        trees.append(("in-dir", t))
    n_extra = 6 if ctx.tier == "quick" else 200
    for i in range(n_extra):       # several refused entries at once
        t = clone(rnd.choice(bases))
        for nm in rnd.sample(BAD, rnd.randint(2, 3)):
            insert_sorted(t.children, bad_entry(rnd, nm))
        if rnd.random() < 0.5:
            insert_sorted(t.children[[c.name for c in t.children].index(b"d")].children, bad_entry(rnd, rnd.choice(BAD_IN_D)))
        trees.append(("multi", t))
    cases = []
    for j, (tag, t) in enumerate(trees):
        fls = FLAGS if ctx.tier != "quick" or tag != "top:f" else ["----", "COTX", FLAGS[1 + j % 4]]
        for fl in fls:
            cases.append(dict(tree=t, flags=fl, tag=tag))
    return cases


def observe(jail, want_mtime):
    """complete observable of R: {relpath: tuple}"""
    out = {}
    root = os.path.join(jail, "w", "R").encode()

    def rec(p, rel):
        st = os.lstat(p)
        typ = stat.S_IFMT(st.st_mode)
        ent = ["%o" % typ, "%o" % stat.S_IMODE(st.st_mode), st.st_uid, st.st_gid]
        if typ == stat.S_IFLNK:
            ent.append(os.readlink(p).hex())
        elif typ == stat.S_IFREG:
            with open(p, "rb") as f:
                ent += [st.st_size, hashlib.sha1(f.read()).hexdigest()[:12]]
        elif typ in (stat.S_IFCHR, stat.S_IFBLK):
            ent.append(st.st_rdev)
        ent.append("mtime=%d" % st.st_mtime if want_mtime else "")
        try:
            xs = sorted(os.listxattr(p, follow_symlinks=False))
            ent.append(";".join("%s=%s" % (x, os.getxattr(p, x, follow_symlinks=False).hex()) for x in xs))
        except OSError:
            ent.append("?")
        if rel:
            out[rel.decode("latin-1")] = tuple(ent)
        if typ == stat.S_IFDIR:
            for e in sorted(os.listdir(p)):
                rec(os.path.join(p, e), (rel + b"/" + e) if rel else e)
    rec(root, b"")
    return out


def run_one(factory, work, idx, tree, flags):
    jail = os.path.join(work, "p%d" % idx)
    factory.make(jail, L.build_image(tree), [])
    before = L.snapshot(jail)
    cmd = ["chroot", jail, "/bin/rd", "-u", "/", "-p", "/w/R"] + ["-" + f for f in flags if f != "-"] + ["/img.sqfs"]
    res = dict(timeout=False)
    try:
        r = subprocess.run(cmd, stdout=subprocess.PIPE, stderr=subprocess.PIPE, timeout=TIMEOUT)
        res["rc"], res["stderr"] = r.returncode, r.stderr.decode("latin-1")
    except subprocess.TimeoutExpired:
        res.update(timeout=True, rc=-1, stderr="")
    res["outside"] = L.outside_diff(before, L.snapshot(jail))
    res["R"] = observe(jail, False)
    res["Rt"] = observe(jail, True)
    shutil.rmtree(jail, ignore_errors=True)
    return res


def promised(tree, flags, obs, ref_obs):
    """-> first (path, what) where a completed run did not give a sane entry what the options promise"""
    def walk(t, pre):
        for c in t.children:
            if not sane(c.name):
                continue
            p = (pre + "/" if pre else "") + c.name.decode("latin-1")
            o = obs.get(p)
            if o is None:
                yield p, "entry was not created"
                continue
            if "C" in flags and c.kind != "l" and o[1] != "%o" % c.mode:
                yield p, "mode %s, image says %o (-C)" % (o[1], c.mode)
            if "O" in flags and (o[2], o[3]) != (c.uid, c.gid):
                yield p, "owner %d:%d, image says %d:%d (-O)" % (o[2], o[3], c.uid, c.gid)
            if "T" in flags and "mtime=%d" % c.mtime not in o:
                yield p, "time stamp %s, image says %d (-T)" % ([x for x in o if str(x).startswith("mtime=")], c.mtime)
            if "X" in flags:
                for k in c.xkeys:
                    if k.decode() + "=" not in o[-1]:
                        yield p, "xattr %s missing (-X)" % k.decode()
            if c.kind == "d":
                yield from walk(c, p)
    return next(walk(tree, ""), None)


def run(ctx, factory, work, only=None):
    """runs the class; reports violations on ctx; returns the number of cases"""
    cases = gen_cases(ctx, only)
    refs = {}
    for c in cases:
        c["pruned"] = prune(c["tree"])
        refs.setdefault((repr(c["pruned"].to_json()), c["flags"]), c["pruned"])
    keys = list(refs)
    with ThreadPoolExecutor(max_workers=10) as ex:
        ref_res = dict(zip(keys, ex.map(lambda ik: run_one(factory, work, 500000 + ik[0], refs[ik[1]], ik[1][1]), enumerate(keys))))
        results = list(ex.map(lambda ic: run_one(factory, work, 600000 + ic[0], ic[1]["tree"], ic[1]["flags"]), enumerate(cases)))
    seen = set()
    stats = dict(cases=len(cases), reference_runs=len(keys), reference_completed=0, by_flags={})
    for c, res in zip(cases, results):
        ref = ref_res[(repr(c["pruned"].to_json()), c["flags"])]
        stats["reference_completed"] += ref["rc"] == 0
        stats["by_flags"][c["flags"]] = stats["by_flags"].get(c["flags"], 0) + 1
        both_done = res["rc"] == 0 and ref["rc"] == 0
        key = "Rt" if ("T" in c["flags"] and both_done) else "R"
        kind = why = None
        if res["timeout"]:
            kind, why = "hang", "rdsquashfs did not terminate within %ds" % TIMEOUT
        elif res["outside"]:
            k, a, b = res["outside"][0]
            kind, why = "escape", "wrote outside the unpack root: /%s before=%r after=%r" % (k.decode("latin-1"), a, b)
        elif res["rc"] != ref["rc"]:
            kind = "exit"
            why = ("exit status %d, but %d on the same image without the entries is_filename_sane refuses (%s): %s" % (
                res["rc"], ref["rc"], ", ".join(repr(x) for x in skipped_names(c["tree"])), res["stderr"][-200:].strip()))
        elif res[key] != ref[key]:
            ks = sorted(k for k in set(res[key]) | set(ref[key]) if res[key].get(k) != ref[key].get(k))
            kind = "tree"
            why = ("the unpacked tree differs from the one of the same image without the refused entries (%s) at %r: %r, "
                   "reference %r" % (", ".join(repr(x) for x in skipped_names(c["tree"])), ks[0], res[key].get(ks[0]), ref[key].get(ks[0])))
        elif res["rc"] == 0:
            # xattrs: promise only what the file system took in the reference run (same keys there, by the test above)
            p = promised(c["pruned"], c["flags"].replace("X", "-") if ref["rc"] != 0 else c["flags"], res["Rt"], ref["Rt"])
            if p:
                kind, why = "attributes", "run completed but %s: %s" % p
        if kind:
            sig = "passes:%s:%s" % (kind, "none" if c["flags"] == "----" else c["flags"].replace("-", ""))
            short = "passes:" + kind
            if short not in seen and len(seen) < 3:
                seen.add(short)
                ctx.violation(sig, "walks of the unpacker disagree (rdsquashfs -u / -p R %s; %s): %s" % (
                    " ".join("-" + f for f in c["flags"] if f != "-"), c["tag"], why),
                    dict(passes=dict(tree=c["tree"].to_json(), flags=c["flags"], tag=c["tag"]), tree=c["tree"].show(),
                         image_hex=L.build_image(c["tree"]).hex() if c["tree"].count() < 40 else None,
                         command="rdsquashfs -u / -p R %s img.sqfs" % " ".join("-" + f for f in c["flags"] if f != "-"),
                         rc=res["rc"], rc_reference=ref["rc"], stderr=res["stderr"][-400:],
                         unpacked=sorted(res["Rt"].items())[:30], reference=sorted(ref["Rt"].items())[:30]))
    if not only and stats["reference_completed"] < len(cases) // 2:
        ctx.violation("passes:probe-ineffective", "fewer than half of the reference runs of the walk-agreement class complete "
                      "(%d of %d): the class compares failures only" % (stats["reference_completed"], len(cases)),
                      dict(kind="machinery", stats=stats), no_input=True)
    ctx.coverage["passes_agree"] = stats
    return len(cases) + len(keys)


def skipped_names(t):
    out = []
    for c in t.children:
        if not sane(c.name):
            out.append(c.name)
        elif c.kind == "d":
            out += skipped_names(c)
    return out
