"""C06, class "duplicate sibling names" (strengthening after seed C06-10).

tree_sort() must refuse a directory that lists one (C string) name twice, WHATEVER else the two entries have in common:
the inode number stored in the inode (image-controlled), the inode reference (one inode under the same name twice), the
inode type, the content.  mkdir() tolerates EEXIST, so a symbolic link and a directory under one name let the create and
fill walks write the directory's children through the link.

Systematic cases (no randomness; every run): one directory - the image root or a nested directory - with two (or three)
entries of the same name, in every type combination (link+dir, dir+link, link+file, file+link, dir+dir, file+file), the
link pointing outside R relatively / absolutely / to '..', the two inodes carrying EQUAL or distinct inode numbers, being
the SAME inode (equal reference; same-type pairs only) or two inodes, adjacent on disk or separated by entries that sort
before / behind them, the second name optionally spelled with a NUL tail ("ax\\0zz": the same C string).

The cases run through the ordinary tie + oracle of check.py: the model (tree_sort = sort + adjacent names, names only:
dup_check_establishes_nodup) refuses each of them before any file system access, so the tool must exit non-zero without a
single path-taking call, and the jail snapshot must show nothing changed outside R."""
from c06lib import T

COMBOS = [("l", "d"), ("d", "l"), ("l", "f"), ("f", "l"), ("d", "d"), ("f", "f")]
TARGETS = [b"../../outside", b"/outside", b".."]
FLAGS = ["COTX", "----", "C---", "--T-", "-O--", "---X"]


def entry(name, kind, target, which, group, share=False):
    if kind == "l":
        return T(name, "l", target=target, mode=0o777, uid=1000, gid=100, mtime=86400, ino=group)
    if kind == "f":
        return T(name, "f", data=b"pwned", mode=0o644, ino=group, share=share)
    ch = [T(b"pwn", "f", data=b"pwned"), T(b"sub", "d", mode=0o755, children=[T(b"pwn2", "f", data=b"pwned")]),
          T(b"secret", "f", data=b"overwritten", mode=0o666)]
    if share:
        ch = ch[:1]
    elif which == 0:
        ch = ch[:2]
    return T(name, "d", mode=0o755, children=ch, ino=group, share=share)


def siblings(k1, k2, target, eq_ino, share, layout, nul):
    nm = b"ax"
    g1 = 1 if eq_ino else None
    g2 = 1 if eq_ino else None
    a = entry(nm, k1, target, 0, g1)
    b = entry(nm + (b"\0zz" if nul else b""), k2, target, 1, g2, share=share)
    if share:
        b.children = [T(c.name, c.kind, c.target, c.xkeys, c.children, c.data, c.mode, c.uid, c.gid, c.mtime) for c in a.children]
        b.data, b.mode = a.data, a.mode
    before = T(b"a0", "f", data=b"first")
    behind = T(b"b", "d", mode=0o755, children=[T(b"g", "f")])
    if layout == 0:
        return [a, b]                       # adjacent
    if layout == 1:
        return [a, behind, b]               # separated by an entry that sorts behind both
    if layout == 2:
        return [before, a, behind, T(b"m", "p"), b]
    return [a, before, b, behind]           # separated by an entry that sorts in front of both


def cases():
    out = []
    i = 0

    def add(tag, ch, nested):
        nonlocal i
        tree = T(b"", "d", mode=0o755, children=[T(b"s", "d", mode=0o755, children=ch), T(b"t", "f")] if nested else ch)
        out.append(dict(tag=tag, tree=tree, flags=FLAGS[i % len(FLAGS)], sub=b"/", init=[], rdflags="", planted=False))
        i += 1
    for k1, k2 in COMBOS:
        tgts = TARGETS if "l" in (k1, k2) else [b""]
        for tgt in tgts:
            for eq_ino in (True, False):
                for layout in (0, 1, 2, 3):
                    for nested in (False, True):
                        t2 = (b"../" + tgt) if nested and tgt and not tgt.startswith(b"/") else tgt
                        tag = "dupname:%s+%s:%s:%s:%s" % (k1, k2, "same-ino" if eq_ino else "distinct-ino",
                                                          "adjacent" if layout == 0 else "apart%d" % layout,
                                                          "nested" if nested else "top")
                        add(tag, siblings(k1, k2, t2, eq_ino, False, layout, nul=(i % 5 == 4)), nested)
        if k1 == k2:
            for layout in (0, 1, 3):
                for nested in (False, True):
                    add("dupname:%s+%s:same-inode:%s:%s" % (k1, k2, "adjacent" if layout == 0 else "apart%d" % layout,
                                                          "nested" if nested else "top"),
                        siblings(k1, k2, b"", True, True, layout, nul=False), nested)
    # three entries of one name, all with one inode number: link first / in the middle / last
    for tgt in TARGETS:
        for order in ("ldd", "dld", "ddl", "lfd", "ldf"):
            ch = [entry(b"ax", k, tgt, j, 1) for j, k in enumerate(order)]
            add("dupname:three-%s:same-ino:adjacent:top" % order, ch, False)
    # the sub-path variant: the duplicate sits in the directory selected with -u
    for tgt in TARGETS:
        ch = siblings("l", "d", tgt, True, False, 0, False)
        tree = T(b"", "d", mode=0o755, children=[T(b"s", "d", mode=0o755, children=ch)])
        out.append(dict(tag="dupname:l+d:same-ino:adjacent:sub", tree=tree, flags="COTX", sub=b"s", init=[], rdflags="", planted=False))
    return out
