(* C06 driver for the unpack-root model (coq/C06/RootsModel.v).
   stdin, one request per line, blank-separated tokens ("-" = empty byte string, otherwise hex):
     MKP PATH                                   -> "MKP\t" hex of every mkdir argument of mkdir_p_calls, blank separated
     ROOT RARG ENTER NOBJ { ABSPATH KIND [TGT] } TREE
          ABSPATH "/w/R" style (hex), KIND d|f|l|n, ENTER 1|0 (may the process enter the directory chdir reaches)
          TREE as in driver.ml;   start directory /w/start, options none
       -> "ROOT\t" status(OK|FAIL) "\t" cwd (hex of "/a/b", "-" = no pass started, "2f" = "/") "\t" executed "\t" mkdir_p ok(1|0) *)
open C06_roots_model

let rec pos_of_int i = if i = 1 then XH else if i land 1 = 1 then XI (pos_of_int (i lsr 1)) else XO (pos_of_int (i lsr 1))
let n_of_int i = if i = 0 then N0 else Npos (pos_of_int i)
let rec int_of_pos = function XH -> 1 | XO p -> 2 * int_of_pos p | XI p -> 2 * int_of_pos p + 1
let int_of_n = function N0 -> 0 | Npos p -> int_of_pos p
let rec nat_of_int i = if i <= 0 then O else S (nat_of_int (i - 1))
let rec int_of_nat = function O -> 0 | S n -> 1 + int_of_nat n
let unhex s =
  if s = "-" then [] else
  let n = String.length s / 2 in
  List.init n (fun i -> n_of_int (int_of_string ("0x" ^ String.sub s (2*i) 2)))
let hex l =
  let b = Buffer.create 64 in
  List.iter (fun c -> Buffer.add_string b (Printf.sprintf "%02x" (int_of_n c))) l;
  if Buffer.length b = 0 then "-" else Buffer.contents b
let s2n s = List.init (String.length s) (fun i -> n_of_int (Char.code s.[i]))
exception Bad of string
let kind_of = function
  | "d" -> KDir | "f" -> KReg | "l" -> KLnk | "b" -> KBlk | "c" -> KChr | "p" -> KFifo | "s" -> KSock
  | k -> raise (Bad ("kind " ^ k))
let toks = ref [||]
let pos = ref 0
let next () = if !pos >= Array.length !toks then raise (Bad "eof") else (let t = !toks.(!pos) in incr pos; t)
let rec parse_tree () =
  let t = next () in
  if t <> "N" then raise (Bad ("expected N, got " ^ t));
  let name = unhex (next ()) in
  let k = kind_of (next ()) in
  let tgt = unhex (next ()) in
  let nx = int_of_string (next ()) in
  let keys = List.init nx (fun _ -> 0) |> List.map (fun _ -> unhex (next ())) in
  let nc = int_of_string (next ()) in
  let ch = List.init nc (fun _ -> 0) |> List.map (fun _ -> parse_tree ()) in
  INode (name, k, tgt, keys, ch)
let slash = n_of_int 47
let pp_str (pp : n list list) = match pp with [] -> "2f" | _ -> hex (List.concat (List.map (fun c -> slash :: c) pp))
(* "/a/b" -> [a; b] ; "/" -> [] *)
let ppath_of (p : n list) = List.filter (fun c -> c <> []) (split_slash p)

let fuel = nat_of_int 20000

let () =
  try
    while true do
      let line = input_line stdin in
      (try
        toks := Array.of_list (List.filter (fun s -> s <> "") (String.split_on_char ' ' line));
        pos := 0;
        match next () with
        | "MKP" ->
          let p = unhex (next ()) in
          Printf.printf "MKP\t%s\n" (String.concat " " (List.map hex (mkdir_p_calls p)))
        | "ROOT" ->
          let rarg = unhex (next ()) in
          let enter = next () = "1" in
          let nobj = int_of_string (next ()) in
          let objs = List.init nobj (fun _ -> 0) |> List.map (fun _ ->
            let p = ppath_of (unhex (next ())) in
            let o = match next () with
              | "d" -> ODir N0 | "f" -> OFile (N0, n_of_int 7) | "n" -> ONod N0
              | "l" -> OLink (N0, unhex (next ()))
              | _ -> raise (Bad "object kind") in
            (p, o)) in
          let tree = parse_tree () in
          let w0 = world_of objs in
          let nm = (fun _ -> N0) and sm = (fun _ m -> m) and nd = (fun _ -> n_of_int 1) in
          let start = [s2n "w"; s2n "start"] in
          let flags = { f_chmod = false; f_chown = false; f_times = false; f_xattr = false } in
          let out = main_unpack nm sm nd (fun _ -> enter) true fuel w0 start (Some rarg) (unpack_ops (fun l -> l) flags tree) in
          let (_, ok) = mkdir_p_run nm sm nd fuel w0 start rarg in
          Printf.printf "ROOT\t%s\t%s\t%d\t%d\n"
            (match out.m_status with ExitOK -> "OK" | ExitFail -> "FAIL")
            (match out.m_cwd with None -> "-" | Some d -> pp_str d)
            (int_of_nat out.m_executed) (if ok then 1 else 0)
        | t -> raise (Bad ("request " ^ t))
      with Bad m -> Printf.printf "BAD\t%s\n" m
         | Failure m -> Printf.printf "BAD\t%s\n" m)
    done
  with End_of_file -> ()
