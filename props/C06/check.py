"""C06 — unpacking any image writes only inside the chosen unpack directory.

Theorems: coq/Properties_C06.v (operation list of the three tree walks is clean; executing it in a POSIX
model changes nothing outside R; skipped entries are local).
Tie: the real `rdsquashfs -u <sub> -p /w/R [-C -O -T -X]` runs chroot'ed into a fresh jail under strace; the
sequence of path-taking system calls, the number that succeeded and the final content of R are compared with
the extracted model (`unpack_ops`, `run`) on the tree the image was built from.
Search oracle: snapshot (type, mode, owner, size, mtime, content hash, link target, xattr names) of the whole
jail before/after; nothing outside /w/R may differ and the tool must terminate."""
import collections
import json
import os
import random
import shutil
import subprocess
import sys
import time
from concurrent.futures import ThreadPoolExecutor

from vlib import build as B
from vlib import core

HERE = os.path.dirname(os.path.abspath(__file__))
sys.path.insert(0, HERE)
import c06lib as L  # noqa: E402
import oddroots  # noqa: E402
import nonfresh  # noqa: E402
import roottie  # noqa: E402
import passes  # noqa: E402
import dups  # noqa: E402
from c06lib import T  # noqa: E402

LEVEL = "proof"
TIMEOUT = 20

# --------------------------------------------------------------------------
# generator
# --------------------------------------------------------------------------
NAMES_SANE = [b"a", b"b", b"d", b"A", b"D", b"d.", b"..x", b"x..", b"...", b"\xc3\xa4", b"\xff", b"-", b"a b",
              b"d\\", b"e", b"f", b"x", b"~", b"\x01"]
NAMES_BAD = [b".", b"..", b"/", b"a/b", b"/abs", b"d/x", b"../x", b"a/", b"//", b"../../outside/pwn", b"./a", b"d/..",
             b".d/x", b".a/b", b"..a/b", b"./../x", b".../x"]
NAMES_NUL = [b"\0", b"\0x", b"x\0y", b"a\0", b"d\0/..", b"..\0x", b".\0", b"d\0", b"\0/", b"a/b\0c"]
TARGETS = [b"..", b"/", b"../../x", b"../../../outside", b"../../outside", b"/outside", b"/outside/secret", b"../side",
           b".", b"x", b"d", b"/w/side", b"../../../../../etc", b"a\0/../..", b"/secret", b"../../secret", b"../..",
           b"/w", b"../../outside/", b"nonexistent/../..", b"/outside/new", b"../newside", b""]
XKEYS = [b"user.a", b"user.b", b"trusted.t", b"security.s", b"user.k\0hidden", b"user."]
KINDS = "ddddffflllbcps"
FLAGSETS = ["----", "C---", "-O--", "--T-", "---X", "COTX", "CO--", "C-T-", "-OT-", "C--X", "COT-", "-OTX"]


def rname(rnd):
    r = rnd.random()
    if r < 0.78:
        return rnd.choice(NAMES_SANE)
    if r < 0.92:
        return rnd.choice(NAMES_BAD)
    return rnd.choice(NAMES_NUL)


def rnode(rnd, name, depth, budget, kind=None):
    kind = kind or rnd.choice(KINDS if depth < 3 else KINDS.replace("d", "f"))
    n = T(name, kind, mode=rnd.choice([0o644, 0o755, 0o4755, 0o000, 0o7777, 0o600]), uid=rnd.choice([0, 0, 1000, 65534]),
          gid=rnd.choice([0, 100]), mtime=rnd.choice([0, 1, 1234567890]), data=rnd.choice([b"x", b"hello world\n", b"y" * 5000]))
    if kind == "l":
        n.target = rnd.choice(TARGETS)
    if rnd.random() < 0.2:
        n.xkeys = rnd.sample(XKEYS[:4], rnd.randint(1, 2)) if rnd.random() < 0.85 else [rnd.choice(XKEYS)]
    if kind == "d":
        k = rnd.choice([0, 1, 1, 2, 2, 3, 4]) if depth else rnd.choice([1, 2, 3, 3, 4, 5])
        for _ in range(k):
            if budget[0] <= 0:
                break
            budget[0] -= 1
            n.children.append(rnode(rnd, rname(rnd), depth + 1, budget))
        # duplicate injection: a sibling whose C-string name equals an existing one, of another kind
        if n.children and rnd.random() < 0.07:
            v = rnd.choice(n.children)
            nm = L.cut0(v.name) or b"\0"
            nm = rnd.choice([nm, nm + b"\0zz", nm])
            d = rnode(rnd, nm, depth + 1, budget)
            if rnd.random() < 0.6:
                d.kind = "l" if v.kind != "l" else rnd.choice("df")
                d.target = rnd.choice(TARGETS[:8])
                if d.kind != "d":
                    d.children = []
            n.children.insert(rnd.randint(0, len(n.children)), d)
    return n


def rtree(rnd):
    root = rnode(rnd, b"", 0, [rnd.choice([3, 6, 10, 14])], kind="d")
    root.xkeys = []
    return root


def all_paths(t, pre=b""):
    out = []
    for c in (t.children if t.kind == "d" else []):
        nm = L.cut0(c.name)
        if nm and b"/" not in nm:
            p = pre + b"/" + nm if pre else nm
            out.append(p)
            out += all_paths(c, p)
    return out


def rinit(rnd, tree):
    """objects that exist in R before the run (never symbolic links: the property's assumption)"""
    init = []
    ps = [p for p in all_paths(tree) if b".." not in p.split(b"/") and b"." not in p.split(b"/")]
    rnd.shuffle(ps)
    for p in sorted(ps[:rnd.randint(1, 3)], key=len):
        comps = p.split(b"/")
        for i in range(1, len(comps)):
            pre = b"/".join(comps[:i])
            if not any(q == pre for q, _, _ in init):
                init.append((pre, "d", b""))
        if not any(q == p for q, _, _ in init):
            init.append((p, rnd.choice("ddf"), b""))
    # a file cannot have children in init
    files = [q for q, k, _ in init if k == "f"]
    init = [(q, k, t) for q, k, t in init if not any(q.startswith(f + b"/") for f in files)]
    return init


PLANT_TARGETS = [b"../../outside", b"/outside", b"..", b"/w", b"../side", b"nonexistent", b"/", b".", b"a", b"../../outside/",
                 b"/outside/secret", b"../../secret", b"newdir/..", b"../../outside/new", b"../../../outside", b"../newdir"]


def rplanted(rnd, tree):
    """R is pre-populated with symbolic links at places the image uses: outside the property's quantifier
    (two-image attack); used to tie the path resolution of the POSIX model to the kernel"""
    init = []
    ps = [p for p in all_paths(tree) if b".." not in p.split(b"/") and b"." not in p.split(b"/")]
    if not ps:
        return None
    rnd.shuffle(ps)
    p = ps[0]
    comps = p.split(b"/")
    for i in range(1, len(comps)):
        init.append((b"/".join(comps[:i]), "d", b""))
    r = rnd.random()
    if r < 0.15:
        init.append((p, "l", comps[-1]))                       # self loop
    elif r < 0.3:
        init.append((p, "l", b"zz-hop"))                       # chain through a second link
        init.append((b"/".join(comps[:-1] + [b"zz-hop"]), "l", rnd.choice(PLANT_TARGETS)))
    else:
        init.append((p, "l", rnd.choice(PLANT_TARGETS)))
    return init


def D(name, *ch, **kw):
    return T(name, "d", children=list(ch), mode=0o755, **kw)


def F(name, **kw):
    return T(name, "f", data=b"pwned", **kw)


def Ln(name, tgt, **kw):
    return T(name, "l", target=tgt, mode=0o777, uid=1000, gid=100, mtime=86400, **kw)


def corpus():
    """hand-made attack shapes (run first, every run)"""
    c = []

    def add(tag, tree, flags="COTX", sub=b"/", init=(), rdflags="", planted=False):
        c.append(dict(tag=tag, tree=tree, flags=flags, sub=sub, init=list(init), rdflags=rdflags, planted=planted))
    for tgt in (b"../../outside", b"/outside", b"..", b"loop", b"../side", b"gone"):
        add("planted-link", D(b"", D(b"loop", F(b"pwn"), D(b"e"))), init=[(b"loop", "l", tgt)], planted=True)
    add("planted-link", D(b"", F(b"f")), init=[(b"f", "l", b"../newfile")], planted=True)
    add("planted-link", D(b"", D(b"a", F(b"f"))), init=[(b"a", "d", b""), (b"a/f", "l", b"/secret")], planted=True)
    for tgt in (b"../../outside", b"/outside", b"..", b"/"):
        add("dup-link-dir", D(b"", Ln(b"d", tgt), D(b"d", F(b"pwn"))))
        add("dup-dir-link", D(b"", D(b"d", F(b"pwn")), Ln(b"d", tgt)))
        add("dup-link-dir-nul", D(b"", Ln(b"d", tgt), D(b"d\0z", F(b"pwn"))))
        add("link-then-slashname", D(b"", Ln(b"d", tgt), F(b"d/pwn")))
        # the same with names that begin with a dot (a '.'/'..' test placed in front of the '/' test must not hide it)
        add("link-then-dot-slashname", D(b"", Ln(b".d", tgt), F(b".d/pwn")))
        add("link-then-dot-slashdir", D(b"", Ln(b".d", tgt), D(b".d/e", F(b"pwn"))))
        add("link-then-dotdot-slashname", D(b"", Ln(b"..d", tgt), F(b"..d/pwn"), Ln(b"..", tgt)))
        add("nested-dup", D(b"", D(b"s", Ln(b"d", (b"../" + tgt) if not tgt.startswith(b"/") else tgt), D(b"d", F(b"pwn"), D(b"e", F(b"pwn2"))))))
    add("dup-link-file", D(b"", Ln(b"side", b"../side"), F(b"side")))
    add("dup-file-link", D(b"", F(b"side"), Ln(b"side", b"../side")))
    add("dup-three", D(b"", D(b"d"), Ln(b"d", b"../../outside"), D(b"d", F(b"pwn"))))
    add("dup-split-by-case", D(b"", Ln(b"a", b"../../outside"), F(b"A"), D(b"a", F(b"pwn"))))
    add("dup-split-by-case2", D(b"", D(b"a", F(b"pwn")), F(b"A"), Ln(b"a", b"/outside")))
    add("case-variants", D(b"", Ln(b"a", b"../../outside"), D(b"A", F(b"pwn"))))
    add("dotdot-dir", D(b"", D(b"..", F(b"pwn"), D(b"outside", F(b"pwn")))))
    add("dot-dir", D(b"", D(b".", F(b"pwn"))))
    add("abs-name", D(b"", F(b"/outside/pwn"), D(b"/outside", F(b"pwn"))))
    add("empty-name-dir", D(b"", D(b"\0", F(b"pwn")), F(b"z")))
    add("dotdot-nul", D(b"", D(b"..\0x", F(b"pwn"))))
    add("dotdot-deep", D(b"", D(b"a", D(b"b", D(b"..", D(b"..", D(b"..", F(b"pwn"))))))))
    add("link-chmod", D(b"", Ln(b"m", b"../side"), Ln(b"o", b"/outside")), flags="COTX")
    add("link-xattr", D(b"", Ln(b"m", b"../side", xkeys=[b"trusted.t"]), D(b"q", xkeys=[b"user.a"])), flags="---X")
    add("root-link", Ln(b"", b"../outside/pwn"))
    add("root-file", F(b""))
    add("root-fifo", T(b"", "p"))
    add("sub-dir", D(b"", D(b"a", F(b"f"), D(b"e"))), sub=b"a")
    add("sub-empty-dir", D(b"", D(b"a", D(b"e"))), sub=b"a/e")
    add("sub-file", D(b"", D(b"a", F(b"f"))), sub=b"a/f")
    add("sub-link", D(b"", Ln(b"l", b"../outside")), sub=b"l")
    add("sub-missing", D(b"", D(b"a")), sub=b"nope")
    add("sub-through-file", D(b"", F(b"a")), sub=b"a/b")
    add("exists-dir", D(b"", D(b"a", F(b"f"))), init=[(b"a", "d", b"")])
    add("exists-file", D(b"", D(b"a", F(b"f")), F(b"z")), init=[(b"a", "d", b""), (b"a/f", "f", b"")])
    add("exists-file-for-dir", D(b"", D(b"a", F(b"f"))), init=[(b"a", "f", b"")])
    add("no-links", D(b"", Ln(b"l", b".."), D(b"e"), T(b"p", "p"), T(b"c", "c")), rdflags="LE")
    add("no-dev-fifo", D(b"", D(b"e", T(b"p", "p")), T(b"c", "c"), T(b"s", "s"), T(b"b", "b")), rdflags="DFSE")
    add("all-kinds", D(b"", T(b"p", "p"), T(b"c", "c"), T(b"s", "s"), T(b"b", "b"), F(b"f"), Ln(b"l", b"f"), D(b"d")))
    add("sort-unsigned", D(b"", F(b"\xff"), F(b"a"), F(b"\x7f"), F(b"\x80"), F(b"B")), flags="C---")
    add("sort-prefix", D(b"", F(b"ab"), F(b"a"), F(b"a-"), D(b"a.", F(b"x")), F(b"a/")), flags="--T-")
    return c


def gen_cases(ctx):
    if ctx.replay:
        r = json.load(open(ctx.replay))
        cs = []
        for c in r.get("cases", []):
            cs.append(dict(tag=c.get("tag", "replay"), tree=T.from_json(c["tree"]), flags=c["flags"],
                           sub=bytes.fromhex(c["sub"]), init=[(bytes.fromhex(p), k, bytes.fromhex(t)) for p, k, t in c["init"]],
                           rdflags=c.get("rdflags", ""), planted=c.get("planted", False), rform=c.get("rform", "/w/R")))
        return cs, "replay of %s" % ctx.replay
    rnd = random.Random(ctx.seed * 7919 + 6)
    cases = corpus() + dups.cases()
    n = 450 if ctx.tier == "quick" else 12000
    for i in range(n):
        tree = rtree(rnd)
        c = dict(tag="random", tree=tree, flags=rnd.choice(FLAGSETS), sub=b"/", init=[], rdflags="", planted=False,
                 rform=rnd.choice(RFORMS))
        r = rnd.random()
        if r > 0.92:
            init = rplanted(rnd, tree)
            if init:
                c.update(tag="planted-link", init=init, planted=True)
        elif r < 0.12:
            ps = all_paths(tree)
            if ps:
                c["sub"] = rnd.choice(ps)
                if rnd.random() < 0.3:
                    c["sub"] = b"//" + c["sub"].replace(b"/", b"/./") + b"/"
        elif r < 0.3:
            c["init"] = rinit(rnd, tree)
        elif r < 0.36:
            c["rdflags"] = "".join(f for f in "DSFLE" if rnd.random() < 0.5)
        cases.append(c)
    rule = ("%d systematic duplicate-sibling-name images (props/C06/dups.py: 6 type combinations x link target outside R / "
            "absolute / '..' x EQUAL or distinct inode numbers x same inode reference x adjacent or apart on disk x top level, "
            "nested, -u sub-path, three of a name, NUL-tail spelling) + " % len(dups.cases()) +
            "%d hand-made attack shapes (duplicate names mixing symlink/dir/file incl. NUL-cut and case variants, "
            "'.', '..', '/', absolute and empty names, non-directory root inode, sub-paths, pre-existing objects) + %d random "
            "trees (<=15 entries, depth<=3; names: 78%% sane incl. bytes >= 0x80, 14%% containing '/', '.', '..', 8%% with "
            "embedded NUL; 7%% of directories get an injected duplicate of another kind; all 7 inode kinds; 23 symlink "
            "targets incl. '..', '/', absolute, empty; xattr keys on 20%% of entries; 12 flag sets; 12%% sub-paths, 18%% "
            "pre-populated R, 6%% -D/-S/-F/-L/-E, 8%% with a symbolic link planted in R: tie of the path resolution only, "
            "outside the property), seed %d; distinct = distinct (flags, initial R, tree) model inputs; non-trivial = the model "
            "produced at least one operation or refused the image for a duplicate name"
            % (len(corpus()), n, ctx.seed))
    return cases, rule


def case_json(c):
    return dict(tag=c["tag"], tree=c["tree"].to_json(), flags=c["flags"], sub=c["sub"].hex(),
                init=[(p.hex(), k, t.hex()) for p, k, t in c["init"]], rdflags=c["rdflags"], planted=c.get("planted", False),
                rform=c.get("rform", "/w/R"))


# --------------------------------------------------------------------------
# running one case on the implementation
# --------------------------------------------------------------------------

def run_real(factory, workdir, idx, c):
    jail = os.path.join(workdir, "j%d" % idx)
    img = L.build_image(c["tree"])
    factory.make(jail, img, c["init"])
    before = L.snapshot(jail)
    trace = os.path.join(workdir, "t%d.txt" % idx)
    cmd = ["strace", "-f", "-xx", "-s", "100000", "-o", trace, "-e", "trace=%file",
           "chroot", jail, "/bin/rd", "-u", os.fsdecode(c["sub"]), "-p", c.get("rform", "/w/R")]
    for f, o in (("C", "-C"), ("O", "-O"), ("T", "-T"), ("X", "-X")):
        if f in c["flags"]:
            cmd.append(o)
    for f in c["rdflags"]:
        cmd.append("-" + f)
    cmd.append("/img.sqfs")
    res = dict(timeout=False)
    try:
        r = subprocess.run(cmd, stdout=subprocess.PIPE, stderr=subprocess.PIPE, timeout=TIMEOUT)
        res["rc"] = r.returncode
        res["stderr"] = r.stderr.decode("latin-1")
        res["stdout"] = r.stdout.decode("latin-1")
    except subprocess.TimeoutExpired:
        res["timeout"] = True
        res["rc"] = -1
        res["stderr"] = res["stdout"] = ""
    after = L.snapshot(jail)
    res["outside"] = L.outside_diff(before, after)
    try:
        res["pre"], res["post"] = L.parse_strace(open(trace, "r", errors="replace").read())
    except OSError:
        res["pre"], res["post"] = [], []
    res["listing"] = L.jail_listing(jail)
    shutil.rmtree(jail, ignore_errors=True)
    try:
        os.unlink(trace)
    except OSError:
        pass
    return res


def model_line(c):
    """input line for driver.ml, or None when the tree loader already fails (no such sub-path)"""
    tree = L.filter_tree(c["tree"], c["rdflags"]) if c["rdflags"] else c["tree"]
    sel = L.select_subtree(tree, c["sub"])
    if sel is None:
        return None
    sub, rootname = sel
    toks = [c["flags"], str(len(c["init"]))]
    for p, k, t in c["init"]:
        toks += [L.hx(p), k] + ([L.hx(t)] if k == "l" else [])
    toks += L.tokens(sub, rootname=rootname)
    return " ".join(toks)


RFORMS = ["/w/R", "/w/R", "/w/R", "//w/R", "/w//R", "/w/R/", "w/R", "/w/./R", "///w/R//"]


def mkdir_p_expected(path):
    """transcription of lib/util/src/mkdir_p.c (POSIX branch): the mkdir calls it issues, in order"""
    p = path.encode()
    while p[:2] == b"//":
        p = p[1:]
    if p in (b"", b"/"):
        return []
    out = []
    for i in range(len(p) + 1):
        if i > 0 and (i == len(p) or p[i:i + 1] == b"/"):
            out.append(("mkdir", p[:i]))
    return out


def compare(c, res, mline, mout):
    """-> list of (what, detail) tie mismatches"""
    bad = []
    if res["rc"] not in (0, 1) and not res["timeout"]:
        # abort()/signal: still a failing run that leaves the outside alone (checked by the oracle), but the model
        # proves the assert behind canonicalize_name unreachable and knows no other abnormal end
        return [("crash", "rdsquashfs died with status %d (the model knows only exit 0/1): %s" % (res["rc"], res["stderr"][-200:]))]
    real_pre = [(k, p) for k, p, e, ok, err in res["pre"]]
    real = res["post"]
    rc = res["rc"]
    if mline is None or mout[0] == "DUP":
        why = "sub-path lookup fails" if mline is None else "tree_sort rejects a duplicate name"
        if rc == 0:
            bad.append(("exit", "model: %s, tool exited 0" % why))
        if res["pre"] or real:
            bad.append(("ops", "model: %s (no file system access), tool issued %s" % (why, [L.fmt_real(r) for r in (res["pre"] + real)][:6])))
        return bad
    if mout[0] != "OPS":
        bad.append(("model", "model driver said %r" % (mout[:2],)))
        return bad
    if real_pre != mkdir_p_expected(c.get("rform", "/w/R")):
        bad.append(("mkdir_p", "calls before chdir for -p %s: %r, expected %r" % (c.get("rform", "/w/R"), real_pre, mkdir_p_expected(c.get("rform", "/w/R")))))
    ops = mout[1].split(" ") if mout[1] else []
    exp = []
    aborts = False
    for o in ops:
        if o in ("abort", "assert"):
            aborts = True
            break
        exp.append(o)
    i = 0
    nsucc = 0
    failed = None
    seg = None
    for j, r in enumerate(real):
        s = L.fmt_real(r)
        kind, p, extra, ok, err = r
        if failed is not None:
            bad.append(("ops", "tool continued after failing call %s with %s" % (failed, s)))
            break
        if i >= len(exp):
            bad.append(("ops", "tool issued %s after the model's list ended (%d calls)" % (s, len(exp))))
            break
        if exp[i].startswith("open:"):
            if seg is None:
                e = i
                while e < len(exp) and exp[e].startswith("open:"):
                    e += 1
                seg = collections.Counter(exp[i:e])
            if seg[s] <= 0:
                bad.append(("ops", "call #%d %s is not among the files the model fills %s" % (j, s, sorted(seg.elements())[:6])))
                break
            seg[s] -= 1
        else:
            seg = None
            if s != exp[i]:
                bad.append(("ops", "call #%d: tool %s, model %s" % (j, s, exp[i])))
                break
        i += 1
        if ok or (kind == "mkdir" and err == "EEXIST"):
            nsucc += 1
        else:
            failed = s + " " + err
    if bad:
        return bad
    if failed is None:
        if i != len(exp):
            bad.append(("ops", "tool stopped after %d calls without a failing call, model continues with %s" % (i, exp[i])))
        elif (rc == 0) != (not aborts):
            bad.append(("exit", "exit status %d, model %s" % (rc, "aborts" if aborts else "completes")))
    elif rc == 0:
        bad.append(("exit", "a call failed (%s) but exit status 0" % failed))
    if bad:
        return bad
    k = int(mout[2])
    xattr_fail = failed is not None and failed.startswith("setxattr")
    if nsucc != k and not xattr_fail:
        bad.append(("fs-model", "%d calls succeeded on the kernel, %d in the model (first failing: %s)" % (nsucc, k, failed)))
        return bad
    if nsucc == k:
        mfinal = set()
        for e in (mout[3].split(" ") if mout[3] else []):
            parts = e.split(":")
            pp = bytes.fromhex(parts[0]) if parts[0] != "-" else b""
            mfinal.add((pp, parts[1], parts[2] if len(parts) > 2 else ""))
        rfinal = set(res["listing"])
        if mfinal != rfinal:
            bad.append(("fs-final", "file system after the run differs: only model %s, only kernel %s" % (
                sorted(mfinal - rfinal)[:4], sorted(rfinal - mfinal)[:4])))
    # skipped entries are reported (twice: create walk and file-list walk) when the run completes
    if rc == 0 and failed is None:
        nskip = len(mout[4].split(" ")) if len(mout) > 4 and mout[4] else 0
        rep = res["stderr"].count(", skipping.")
        if rep != 2 * nskip:
            bad.append(("skip-report", "%d 'skipping' messages, model skips %d entries (each reported by two walks)" % (rep, nskip)))
    return bad


def run(ctx):
    info = B.build("plain")
    rd = info["tools"]["rdsquashfs"]
    drv = core.build_model_driver("C06", "ExtractC06.v", os.path.join(HERE, "driver.ml"))
    ctx.trusted += ["props/C06/driver.ml, props/C06/c06lib.py, props/C06/check.py (image writer on top of vlib/sqfsimg.py Builder, "
                    "strace parser, jail snapshot, Python transcription of the tree loader's sub-path selection and -D/-S/-F/-L/-E filter)",
                    "strace (-f -xx -e trace=%file) and the Linux kernel's path resolution inside a chroot jail",
                    "coq/C06/FsModel.v: the POSIX model (byte-exact names, no hard links/mount points/races); its answers are "
                    "compared with the kernel on every case (number of successful calls, final content of R)"]
    ctx.assumptions += ["R may be non-fresh (files, directories, symbolic links left by earlier runs): the assumption 'no symbolic link in R' "
                        "of unpack_confined is replaced by the characterisation unpack_nonfresh_characterised / "
                        "no_write_through_preexisting_link (theorems; evaluated model-free by props/C06/nonfresh.py): the outside can "
                        "change only through a symbolic link that existed before the run exactly where the run makes a directory "
                        "(mkdir's EEXIST tolerance; such pairs are run, counted and not reported)",
                        "the file system below R compares names byte for byte (no case folding / Unicode normalisation)",
                        "no concurrent modification of R while the tool runs",
                        "R (the --unpack-root argument) itself is trusted input; mkdir_p(R)/chdir(R) are modelled (RootsModel.v, theorems "
                        "unpack_root_chdir_fails / unpack_root_started / unpack_root_handling: no pass runs unless chdir succeeded, the passes "
                        "run in the physical directory chdir reached) and tied on the shapes of props/C06/oddroots.py the world model can "
                        "express (props/C06/roottie.py); permission failures and ENAMETOOLONG stay oracle-only (oddroots.py); a race that "
                        "replaces R between mkdir_p and chdir is not exercised"]
    if os.geteuid() != 0:
        ctx.violation("machinery-not-root", "C06 check needs root (chroot jail, mknod, chown)", dict(kind="machinery"), no_input=True)
        return
    work = os.path.join(ctx.scratch, "c06")
    os.makedirs(work)
    factory = L.JailFactory(work, rd)
    if ctx.replay:
        rj = json.load(open(ctx.replay))
        if rj.get("oddroots"):
            # replay of a case of the class "odd unpack roots" (props/C06/oddroots.py)
            ctx.coverage["rule"] = "replay of %s" % ctx.replay
            ctx.coverage["evaluations"] = oddroots.run(ctx, factory, work, only=rj["oddroots"])
            return
        if rj.get("passes"):
            # replay of an (image, options) pair of the class "the walks of the unpacker agree" (props/C06/passes.py)
            ctx.coverage["rule"] = "replay of %s" % ctx.replay
            ctx.coverage["evaluations"] = passes.run(ctx, factory, work, only=rj["passes"])
            return
        if rj.get("nonfresh"):
            # replay of a (first image / hand-made content, second image) pair of the class "non-fresh roots" (props/C06/nonfresh.py)
            ctx.coverage["rule"] = "replay of %s" % ctx.replay
            ctx.coverage["evaluations"] = nonfresh.run(ctx, factory, work, only=rj["nonfresh"])
            return
    cases, rule = gen_cases(ctx)
    ctx.coverage["rule"] = rule
    mlines = [model_line(c) for c in cases]
    inp = "\n".join(m for m in mlines if m is not None) + "\n"
    r = subprocess.run([drv], input=inp.encode(), stdout=subprocess.PIPE, stderr=subprocess.PIPE)
    outs = r.stdout.decode().split("\n")
    mouts = []
    k = 0
    for m in mlines:
        if m is None:
            mouts.append(None)
        else:
            mouts.append(outs[k].split("\t") if k < len(outs) else ["BAD", "driver died"])
            k += 1
    t0 = time.time()
    with ThreadPoolExecutor(max_workers=12) as ex:
        results = list(ex.map(lambda ic: run_real(factory, work, ic[0], ic[1]), enumerate(cases)))
    ctx.log("ran %d cases on the implementation in %.1fs" % (len(cases), time.time() - t0))
    evaluate(ctx, cases, mlines, mouts, results, factory)
    if not ctx.replay:
        # class "odd unpack roots": R is a regular file, a dangling/looping link, a link to another directory, not
        # searchable/writable (unprivileged run), has missing parents, odd spellings, very long (oracle only)
        ctx.coverage["evaluations"] += oddroots.run(ctx, factory, work)
        # class "non-fresh roots": R pre-populated by really unpacking a first image / by hand with links, files, directories at
        # the names a second image uses; oracle = the characterisation of unpack_nonfresh_characterised, model-free
        ctx.coverage["evaluations"] += nonfresh.run(ctx, factory, work)
        # class "the walks agree": images with entries is_filename_sane refuses (every kind, every position) x option matrix;
        # oracle = same complete observable (exit status, tree, modes, owners, times, xattrs) as the image without them
        # (skip_is_local / passes_agree), evaluated on the implementation; a disagreement is a concrete image + options
        ctx.coverage["evaluations"] += passes.run(ctx, factory, work)
        # tie of the unpack-root model (RootsModel.v: mkdir_p_calls, chdir, main_unpack) to mkdir_p.c / main()
        drv2 = core.build_model_driver("C06roots", "ExtractC06Roots.v", os.path.join(HERE, "roots_driver.ml"))
        ctx.coverage["evaluations"] += roottie.run(ctx, factory, work, drv2, mkdir_p_expected, RFORMS)
    if ctx.tier == "thorough" and not ctx.replay:
        rc, out = core.sh(["timeout", "900", "coqchk", "-silent", "-o", "-Q", ".", "SqfsV", "SqfsV.Properties_C06"], cwd=core.COQ)
        ok = rc == 0 and "Axioms: <none>" in out
        ctx.coverage["coqchk"] = "ok, no axioms" if ok else out[-800:]
        if not ok:
            ctx.proof_broken.append("coqchk on Properties_C06 failed or reports axioms: " + out[-600:])


def oracle(ctx, c, res, seen):
    """the property evaluated directly on one run of the implementation"""
    if res["timeout"]:
        ctx.violation("hang:" + c["tag"], "rdsquashfs did not terminate within %ds unpacking a crafted image" % TIMEOUT,
                      dict(cases=[case_json(c)], tree=c["tree"].show()))
    if res["outside"] and not c.get("planted"):
        res["outside"].sort(key=lambda x: (0 if x[1] is None else 1 if x[2] is None else 2 if x[1][0] != 0o040000 else 3, x[0]))
        k, a, b = res["outside"][0]
        kind = "created" if a is None else ("removed" if b is None else "modified")
        sig = "escape:%s:%s" % (kind, c["tag"])
        if sig not in seen and len(seen) < 3:
            seen.add(sig)
            ctx.violation(sig, "unpacking wrote outside the unpack root: /%s %s (flags %s, -u %r); before=%r after=%r" % (
                k.decode("latin-1"), kind, c["flags"], c["sub"], a, b),
                dict(cases=[case_json(c)], tree=c["tree"].show(),
                     outside=[(x.decode("latin-1"), repr(y), repr(z)) for x, y, z in res["outside"][:5]],
                     stderr=res["stderr"][-500:]))


ATTACK_TARGETS = [b"../../outside", b"/outside", b"..", b"../side", b"/secret", b"../../../outside"]


def map_tree(t, f):
    n = T(t.name, t.kind, t.target, t.xkeys, [map_tree(c, f) for c in t.children], t.data, t.mode, t.uid, t.gid, t.mtime, t.ino, t.share)
    return f(n) or n


def search_around(ctx, factory, work, seeds, n_random):
    """a proof obligation or the correspondence broke: look for a concrete escape near the disagreeing
    cases (all flag sets, all attack targets, reversed entry order, injected duplicates) and in fresh random images"""
    rnd = random.Random(ctx.seed * 31 + 17)
    extra = []
    for c in seeds[:6]:
        for fl in ("COTX", "----", "C---", "-O--", "--T-"):
            extra.append(dict(c, flags=fl, tag="search:" + c["tag"]))
        for tgt in ATTACK_TARGETS:
            def retarget(n, tgt=tgt):
                if n.kind == "l":
                    n.target = tgt
            extra.append(dict(c, tree=map_tree(c["tree"], retarget), flags="COTX", tag="search:" + c["tag"]))

            def inject(n, tgt=tgt):
                if n.kind == "d" and n.children:
                    v = n.children[0]
                    n.children = [T(L.cut0(v.name) or b"\0", "l", target=tgt, mode=0o777)] + n.children
            extra.append(dict(c, tree=map_tree(c["tree"], inject), flags="COTX", tag="search:" + c["tag"]))

        def rev(n):
            n.children = list(reversed(n.children))
        extra.append(dict(c, tree=map_tree(c["tree"], rev), tag="search:" + c["tag"]))
    for i in range(n_random):
        extra.append(dict(tag="search:random", tree=rtree(rnd), flags=rnd.choice(FLAGSETS), sub=b"/", init=[], rdflags="", planted=False))
    extra = [c for c in extra if not c.get("planted")]
    with ThreadPoolExecutor(max_workers=12) as ex:
        results = list(ex.map(lambda ic: run_real(factory, work, 100000 + ic[0], ic[1]), enumerate(extra)))
    seen = set()
    for c, res in zip(extra, results):
        oracle(ctx, c, res, seen)
    ctx.coverage["search_cases"] = len(extra)
    return len(extra)


def evaluate(ctx, cases, mlines, mouts, results, factory):
    nontriv = set()
    tie_bad = []
    dist = collections.Counter()
    seen_escape = set()
    for c, ml, mo, res in zip(cases, mlines, mouts, results):
        dist[c["tag"] if c["tag"] != "random" else "random"] += 1
        if ml is None:
            dist["model:no-such-subpath"] += 1
        elif mo[0] == "DUP":
            dist["model:duplicate-rejected"] += 1
            nontriv.add(ml)
        elif mo[0] == "OPS":
            if mo[1]:
                nontriv.add(ml)
            if "abort" in mo[1].split(" "):
                dist["model:abort"] += 1
            if len(mo) > 4 and mo[4]:
                dist["model:skips-entries"] += 1
        dist["exit0" if res["rc"] == 0 else "exit-nonzero"] += 1
        # ---- search oracle: the property itself, on the implementation ----
        if c.get("planted") and res["outside"]:
            dist["planted-link:escapes-as-model-predicts"] += 1
        oracle(ctx, c, res, seen_escape)
        # ---- tie ----
        b = compare(c, res, ml, mo)
        if b:
            tie_bad.append((c, b, mo, res))
    if not factory.master_intact():
        ctx.violation("escape:tool-files", "the tool's own binary/libraries in the jail were modified during a run", dict(kind="jail"), no_input=not seen_escape)
    ctx.coverage["evaluations"] = len(cases)
    ctx.coverage["distinct_nontrivial"] = len(nontriv)
    ctx.coverage["traces_validated_against_impl"] = len(cases) - len(tie_bad)
    ctx.coverage["distribution"] = dict(dist)
    for c, mo, res in list(zip(cases, mouts, results))[3:6]:
        ctx.add_samples([dict(tag=c["tag"], flags=c["flags"], tree=c["tree"].show(), model=(mo[:3] if mo else None),
                              impl=[L.fmt_real(r) for r in res["post"]][:12], rc=res["rc"])])
    if (tie_bad or ctx.proof_broken) and not any(not v["no_input"] for v in ctx.violations) and not ctx.replay:
        n = search_around(ctx, factory, os.path.join(ctx.scratch, "c06"), [x[0] for x in tie_bad] + cases[:3], 300 if ctx.tier == "quick" else 3000)
        ctx.log("tie/proof broken: searched %d more images for an escape" % n)
    if tie_bad:
        c, b, mo, res = tie_bad[0]
        ctx.tie_broken.append("unpack_ops/run = rdsquashfs syscall trace")
        ctx.violation("tie:" + b[0][0], "correspondence model vs rdsquashfs broken on %d of %d cases; first (%s, flags %s, -u %r): %s" % (
            len(tie_bad), len(cases), c["tag"], c["flags"], c["sub"], b[0][1]),
            dict(cases=[case_json(x[0]) for x in tie_bad[:3]], tree=c["tree"].show(), mismatch=b, model=mo,
                 impl=[L.fmt_real(r) + ("" if r[3] else " !" + r[4]) for r in res["post"]][:40], rc=res["rc"], stderr=res["stderr"][-600:],
                 correspondence="props/C06: unpack_ops + run (extracted) = path syscalls of rdsquashfs under strace"),
            no_input=True)


def setup():
    core.build_model_driver("C06", "ExtractC06.v", os.path.join(HERE, "driver.ml"))
    core.build_model_driver("C06roots", "ExtractC06Roots.v", os.path.join(HERE, "roots_driver.ml"))
