"""C06: tie of the unpack-root model (coq/C06/RootsModel.v: mkdir_p_calls, mkdir_p_run, chdir, main_unpack; theorems
unpack_root_chdir_fails / unpack_root_started / unpack_root_handling) to the implementation.

(1) `mkdir_p_calls` (extracted) = the Python transcription `mkdir_p_expected` of check.py, which the main leg compares with
    the mkdir calls strace sees before the chdir, on every spelling of R used anywhere in the check + random spellings.
(2) For the shapes of R of props/C06/oddroots.py that the world model can express (run as root; no ENAMETOOLONG, no
    permission bits): the jail is listed before the run and handed to the extracted `main_unpack true` (start directory
    /w/start, benign image, no option); compared with the real run: exit status 0 <=> model ExitOK, and the image's probe file
    appears beneath the physical directory the model's chdir reached / nowhere when the model starts no pass.
    With can_enter = false the model must predict failure for every shape (the permission shapes themselves stay oracle-only)."""
import os
import random
import shutil
import subprocess
import sys
import time
from concurrent.futures import ThreadPoolExecutor

HERE = os.path.dirname(os.path.abspath(__file__))
sys.path.insert(0, HERE)
import c06lib as L  # noqa: E402
import oddroots  # noqa: E402

NOT_IN_MODEL = {"name-256", "dots-beyond-PATH_MAX", "dotdot-beyond-PATH_MAX"}   # ENAMETOOLONG is not modelled
QUICK_SKIP = {"dots-3000-bytes"}      # 1500 mkdir calls on 1500-component paths: seconds in the extracted model; thorough tier only
PROBE = b"etc/sub/file.txt"


def run_one(factory, work, idx, sh, img):
    jail = os.path.join(work, "r%d" % idx)
    factory.make(jail, img, [])
    oddroots.prep_jail(jail, sh)
    listing = L.jail_listing(jail)
    before = L.snapshot(jail)
    cmd = [sys.executable, "-S", "-E", "-c", oddroots.LAUNCH, jail, "/w/start", "0", "/bin/rd", "-q", "-u", "/", "-p", sh["rarg"], "/img.sqfs"]
    try:
        r = subprocess.run(cmd, stdout=subprocess.PIPE, stderr=subprocess.PIPE, timeout=20)
        rc, err = r.returncode, r.stderr.decode("latin-1")
    except subprocess.TimeoutExpired:
        rc, err = None, ""
    after = L.snapshot(jail)
    landed = sorted(k for k in after if k not in before and (k == PROBE or k.endswith(b"/" + PROBE)))
    shutil.rmtree(jail, ignore_errors=True)
    return dict(listing=listing, rc=rc, stderr=err, landed=landed)


def root_line(rarg, enter, listing, tree):
    toks = ["ROOT", L.hx(rarg), "1" if enter else "0", str(len(listing))]
    for rel, kind, extra in listing:
        toks += [L.hx(rel or b"/"), kind] + ([extra] if kind == "l" else [])
    return " ".join(toks + L.tokens(tree))


def run(ctx, factory, work, drv, mkdir_p_expected, rforms):
    t0 = time.time()
    bad = []
    # ---- (1) mkdir_p_calls
    sh = oddroots.shapes()
    rnd = random.Random(ctx.seed * 15485863 + 6)
    paths = set(p.encode() for p in rforms) | set(s["rarg"] for s in sh.values())
    for _ in range(300):
        paths.add(b"".join(rnd.choice([b"/", b"/", b"a", b"bc", b".", b"..", b"//", b"R"]) for _ in range(rnd.randint(0, 7))))
    paths = sorted(paths)
    inp = "".join("MKP %s\n" % L.hx(p) for p in paths)
    out = subprocess.run([drv], input=inp.encode(), stdout=subprocess.PIPE).stdout.decode().split("\n")
    n_mkp = 0
    for p, line in zip(paths, out):
        got = [bytes.fromhex(x) for x in line.split("\t")[1].split(" ") if x] if line.startswith("MKP\t") else None
        exp = [q for _, q in mkdir_p_expected(os.fsdecode(p))]
        n_mkp += 1
        if got != exp:
            bad.append(("mkdir_p_calls", "mkdir_p(%r): model %r, transcription of mkdir_p.c %r" % (p[:80], got, exp), dict(path=p.hex())))
            break
    # ---- (2) main_unpack on the expressible shapes
    trees = oddroots.images()
    img = L.build_image(trees["benign"])
    names = [n for n in sh if not sh[n]["uid"] and n not in NOT_IN_MODEL and (ctx.tier != "quick" or n not in QUICK_SKIP)]
    with ThreadPoolExecutor(max_workers=12) as ex:
        results = list(ex.map(lambda ix: run_one(factory, work, ix[0], sh[ix[1]], img), enumerate(names)))
    inp = "".join(root_line(sh[n]["rarg"], en, r["listing"], trees["benign"]) + "\n" for n, r in zip(names, results) for en in (True, False))
    out = subprocess.run([drv], input=inp.encode(), stdout=subprocess.PIPE).stdout.decode().split("\n")
    n_ok = n_fail = 0
    for i, (n, r) in enumerate(zip(names, results)):
        m = out[2 * i].split("\t")
        m0 = out[2 * i + 1].split("\t")
        rj = dict(oddroots=[dict(shape=n, img="benign", flags="----")], rarg=oddroots.short(sh[n]["rarg"], 200), model=m, rc=r["rc"],
                  landed=[oddroots.short(x, 200) for x in r["landed"]], stderr=r["stderr"][-300:])
        if m[0] != "ROOT" or m0[0] != "ROOT":
            bad.append(("root-model", "shape %s: model driver said %r" % (n, m[:2]), rj))
            continue
        if m0[1] != "FAIL" or m0[2] != "-":
            bad.append(("root-model", "shape %s: the process may not enter the directory, yet the model says %r" % (n, m0[1:3]), rj))
        if r["rc"] is None:
            continue                      # a hang is reported by the oracle leg
        mcwd = None if m[2] == "-" else bytes.fromhex(m[2]).strip(b"/")
        if (r["rc"] == 0) != (m[1] == "OK"):
            bad.append(("root-exit", "shape %s (-p %s): exit status %d, model %s" % (n, oddroots.short(sh[n]["rarg"]), r["rc"], m[1]), rj))
            continue
        if mcwd is None:
            n_fail += 1
            if r["landed"]:
                bad.append(("root-cwd", "shape %s: model starts no pass, the tool unpacked %r" % (n, r["landed"][:2]), rj))
        else:
            n_ok += 1
            exp = (mcwd + b"/" + PROBE) if mcwd else PROBE
            if r["landed"] != [exp]:
                bad.append(("root-cwd", "shape %s (-p %s): model runs the passes in /%s, the tool put the probe file at %r" % (
                    n, oddroots.short(sh[n]["rarg"]), oddroots.short(mcwd), r["landed"][:2]), rj))
    ctx.coverage["root_model_tie"] = dict(mkdir_p_paths=n_mkp, shapes=len(names), model_runs_passes=n_ok, model_stops=n_fail,
                                          seconds=round(time.time() - t0, 1))
    ctx.log("unpack-root model tie: mkdir_p_calls on %d paths, main_unpack on %d shapes of R (%d run the passes, %d stop) in %.1fs" % (
        n_mkp, len(names), n_ok, n_fail, time.time() - t0))
    if bad:
        what, detail, rj = bad[0]
        ctx.tie_broken.append("mkdir_p_calls/main_unpack = rdsquashfs main() root handling")
        ctx.violation("tie:" + what, "correspondence unpack-root model vs rdsquashfs broken (%d mismatches); first: %s" % (len(bad), detail),
                      dict(rj, correspondence="props/C06/roottie.py: RootsModel.v (extracted) = mkdir_p.c transcription / main() on odd roots"),
                      no_input=True)
    return n_mkp + len(names)
