"""C06 helpers: hostile image trees, image writer (vlib.sqfsimg.Builder + xattr table), chroot jail,
strace parser, snapshot oracle.  Everything random derives from the `random.Random` handed in."""
import hashlib
import os
import re
import shutil
import stat
import struct
import subprocess

from vlib import sqfsimg as S

KIND2T = {"d": S.T_DIR, "f": S.T_FILE, "l": S.T_SLINK, "b": S.T_BDEV, "c": S.T_CDEV, "p": S.T_FIFO, "s": S.T_SOCK}
XPREFIX = [b"user.", b"trusted.", b"security."]


class T:
    """one entry of the image: raw name bytes (len >= 1 on disk, root: b''), kind, raw target, xattr keys, children"""
    __slots__ = ("name", "kind", "target", "xkeys", "children", "data", "mode", "uid", "gid", "mtime", "ino", "share")

    def __init__(self, name, kind, target=b"", xkeys=(), children=(), data=b"x", mode=0o644, uid=0, gid=0, mtime=0,
                 ino=None, share=False):
        # ino: None = the writer's own (distinct) inode number; an int g = all entries of the image with the same g carry
        # ONE inode_number in their inodes (image-controlled field).  share: this entry refers to the very same inode
        # (same inode reference) as the first entry of its group g (a second name for one inode).
        self.ino = ino
        self.share = share
        self.name = name
        self.kind = kind
        self.target = target
        self.xkeys = list(xkeys)
        self.children = list(children)
        self.data = data
        self.mode = mode
        self.uid = uid
        self.gid = gid
        self.mtime = mtime

    def to_json(self):
        return dict(name=self.name.hex(), kind=self.kind, target=self.target.hex(), xkeys=[k.hex() for k in self.xkeys],
                    mode=self.mode, uid=self.uid, gid=self.gid, mtime=self.mtime, data=self.data.hex(),
                    ino=self.ino, share=self.share, children=[c.to_json() for c in self.children])

    @staticmethod
    def from_json(d):
        return T(bytes.fromhex(d["name"]), d["kind"], bytes.fromhex(d["target"]), [bytes.fromhex(k) for k in d["xkeys"]],
                 [T.from_json(c) for c in d["children"]], bytes.fromhex(d.get("data", "78")), d.get("mode", 0o644),
                 d.get("uid", 0), d.get("gid", 0), d.get("mtime", 0), d.get("ino"), d.get("share", False))

    def count(self):
        return 1 + sum(c.count() for c in self.children)

    def show(self, ind=0):
        s = "%s%r %s%s%s%s\n" % ("  " * ind, self.name, self.kind, (" -> %r" % self.target) if self.kind == "l" else "",
                                 (" x=%r" % self.xkeys) if self.xkeys else "",
                                 (" ino-group=%r%s" % (self.ino, " same-inode" if self.share else "")) if self.ino is not None else "")
        return s + "".join(c.show(ind + 1) for c in self.children)


def hx(b):
    return b.hex() if b else "-"


def cut0(b):
    i = b.find(b"\0")
    return b if i < 0 else b[:i]


def tokens(t, rootname=None):
    """serialisation understood by driver.ml"""
    name = t.name if rootname is None else rootname
    out = ["N", hx(name), t.kind, hx(t.target if t.kind == "l" else b""), str(len(t.xkeys))]
    out += [hx(k) for k in t.xkeys]
    ch = t.children if t.kind == "d" else []
    out.append(str(len(ch)))
    for c in ch:
        out += tokens(c)
    return out


# --------------------------------------------------------------------------
# image writer
# --------------------------------------------------------------------------

def xkey_split(key):
    """full key -> (prefix id, name bytes); keys handed to the Builder always start with a known prefix"""
    for i, p in enumerate(XPREFIX):
        if key.startswith(p):
            return i, key[len(p):]
    raise ValueError(key)


def build_image(root, block_size=4096):
    """Image bytes for tree `root` (root.name ignored).  xattr sets are appended behind the id table (the reader
    bounds its xattr metadata readers by [id_table_start, bytes_used))."""
    sets = []
    groups = {}

    def conv(t):
        if t.ino is not None and t.share and t.ino in groups and groups[t.ino][0].typ == KIND2T[t.kind]:
            return groups[t.ino][0]            # the same inode under a second name (equal inode reference)
        kw = {}
        ov = {}
        if t.xkeys:
            ov["xattr"] = len(sets)
            sets.append(t.xkeys)
            kw["ext"] = True
        typ = KIND2T[t.kind]
        if t.kind == "d":
            kw["children"] = [(c.name, conv(c)) for c in t.children]
        elif t.kind == "l":
            kw["target"] = t.target
        elif t.kind in "bc":
            kw["dev"] = 0x0103 if t.kind == "c" else 0x0700   # /dev/null-like numbers, never opened
        elif t.kind == "f":
            kw["data"] = t.data
        if t.ino is not None:
            kw["nlink"] = 2                    # entries sharing an inode number present themselves as hard links
        b = S.BNode(typ, mode=t.mode, uid=t.uid, gid=t.gid, mtime=t.mtime, ov=ov, **kw)
        if t.ino is not None:
            groups.setdefault(t.ino, []).append(b)
        return b

    def share_numbers(broot):
        """every group gets the inode number the writer gives its first member (children before parents, root last)"""
        cnt = [0]
        seen = {}

        def number(n):
            for _, c in n.children:
                if id(c) not in seen:
                    number(c)
            if id(n) not in seen:
                cnt[0] += 1
                seen[id(n)] = cnt[0]
        number(broot)
        for g in groups.values():
            num = min(seen[id(b)] for b in g if id(b) in seen)
            for b in g:
                b.ov["ino"] = num
    broot = conv(root)
    share_numbers(broot)
    if root.kind != "d":
        # a crafted super block whose root reference is not a directory: lay the inode out below a wrapper
        # directory, then point root_ref at it (the layout is deterministic, so build twice)
        b = S.Builder(S.BNode(S.T_DIR, mode=0o755, children=[(b"x", broot)]), block_size=block_size, pad=0)
        b.build()
        ref = broot.ref
        del sets[:]
        groups.clear()
        broot = conv(root)
        share_numbers(broot)
        b2 = S.Builder(S.BNode(S.T_DIR, mode=0o755, children=[(b"x", broot)]), block_size=block_size, pad=0,
                       super_ov=dict(root_ref=ref))
        img = bytearray(b2.build())
    else:
        img = bytearray(S.Builder(broot, block_size=block_size, pad=0).build())
    if sets:
        kv = bytearray()
        descs = []
        for keys in sets:
            start = len(kv)
            for k in keys:
                pid, nm = xkey_split(k)
                val = b"v"
                kv += struct.pack("<HH", pid, len(nm)) + nm + struct.pack("<I", len(val)) + val
            descs.append((start, len(keys), len(kv) - start))
        assert len(kv) < S.META and len(descs) * 16 < S.META
        kv_start = len(img)
        img += struct.pack("<H", len(kv) | 0x8000) + kv
        id_blk = len(img)
        ids = b"".join(struct.pack("<QII", off, cnt, sz) for off, cnt, sz in descs)
        img += struct.pack("<H", len(ids) | 0x8000) + ids
        tbl = len(img)
        img += struct.pack("<QII", kv_start, len(descs), 0) + struct.pack("<Q", id_blk)
        flags = struct.unpack_from("<H", img, 24)[0] & ~0x0200
        struct.pack_into("<H", img, 24, flags)
        struct.pack_into("<Q", img, 40, len(img))      # bytes_used
        struct.pack_into("<Q", img, 56, tbl)           # xattr_id_table_start
    if len(img) % 4096:
        img += b"\0" * (4096 - len(img) % 4096)
    return bytes(img)


# --------------------------------------------------------------------------
# what the tree loader does before the tool sees the tree (Python side of the tie; trusted)
# --------------------------------------------------------------------------

def canon_py(p):
    comps = [c for c in p.split(b"/") if c and c != b"."]
    if b".." in comps:
        return None
    return comps


SKIP_CLASS = {"D": "bc", "S": "s", "F": "p", "L": "l"}


def filter_tree(t, rdflags):
    """-D -S -F -L (drop by type) and -E (drop directories left empty), as read_tree.c:fill_dir"""
    drop = "".join(SKIP_CLASS[f] for f in rdflags if f in SKIP_CLASS)
    ch = []
    for c in (t.children if t.kind == "d" else []):
        if c.kind in drop:
            continue
        c2 = filter_tree(c, rdflags)
        if c2.kind == "d" and not c2.children and "E" in rdflags:
            continue
        ch.append(c2)
    return T(t.name, t.kind, t.target, t.xkeys, ch, t.data, t.mode, t.uid, t.gid, t.mtime, t.ino, t.share)


def select_subtree(root, sub):
    """sqfs_dir_reader_get_full_hierarchy(path): returns (tree, rootname) or None when the lookup fails."""
    comps = canon_py(sub)
    if comps is None:
        return None
    cur = root
    name = b""
    for c in comps:
        if cur.kind != "d":
            return None
        nxt = None
        for ch in cur.children:
            if cut0(ch.name) == c:
                nxt = ch
                break
        if nxt is None:
            return None
        cur = nxt
        name = c
    return cur, name


# --------------------------------------------------------------------------
# jail
# --------------------------------------------------------------------------

TOOL_DIRS = ("bin", "lib", "lib64", "usr")


class JailFactory:
    """master copy of the tool and its shared libraries; per-case jails hard-link to it"""

    def __init__(self, scratch, rd_exe):
        self.master = os.path.join(scratch, "master")
        self.files = []
        self.rd_exe = rd_exe
        self.make_master()

    def make_master(self):
        shutil.rmtree(self.master, ignore_errors=True)
        os.makedirs(os.path.join(self.master, "bin"))
        shutil.copy(self.rd_exe, os.path.join(self.master, "bin", "rd"))
        self.files = ["bin/rd"]
        out = subprocess.run(["ldd", self.rd_exe], capture_output=True, text=True).stdout
        for line in out.split("\n"):
            m = re.search(r"(/\S+)\s+\(0x", line)
            if not m:
                continue
            p = m.group(1)
            rel = p.lstrip("/")
            dst = os.path.join(self.master, rel)
            os.makedirs(os.path.dirname(dst), exist_ok=True)
            shutil.copy(os.path.realpath(p), dst)
            self.files.append(rel)
        self.sig = self.master_sig()

    def master_sig(self):
        out = []
        for rel in self.files:
            st = os.lstat(os.path.join(self.master, rel))
            out.append((rel, st.st_size, st.st_mtime_ns, st.st_mode, st.st_uid))
        return out

    def master_intact(self):
        try:
            return self.master_sig() == self.sig
        except OSError:
            return False

    def make(self, path, img, init):
        """jail at `path`: tool, image, sentinels, w/R pre-populated with `init` = [(relpath bytes, kind, target)]"""
        os.makedirs(path)
        for rel in self.files:
            dst = os.path.join(path, rel)
            os.makedirs(os.path.dirname(dst), exist_ok=True)
            os.link(os.path.join(self.master, rel), dst)
        with open(os.path.join(path, "img.sqfs"), "wb") as f:
            f.write(img)
        os.makedirs(os.path.join(path, "outside"))
        os.makedirs(os.path.join(path, "w", "R"))
        for rel in ("outside/secret", "secret", "w/side"):
            with open(os.path.join(path, rel), "wb") as f:
                f.write(b"sentinel")
            os.chmod(os.path.join(path, rel), 0o600)
        rb = os.path.join(path, "w", "R").encode()
        for rel, kind, tgt in init:
            p = os.path.join(rb, rel)
            if kind == "d":
                os.makedirs(p, exist_ok=True)
            elif kind == "f":
                with open(p, "wb") as f:
                    f.write(b"initial")
            elif kind == "l":
                os.symlink(tgt, p)
        for d, dn, fn in os.walk(path):
            os.utime(d, (1000000, 1000000))


def snapshot(path):
    """{relpath bytes: tuple} of every object below `path` (the jail), not following links"""
    out = {}
    bpath = path.encode()

    def rec(p, rel):
        st = os.lstat(p)
        typ = stat.S_IFMT(st.st_mode)
        ent = [typ, stat.S_IMODE(st.st_mode), st.st_uid, st.st_gid]
        top = rel.split(b"/", 1)[0]
        tool = top in (b"bin", b"lib", b"lib64", b"usr", b"img.sqfs")
        if typ == stat.S_IFLNK:
            ent.append(os.readlink(p))
        elif typ == stat.S_IFREG:
            ent.append(st.st_size)
            ent.append(st.st_mtime_ns)
            if not tool:
                with open(p, "rb") as f:
                    ent.append(hashlib.sha1(f.read()).hexdigest())
        elif typ == stat.S_IFDIR:
            ent.append(st.st_mtime_ns)
        else:
            ent.append(st.st_rdev)
        try:
            ent.append(tuple(sorted(os.listxattr(p, follow_symlinks=False))))
        except OSError:
            ent.append(())
        out[rel] = tuple(ent)
        if typ == stat.S_IFDIR:
            for e in sorted(os.listdir(p)):
                rec(os.path.join(p, e), (rel + b"/" + e) if rel else e)
    rec(bpath, b"")
    return out


def outside_diff(before, after, rroot=b"w/R"):
    """objects not strictly beneath R that differ (R itself: everything but its mtime)"""
    bad = []
    pre = rroot + b"/"
    for k in sorted(set(before) | set(after)):
        if k.startswith(pre):
            continue
        a, b = before.get(k), after.get(k)
        if k == rroot and a is not None and b is not None:
            a = a[:4] + a[5:]
            b = b[:4] + b[5:]
        if a != b:
            bad.append((k, a, b))
    return bad


def jail_listing(path):
    """canonical listing of the whole jail (without the tool's own files) for the comparison with the
    model's final world: (absolute path bytes, kind, extra)"""
    out = []
    base = path.encode()

    def rec(p, rel):
        st = os.lstat(p)
        typ = stat.S_IFMT(st.st_mode)
        if typ == stat.S_IFDIR:
            out.append((rel, "d", ""))
            for e in sorted(os.listdir(p)):
                if rel == b"" and e in (b"bin", b"lib", b"lib64", b"usr", b"img.sqfs"):
                    continue
                rec(os.path.join(p, e), rel + b"/" + e)
        elif typ == stat.S_IFLNK:
            out.append((rel, "l", hx(os.readlink(p))))
        elif typ == stat.S_IFREG:
            with open(p, "rb") as f:
                d = f.read()
            out.append((rel, "f", "7" if d in (b"initial", b"sentinel") else ("0" if d == b"" else "1")))
        else:
            out.append((rel, "n", ""))
    rec(base, b"")
    return out


# --------------------------------------------------------------------------
# strace
# --------------------------------------------------------------------------

LINE_RE = re.compile(r"^(\d+)\s+(\w+)\((.*)\)\s+= (-?\d+|\?)(?:\s+(\w+))?")
STR_RE = re.compile(r'"((?:\\x[0-9a-f]{2})*)"(\.\.\.)?')
IGNORED = {"execve", "access", "faccessat", "faccessat2", "stat", "lstat", "newfstatat", "statx", "readlink",
           "readlinkat", "getcwd", "statfs", "chroot"}


def unx(s):
    return bytes.fromhex(s.replace("\\x", ""))


def parse_strace(text):
    """-> (pre, post, exited): mutating path syscalls before / after the successful chdir into R, as
    tuples (kind, path bytes, extra bytes|None, ok bool, errno str)."""
    pre, post = [], []
    started = False
    after_chdir = False
    for line in text.split("\n"):
        m = LINE_RE.match(line)
        if not m:
            continue
        pid, name, args, ret, err = m.groups()
        strs = [unx(x[0]) for x in STR_RE.findall(args)]
        if name == "execve":
            if strs and strs[0] == b"/bin/rd" and ret == "0":
                started = True
            continue
        if not started:
            continue
        ok = ret != "?" and not ret.startswith("-")
        err = err or ""
        if name == "chdir":
            if ok:
                after_chdir = True
            else:
                (post if after_chdir else pre).append(("chdir", strs[0] if strs else b"", None, ok, err))
            continue
        if name in IGNORED:
            continue
        rec = None
        if name in ("mkdir", "mkdirat"):
            rec = ("mkdir", strs[0], None)
        elif name in ("symlink", "symlinkat"):
            rec = ("symlink", strs[1], strs[0])
        elif name in ("mknod", "mknodat"):
            rec = ("mknod", strs[0], None)
        elif name in ("open", "openat", "creat", "openat2"):
            if "O_CREAT" in args and "O_EXCL" in args:
                rec = ("creat", strs[0], None)
            elif "O_CREAT" in args or "O_TRUNC" in args or name == "creat":
                rec = ("open", strs[0], None)
            elif "O_WRONLY" in args or "O_RDWR" in args:
                rec = ("openw", strs[0], None)
            else:
                continue      # read-only open (image, shared libraries, locale)
        elif name in ("utimensat", "utimes", "futimesat", "utime"):
            rec = ("utimens" if "AT_SYMLINK_NOFOLLOW" in args else "utimens-follow", strs[0] if strs else b"", None)
        elif name in ("fchownat", "lchown", "chown"):
            nofollow = name == "lchown" or "AT_SYMLINK_NOFOLLOW" in args
            rec = ("chown" if nofollow else "chown-follow", strs[0], None)
        elif name in ("chmod", "fchmodat", "fchmodat2"):
            rec = ("chmod", strs[0], None)
        elif name in ("lsetxattr", "setxattr"):
            rec = ("setxattr" if name == "lsetxattr" else "setxattr-follow", strs[0], cut0(strs[1]) if len(strs) > 1 else b"")
        else:
            # any other path-taking call (rename, link, unlink, truncate, ...) is not something the model knows
            rec = ("other:" + name, strs[0] if strs else b"", None)
        (post if after_chdir else pre).append(rec + (ok, err))
    return pre, post


def fmt_real(r):
    kind, p, extra, ok, err = r
    s = "%s:%s" % (kind, hx(p))
    if extra is not None:
        s += ":" + hx(extra)
    return s
