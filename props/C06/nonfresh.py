"""C06, class "non-fresh unpack roots": R already holds what earlier runs (or a user) left there.

Theorem side: coq/C06/RootsNonfresh.v, `unpack_nonfresh_characterised` / `no_write_through_preexisting_link`
(Properties_C06.v): for EVERY initial content of R, an object outside R can change only if a symbolic link that existed
before the run sits exactly where the run makes a DIRECTORY (mkdir tolerates EEXIST); a pre-existing link at the name of
a regular file, device, fifo, socket or symlink of the image stops the run (O_EXCL / mknod / symlink: EEXIST), and then
every pre-existing link below R is still the same object.

This leg evaluates that characterisation MODEL-FREE on the implementation.  Every case: fresh chroot jail, R = /w/R is
pre-populated (a) by really unpacking a FIRST image with the tool under test, and/or (b) by hand, with symbolic links /
files / directories at names the SECOND image uses as regular file, directory, symlink, device, fifo; then the second
image is unpacked into the same R.  Oracle on the jail snapshots taken before/after the SECOND run:
  * witness := a symbolic link present BEFORE the second run at w/R/<p> for a path p the second image uses as a directory;
  * no witness  =>  nothing that is not strictly beneath w/R may differ (content, type, mode, owner, mtime, xattr names),
                    and every symbolic link that was below w/R is unchanged;          otherwise VIOLATION (concrete pair)
  * witness     =>  outside changes are inside the characterisation (the pristine code's mkdir/EEXIST behaviour): counted
                    in the coverage, NOT reported;
  * controls: a link at a non-directory name of the second image => the second run must fail (exit status != 0)."""
import os
import random
import shutil
import stat
import subprocess
import sys
import time
from concurrent.futures import ThreadPoolExecutor

HERE = os.path.dirname(os.path.abspath(__file__))
sys.path.insert(0, HERE)
import c06lib as L  # noqa: E402
from c06lib import T  # noqa: E402

TIMEOUT = 20


def D(name, *ch, **kw):
    return T(name, "d", children=list(ch), mode=0o755, **kw)


def F(name, **kw):
    kw.setdefault("data", b"SECOND-IMAGE-PAYLOAD\n")
    return T(name, "f", mode=0o4755, uid=1000, gid=100, mtime=1234567890, **kw)


def Ln(name, tgt):
    return T(name, "l", target=tgt, mode=0o777, uid=1000, gid=100, mtime=86400)


# targets as seen from /w/R/<top-level name>; "live" ones exist in the jail (c06lib.JailFactory.make)
TARGETS = {
    "live-file-rel": b"../../outside/secret",
    "live-file-abs": b"/secret",
    "live-side": b"../side",
    "dangling-out": b"../../outside/planted",
    "dangling-abs": b"/outside/new",
    "dir-out-rel": b"../../outside",
    "dir-out-abs": b"/outside",
    "dir-up": b"..",
}

# the second image: one entry of every kind the creation pass distinguishes, plus a nested file
SECOND = dict(
    file=(b"conf", lambda: F(b"conf")),
    dir=(b"d", lambda: D(b"d", F(b"f"), D(b"e", F(b"g")))),
    symlink=(b"ln", lambda: Ln(b"ln", b"conf")),
    chardev=(b"dev", lambda: T(b"dev", "c", mode=0o666, uid=1000)),
    fifo=(b"pipe", lambda: T(b"pipe", "p", mode=0o600, uid=1000)),
    nested=(b"sub/inner", lambda: D(b"sub", F(b"inner"), F(b"other"))),
)


def second_tree(kinds):
    return D(b"", *[SECOND[k][1]() for k in kinds])


def dir_paths(t, pre=b""):
    """paths (relative to R) the image uses as directories: where the run calls mkdir"""
    out = []
    for c in (t.children if t.kind == "d" else []):
        nm = L.cut0(c.name)
        if not nm or b"/" in nm or nm in (b".", b".."):
            continue
        p = pre + b"/" + nm if pre else nm
        if c.kind == "d":
            out.append(p)
            out += dir_paths(c, p)
    return out


def nondir_paths(t, pre=b""):
    out = []
    for c in (t.children if t.kind == "d" else []):
        nm = L.cut0(c.name)
        if not nm or b"/" in nm or nm in (b".", b".."):
            continue
        p = pre + b"/" + nm if pre else nm
        if c.kind == "d":
            out += nondir_paths(c, p)
        else:
            out.append(p)
    return out


def first_tree_with_links(links):
    """an image whose only purpose is to leave symbolic links (and the directories leading to them) in R"""
    root = D(b"")
    for rel, tgt in links:
        cur = root
        comps = rel.split(b"/")
        for c in comps[:-1]:
            nxt = [x for x in cur.children if x.name == c]
            if nxt:
                cur = nxt[0]
            else:
                n = D(c)
                cur.children.append(n)
                cur = n
        cur.children.append(Ln(comps[-1], tgt))
    root.children.append(F(b"zz-first-image-was-here", data=b"first\n"))
    return root


def deeper(tgt, rel):
    """the same target as seen from a link that sits `rel.count('/')` levels below R"""
    if tgt.startswith(b"/"):
        return tgt
    return b"../" * rel.count(b"/") + tgt


def corpus():
    cases = []
    order = ["file", "dir", "symlink", "chardev", "fifo", "nested"]
    for kind in order:
        rel = SECOND[kind][0]
        for tname, tgt in TARGETS.items():
            for how in ("unpack", "hand"):
                for fl in ("----", "COTX"):
                    if how == "hand" and fl == "----" and tname in ("live-side", "dangling-abs", "dir-up"):
                        continue          # keep the quick tier short: the other three combinations stay
                    cases.append(dict(tag="%s@%s:%s:%s" % (tname, kind, how, fl), how=how, links=[(rel, deeper(tgt, rel))],
                                      extra=[], second=second_tree(order), flags=fl, linkkind=kind))
    # several links at once, none at a directory name: every one must survive untouched
    cases.append(dict(tag="many-links", how="unpack", flags="COTX", linkkind="file", extra=[], second=second_tree(order),
                      links=[(b"conf", b"/secret"), (b"ln", b"../../outside/secret"), (b"dev", b"../side"), (b"unrelated", b"/outside"),
                             (b"pipe", b"../../outside/planted")]))
    # plain files / directories (no link) at the second image's names: harmless, the run fails or tolerates
    for rel, k in ((b"conf", "f"), (b"conf", "d"), (b"d", "f"), (b"d", "d"), (b"ln", "f"), (b"dev", "d"), (b"sub/inner", "d")):
        pre = [(b"sub", "d", b"")] if b"/" in rel else []
        cases.append(dict(tag="plain-%s@%s" % (k, rel.decode()), how="hand", links=[], extra=pre + [(rel, k, b"")], flags="COTX",
                          second=second_tree(order), linkkind=None))
    # the second image unpacked twice (R pre-populated by the very same image)
    cases.append(dict(tag="same-image-twice", how="unpack-second", links=[], extra=[], flags="COTX", second=second_tree(order), linkkind=None))
    return cases


RNAMES = [b"a", b"b", b"c", b"conf", b"d", b"e", b"x", b"\xc3\xa4", b"A", b"a b"]


def random_cases(rnd, n):
    out = []
    for _ in range(n):
        def node(depth, name):
            k = rnd.choice("dddfffflcp" if depth < 2 else "fflcp")
            if k == "d":
                names = rnd.sample(RNAMES, rnd.randint(1, 3))
                return D(name, *[node(depth + 1, nm) for nm in names])
            if k == "f":
                return F(name, data=rnd.choice([b"B\n", b"second " * 700]))
            if k == "l":
                return Ln(name, rnd.choice([b"x", b"..", b"/outside", b"a"]))
            return T(name, k, mode=0o644)
        names = rnd.sample(RNAMES, rnd.randint(2, 4))
        second = D(b"", *[node(0, nm) for nm in names])
        nd = nondir_paths(second)
        dp = dir_paths(second)
        links = []
        # mostly links at non-directory names (the sharp part of the oracle), sometimes at a directory name
        for p in rnd.sample(nd, min(len(nd), rnd.randint(1, 3))):
            links.append((p, deeper(rnd.choice(list(TARGETS.values())), p)))
        if dp and rnd.random() < 0.2:
            p = rnd.choice(dp)
            links = [(q, t) for q, t in links if not q.startswith(p + b"/")] + [(p, deeper(rnd.choice(list(TARGETS.values())), p))]
        # a link cannot live below another link of the first image
        lp = [q for q, _ in links]
        links = [(q, t) for q, t in links if not any(q != o and q.startswith(o + b"/") for o in lp)]
        out.append(dict(tag="random", how=rnd.choice(["unpack", "hand"]), links=links, extra=[], second=second,
                        flags=rnd.choice(["----", "COTX", "C---", "-O--", "--T-", "---X"]), linkkind=None))
    return out


def case_json(c):
    return dict(tag=c["tag"], how=c["how"], links=[(p.hex(), t.hex()) for p, t in c["links"]],
                extra=[(p.hex(), k, t.hex()) for p, k, t in c["extra"]], second=c["second"].to_json(), flags=c["flags"],
                linkkind=c.get("linkkind"))


def case_from_json(j):
    return dict(tag=j["tag"], how=j["how"], links=[(bytes.fromhex(p), bytes.fromhex(t)) for p, t in j["links"]],
                extra=[(bytes.fromhex(p), k, bytes.fromhex(t)) for p, k, t in j["extra"]], second=T.from_json(j["second"]),
                flags=j["flags"], linkkind=j.get("linkkind"))


def rd(jail, img, flags):
    cmd = ["chroot", jail, "/bin/rd", "-q", "-u", "/", "-p", "/w/R"]
    for f, o in (("C", "-C"), ("O", "-O"), ("T", "-T"), ("X", "-X")):
        if f in flags:
            cmd.append(o)
    cmd.append(img)
    try:
        r = subprocess.run(cmd, stdout=subprocess.PIPE, stderr=subprocess.PIPE, timeout=TIMEOUT)
        return r.returncode, r.stderr.decode("latin-1")
    except subprocess.TimeoutExpired:
        return None, ""


def run_one(factory, work, idx, c):
    jail = os.path.join(work, "n%d" % idx)
    img2 = L.build_image(c["second"])
    first = None
    init = list(c["extra"])
    if c["how"] == "hand":
        for rel, tgt in c["links"]:
            comps = rel.split(b"/")
            for i in range(1, len(comps)):
                pre = b"/".join(comps[:i])
                if not any(q == pre for q, _, _ in init):
                    init.append((pre, "d", b""))
            init.append((rel, "l", tgt))
    elif c["how"] == "unpack":
        first = first_tree_with_links(c["links"])
    elif c["how"] == "unpack-second":
        first = c["second"]
    factory.make(jail, img2, init)
    res = dict(rc1=None, first=first)
    if first is not None:
        with open(os.path.join(jail, "first.sqfs"), "wb") as f:
            f.write(L.build_image(first))
        res["rc1"], res["err1"] = rd(jail, "/first.sqfs", "----")
    before = L.snapshot(jail)
    res["rc"], res["stderr"] = rd(jail, "/img.sqfs", c["flags"])
    after = L.snapshot(jail)
    res["outside"] = L.outside_diff(before, after)
    lnk = stat.S_IFLNK
    res["links_before"] = sorted(k for k, v in before.items() if k.startswith(b"w/R/") and v[0] == lnk)
    res["links_changed"] = [(k, before[k], after.get(k)) for k in res["links_before"] if after.get(k) != before[k]]
    dps = set(b"w/R/" + p for p in dir_paths(c["second"]))
    res["witness"] = sorted(k for k in res["links_before"] if k in dps)
    res["planted_ok"] = all((b"w/R/" + rel) in before and before[b"w/R/" + rel][0] == lnk for rel, _ in c["links"])
    shutil.rmtree(jail, ignore_errors=True)
    return res


def run(ctx, factory, work, only=None):
    """runs the class; reports violations on ctx; returns the number of cases"""
    if only is not None:
        cases = [case_from_json(j) for j in only]
    else:
        rnd = random.Random(ctx.seed * 104729 + 66)
        cases = corpus() + random_cases(rnd, 60 if ctx.tier == "quick" else 1500)
    t0 = time.time()
    with ThreadPoolExecutor(max_workers=12) as ex:
        results = list(ex.map(lambda ic: run_one(factory, work, ic[0], ic[1]), enumerate(cases)))
    seen = set()
    n_wit = n_wit_changed = n_sharp = n_stop = 0
    for c, res in zip(cases, results):
        rj = dict(nonfresh=[case_json(c)], how=c["how"],
                  first_image=(res["first"].show() if res["first"] is not None else None),
                  planted_by_hand=[(p.decode("latin-1"), k, t.decode("latin-1")) for p, k, t in c["extra"]] +
                                  ([(p.decode("latin-1"), "l", t.decode("latin-1")) for p, t in c["links"]] if c["how"] == "hand" else []),
                  second_image=c["second"].show(), flags=c["flags"], rc_first=res["rc1"], rc_second=res["rc"],
                  stderr=(res["stderr"] or "")[-500:])
        if res["rc"] is None:
            sig = "hang:nonfresh:" + c["tag"]
            if sig not in seen:
                seen.add(sig)
                ctx.violation(sig, "rdsquashfs did not terminate within %ds unpacking into a non-fresh root" % TIMEOUT, rj)
            continue
        if not res["planted_ok"] and "setup" not in seen:
            seen.add("setup")
            ctx.violation("nonfresh-control:setup:" + c["tag"], "control: the links %r were not in R before the second run (first run exit %r: %s)" % (
                c["links"], res["rc1"], (res.get("err1") or "")[-200:]), rj, no_input=True)
            continue
        if res["witness"]:
            n_wit += 1
            if res["outside"]:
                n_wit_changed += 1
            continue                        # inside the characterisation: not reported
        n_sharp += 1
        if res["outside"]:
            res["outside"].sort(key=lambda x: (0 if x[1] is not None and x[2] is not None and x[1][0] == 0o100000 else 1, x[0]))
            k, a, b = res["outside"][0]
            kind = "created" if a is None else ("removed" if b is None else "modified")
            sig = "escape-nonfresh:%s:%s" % (kind, c.get("linkkind") or c["tag"])
            if sig not in seen and len(seen) < 4:
                seen.add(sig)
                ctx.violation(sig, "second unpack into a non-fresh root wrote outside R: /%s %s; before R held the symbolic link(s) %s "
                              "(%s), none of them at a name the second image uses as a directory; flags %s, exit status %d; before=%r after=%r" % (
                                  k.decode("latin-1"), kind, ", ".join("%s -> %s" % (p.decode("latin-1"), t.decode("latin-1")) for p, t in c["links"]),
                                  "left by really unpacking a first image" if c["how"] == "unpack" else "made by hand", c["flags"], res["rc"], a, b),
                              dict(rj, outside=[(x.decode("latin-1"), repr(y), repr(z)) for x, y, z in res["outside"][:6]]))
        elif res["links_changed"]:
            k, a, b = res["links_changed"][0]
            sig = "nonfresh:link-changed:%s" % (c.get("linkkind") or c["tag"])
            if sig not in seen and len(seen) < 4:
                seen.add(sig)
                ctx.violation(sig, "a symbolic link that existed below R before the run was replaced or changed: /%s before=%r after=%r "
                              "(flags %s, exit status %d); the link is beneath R, so this is a deviation from theorem no_write_through_preexisting_link (2), "
                              "not by itself a write outside R" % (k.decode("latin-1"), a, b, c["flags"], res["rc"]), rj, no_input=True)
        if c.get("linkkind") and c["linkkind"] != "dir":
            n_stop += 1
            if res["rc"] == 0:
                sig = "nonfresh:exit0-over-link:" + c["linkkind"]
                if sig not in seen and len(seen) < 4:
                    seen.add(sig)
                    ctx.violation(sig, "R held a symbolic link at the name of a %s of the second image, yet the second unpack exited 0 "
                                  "(flags %s): creating that entry must fail with EEXIST" % (c["linkkind"], c["flags"]), rj,
                                  no_input=not res["outside"])
    ctx.coverage["nonfresh_roots"] = dict(cases=len(cases), no_witness_cases=n_sharp, witness_cases=n_wit,
                                          witness_cases_with_outside_change=n_wit_changed, must_fail_controls=n_stop,
                                          seconds=round(time.time() - t0, 1))
    ctx.log("non-fresh roots: %d (first image / hand, second image) pairs, %d without a link at a directory name (oracle: nothing "
            "outside R, links untouched), %d with one (%d of them changed the outside: inside the characterisation) in %.1fs" % (
                len(cases), n_sharp, n_wit, n_wit_changed, time.time() - t0))
    return len(cases)
