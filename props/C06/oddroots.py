"""C06, class "odd unpack roots": the --unpack-root argument R is not a fresh, usable directory.

The property demands that objects are created/modified only underneath R, or that the tool fails and nothing
changes.  `main()` of rdsquashfs does `mkdir_p(R)` then `chdir(R)` and the three unpack passes work with paths
relative to the current directory: if the tool ever carries on although it is not *in* R (mkdir_p tolerates EEXIST,
so R may be a regular file, a dangling / looping symbolic link, a directory without search permission, ...), the
whole image lands in the directory the tool was started from.

Every case: fresh chroot jail (as the main leg), start directory /w/start (with a sentinel), R prepared according to
the shape, tool started through a tiny launcher (chroot, chdir, optionally setuid to an unprivileged user), snapshot
of the whole jail before/after.  Oracle:
  * changes are allowed only strictly beneath the *physical* directory R designates (`real`); R itself: mtime only;
  * the directories `mkdir_p` creates for the lexical prefixes of R (`allow_new`) may appear (as directories) and the
    mtime of the existing directory they were created in may change;
  * when R is unusable (`real is None`) nothing else may change at all and the exit status must be non-zero.
Controls (benign image, no option, usable R): exit status 0 and the image's file present beneath `real` — keeps the
shapes honest (a shape that never unpacks anything would make the oracle vacuous)."""
import os
import shutil
import subprocess
import sys
import time
from concurrent.futures import ThreadPoolExecutor

HERE = os.path.dirname(os.path.abspath(__file__))
sys.path.insert(0, HERE)
import c06lib as L  # noqa: E402
from c06lib import T  # noqa: E402

TIMEOUT = 20
NOBODY = 65534

LAUNCH = ("import os,sys\n"
          "j,cwd,uid=sys.argv[1:4]\n"
          "os.chroot(j); os.chdir(cwd)\n"
          "u=int(uid)\n"
          "if u:\n"
          "    os.setgroups([]); os.setgid(u); os.setuid(u)\n"
          "os.execv(sys.argv[4], sys.argv[4:])\n")


def D(name, *ch, **kw):
    return T(name, "d", children=list(ch), mode=0o755, **kw)


def F(name, **kw):
    return T(name, "f", data=b"payload\n", **kw)


def Ln(name, tgt):
    return T(name, "l", target=tgt, mode=0o777, uid=1000, gid=100, mtime=86400)


def images():
    benign = D(b"", D(b"etc", D(b"sub", F(b"file.txt")), Ln(b"link", b"sub/file.txt")), D(b"bin", F(b"tool", mode=0o755)),
               F(b"top", xkeys=[b"user.a"], uid=1000, gid=100, mtime=1234567890), T(b"fifo", "p"))
    hostile = D(b"", Ln(b"d", b"../../outside"), F(b"d/pwn"), D(b"..", F(b"pwn")), F(b"/outside/pwn2"), Ln(b"abs", b"/secret"),
                D(b"a", F(b"f"), Ln(b"up", b"/outside"), D(b"b\0x", F(b"g")), Ln(b"start", b"../../start")),
                D(b"etc", F(b"file.txt")), T(b"c", "c"), Ln(b"side", b"../side"))
    return dict(benign=benign, hostile=hostile)


LONGC = b"L" * 200
DEEP = b"/".join([b"w"] + [LONGC[:-2] + b"%02d" % i for i in range(11)])       # 11 components of 200 bytes below /w


def shapes():
    """name -> dict(rarg, prep, real, allow_new, uid).  Paths in prep/real/allow_new are relative to the jail root;
    the jail has w/R (empty directory), w/start (start directory), w/side, outside/, secret beforehand."""
    s = {}

    def add(name, rarg, prep=(), real=None, allow_new=(), uid=0):
        s[name] = dict(name=name, rarg=rarg, prep=list(prep), real=real, allow_new=list(allow_new), uid=uid)
    isfile = [("rmdir", b"w/R"), ("file", b"w/R")]
    # --- R exists but cannot be entered: mkdir_p(R) succeeds (EEXIST), chdir(R) must stop the tool
    add("regular-file", b"/w/R", isfile)
    add("regular-file-rel", b"../R", isfile)
    add("regular-file-slash", b"/w/R/", isfile)
    add("dangling-symlink", b"/w/R", [("rmdir", b"w/R"), ("symlink", b"w/R", b"/w/does/not/exist")])
    add("dangling-symlink-rel", b"../R", [("rmdir", b"w/R"), ("symlink", b"w/R", b"gone")])
    add("dangling-symlink-one-short", b"/w/R", [("rmdir", b"w/R"), ("symlink", b"w/R", b"/w/newdir")])
    add("symlink-loop", b"/w/R", [("rmdir", b"w/R"), ("symlink", b"w/R", b"R")])
    add("symlink-to-file", b"/w/R", [("rmdir", b"w/R"), ("symlink", b"w/R", b"side")])
    add("fifo", b"/w/R", [("rmdir", b"w/R"), ("fifo", b"w/R")])
    # --- a component of R is not a directory / is missing
    add("parent-is-file", b"/w/side/R")
    add("parent-is-dangling-link", b"/w/dl/R", [("symlink", b"w/dl", b"nowhere")])
    add("missing-parents", b"/w/new/deep/R", real=b"w/new/deep/R", allow_new=[b"w/new", b"w/new/deep", b"w/new/deep/R"])
    add("missing-parents-rel", b"new/R", real=b"w/start/new/R", allow_new=[b"w/start/new", b"w/start/new/R"])
    # --- R is a symbolic link to a directory elsewhere: R designates that directory
    add("symlink-to-outside-dir", b"/w/R", [("rmdir", b"w/R"), ("symlink", b"w/R", b"/outside")], real=b"outside")
    add("symlink-to-outside-dir-rel", b"../R/", [("rmdir", b"w/R"), ("symlink", b"w/R", b"../outside")], real=b"outside")
    add("symlink-chain-to-dir", b"/w/R", [("rmdir", b"w/R"), ("symlink", b"w/R", b"hop"), ("symlink", b"w/hop", b"R2"),
                                           ("mkdir", b"w/R2", 0o755)], real=b"w/R2")
    # --- spellings
    add("trailing-slashes", b"/w/R///", real=b"w/R")
    add("dot-components", b"/w/./R/.", real=b"w/R")
    add("dotdot-back-into-R", b"/w/R/../R", real=b"w/R")
    add("dotdot-through-new-dir", b"/w/x/../R", real=b"w/R", allow_new=[b"w/x"])
    add("dotdot-from-inside-R", b"/w/R/sub/..", real=b"w/R")
    add("relative-dotdot", b"./../R/./", real=b"w/R")
    add("relative-plain", b"../R", real=b"w/R")
    add("start-directory-itself", b".", real=b"w/start")
    add("leading-slashes", b"////w//R", real=b"w/R")
    add("dotdot-above-root", b"/../../w/R", real=b"w/R")
    add("empty-string", b"")
    # --- long paths
    add("name-255", b"/w/" + b"N" * 255, real=b"w/" + b"N" * 255, allow_new=[b"w/" + b"N" * 255])
    add("name-256", b"/w/" + b"N" * 256)
    add("deep-2200-bytes", b"/" + DEEP, real=DEEP,
        allow_new=[b"/".join(DEEP.split(b"/")[:i]) for i in range(2, len(DEEP.split(b"/")) + 1)])
    add("dots-3000-bytes", b"/w/R" + b"/." * 1500, real=b"w/R")
    add("dots-beyond-PATH_MAX", b"/w/R" + b"/." * 2100)
    add("dotdot-beyond-PATH_MAX", b"../R" + b"/../R" * 900)
    # --- permissions (unprivileged user)
    add("unpriv-control", b"/w/R", [("chown", b"w/R", NOBODY)], real=b"w/R", uid=NOBODY)
    add("unpriv-no-search", b"/w/R", [("chown", b"w/R", NOBODY), ("chmod", b"w/R", 0o600)], uid=NOBODY)
    add("unpriv-no-search-rel", b"../R", [("chmod", b"w/R", 0o000)], uid=NOBODY)
    add("unpriv-no-write", b"/w/R", [("chown", b"w/R", NOBODY), ("chmod", b"w/R", 0o500)], uid=NOBODY)
    add("unpriv-parent-no-search", b"/w/locked/R", [("mkdir", b"w/locked", 0o700), ("mkdir", b"w/locked/R", 0o777)], uid=NOBODY)
    add("unpriv-parent-no-write", b"/w/ro/R", [("mkdir", b"w/ro", 0o755)], uid=NOBODY)
    return s


FLAGSETS = ["----", "COTX", "C-T-"]


def gen_cases(only=None):
    sh = shapes()
    cases = []
    for name in sh:
        for img in ("benign", "hostile"):
            for fl in FLAGSETS:
                cases.append(dict(shape=name, img=img, flags=fl))
    if only is not None:
        cases = [dict(shape=c["shape"], img=c["img"], flags=c["flags"]) for c in only if c.get("shape") in sh]
    return cases


def prep_jail(jail, sh):
    jb = jail.encode()
    start = os.path.join(jb, b"w/start")
    os.makedirs(start)
    with open(os.path.join(start, b"keep"), "wb") as f:
        f.write(b"sentinel")
    if sh["uid"]:
        # an unprivileged tool must be *able* to write into its start directory, otherwise carrying on there is invisible
        os.chown(start, sh["uid"], sh["uid"])
    for op in sh["prep"]:
        p = os.path.join(jb, op[1])
        if op[0] == "rmdir":
            os.rmdir(p)
        elif op[0] == "file":
            with open(p, "wb") as f:
                f.write(b"initial")
        elif op[0] == "symlink":
            os.symlink(op[2], p)
        elif op[0] == "fifo":
            os.mkfifo(p)
        elif op[0] == "mkdir":
            os.mkdir(p)
            os.chmod(p, op[2])
        elif op[0] == "chmod":
            os.chmod(p, op[2])
        elif op[0] == "chown":
            os.chown(p, op[2], op[2])
    for d, dn, fn in os.walk(jb):
        os.utime(d, (1000000, 1000000))


def diff(before, after, sh):
    """objects that changed although the property does not allow it"""
    real = sh["real"]
    allow = set(sh["allow_new"])
    parents = set(os.path.dirname(a) for a in allow)
    bad = []
    for k in sorted(set(before) | set(after)):
        if real is not None and k.startswith(real + b"/"):
            continue
        a, b = before.get(k), after.get(k)
        if a == b:
            continue
        if k in allow and a is None and b is not None and b[0] == 0o040000:
            continue
        if a is not None and b is not None and a[0] == 0o040000 and (k == real or k in parents or k in allow):
            # directory R itself / the directory mkdir_p created a prefix of R in: its mtime
            if a[:4] + a[5:] == b[:4] + b[5:]:
                continue
        bad.append((k, a, b))
    return bad


def run_one(factory, work, idx, c, imgs):
    sh = shapes()[c["shape"]]
    jail = os.path.join(work, "o%d" % idx)
    factory.make(jail, imgs[c["img"]], [])
    prep_jail(jail, sh)
    before = L.snapshot(jail)
    cmd = [sys.executable, "-S", "-E", "-c", LAUNCH, jail, "/w/start", str(sh["uid"]), "/bin/rd", "-u", "/", "-p", sh["rarg"]]
    for f, o in (("C", "-C"), ("O", "-O"), ("T", "-T"), ("X", "-X")):
        if f in c["flags"]:
            cmd.append(o)
    cmd.append("/img.sqfs")
    res = dict(timeout=False)
    try:
        r = subprocess.run(cmd, stdout=subprocess.PIPE, stderr=subprocess.PIPE, timeout=TIMEOUT)
        res["rc"] = r.returncode
        res["stderr"] = r.stderr.decode("latin-1")
    except subprocess.TimeoutExpired:
        res.update(timeout=True, rc=-1, stderr="")
    after = L.snapshot(jail)
    res["bad"] = diff(before, after, sh)
    res["unpacked"] = None
    if sh["real"] is not None:
        probe = b"etc/sub/file.txt" if c["img"] == "benign" else b"etc/file.txt"
        res["unpacked"] = (sh["real"] + b"/" + probe) in after
    # restore permissions so that the jail can be removed
    for op in sh["prep"]:
        if op[0] in ("chmod", "mkdir"):
            try:
                os.chmod(os.path.join(jail.encode(), op[1]), 0o755)
            except OSError:
                pass
    shutil.rmtree(jail, ignore_errors=True)
    return res


def short(b, n=60):
    s = b.decode("latin-1")
    return s if len(s) <= n else "%s...(%d bytes)" % (s[:n], len(s))


def run(ctx, factory, work, only=None):
    """runs the class; reports violations on ctx; returns the number of cases"""
    cases = gen_cases(only)
    trees = images()
    imgs = dict((k, L.build_image(v)) for k, v in trees.items())
    unpriv_ok = True
    try:
        pid = os.fork()
        if pid == 0:
            try:
                os.setgroups([])
                os.setgid(NOBODY)
                os.setuid(NOBODY)
                os._exit(0 if os.getuid() == NOBODY else 1)
            except BaseException:
                os._exit(1)
        unpriv_ok = os.waitpid(pid, 0)[1] == 0
    except OSError:
        unpriv_ok = False
    sh = shapes()
    if not unpriv_ok:
        cases = [c for c in cases if not sh[c["shape"]]["uid"]]
        ctx.log("odd unpack roots: cannot drop to an unprivileged uid here, the permission shapes (unpriv-*) are SKIPPED")
    t0 = time.time()
    with ThreadPoolExecutor(max_workers=12) as ex:
        results = list(ex.map(lambda ic: run_one(factory, work, ic[0], ic[1], imgs), enumerate(cases)))
    seen = set()
    n_fail = n_run = 0
    for c, res in zip(cases, results):
        s = sh[c["shape"]]
        rj = dict(oddroots=[c], rarg=short(s["rarg"], 200), prep=[[str(x) if not isinstance(x, bytes) else short(x) for x in op] for op in s["prep"]],
                  uid=s["uid"], start="/w/start", tree=trees[c["img"]].show(), rc=res["rc"], stderr=res["stderr"][-600:])
        if res["timeout"]:
            sig = "hang:oddroot:" + c["shape"]
            if sig not in seen:
                seen.add(sig)
                ctx.violation(sig, "rdsquashfs did not terminate within %ds (-p %s)" % (TIMEOUT, short(s["rarg"])), rj)
            continue
        if res["bad"]:
            res["bad"].sort(key=lambda x: (0 if x[1] is None else 1 if x[2] is None else 2 if x[1][0] != 0o040000 else 3, x[0]))
            k, a, b = res["bad"][0]
            kind = "created" if a is None else ("removed" if b is None else "modified")
            sig = "escape:%s:oddroot:%s" % (kind, c["shape"])
            if sig not in seen and len(seen) < 4:
                seen.add(sig)
                ctx.violation(sig, "unpack root %s (-p %s, started in /w/start, uid %d, %s image, flags %s): /%s %s although it is not "
                              "underneath R; exit status %d; before=%r after=%r" % (
                                  c["shape"], short(s["rarg"]), s["uid"], c["img"], c["flags"], short(k), kind, res["rc"], a, b),
                              dict(rj, outside=[(short(x, 200), repr(y), repr(z)) for x, y, z in res["bad"][:6]]))
        if s["real"] is None:
            n_fail += 1
            if res["rc"] == 0:
                sig = "oddroot:exit0-unusable-root:" + c["shape"]
                if sig not in seen and len(seen) < 4:
                    seen.add(sig)
                    ctx.violation(sig, "unpack root %s (-p %s, uid %d) cannot be entered/created, yet rdsquashfs exited 0 "
                                  "(%s image, flags %s): the tool must fail" % (c["shape"], short(s["rarg"]), s["uid"], c["img"], c["flags"]), rj)
        else:
            n_run += 1
            if c["img"] == "benign" and c["flags"] == "----" and (res["rc"] != 0 or not res["unpacked"]) and not res["bad"]:
                sig = "oddroot-control:" + c["shape"]
                if sig not in seen and len(seen) < 4:
                    seen.add(sig)
                    ctx.violation(sig, "control: unpack root %s (-p %s, uid %d) is usable but the benign image was not unpacked there "
                                  "(exit status %d): %s" % (c["shape"], short(s["rarg"]), s["uid"], res["rc"], res["stderr"][-200:]),
                                  rj, no_input=True)
    ctx.coverage["odd_unpack_roots"] = dict(cases=len(cases), shapes=len(set(c["shape"] for c in cases)), unusable_root_cases=n_fail,
                                            usable_root_cases=n_run, unprivileged=("run" if unpriv_ok else "skipped: cannot setuid"),
                                            seconds=round(time.time() - t0, 1))
    ctx.log("odd unpack roots: %d cases (%d shapes x 2 images x %d option sets) in %.1fs" % (
        len(cases), len(set(c["shape"] for c in cases)), len(FLAGSETS), time.time() - t0))
    return len(cases)
