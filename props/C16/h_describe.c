/* C16 printer harness: includes the working tree's bin/rdsquashfs/src/describe.c
 * and calls describe_tree() on hand-built sqfs_tree_node_t trees (as the repo's
 * own tests build them); stdout of the call is captured through a memfd.
 *
 * stdin, one case per line:
 *   D <uroot: - | = | hex> <node>
 *   node := <name: = | hex> <mode> <uid> <gid> <target: = | hex> <devno> <ext 0|1> <nchildren> <node>*
 * stdout: "<ret> <hex of what describe_tree printed | =>"
 */
#define _GNU_SOURCE
#include "bin/rdsquashfs/src/describe.c"

#include <sys/mman.h>
#include <unistd.h>

static char *tok_next(char **p)
{
	char *s = *p, *e;
	while (*s == ' ') ++s;
	if (*s == 0) return NULL;
	e = s;
	while (*e && *e != ' ') ++e;
	if (*e) *e++ = 0;
	*p = e;
	return s;
}

static int hv(int c) { return c <= '9' ? c - '0' : c - 'a' + 10; }

static size_t unhex(const char *h, char *out)
{
	size_t n = 0, i, hl;
	if (strcmp(h, "=") == 0) { out[0] = 0; return 0; }
	hl = strlen(h);
	for (i = 0; i + 1 < hl; i += 2)
		out[n++] = (char)(hv(h[i]) * 16 + hv(h[i + 1]));
	out[n] = 0;
	return n;
}

static sqfs_tree_node_t *build(char **p, sqfs_tree_node_t *parent)
{
	static char nbuf[1 << 16], tbuf[1 << 16];
	char *name = tok_next(p), *mode = tok_next(p), *uid = tok_next(p), *gid = tok_next(p);
	char *target = tok_next(p), *devno = tok_next(p), *ext = tok_next(p), *nch = tok_next(p);
	sqfs_tree_node_t *n, *last = NULL, *c;
	size_t nl, tl, i, cnt;
	unsigned int m;

	if (nch == NULL) return NULL;
	nl = unhex(name, nbuf);
	tl = unhex(target, tbuf);
	n = calloc(1, sizeof(*n) + nl + 1);
	memcpy(n->name, nbuf, nl + 1);
	n->parent = parent;
	n->uid = strtoul(uid, NULL, 10);
	n->gid = strtoul(gid, NULL, 10);
	n->inode = calloc(1, sizeof(*n->inode) + tl + 1);
	m = strtoul(mode, NULL, 10);
	n->inode->base.mode = m;
	memcpy(n->inode->extra, tbuf, tl + 1);
	n->inode->payload_bytes_used = tl;
	switch (m & S_IFMT) {
	case S_IFBLK:
		n->inode->base.type = atoi(ext) ? SQFS_INODE_EXT_BDEV : SQFS_INODE_BDEV;
		break;
	case S_IFCHR:
		n->inode->base.type = atoi(ext) ? SQFS_INODE_EXT_CDEV : SQFS_INODE_CDEV;
		break;
	case S_IFLNK: n->inode->base.type = SQFS_INODE_SLINK; break;
	case S_IFDIR: n->inode->base.type = SQFS_INODE_DIR; break;
	case S_IFREG: n->inode->base.type = SQFS_INODE_FILE; break;
	case S_IFIFO: n->inode->base.type = SQFS_INODE_FIFO; break;
	case S_IFSOCK: n->inode->base.type = SQFS_INODE_SOCKET; break;
	default: break;
	}
	if (S_ISBLK(m) || S_ISCHR(m)) {
		if (atoi(ext)) {
			n->inode->data.dev_ext.devno = strtoul(devno, NULL, 10);
			n->inode->data.dev_ext.xattr_idx = 0xFFFFFFFF;
		} else {
			n->inode->data.dev.devno = strtoul(devno, NULL, 10);
		}
	}
	cnt = strtoul(nch, NULL, 10);
	for (i = 0; i < cnt; ++i) {
		c = build(p, n);
		if (c == NULL) break;
		if (last == NULL) n->children = c; else last->next = c;
		last = c;
	}
	return n;
}

int main(void)
{
	static char line[1 << 22], ubuf[1 << 16], out[1 << 22];
	int saved = dup(1);

	while (fgets(line, sizeof(line), stdin)) {
		size_t n = strlen(line), i;
		char *p = line, *kind, *uroot;
		sqfs_tree_node_t *root;
		const char *ur = NULL;
		ssize_t got, total = 0;
		int fd, ret;
		char hdr[32];

		while (n > 0 && (line[n - 1] == '\n' || line[n - 1] == '\r')) line[--n] = 0;
		kind = tok_next(&p);
		uroot = tok_next(&p);
		if (kind == NULL || uroot == NULL || strcmp(kind, "D") != 0) {
			dprintf(saved, "BADCASE\n");
			continue;
		}
		if (strcmp(uroot, "-") != 0) {
			unhex(uroot, ubuf);
			ur = ubuf;
		}
		root = build(&p, NULL);
		if (root == NULL) {
			dprintf(saved, "BADCASE\n");
			continue;
		}
		fd = memfd_create("c16", 0);
		fflush(stdout);
		dup2(fd, 1);
		ret = describe_tree(root, ur);
		fflush(stdout);
		dup2(saved, 1);
		lseek(fd, 0, SEEK_SET);
		while ((got = read(fd, out + total, sizeof(out) - total)) > 0)
			total += got;
		close(fd);
		sqfs_dir_tree_destroy(root);
		sprintf(hdr, "%d ", ret);
		write(saved, hdr, strlen(hdr));
		if (total == 0) {
			write(saved, "=\n", 2);
		} else {
			static char hex[1 << 23];
			static const char *hx = "0123456789abcdef";
			for (i = 0; i < (size_t)total; ++i) {
				hex[2 * i] = hx[((unsigned char)out[i]) >> 4];
				hex[2 * i + 1] = hx[((unsigned char)out[i]) & 15];
			}
			hex[2 * total] = '\n';
			write(saved, hex, 2 * total + 1);
		}
	}
	return 0;
}
