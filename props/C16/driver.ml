(* C16 model driver: same case lines as h_describe.c / h_parse.c, same result lines *)
open C16_model

let rec pos_of_int i = if i = 1 then XH else if i land 1 = 1 then XI (pos_of_int (i lsr 1)) else XO (pos_of_int (i lsr 1))
let n_of_int i = if i = 0 then N0 else Npos (pos_of_int i)
let rec int_of_pos = function XH -> 1 | XO p -> 2 * int_of_pos p | XI p -> 2 * int_of_pos p + 1
let int_of_n = function N0 -> 0 | Npos p -> int_of_pos p

(* decimal string <-> N, without going through native ints (u64 values) *)
let n_of_dec s =
  let r = ref N0 in
  String.iter (fun c -> r := N.add (N.mul !r (n_of_int 10)) (n_of_int (Char.code c - 48))) s; !r
let dec_of_n n =
  if n = N0 then "0" else begin
    let b = Buffer.create 20 in
    let ten = n_of_int 10 in
    let rec go n acc = if n = N0 then acc else go (N.div n ten) (Char.chr (48 + int_of_n (N.modulo n ten)) :: acc) in
    List.iter (Buffer.add_char b) (go n []); Buffer.contents b
  end

let unhex s =
  if s = "=" then [] else
  let n = String.length s / 2 in
  List.init n (fun i -> n_of_int (int_of_string ("0x" ^ String.sub s (2*i) 2)))
let hex l =
  let b = Buffer.create 64 in
  List.iter (fun c -> Buffer.add_string b (Printf.sprintf "%02x" (int_of_n c))) l;
  if Buffer.length b = 0 then "=" else Buffer.contents b

let rec build toks =
  match toks with
  | name :: mode :: uid :: gid :: target :: devno :: _ext :: nch :: rest ->
    let cnt = int_of_string nch in
    let rec kids k rest acc =
      if k = 0 then (List.rev acc, rest)
      else let (c, rest') = build rest in kids (k - 1) rest' (c :: acc) in
    let (cs, rest') = kids cnt rest [] in
    (TNode (unhex name, n_of_dec mode, n_of_dec uid, n_of_dec gid, unhex target, n_of_dec devno, cs), rest')
  | _ -> failwith "bad tree"

let show_call = function
  | CAdd (name, mode, uid, gid, rdev, flags, extra) ->
    Printf.sprintf "A:%s:%s:%s:%s:%s:%s:%s" (hex name) (dec_of_n mode) (dec_of_n uid) (dec_of_n gid)
      (dec_of_n rdev) (dec_of_n flags) (match extra with None -> "-" | Some e -> hex e)
  | CGlob (name, mode, uid, gid, gf, args) ->
    Printf.sprintf "G:%s:%s:%s:%s:%s:%s" (hex name) (dec_of_n mode) (dec_of_n uid) (dec_of_n gid)
      (dec_of_n gf) (if args = [] then "-" else String.concat "," (List.map hex args))

let () =
  try
    while true do
      let line = input_line stdin in
      let toks = List.filter (fun s -> s <> "") (String.split_on_char ' ' line) in
      (match toks with
       | "D" :: uroot :: rest ->
         let ur = if uroot = "-" then None else Some (unhex uroot) in
         let (t, _) = build rest in
         let (out, ok) = describe ur t in
         Printf.printf "%d %s\n" (if ok then 0 else -1) (hex out)
       | ["P"; dsf; fuid; fgid; _bufsz; data] ->
         let opt = { o_dirscan_flags = n_of_dec dsf; o_force_uid = n_of_dec fuid; o_force_gid = n_of_dec fgid } in
         let (st, err) = fstree_from_file_stream (fun st c -> Some (c :: st)) opt [] (unhex data) in
         let calls = List.rev st in
         Printf.printf "%d %d %s\n" (match err with None -> 0 | Some _ -> -1) (List.length calls)
           (String.concat ";" (List.map show_call calls))
       | ["F"; dsf; fuid; fgid; _bufsz; data] ->
         (* the pack file applied to the path-level model of the fstree (defaults 0755 0 0) *)
         let opt = { o_dirscan_flags = n_of_dec dsf; o_force_uid = n_of_dec fuid; o_force_gid = n_of_dec fgid } in
         let dm = n_of_int 493 in
         let (st, err) = fstree_from_file_stream (fs_add dm N0 N0) opt (fs_init dm N0 N0) (unhex data) in
         let show n =
           Printf.sprintf "N:%s:%s:%s:%s:%s:%d:%s" (hex (String.concat "/" (List.map (fun c -> String.concat "" (List.map (fun x -> String.make 1 (Char.chr (int_of_n x))) c)) n.f_path) |> fun s -> List.init (String.length s) (fun i -> n_of_int (Char.code s.[i]))))
             (dec_of_n n.f_mode) (dec_of_n n.f_uid) (dec_of_n n.f_gid) (dec_of_n n.f_devno)
             ((if n.f_implicit then 1 else 0) + (if n.f_hard then 4 else 0)) (match n.f_extra with None -> "-" | Some e -> hex e) in
         Printf.printf "%d %d %s\n" (match err with None -> 0 | Some _ -> -1) (List.length st)
           (String.concat ";" (List.map show st))
       | "O" :: uroot :: rest ->
         (* the printer before the repair (DescribeOld.v) *)
         let ur = if uroot = "-" then None else Some (unhex uroot) in
         let (t, _) = build rest in
         let (out, ok) = old_describe ur t in
         Printf.printf "%d %s\n" (if ok then 0 else -1) (hex out)
       | _ -> print_endline "BADCASE")
    done
  with End_of_file -> ()
