/* C16 parser harness: links the working tree's fstree_from_file.c (included, so
 * that handle_line & co. are the real code), split_line.c, get_line.c,
 * parse_int.c, canonicalize_name.c, fstree.c from all.a.
 *
 * stdin, one case per line:
 *   P <dirscan_flags> <force_uid> <force_gid> <bufsz> <hex of pack file | =>
 *       calls of fstree_add_generic / glob_files are logged, every call "succeeds"
 *       -> "<ret> <ncalls> <call>;<call>;..."
 *   F <dirscan_flags> <force_uid> <force_gid> <bufsz> <hex of pack file | =>
 *       calls are forwarded to the real fstree_add_generic; the resulting tree is dumped
 *       -> "<ret> <nnodes> <node>;<node>;..."   (pre-order, children in list order)
 */
#include "config.h"
#include "bin/gensquashfs/src/mkfs.h"

static tree_node_t *c16_add_hook(fstree_t *fs, const sqfs_dir_entry_t *ent, const char *extra);
static int c16_glob_hook(fstree_t *fs, const char *filename, size_t line_num,
			 const sqfs_dir_entry_t *ent, const char *basepath,
			 unsigned int glob_flags, split_line_t *extra);

#define fstree_add_generic c16_add_hook
#define glob_files c16_glob_hook
#include "bin/gensquashfs/src/fstree_from_file.c"
#undef fstree_add_generic
#undef glob_files

#include <stdio.h>
#include <string.h>
#include <stdlib.h>

static int forward;
static size_t ncalls;
static char *logbuf;
static size_t loglen, logcap;

static void lg(const char *s, size_t n)
{
	if (loglen + n + 1 > logcap) {
		logcap = (loglen + n + 1) * 2;
		logbuf = realloc(logbuf, logcap);
	}
	memcpy(logbuf + loglen, s, n);
	loglen += n;
	logbuf[loglen] = 0;
}

static void lgs(const char *s) { lg(s, strlen(s)); }

static void lghex(const char *s)
{
	static const char *hx = "0123456789abcdef";
	if (*s == 0) { lgs("="); return; }
	for (; *s; ++s) {
		char b[2] = { hx[((unsigned char)*s) >> 4], hx[((unsigned char)*s) & 15] };
		lg(b, 2);
	}
}

static void lgnum(unsigned long long v)
{
	char b[32];
	sprintf(b, "%llu", v);
	lgs(b);
}

static tree_node_t dummy_node;

static tree_node_t *c16_add_hook(fstree_t *fs, const sqfs_dir_entry_t *ent, const char *extra)
{
	if (forward)
		return fstree_add_generic(fs, ent, extra);
	if (ncalls++) lgs(";");
	lgs("A:"); lghex(ent->name);
	lgs(":"); lgnum(ent->mode);
	lgs(":"); lgnum(ent->uid);
	lgs(":"); lgnum(ent->gid);
	lgs(":"); lgnum(ent->rdev);
	lgs(":"); lgnum(ent->flags);
	lgs(":");
	if (extra == NULL) lgs("-"); else lghex(extra);
	return &dummy_node;
}

static int c16_glob_hook(fstree_t *fs, const char *filename, size_t line_num,
			 const sqfs_dir_entry_t *ent, const char *basepath,
			 unsigned int glob_flags, split_line_t *extra)
{
	size_t i;
	(void)fs; (void)filename; (void)line_num; (void)basepath;
	if (ncalls++) lgs(";");
	lgs("G:"); lghex(ent->name);
	lgs(":"); lgnum(ent->mode);
	lgs(":"); lgnum(ent->uid);
	lgs(":"); lgnum(ent->gid);
	lgs(":"); lgnum(glob_flags);
	lgs(":");
	if (extra->count == 0) lgs("-");
	for (i = 0; i < extra->count; ++i) {
		if (i) lgs(",");
		lghex(extra->args[i]);
	}
	return 0;
}

static void dump_node(const tree_node_t *n, char *path, size_t plen)
{
	size_t nl = strlen(n->name);
	const tree_node_t *c;

	if (n->parent != NULL) {
		if (plen) path[plen++] = '/';
		memcpy(path + plen, n->name, nl);
		plen += nl;
	}
	path[plen] = 0;
	if (ncalls++) lgs(";");
	lgs("N:"); lghex(path);
	lgs(":"); lgnum(n->mode);
	lgs(":"); lgnum(n->uid);
	lgs(":"); lgnum(n->gid);
	lgs(":");
	switch (n->mode & S_IFMT) {
	case S_IFBLK: case S_IFCHR: lgnum(n->data.devno); break;
	default: lgnum(0); break;
	}
	lgs(":"); lgnum(n->flags);
	lgs(":");
	switch (n->mode & S_IFMT) {
	case S_IFREG:
		if (n->data.file.input_file == NULL) lgs("-"); else lghex(n->data.file.input_file);
		break;
	case S_IFLNK:
		if (n->data.target == NULL) lgs("-"); else lghex(n->data.target);
		break;
	default: lgs("-"); break;
	}
	if (S_ISDIR(n->mode)) {
		for (c = n->data.children; c != NULL; c = c->next)
			dump_node(c, path, plen);
	}
}

static int hv(int c) { return c <= '9' ? c - '0' : c - 'a' + 10; }

int main(void)
{
	static char line[1 << 22], data[1 << 21], path[1 << 16];

	while (fgets(line, sizeof(line), stdin)) {
		unsigned long dsf, fuid, fgid, bufsz;
		char mode, *hex;
		size_t n = strlen(line), i, len = 0;
		fstree_defaults_t fsd;
		sqfs_istream_t *file;
		options_t opt;
		fstree_t fs;
		int ret, off = 0;

		while (n > 0 && (line[n - 1] == '\n' || line[n - 1] == '\r')) line[--n] = 0;
		if (sscanf(line, "%c %lu %lu %lu %lu %n", &mode, &dsf, &fuid, &fgid, &bufsz, &off) < 5) {
			puts("BADCASE");
			continue;
		}
		hex = line + off;
		if (strcmp(hex, "=") != 0) {
			size_t hl = strlen(hex);
			for (i = 0; i + 1 < hl; i += 2)
				data[len++] = (char)(hv(hex[i]) * 16 + hv(hex[i + 1]));
		}
		memset(&opt, 0, sizeof(opt));
		opt.dirscan_flags = dsf;
		opt.force_uid_value = fuid;
		opt.force_gid_value = fgid;
		memset(&fsd, 0, sizeof(fsd));
		fsd.mode = 0755;
		forward = (mode == 'F');
		ncalls = 0;
		loglen = 0;
		lgs("");
		if (fstree_init(&fs, &fsd)) { puts("INITFAIL"); continue; }
		file = istream_memory_create("pack", bufsz ? bufsz : 1, data, len);
		if (file == NULL) { puts("MEMFAIL"); continue; }
		fflush(stdout);
		ret = fstree_from_file_stream(&fs, file, &opt);
		sqfs_drop(file);
		if (forward)
			dump_node(fs.root, path, 0);
		printf("%d %zu %s\n", ret, ncalls, loglen ? logbuf : "");
		fstree_cleanup(&fs);
	}
	return 0;
}
