"""C16 -- rdsquashfs --describe output is valid gensquashfs --pack-file input rebuilding the tree.

Theorems: coq/Properties_C16.v (printer = describe.c with props/C16/fixes applied, parser =
split_line / get_line / parse_int / fstree_from_file.c).
Tie (exact):  h_describe.c (real describe_tree on hand-built sqfs_tree_node_t trees, stdout captured)
              and h_parse.c (real fstree_from_file_stream on a memory stream, fstree_add_generic /
              glob_files intercepted) vs. the extracted model on the same generated cases.
Search:       (a) component level: real describe_tree -> real fstree_from_file_stream -> real fstree,
              dumped and compared with the entries of the input tree stated independently in Python;
              (b) tool level: tar2sqfs image with nasty names -> rdsquashfs --describe (with/without
              --unpack-root) + rdsquashfs --unpack-path / -> gensquashfs --pack-file -> both images
              listed through sqfs2tar | python tarfile and compared.
Tie (image level, exact): for every round trip of (b) the composed model of coq/ImgDescribe (extracted in
              ExtractC16Img.v: describe -> parser -> fstree_add_generic on the C11 fstree -> fstree_post_process ->
              ImgPost.to_img -> Img.serialize_fstree) is given the tree vlib/sqfsimg.py reads from the first image and
              must predict (1) the listing rdsquashfs --describe printed, byte for byte, and (2) the uncompressed
              inode table, directory table, id table and root reference of the image gensquashfs --pack-file wrote
              (file inodes: location fields taken from that image; tables larger than one metadata block: skipped).
"""
import hashlib
import io
import itertools
import json
import os
import random
import re
import shutil
import subprocess
import tarfile
import tempfile

from vlib import build as B
from vlib import core
from vlib import sqfsimg

HERE = os.path.dirname(os.path.abspath(__file__))
LEVEL = "proof"

S_IFMT, S_IFDIR, S_IFREG, S_IFLNK = 0o170000, 0o040000, 0o100000, 0o120000
S_IFCHR, S_IFBLK, S_IFIFO, S_IFSOCK = 0o020000, 0o060000, 0o010000, 0o140000
KEEP = 0x0200 | 0x0400  # DIR_SCAN_KEEP_UID | DIR_SCAN_KEEP_GID (gensquashfs default)

ENV = dict(os.environ, ASAN_OPTIONS="detect_leaks=0", UBSAN_OPTIONS="print_stacktrace=1")


# --------------------------------------------------------------------------
# generated constants (runs when ./check imports this file, i.e. before the proofs are compiled)
# --------------------------------------------------------------------------
def regen_gen():
    d = tempfile.mkdtemp(prefix="verif-c16gen.")
    try:
        exe = os.path.join(d, "g")
        rc, out = core.sh(["gcc", "-w", "-I" + os.path.join(B.REPO, "include"),
                           "-I" + os.path.dirname(B.config_h_path()),
                           os.path.join(HERE, "gen_c16.c"), "-o", exe])
        if rc != 0:
            return "gen_c16.c does not compile against the current headers: " + out[-800:]
        rc, txt = core.sh([exe])
        if rc != 0:
            return "gen_c16 failed"
        dst = os.path.join(core.COQ, "C16", "GenC16.v")
        with core.Lock("coq"):
            old = open(dst).read() if os.path.exists(dst) else None
            if old != txt:
                open(dst, "w").write(txt)
        return None
    finally:
        shutil.rmtree(d, ignore_errors=True)


GEN_ERROR = regen_gen()


# --------------------------------------------------------------------------
# trees and case lines
# --------------------------------------------------------------------------
def hx(b):
    return b.hex() if b else "="


def unhx(s):
    return b"" if s in ("=", "") else bytes.fromhex(s)


class Node:
    __slots__ = ("name", "mode", "uid", "gid", "target", "devno", "ext", "children")

    def __init__(self, name, mode, uid=0, gid=0, target=b"", devno=0, ext=0, children=None):
        self.name, self.mode, self.uid, self.gid = name, mode, uid, gid
        self.target, self.devno, self.ext = target, devno, ext
        self.children = children or []

    def line(self):
        return " ".join([hx(self.name), str(self.mode), str(self.uid), str(self.gid), hx(self.target),
                         str(self.devno), str(self.ext), str(len(self.children))] +
                        [c.line() for c in self.children])

    def to_json(self):
        return dict(name=self.name.hex(), mode=self.mode, uid=self.uid, gid=self.gid, target=self.target.hex(),
                    devno=self.devno, ext=self.ext, children=[c.to_json() for c in self.children])

    @staticmethod
    def from_json(d):
        return Node(bytes.fromhex(d["name"]), d["mode"], d["uid"], d["gid"], bytes.fromhex(d["target"]),
                    d["devno"], d.get("ext", 0), [Node.from_json(c) for c in d["children"]])


def dcase(uroot, tree):
    return "D %s %s" % ("-" if uroot is None else hx(uroot), tree.line())


def parse_dcase(line):
    """inverse of dcase()"""
    toks = line.split()
    uroot = None if toks[1] == "-" else unhx(toks[1])
    pos = [2]

    def node():
        name, mode, uid, gid, target, devno, ext, nch = toks[pos[0]:pos[0] + 8]
        pos[0] += 8
        n = Node(unhx(name), int(mode), int(uid), int(gid), unhx(target), int(devno), int(ext))
        n.children = [node() for _ in range(int(nch))]
        return n

    return uroot, node()


def tree_is_wf(uroot, t):
    """the hypotheses of describe_parse_rt / describe_rebuilds (plus 0777 symlinks), stated in Python"""
    def s_ok(s):
        return b"\0" not in s and b"\n" not in s

    def n_ok(n, is_root):
        k = n.mode & S_IFMT
        if k not in (S_IFDIR, S_IFREG, S_IFLNK, S_IFCHR, S_IFBLK, S_IFIFO, S_IFSOCK) or n.mode >= 0o200000:
            return False
        if is_root:
            if n.name != b"" or k != S_IFDIR:
                return False
        elif not (valid_name(n.name) and s_ok(n.name)):
            return False
        if not (s_ok(n.target) and n.uid < 2 ** 32 and n.gid < 2 ** 32 and n.devno < 2 ** 32):
            return False
        if k == S_IFLNK and (n.mode & 0o7777) != 0o777:
            return False
        if k == S_IFDIR:
            names = [c.name for c in n.children]
            if len(set(names)) != len(names):
                return False
            return all(n_ok(c, False) for c in n.children)
        return True

    return (uroot is None or s_ok(uroot)) and n_ok(t, True)


def pcase(data, flags=KEEP, fuid=0, fgid=0, bufsz=7, mode="P"):
    return "%s %d %d %d %d %s" % (mode, flags, fuid, fgid, bufsz, hx(data))


def expected_entries(uroot, tree):
    """Independent statement of what the rebuilt tree must contain: {path: (mode, uid, gid, devno, extra)}."""
    out = {}

    def walk(n, prefix, is_root):
        path = b"" if is_root else (prefix + b"/" + n.name if prefix else n.name)
        k = n.mode & S_IFMT
        extra = None
        devno = 0
        if k == S_IFREG:
            extra = path if uroot is None else uroot + b"/" + path
        elif k == S_IFLNK:
            extra = n.target
        elif k in (S_IFCHR, S_IFBLK):
            devno = n.devno
        out[path] = (n.mode, n.uid, n.gid, devno, extra)
        if k == S_IFDIR:
            for c in n.children:
                walk(c, path, False)

    walk(tree, b"", True)
    return out


# --------------------------------------------------------------------------
# generators
# --------------------------------------------------------------------------
SP, TAB, DQ, BS, CR = b" ", b"\t", b'"', b"\\", b"\r"
QUOTING = [SP, TAB, DQ, BS, CR, b"a", b"#"]        # the 7 quoting-relevant characters
CHAR_NAMES = {0x20: "space", 0x09: "tab", 0x22: "dquote", 0x5c: "backslash", 0x0d: "cr"}


def char_class(*strings):
    found = set()
    for s in strings:
        for c in s or b"":
            if c in CHAR_NAMES:
                found.add(CHAR_NAMES[c])
    return "+".join(sorted(found)) or "plain"


def valid_name(n):
    return n and n not in (b".", b"..") and b"/" not in n and b"\n" not in n and b"\0" not in n


def gen_names(ctx, rnd):
    """names / targets aimed at the case splits of print_token / split_line."""
    names = []
    maxlen = 5 if ctx.tier == "quick" else 6
    for n in range(1, maxlen + 1):
        for t in itertools.product(QUOTING, repeat=n):
            names.append(b"".join(t))
    # every byte except NUL, '/', newline in first / middle / last position
    for c in range(1, 256):
        if c in (0x2f, 0x0a):
            continue
        ch = bytes([c])
        names += [ch + b"xy", b"x" + ch + b"y", b"xy" + ch, ch]
    alpha = [SP, TAB, DQ, BS, CR, b"a", b"b", b"#", b"'", b"\x0b", b"\x0c", b"*", b".", b"\xc3\xa4", b"\xff", b"\x01", b"=", b"-"]
    nrand = 4000 if ctx.tier == "quick" else 100000
    for _ in range(nrand):
        k = rnd.choice([1, 2, 3, 5, 8, 13, 40, 120])
        names.append(b"".join(rnd.choice(alpha) for _ in range(rnd.randint(1, k))))
    names = [n for n in names if valid_name(n)]
    return names


def rnd_perm(rnd):
    return rnd.choice([0o644, 0o755, 0o0, 0o7777, 0o4755, 0o1777, 0o600, rnd.randint(0, 0o7777)])


def rnd_id(rnd):
    return rnd.choice([0, 1, 1000, 65534, 65535, 65536, 4294967295, 4294967294, rnd.randint(0, 2 ** 32 - 1)])


def rnd_dev(rnd):
    return rnd.choice([0, 0x0501, 0x12345678, 0xffffffff, 0xfff00fff, 0x000fff00, 0x00100000, 0xff, 0x100,
                       rnd.randint(0, 2 ** 32 - 1)])


def make_entry(rnd, name, pool, kind=None, symlink_perm_any=False):
    kind = kind or rnd.choice(["file", "file", "slink", "slink", "dir", "chr", "blk", "pipe", "sock"])
    uid, gid = rnd_id(rnd), rnd_id(rnd)
    p = rnd_perm(rnd)
    if kind == "file":
        return Node(name, S_IFREG | p, uid, gid)
    if kind == "slink":
        tgt = rnd.choice(pool)
        if rnd.random() < 0.3:
            tgt = rnd.choice(pool) + b"/" + tgt
        if rnd.random() < 0.03:
            tgt = b""
        return Node(name, S_IFLNK | (p if symlink_perm_any else 0o777), uid, gid, target=tgt)
    if kind == "dir":
        return Node(name, S_IFDIR | p, uid, gid)
    if kind == "chr":
        return Node(name, S_IFCHR | p, uid, gid, devno=rnd_dev(rnd), ext=rnd.randint(0, 1))
    if kind == "blk":
        return Node(name, S_IFBLK | p, uid, gid, devno=rnd_dev(rnd), ext=rnd.randint(0, 1))
    if kind == "pipe":
        return Node(name, S_IFIFO | p, uid, gid)
    return Node(name, S_IFSOCK | p, uid, gid)


def build_trees(ctx, rnd, names):
    """well-formed trees (unique sibling names) that together use every generated name."""
    trees = []
    names = list(names)
    rnd.shuffle(names)
    per_tree = 40
    for i in range(0, len(names), per_tree):
        chunk = names[i:i + per_tree]
        root = Node(b"", S_IFDIR | rnd_perm(rnd), rnd_id(rnd), rnd_id(rnd))
        dirs = [root]
        for nm in chunk:
            parent = rnd.choice(dirs[-4:])
            if any(c.name == nm for c in parent.children):
                parent = root
                if any(c.name == nm for c in parent.children):
                    continue
            e = make_entry(rnd, nm, chunk)
            parent.children.append(e)
            if (e.mode & S_IFMT) == S_IFDIR:
                dirs.append(e)
        trees.append(root)
    return trees


UROOTS = [None, b"/unp", b"rel/dir", b"/un pack", b"/q\"uote", b"/back\\slash", b"/tab\there", b"/cr\r", b"",
          b"/a\\ b", b" lead", b"trail ", b"/\\\\ x", b"/unp/", b"rel dir/"]


def malformed_trees(rnd):
    """trees outside the theorem's hypotheses: only the printer tie looks at them."""
    f = lambda n: Node(n, S_IFREG | 0o644)
    d = lambda n, ch: Node(n, S_IFDIR | 0o755, children=ch)
    out = [
        d(b"x", [f(b"y")]), d(b"", [f(b"..")]), d(b"", [f(b".")]), d(b"", [f(b"a/b")]),
        d(b"", [d(b"", [f(b"y")])]), f(b""), d(b"", [f(b"")]), d(b"", [Node(b"l", S_IFLNK | 0o777, target=b"")]),
        d(b"", [f(b"a\0b"), f(b"\0")]), d(b"", [Node(b"l", S_IFLNK | 0o777, target=b"t\0u v")]),
        d(b"", [Node(b"odd", 0o644), Node(b"odd2", 0o644, children=[f(b"z")])]),
        d(b"", [Node(b"f", S_IFREG | 0o644, children=[f(b"ignored")])]),
        d(b"", [d(b"a", [d(b"..", [f(b"x")])]), f(b"after")]),
        d(b"", [f(b"nl\nfile x 0644 0 0")]),
        d(b"", [Node(b"l", S_IFLNK | 0o640, 7, 8, target=b"nl\ntarget")]),
    ]
    return out


def gen_pack_files(ctx, rnd, listings):
    """inputs for the parser tie: model-valid listings, their mutations, and hand-made boundary lines."""
    cases = []
    bufs = [1, 2, 3, 7, 64, 4096]
    opts = [(KEEP, 0, 0)] * 6 + [(0, 77, 88), (0x0200, 5, 6), (0x0400, 5, 6)]
    fixed = [
        b"", b"\n", b"\r\n", b" \t \n", b"#\n", b"# comment\nfile a 0644 0 0", b"   # indented comment\n",
        b"file a 0644 0 0\n", b"file a 0644 0 0", b"file a 0644 0 0\r\n", b"file a 0644 0 0\r", b"file a 0644 0 0 \r\n",
        b"file a 0644 0 0 loc\r\r\n", b"\x0b\x0c file a 0644 0 0\n", b"file\ta\t0644\t0\t0\n", b"file a 07777 0 0\n",
        b"file a 010000 0 0\n", b"file a 0648 0 0\n", b"file a 644x 0 0\n", b"file a  0 0\n", b"file a -1 0 0\n",
        b"file a 0644 4294967295 4294967295\n", b"file a 0644 4294967296 0\n", b"file a 0644 0 4294967296\n",
        b"file a 0644 18446744073709551615 0\n", b"file a 0644 18446744073709551616 0\n", b"file a 0644 1844674407370955161 0\n",
        b"file a 0644 99999999999999999999999 0\n", b"file a 0644 0x10 0\n", b"file a 0644 1 2 3 4\n", b"file a 0644 1\n",
        b"file\n", b"fil a 0644 0 0\n", b"FILE a 0644 0 0\n", b"files a 0644 0 0\n", b"dir / 0755 1 2\n", b"file / 0644 0 0\n",
        b"slink / 0777 0 0 x\n", b"dir // 0755 1 2\n", b"dir /./ 0755 1 2\n", b"dir a/../b 0755 0 0\n", b"dir .. 0755 0 0\n",
        b"dir ... 0755 0 0\n", b"dir a//b/./c/ 0755 0 0\n", b"slink l 0777 0 0\n", b"slink l 0777 0 0 \n", b"slink l 0777 0 0 \"\"\n",
        b"slink l 0777 0 0 a b\n", b"slink l 0777 0 0 \"a b\"\n", b"slink l 0777 0 0 \"a b\"c\n", b"slink l 0777 0 0 a\"b c\"\n",
        b"link l 0 0 0 target\n", b"link l 0 0 0\n", b"pipe p 0644 0 0 extra\n", b"sock s 0644 0 0\n", b"dir d 0755 0 0 extra\n",
        b"nod n 0644 0 0 c 1 2\n", b"nod n 0644 0 0 C 1 2\n", b"nod n 0644 0 0 b 1 2\n", b"nod n 0644 0 0 B 4294967295 4294967295\n",
        b"nod n 0644 0 0 x 1 2\n", b"nod n 0644 0 0 c 1\n", b"nod n 0644 0 0 c 1 2 3\n", b"nod n 0644 0 0 c 4294967296 2\n",
        b"nod n 0644 0 0 c 1 -2\n", b"nod n 0644 0 0 cc 1 2\n", b"nod n 0644 0 0 c 4095 1048575\n", b"nod n 0644 0 0 c 4096 1048576\n",
        b"nod n 0644 0 0\n", b"glob /usr * * * -type d ./lib\n", b"glob / 0755 1 2 x\n", b"glob g 0755 * 2\n", b"glob g * 1 *\n",
        b"glob g 0755 1 2\n", b"glob g 9 1 2\n", b"glob * * * *\n", b"file * 0644 0 0\n", b"file a * 0 0\n",
        b"file \"a b\" 0644 0 0\n", b"file \"a\\\"b\" 0644 0 0\n", b"file \"a\\\\b\" 0644 0 0\n", b"file \"a\\b\" 0644 0 0\n",
        b"file \"a\\", b"file \"a\\\n", b"file \"a", b"file \"a\n", b"file a\"b 0644 0 0\n", b"file a\\b 0644 0 0\n",
        b"file \"\" 0644 0 0\n", b"file \"a\"\"b\" 0644 0 0\n", b"\"file\" a 0644 0 0\n", b"fi\"le\" a 0644 0 0\n",
        b"file a \"0644\" \"0\" \"0\" \"loc ation\"\n", b"file a\0b 0644 0 0\n", b"file a 0644 0 0\0 junk\n", b"\0file a 0644 0 0\n",
        b"file a 0644 0 0\nfile a 0644 0 0\n", b"dir d 0755 0 0\nfile d/f 0644 0 0\nbroken\nfile never 0644 0 0\n",
        b"file a 0644 0 0 x\\\n", b"file a 0644 0 0 \"x\\\\\"\n", b"file a 00000000000000000000000000644 0 0\n",
        b"file a 0644 00000000000000000000000000000000000007 0\n", b"file a 0644 0 0 \xff\xfe\n", b"file \xc3\xa4 0644 0 0\n",
    ]
    # every byte after a backslash inside quotes, every byte as a bare token character
    for c in range(1, 256):
        if c == 0x0a:
            continue
        ch = bytes([c])
        fixed.append(b"file \"a\\" + ch + b"b\" 0644 0 0\n")
        fixed.append(b"slink l" + ch + b"m 0777 1 2 t" + ch + b"\n")
    for i, f in enumerate(fixed):
        fl, fu, fg = opts[i % len(opts)]
        cases.append(pcase(f, fl, fu, fg, bufs[i % len(bufs)]))
        if i % 5 == 0:
            cases.append(pcase(f.replace(b"\n", b"\r\n"), fl, fu, fg, bufs[(i + 1) % len(bufs)]))
    # valid listings as printed by the model / implementation
    for i, l in enumerate(listings):
        cases.append(pcase(l, KEEP, 0, 0, bufs[i % len(bufs)]))
    # mutations of valid listings
    nm = 1500 if ctx.tier == "quick" else 20000
    pieces = [b" ", b"\t", b"\"", b"\\", b"\r", b"\n", b"\r\n", b"#", b"0", b"8", b"*", b"/", b"..", b"\0", b"glob ", b"link ", b"x"]
    for i in range(nm):
        if not listings:
            break
        l = bytearray(rnd.choice(listings)[:3000])
        for _ in range(rnd.randint(1, 4)):
            if not l:
                break
            pos = rnd.randrange(len(l) + 1)
            op = rnd.random()
            if op < 0.4:
                l[pos:pos] = rnd.choice(pieces)
            elif op < 0.7 and pos < len(l):
                del l[pos:pos + rnd.randint(1, 3)]
            elif pos < len(l):
                l[pos:pos + 1] = rnd.choice(pieces)
        fl, fu, fg = rnd.choice(opts)
        cases.append(pcase(bytes(l), fl, fu, fg, rnd.choice(bufs)))
    # random token soup
    toks = [b"file", b"dir", b"slink", b"link", b"nod", b"pipe", b"sock", b"glob", b"a", b"\"a b\"", b"\"a\\\"\"", b"\"\\\\\"", b"0644", b"07777",
            b"010000", b"0", b"1", b"4294967295", b"4294967296", b"c", b"b", b"*", b"/", b"a/b", b"../a", b"\"", b"\\", b"#", b"x y", b"-type", b"d"]
    ns = 1500 if ctx.tier == "quick" else 20000
    for i in range(ns):
        lines = []
        for _ in range(rnd.randint(1, 4)):
            k = rnd.choice([5, 5, 6, 6, 8, 3, 9])
            lines.append(rnd.choice([b" ", b"\t", b"  "]).join(rnd.choice(toks) for _ in range(k)))
        fl, fu, fg = rnd.choice(opts)
        cases.append(pcase(rnd.choice([b"\n", b"\r\n"]).join(lines) + rnd.choice([b"", b"\n"]), fl, fu, fg, rnd.choice(bufs)))
    return cases


# --------------------------------------------------------------------------
# running things
# --------------------------------------------------------------------------
def run_lines(exe, lines, env=ENV):
    data = ("\n".join(lines) + "\n").encode()
    r = subprocess.run([exe], input=data, stdout=subprocess.PIPE, stderr=subprocess.PIPE, env=env)
    out = r.stdout.decode("ascii", "replace").split("\n")
    if out and out[-1] == "":
        out.pop()
    return r.returncode, out, r.stderr.decode("utf-8", "replace")


def run_tool(cmd, cwd=None, inp=None, timeout=120):
    try:
        r = subprocess.run(cmd, cwd=cwd, input=inp, stdout=subprocess.PIPE, stderr=subprocess.PIPE, env=ENV, timeout=timeout)
        return r.returncode, r.stdout, r.stderr
    except subprocess.TimeoutExpired:
        return 124, b"", b"timeout"


def parse_dump(line):
    """'<ret> <n> N:..;N:..' of h_parse mode F -> (ret, {path: (mode, uid, gid, devno, extra)})"""
    p = line.split(" ", 2)
    ret = int(p[0])
    ents = {}
    if len(p) > 2 and p[2]:
        for e in p[2].split(";"):
            f = e.split(":")
            path = unhx(f[1])
            extra = None if f[7] == "-" else unhx(f[7])
            ents[path] = (int(f[2]), int(f[3]), int(f[4]), int(f[5]), extra)
    return ret, ents


def fstree_view(exp):
    """what the fstree stores for an expected entry: symlinks always get mode S_IFLNK|0777 (mknode)."""
    out = {}
    for path, (mode, uid, gid, devno, extra) in exp.items():
        out[path] = (mode, uid, gid, devno, extra)
    return out


def diff_entries(exp, got):
    """first difference as (field, path, expected, got) or None"""
    for path in sorted(exp):
        if path not in got:
            return ("missing", path, exp[path], None)
        e, g = exp[path], got[path]
        for i, field in enumerate(["mode", "uid", "gid", "devno", "extra"]):
            if e[i] != g[i]:
                if field == "extra":
                    k = e[0] & S_IFMT
                    field = "target" if k == S_IFLNK else "location"
                return (field, path, e[i], g[i])
    for path in sorted(got):
        if path not in exp:
            return ("unexpected", path, None, got[path])
    return None


def component_oracle(hd, hp, uroot, tree):
    """property evaluated on the implementation only: describe_tree -> fstree_from_file_stream -> fstree.
    Returns None if it holds, else (kind, field, detail dict)."""
    rc, out, err = run_lines(hd, [dcase(uroot, tree)])
    if rc != 0 or not out:
        return ("crash", "describe", dict(stderr=err[-1500:]))
    ret, listing = out[0].split(" ", 1)
    listing = unhx(listing)
    if ret != "0":
        return ("describe-failed", "describe", dict(listing=listing.hex()))
    rc, out2, err2 = run_lines(hp, [pcase(listing, mode="F")])
    if rc != 0 or not out2:
        return ("crash", "parser", dict(stderr=err2[-1500:], listing=listing.hex()))
    pret, got = parse_dump(out2[0])
    exp = fstree_view(expected_entries(uroot, tree))
    if pret != 0:
        return ("reject", "listing", dict(listing=listing.hex(), stderr=err2[-400:]))
    d = diff_entries(exp, got)
    if d is None:
        return None
    field, path, e, g = d
    return ("differs", field, dict(listing=listing.hex(), path=path.hex(), expected=repr(e), got=repr(g)))


def single_entry_trees(uroot, tree):
    """for localisation: one tree per entry, holding only the entry and its ancestors below a root with the
    default attributes (so that a problem with the root's own line does not implicate every entry)."""
    out = []

    def walk(n, chain):
        for c in n.children:
            leaf = Node(c.name, c.mode, c.uid, c.gid, c.target, c.devno, c.ext)
            t = leaf
            for a in reversed(chain):
                t = Node(a.name, a.mode, a.uid, a.gid, children=[t])
            out.append((c, chain, Node(b"", S_IFDIR | 0o755, 0, 0, children=[t])))
            if (c.mode & S_IFMT) == S_IFDIR:
                walk(c, chain + [c])

    walk(tree, [])
    return out


def report_component(ctx, hd, hp, uroot, tree, res, seen):
    """turn a failure of the component oracle on a big tree into minimal replays."""
    reported = 0
    ur = None if uroot is None else uroot.hex()
    root_only = Node(tree.name, tree.mode, tree.uid, tree.gid)
    r = component_oracle(hd, hp, uroot, root_only)
    if r is not None:
        kind, field, detail = r
        sig = "roundtrip:%s:%s:root" % (kind, field)
        reported += 1
        if sig not in seen:
            seen.add(sig)
            ctx.violation(sig, "describe -> pack file does not preserve the root directory's %s (mode 0%o uid %d gid %d): %s" % (
                field, tree.mode & 0o7777, tree.uid, tree.gid, detail.get("got", detail.get("stderr", ""))),
                dict(kind="component", uroot=ur, tree=root_only.to_json(), **detail))
    n = 0
    failing = set()
    for ent, chain, t in single_entry_trees(uroot, tree):
        if any(id(a) in failing for a in chain):
            continue                      # an ancestor directory already fails on its own
        r = component_oracle(hd, hp, uroot, t)
        if r is None:
            continue
        failing.add(id(ent))
        kind, field, detail = r
        k = ent.mode & S_IFMT
        cls = char_class(ent.name, ent.target if k == S_IFLNK else b"", uroot if k == S_IFREG else b"")
        sig = "roundtrip:%s:%s:%s" % (kind, field, cls)
        reported += 1
        if sig in seen:
            continue
        seen.add(sig)
        ctx.violation(sig, "describe -> pack file does not rebuild entry %r%s (%s %s; quoting characters involved: %s)%s" % (
            ent.name, " -> %r" % ent.target if k == S_IFLNK else "", kind, field, cls,
            "" if uroot is None else " with --unpack-root %r" % uroot),
            dict(kind="component", uroot=ur, tree=t.to_json(), **detail))
        n += 1
        if n >= 3:
            break
    if reported == 0:
        kind, field, detail = res
        sig = "roundtrip:%s:%s:tree" % (kind, field)
        if sig not in seen:
            seen.add(sig)
            ctx.violation(sig, "describe -> pack file does not rebuild the tree (%s %s, path %s)" % (
                kind, field, detail.get("path", "?")),
                dict(kind="component", uroot=ur, tree=tree.to_json(), **detail))


# --------------------------------------------------------------------------
# tool level
# --------------------------------------------------------------------------
def tar_of_tree(tree, path):
    """write a GNU tar holding the tree (no sockets: tar has no such type); returns file contents by path."""
    contents = {}
    with tarfile.open(path, "w", format=tarfile.GNU_FORMAT, encoding="utf-8", errors="surrogateescape") as tf:
        def walk(n, prefix):
            for c in n.children:
                p = prefix + b"/" + c.name if prefix else c.name
                k = c.mode & S_IFMT
                if k == S_IFSOCK:
                    continue
                ti = tarfile.TarInfo(p.decode("utf-8", "surrogateescape"))
                ti.mode = c.mode & 0o7777
                ti.uid, ti.gid = c.uid, c.gid
                ti.mtime = 0
                data = None
                if k == S_IFREG:
                    ti.type = tarfile.REGTYPE
                    data = hashlib.sha256(p).digest() * (1 + len(p) % 3) if len(p) % 4 else b""
                    ti.size = len(data)
                    contents[p] = data
                elif k == S_IFDIR:
                    ti.type = tarfile.DIRTYPE
                elif k == S_IFLNK:
                    ti.type = tarfile.SYMTYPE
                    ti.linkname = c.target.decode("utf-8", "surrogateescape")
                elif k == S_IFCHR or k == S_IFBLK:
                    ti.type = tarfile.CHRTYPE if k == S_IFCHR else tarfile.BLKTYPE
                    ti.devmajor = (c.devno >> 8) & 0xfff
                    ti.devminor = (c.devno & 0xff) | ((c.devno >> 12) & 0xfff00)
                elif k == S_IFIFO:
                    ti.type = tarfile.FIFOTYPE
                tf.addfile(ti, io.BytesIO(data) if data is not None else None)
                if k == S_IFDIR:
                    walk(c, p)
        walk(tree, b"")
    return contents


def list_image(tools, img, scratch):
    """independent listing of an image: sqfs2tar | python tarfile (+ root attributes through --root-becomes)."""
    rc, out, err = run_tool([tools["sqfs2tar"], "-r", "ROOT", "-L", img])
    if rc != 0:
        return None, "sqfs2tar failed: " + err.decode("utf-8", "replace")[-300:]
    ents = {}
    try:
        with tarfile.open(fileobj=io.BytesIO(out), mode="r:", encoding="utf-8", errors="surrogateescape") as tf:
            for ti in tf:
                name = ti.name.encode("utf-8", "surrogateescape")
                if name.endswith(b"/"):
                    name = name[:-1]
                if name == b"ROOT":
                    name = b""
                elif name.startswith(b"ROOT/"):
                    name = name[5:]
                else:
                    return None, "unexpected tar member %r" % name
                kind = {tarfile.REGTYPE: "file", tarfile.AREGTYPE: "file", tarfile.DIRTYPE: "dir", tarfile.SYMTYPE: "slink",
                        tarfile.CHRTYPE: "chr", tarfile.BLKTYPE: "blk", tarfile.FIFOTYPE: "pipe"}.get(ti.type, "type%r" % ti.type)
                extra = None
                if kind == "file":
                    extra = hashlib.sha256(tf.extractfile(ti).read()).hexdigest()
                elif kind == "slink":
                    extra = ti.linkname.encode("utf-8", "surrogateescape").hex()
                elif kind in ("chr", "blk"):
                    extra = "%d:%d" % (ti.devmajor, ti.devminor)
                ents[name] = (kind, ti.mode & 0o7777, ti.uid, ti.gid, extra)
    except tarfile.TarError as e:
        return None, "tarfile cannot read sqfs2tar output: %r" % (e,)
    return ents, None


def count_socks(tools, img):
    rc, out, err = run_tool([tools["rdsquashfs"], "-d", img])
    return sum(1 for l in out.split(b"\n") if l.startswith(b"sock "))


# --------------------------------------------------------------------------
# image level tie: the composed model of coq/ImgDescribe vs the two real tools
# --------------------------------------------------------------------------
S_IF_BY_TYPE = {1: S_IFDIR, 2: S_IFREG, 3: S_IFLNK, 4: S_IFBLK, 5: S_IFCHR, 6: S_IFIFO, 7: S_IFSOCK}


def _meta_payloads(ms):
    out, off, size = [], 0, ms.limit - ms.base
    while off < size:
        d, nxt = ms.block(off)
        out.append(d)
        off = nxt
    return out


def _image_tables(im):
    """(inode table payload blocks, directory table payload blocks) of a parsed image"""
    iblk = _meta_payloads(im.inodes)
    cands = [l for (_, locs, _) in getattr(im, "table_blocks", []) for l in locs]
    if getattr(im, "xattr_kv_start", None) is not None:
        cands.append(im.xattr_kv_start)
    cands = [c for c in cands if c >= im.super["dir_table_start"]]
    dend = min(cands) if cands else im.dirs.limit
    return iblk, _meta_payloads(sqfsimg.MetaStream(im, im.super["dir_table_start"], dend))


def _stored_payload(hexs_):
    b = b"" if hexs_ == "=" else bytes.fromhex(hexs_)
    out, i = [], 0
    while i < len(b):
        h = b[i] | (b[i + 1] << 8)
        if not h & 0x8000:
            raise ValueError("model wrote a compressed block")
        out.append(b[i + 2:i + 2 + (h & 0x7FFF)])
        i += 2 + (h & 0x7FFF)
    return b"".join(out)


class ImageLeg:
    """what a reader finds in image a -> model: listing + tables of the re-packed image; compared with the real
    listing and the real image b"""

    def __init__(self, drv):
        self.drv = drv
        self.runs = 0
        self.listings_equal = 0
        self.tables_exact = 0
        self.tables_skipped = 0
        self.table_bytes = 0
        self.fails = []          # (kind, what, detail)

    def reader_tree(self, img_path):
        im = sqfsimg.Image(open(img_path, "rb").read())

        def mk(name, n):
            t = Node(name, S_IF_BY_TYPE[n.type] | (n.mode & 0o7777), n.uid, n.gid, n.target or b"", n.dev or 0)
            if n.type == sqfsimg.T_DIR:
                ents, _ = im.readdir(n)
                t.children = [mk(nm, im.inode(ref)) for nm, ref, typ, ino in ents]
            return t
        return mk(b"", im.inode(im.super["root_ref"]))

    def run(self, img_a, listing, uroot, img_b, variant):
        self.runs += 1
        tree = self.reader_tree(img_a)
        imb = sqfsimg.Image(open(img_b, "rb").read())
        iblk, dblk = _image_tables(imb)
        fb = []
        for path, n in imb.walk().items():
            if n.type == sqfsimg.T_FILE:
                ext = 1 if (n.sparse or n.blocks_start > 0xFFFFFFFF or n.size > 0xFFFFFFFF) else 0
                bl = list(n.block_sizes or [])
                fb.append("%s %d %d %d %d %d %d %d %s" % (hx(path), ext, n.blocks_start, n.size, n.sparse or 0, n.frag_idx,
                                                        n.frag_off, len(bl), " ".join(str(x) for x in bl)))
        line = "R %s 0 0 %d 493 %d %s %s" % ("-" if uroot is None else hx(uroot), imb.super["mod_time"], len(fb),
                                           " ".join(f.strip() for f in fb), tree.line())
        r = subprocess.run([self.drv], input=(line + "\n").encode(), stdout=subprocess.PIPE, stderr=subprocess.PIPE)
        if r.returncode != 0:
            raise RuntimeError("C16 image model driver failed: " + r.stderr.decode()[-400:])
        w = r.stdout.decode().split()
        detail = dict(variant=variant, tree=tree.to_json(), uroot=None if uroot is None else uroot.hex())
        if len(w) < 3 or w[0] != "0":
            self.fails.append(("describe", "the model's describe fails on the tree read from the image (%r)" % (w[:1],), detail))
            return
        mlist = unhx(w[1])
        if mlist != listing:
            k = next((i for i, (a, b) in enumerate(zip(mlist, listing)) if a != b), min(len(mlist), len(listing)))
            self.fails.append(("listing", "rdsquashfs --describe output differs from DescribeModel.describe on the tree sqfsimg reads "
                               "from the image, at byte %d: tool %r model %r" % (k, listing[max(0, k - 20):k + 20], mlist[max(0, k - 20):k + 20]),
                               detail))
            return
        self.listings_equal += 1
        if w[2] != "0" or len(w) < 4 or w[3] != "0":
            self.fails.append(("repack", "gensquashfs accepted the listing but the model's parser / fstree / post processing refuses it "
                               "(%r)" % (w[2:4],), detail))
            return
        if len(iblk) != 1 or len(dblk) > 1:
            self.tables_skipped += 1
            return
        if len(w) < 12 or w[4] != "T":
            self.fails.append(("tables", "the model's serializer fails: %r" % (w[4:6],), detail))
            return
        mi, md = _stored_payload(w[5]), _stored_payload(w[7])
        mids = [int(x) for x in w[9].split(",")] if w[9] else []
        ri, rd = b"".join(iblk), b"".join(dblk)
        for nm, m, rr in (("inode table", mi, ri), ("directory table", md, rd)):
            if m != rr:
                k = next((i for i, (a, b) in enumerate(zip(m, rr)) if a != b), min(len(m), len(rr)))
                self.fails.append(("tables", "%s of the re-packed image differs from the model's prediction at byte %d (model %d bytes, "
                                   "image %d bytes): model %s image %s" % (nm, k, len(m), len(rr), m[max(0, k - 8):k + 8].hex(),
                                                                         rr[max(0, k - 8):k + 8].hex()), detail))
                return
        if mids != list(imb.ids) or int(w[11]) != imb.super["root_ref"]:
            self.fails.append(("tables", "id table / root reference: model %r %s image %r %d" % (mids, w[11], list(imb.ids),
                                                                                                imb.super["root_ref"]), detail))
            return
        self.tables_exact += 1
        self.table_bytes += len(ri) + len(rd)


def tool_oracle(ctx, tools, tree, uroot_name, workdir, imgleg=None):
    """image(tree) -> describe (+unpack) -> pack file -> image'; compare listings. Returns None or (sig, what, detail)."""
    os.makedirs(workdir)
    tarp = os.path.join(workdir, "in.tar")
    tar_of_tree(tree, tarp)
    img = os.path.join(workdir, "a.sqfs")
    defaults = "uid=%d,gid=%d,mode=0%o" % (tree.uid, tree.gid, tree.mode & 0o7777)
    rc, out, err = run_tool([tools["tar2sqfs"], "-q", "-f", "-s", "-d", defaults, img], inp=open(tarp, "rb").read())
    if rc != 0:
        return ("tool:setup:tar2sqfs", "tar2sqfs refused the generated tar: " + err.decode("utf-8", "replace")[-300:], {})
    ref, e = list_image(tools, img, workdir)
    if ref is None:
        return ("tool:setup:list", e, {})
    results = []
    for variant in ("packdir", "unpack-root"):
        unp = os.path.join(workdir, "ur", uroot_name) if variant == "unpack-root" else os.path.join(workdir, "pd")
        rc, out, err = run_tool([tools["rdsquashfs"], "-q", "-D", "-S", "-F", "-u", "/", "-p", unp, img])
        if rc != 0:
            return ("tool:unpack", "rdsquashfs --unpack-path / failed: " + err.decode("utf-8", "replace")[-300:], {})
        cmd = [tools["rdsquashfs"], "-d"] + (["-p", unp] if variant == "unpack-root" else []) + [img]
        rc, listing, err = run_tool(cmd)
        if rc != 0:
            results.append(("tool:describe-failed:" + variant, "rdsquashfs --describe failed: " + err.decode("utf-8", "replace")[-300:],
                            dict(variant=variant)))
            continue
        lf = os.path.join(workdir, "listing-%s.txt" % variant)
        open(lf, "wb").write(listing)
        img2 = os.path.join(workdir, "b-%s.sqfs" % variant)
        cmd = [tools["gensquashfs"], "-q", "-f", "--pack-file", lf] + (["--pack-dir", unp] if variant == "packdir" else []) + [img2]
        rc, out, err = run_tool(cmd)
        if rc != 0:
            msg = err.decode("utf-8", "replace")
            m = re.search(r": (\d+): (.*)", msg)
            bad = b""
            if m:
                ls = listing.split(b"\n")
                i = int(m.group(1)) - 1
                bad = ls[i] if 0 <= i < len(ls) else b""
            cls = "other"
            for pat, nm in (("broken escape", "escape"), ("too many arguments", "too-many-arguments"), ("mode must be", "mode"),
                            ("uid & gid", "uid-gid"), ("missing `\"`", "unmatched-quote"), ("missing argument", "missing-argument"),
                            ("No such file", "location-not-found"), ("error in entry", "entry")):
                if pat in msg:
                    cls = nm
                    break
            results.append(("tool:reject:%s:%s" % (variant, cls),
                            "gensquashfs --pack-file rejects the listing printed by rdsquashfs --describe%s: %s | line %r" % (
                                " --unpack-root" if variant == "unpack-root" else "", msg.strip()[-200:], bad[:200]),
                            dict(variant=variant, line=bad.hex(), stderr=msg[-400:])))
            continue
        got, e = list_image(tools, img2, workdir)
        if got is None:
            results.append(("tool:list2:" + variant, e, dict(variant=variant)))
            continue
        if imgleg is not None:
            try:
                imgleg.run(img, listing, os.fsencode(unp) if variant == "unpack-root" else None, img2, variant)
            except (sqfsimg.ParseError, RuntimeError, ValueError, IndexError) as ex:
                imgleg.fails.append(("machinery", "image leg could not be evaluated: %r" % (ex,), dict(variant=variant)))
        if got != ref:
            for p in sorted(set(ref) | set(got)):
                if ref.get(p) != got.get(p):
                    fieldnames = ["type", "mode", "uid", "gid", "content/target/device"]
                    a, b = ref.get(p), got.get(p)
                    fld = "entry"
                    if a and b:
                        fld = [fieldnames[i] for i in range(5) if a[i] != b[i]][0]
                    results.append(("tool:differs:%s:%s:%s" % (variant, fld.split("/")[0], "root" if p == b"" else char_class(p, unhx(a[4]) if a and a[0] == "slink" else b"")),
                                    "rebuilt image differs from the original at %r (%s): %r vs %r" % (p, fld, a, b),
                                    dict(variant=variant, path=p.hex(), original=repr(a), rebuilt=repr(b))))
                    break
        elif count_socks(tools, img) != count_socks(tools, img2):
            results.append(("tool:differs:%s:sockets" % variant, "socket count differs", dict(variant=variant)))
    return results or None


# --------------------------------------------------------------------------
# contents leg (session 3, coq/ImgDescribe/HostModel.v + ContentsProofs.v): describe + unpack -> gensquashfs --pack-file,
# the bytes of every regular file; where describe says the file is and which path gensquashfs opens
# --------------------------------------------------------------------------
CBS = 4096      # block size of both images of this leg: multi-block / sparse files stay small
C_VARIANTS = ["abs-uroot", "abs-uroot-trailing-slash", "rel-uroot-packdir-option", "rel-uroot-packdir-from-listing",
              "no-uroot-packdir-option", "no-uroot-no-packdir"]
C_CLASSES = ["empty", "tiny", "fragment", "block", "block+1", "multi", "multi+tail", "sparse", "sparse-hole", "sparse-tail"]
C_NAMES = [b"a b", b"q\"uote", b"back\\slash", b"a\\ b", b"tab\there", b"cr\r", b"end\\", b"\"quoted\"", b" lead", b"trail ",
           b"#hash", b"\\\\ x", b"plain", b"x\ry", b"'s q'", b"\\\"", b"u\xc3\xa4", b"\xff\xfe"]


def c_data(cls, seed):
    """contents of one generated file: deterministic in (class, seed)"""
    r = random.Random(seed * 1000003 + C_CLASSES.index(cls))
    rb = lambda n: bytes(r.getrandbits(8) for _ in range(n))
    z = lambda n: b"\0" * n
    if cls == "empty":
        return b""
    if cls == "tiny":
        return rb(1 + seed % 7)
    if cls == "fragment":
        return rb(100 + seed % 3000)
    if cls == "block":
        return rb(CBS)
    if cls == "block+1":
        return rb(CBS) + b"x"
    if cls == "multi":
        return rb(2 * CBS) if seed % 2 else rb(16) * (3 * CBS // 16)
    if cls == "multi+tail":
        return rb(2 * CBS + 1 + seed % 999)
    if cls == "sparse":
        return z(3 * CBS)
    if cls == "sparse-hole":
        return rb(CBS) + z(2 * CBS) + rb(CBS) + rb(17)
    return z(2 * CBS + 5 + seed % 100)       # sparse-tail: zero blocks and a zero tail end


def gen_contents_cases(ctx, rnd):
    n = 6 if ctx.tier == "quick" else 36
    cases = []
    for i in range(n):
        names = rnd.sample(C_NAMES, len(C_NAMES))
        dirs = [[]]
        ents = []
        k = 0
        for d in range(2):
            parent = rnd.choice(dirs)
            dirs.append(parent + [names[k]])
            ents.append(dict(path=[hx(c) for c in dirs[-1]], kind="dir", mode=rnd.choice([0o755, 0o700]), uid=rnd.choice([0, 7]), gid=0))
            k += 1
        classes = list(C_CLASSES) + [rnd.choice(C_CLASSES)]
        rnd.shuffle(classes)
        for cls in classes:
            parent = rnd.choice(dirs)
            ents.append(dict(path=[hx(c) for c in parent + [names[k]]], kind="file", mode=rnd.choice([0o644, 0o600, 0o4755]),
                             uid=rnd.choice([0, 1000]), gid=rnd.choice([0, 100]), cls=cls, seed=rnd.randrange(1 << 20)))
            k += 1
        cases.append(dict(variant=C_VARIANTS[i % len(C_VARIANTS)], uname=hx(rnd.choice([b"unp", b"un pack", b"u\\n\"p\tack", b"r\r", b"q\"", b"b\\"])),
                          entries=ents))
    return cases


# ---- the model of coq/ImgDescribe/HostModel.v is NOT transcribed here: the extracted definitions (coq/Extract/ExtractC16Host.v,
# driver_host.ml) are asked, all cycles of a run in one driver process (contents_model_check) ----
def host_line(pack_arg, opt_d, cwd_g, ucwd, unp, listing, paths):
    o = lambda x: "-" if x is None else hx(x)
    return " ".join(["H", hx(pack_arg), o(opt_d), hx(cwd_g), hx(ucwd), o(unp), hx(listing)] + [",".join(hx(c) for c in q) for q in paths])


def contents_model_check(pend, out):
    """compare what one cycle logged with the result line of the extracted HostModel; -> (results, number of opens compared)"""
    res = []
    fsb = os.fsencode
    variant, paths, data = pend["variant"], pend["paths"], pend["data"]
    w = (out or "").split()
    if len(w) != 5 + 3 * len(paths) or w[3] != "P":
        return [("tie-contents:machinery", "the extracted HostModel driver answered %r" % ((out or "")[:200],), True)], 0
    o = lambda x, none: None if x == none else unhx(x)
    packdir, pcwd, udir, prc = o(w[0], "-"), o(w[1], "!"), unhx(w[2]), int(w[4])
    trip = [(o(w[5 + 3 * i], "!"), o(w[6 + 3 * i], "!"), unhx(w[7 + 3 * i])) for i in range(len(paths))]
    if prc != 0 or any(t[0] is None for t in trip):
        res.append(("tie-contents:open:" + variant, "the modelled parser %s the listing rdsquashfs --describe printed%s: HostModel.input_path has no "
                    "answer" % ("rejects" if prc != 0 else "accepts", "" if prc != 0 else " but the tree it builds lacks a file of the image"), True))
        return res, 0
    opens, pack_arg, cwd_g, rc = pend["opens"], pend["pack_arg"], pend["cwd_g"], pend["rc"]
    expect = sorted((fsb(os.path.realpath(pcwd)), t[0]) for t in trip) if pcwd is not None else []
    start = next((i for i, x in enumerate(opens) if x[0] == "O" and x[3] == pack_arg), None)
    n = 0
    if start is not None:
        tail = opens[start + 1:]
        got = sorted((x[2], x[3]) for x in tail if x[0] == "O" and (x[1] & 3) == 0)
        chd = [(x[2], x[3]) for x in tail if x[0] == "C"][:1]
        want_chd = [] if packdir is None else [(cwd_g, packdir)]
        n = len(got)
        if got != expect or chd != want_chd:
            bad = next((g for g in got if g not in expect), None) or next((e for e in expect if e not in got), None)
            res.append(("tie-contents:open:" + variant,
                        "gensquashfs opens its input files at other paths than the extracted HostModel says (chdir %r, model (packdir_of) %r; first "
                        "differing open (cwd, path) %r, model (gens_dir, input_path); %d opens, %d expected)" % (chd, want_chd, bad, len(got), len(expect)), True))
    elif rc == 0:
        res.append(("tie-contents:open:" + variant, "the open() log of gensquashfs does not show the pack file being opened", True))
    # the model's two resolutions name the same host file (same_place on the real file system), and it holds the data
    for q, (ip, a, b) in zip(paths, trip):
        d, cls = data[q]
        try:
            same = a is not None and os.path.samefile(a, b) and open(a, "rb").read() == d
        except OSError:
            same = False
        if not same:
            res.append(("contents:unpacked:" + cls, "after unpacking, the host file %r (at_cwd gens_dir (input_path ..): where describe's location points "
                        "from gensquashfs' pack directory) is not the file with the contents of %r (unpacked to %r)" % (a, b"/".join(q), b), False))
            break
    return res, n


def contents_case(ctx, tools, shim, drv, imgleg, case, wd, pend):
    """one cycle; returns a list of (sig, what, no_input) and a dict of counters; fills pend (what contents_model_check needs)"""
    res, cnt = [], dict(files=0, bytes=0, opens=0, listing=0)
    fsb = os.fsencode
    os.makedirs(wd)
    variant = case["variant"]
    uname = unhx(case["uname"])
    ents = case["entries"]
    data = {}
    # ---- first image ----
    tarp = os.path.join(wd, "in.tar")
    with tarfile.open(tarp, "w", format=tarfile.GNU_FORMAT, encoding="utf-8", errors="surrogateescape") as tf:
        for e in ents:
            q = [unhx(c) for c in e["path"]]
            ti = tarfile.TarInfo(b"/".join(q).decode("utf-8", "surrogateescape"))
            ti.mode, ti.uid, ti.gid, ti.mtime = e["mode"], e["uid"], e["gid"], 0
            if e["kind"] == "dir":
                ti.type = tarfile.DIRTYPE
                tf.addfile(ti)
            else:
                d = c_data(e["cls"], e["seed"])
                data[tuple(q)] = (d, e["cls"])
                ti.type, ti.size = tarfile.REGTYPE, len(d)
                tf.addfile(ti, io.BytesIO(d))
    img = os.path.join(wd, "a.sqfs")
    rc, out, err = run_tool([tools["tar2sqfs"], "-q", "-f", "-b", str(CBS), img], inp=open(tarp, "rb").read())
    if rc != 0:
        ctx.notes.append("contents leg: tar2sqfs refused the generated tar: " + err.decode("utf-8", "replace")[-200:])
        return res, cnt
    # ---- who runs where (the parameters of location_resolves / describe_repack_contents) ----
    W = fsb(os.path.realpath(wd)) + b"/w"           # rdsquashfs runs here
    G = fsb(os.path.realpath(wd)) + b"/g"           # gensquashfs runs here (unless said otherwise)
    os.makedirs(W)
    os.makedirs(G)
    listing_file = G + b"/listing.txt"
    pack_arg = b"listing.txt"
    cwd_g, opt_d = G, None
    if variant == "abs-uroot":
        unp = uroot = W + b"/" + uname
    elif variant == "abs-uroot-trailing-slash":
        unp = uroot = W + b"/" + uname + b"/"
    elif variant == "rel-uroot-packdir-option":
        unp = uroot = b"rel dir/" + uname
        opt_d = W
    elif variant == "rel-uroot-packdir-from-listing":
        unp = uroot = uname
        cwd_g = fsb(os.path.realpath(wd))
        listing_file = W + b"/listing.txt"
        pack_arg = b"w/listing.txt"                  # packdir = "w" (strrchr), relative to gensquashfs' directory
    elif variant == "no-uroot-packdir-option":
        unp, uroot = W + b"/" + uname, None
        opt_d = unp
    else:                                            # no unpack root, no pack directory: gensquashfs runs where the files are
        unp, uroot = None, None
        cwd_g = W
        listing_file = W + b"/listing.txt"
    rc, out, err = run_tool([tools["rdsquashfs"], "-q", "-D", "-S", "-F", "-u", "/"] + (["-p", unp] if unp is not None else []) + [img], cwd=W)
    if rc != 0:
        res.append(("contents:unpack:" + variant, "rdsquashfs --unpack-path / failed: " + err.decode("utf-8", "replace")[-300:], False))
        return res, cnt
    rc, listing, err = run_tool([tools["rdsquashfs"], "-d"] + (["-p", uroot] if uroot is not None else []) + [img], cwd=W)
    if rc != 0:
        res.append(("contents:describe-failed:" + variant, "rdsquashfs --describe failed: " + err.decode("utf-8", "replace")[-300:], False))
        return res, cnt
    open(listing_file, "wb").write(listing)
    # ---- tie: the listing (location tokens included) is the model's, byte for byte ----
    if imgleg is not None:
        rtree = imgleg.reader_tree(img)
        rcm, om, em = run_lines(drv, [dcase(uroot, rtree)])
        ml = None
        if rcm == 0 and om and om[0].startswith("0 "):
            ml = unhx(om[0].split(" ", 1)[1])
        cnt["listing"] = 1
        if ml != listing:
            k = 0 if ml is None else next((i for i, (a, b) in enumerate(zip(ml, listing)) if a != b), min(len(ml), len(listing)))
            res.append(("tie-contents:location:" + variant,
                        "the listing rdsquashfs --describe%s printed differs from DescribeModel.describe (location = unpack root, '/', "
                        "path as ONE token) at byte %d: tool %r model %r" % (" -p %r" % uroot if uroot is not None else "", k,
                                                                             listing[max(0, k - 30):k + 30], None if ml is None else ml[max(0, k - 30):k + 30]), True))
    # ---- gensquashfs --pack-file under the open() logger ----
    img2 = os.path.join(wd, "b.sqfs")
    log = os.path.join(wd, "open.log")
    env = dict(ENV, LD_PRELOAD=shim, C16_OPENLOG=log, ASAN_OPTIONS="detect_leaks=0:verify_asan_link_order=0")
    cmd = [tools["gensquashfs"], "-q", "-f", "-b", str(CBS)] + (["-D", opt_d] if opt_d is not None else []) + ["--pack-file", pack_arg, fsb(os.path.realpath(img2))]
    try:
        r = subprocess.run(cmd, cwd=cwd_g, stdout=subprocess.PIPE, stderr=subprocess.PIPE, env=env, timeout=120)
        rc, err = r.returncode, r.stderr
    except subprocess.TimeoutExpired:
        rc, err = 124, b"timeout"
    opens = []
    if os.path.exists(log):
        for l in open(log).read().split("\n"):
            w = l.split()
            if len(w) == 5 and w[0] in ("O", "C"):
                opens.append((w[0], int(w[1]), unhx(w[2]), unhx(w[3]), int(w[4])))
    # what the model says gensquashfs opens: asked after all cycles ran (one driver process)
    paths = sorted(data)
    pend.update(line=host_line(pack_arg, opt_d, cwd_g, W, unp, listing, paths), variant=variant, paths=paths, data=data, opens=opens,
                pack_arg=pack_arg, cwd_g=cwd_g, rc=rc)
    if rc != 0:
        msg = err.decode("utf-8", "replace")
        res.append(("contents:reject:" + variant, "gensquashfs --pack-file fails on (describe listing, unpacked files): " + msg.strip()[-300:], False))
        return res, cnt
    # ---- the bytes of every regular file of the re-packed image ----
    got2, e = list_image(tools, img2, wd)
    if got2 is None:
        res.append(("contents:list2:" + variant, e, False))
        return res, cnt
    for q, (d, cls) in sorted(data.items()):
        p = b"/".join(q)
        ent = got2.get(p)
        cnt["files"] += 1
        cnt["bytes"] += len(d)
        if ent is None or ent[0] != "file" or ent[4] != hashlib.sha256(d).hexdigest():
            res.append(("contents:differs:%s:%s" % (cls, variant), "the re-packed image does not hold the unpacked bytes of %r (%s, %d bytes, "
                        "sha256 %s): %r" % (p, cls, len(d), hashlib.sha256(d).hexdigest()[:16], ent), False))
            break
    # one file also through rdsquashfs --cat (the data reader without sqfs2tar in between)
    if data:
        q, (d, cls) = sorted(data.items(), key=lambda kv: -len(kv[1][0]))[0]
        rc, out, err = run_tool([tools["rdsquashfs"], "-c", b"/".join(q), img2])
        if rc != 0 or out != d:
            res.append(("contents:cat:%s:%s" % (cls, variant), "rdsquashfs --cat %r on the re-packed image: rc %d, %d bytes, expected %d" % (
                b"/".join(q), rc, len(out), len(d)), False))
    if set(p for p, v in got2.items() if v[0] == "file") != set(b"/".join(q) for q in data):
        res.append(("contents:fileset:" + variant, "the regular files of the re-packed image are not those of the described tree", False))
    return res, cnt


def tool_trees(ctx, rnd, names):
    """trees for the tool level: every quoting-relevant byte in first/middle/last position, all types but sockets
    come from the tar (sockets cannot), modest size."""
    trees = []
    n_img = 8 if ctx.tier == "quick" else 60
    pool = [n for n in names if len(n) <= 60 and all(0x01 <= c for c in n)]
    # names must be creatable on the host file system when unpacked: no restriction beyond NUL and '/'
    per = 120 if ctx.tier == "quick" else 250
    must = [b" lead", b"trail ", b"a\\ b", b"a\\\\ b", b"tab\there", b"cr\r", b"q\"uote", b"\"quoted\"", b"back\\slash", b"end\\",
            b"#hash", b"'single'", b"a b", b"\\", b"\"", b" ", b"\t", b"\r", b"\\\"", b"x\r", b"\ry"]
    for i in range(n_img):
        chunk = list(must) + rnd.sample(pool, min(per, len(pool)))
        root = Node(b"", S_IFDIR | rnd.choice([0o755, 0o700, 0o1777]), rnd.choice([0, 1000]), rnd.choice([0, 100]))
        dirs = [root]
        for nm in chunk:
            parent = rnd.choice(dirs[-3:])
            if any(c.name == nm for c in parent.children):
                continue
            e = make_entry(rnd, nm, chunk, kind=rnd.choice(["file", "file", "file", "slink", "slink", "dir", "chr", "blk", "pipe"]))
            # keep ids below 2^21 so that every tar flavour stores them in the plain octal field
            e.uid %= 2000000
            e.gid %= 2000000
            if (e.mode & S_IFMT) == S_IFLNK and not e.target:
                e.target = b"x"      # symlink(2) refuses an empty target: cannot be unpacked on the host
            parent.children.append(e)
            if (e.mode & S_IFMT) == S_IFDIR:
                dirs.append(e)
        trees.append(root)
    return trees


# --------------------------------------------------------------------------
def run(ctx):
    if GEN_ERROR:
        ctx.proof_broken.append("C16/GenC16.v: " + GEN_ERROR)
    info = B.build("asan")
    hd = B.compile_harness(info, [os.path.join(HERE, "h_describe.c")], "h_c16_describe")
    hp = B.compile_harness(info, [os.path.join(HERE, "h_parse.c")], "h_c16_parse")
    with core.Lock("extract-C16"):
        drv = core.build_model_driver("C16", "ExtractC16.v", os.path.join(HERE, "driver.ml"))
    ctx.log("build done")
    ctx.trusted += ["props/C16/h_describe.c, h_parse.c (tree construction / stdout capture / call interception glue), props/C16/driver.ml",
                    "glibc major()/minor()/makedev() as modelled by major32/minor32/makedev (re-checked by the tie)",
                    "tool-level oracle: python tarfile reading sqfs2tar output; tar2sqfs building the input images",
                    "ASan/UBSan verdict on harness and tool runs"]
    ctx.assumptions += [
        "entry names, symlink targets and the unpack root contain no NUL and no newline (names additionally no '/', not '.', '..'); "
        "mode = one of the 7 inode types + 12 permission bits; uid/gid/devno < 2^32",
        "the theorem is parametric in the tree behind fstree_add_generic: that replaying the calls of a tree in describe order "
        "on an empty fstree rebuilds it is checked on the implementation (component and tool oracle), not proved here",
        "symlink permission bits other than 0777 cannot be represented by gensquashfs at all (mknode forces 0777); oracles use 0777",
        "gensquashfs run with default options (no --set-uid/--set-gid/--all-root), listing without glob lines",
    ]
    rnd = random.Random(ctx.seed * 7919 + 16)

    # ---------------- cases ----------------
    replay = None
    if ctx.replay:
        replay = json.load(open(ctx.replay))
    if replay is not None:
        d_cases, trees_for_oracle, p_cases, t_trees = [], [], [], []
        c_cases = [replay["contents_case"]] if replay.get("contents_case") is not None else []
        if replay.get("tree") is not None:
            ur = replay.get("uroot")
            ur = None if ur is None else bytes.fromhex(ur)
            t = Node.from_json(replay["tree"])
            if replay.get("kind") == "tool":
                t_trees = [t]
            else:
                d_cases.append((ur, t))
                trees_for_oracle.append((ur, t))
        for c in replay.get("cases", []):
            if c.startswith(("P", "F")):
                p_cases.append(c)
            else:
                ur, t = parse_dcase(c)
                d_cases.append((ur, t))
                if tree_is_wf(ur, t):
                    trees_for_oracle.append((ur, t))
        rule = "replay of " + os.path.basename(ctx.replay)
    else:
        names = gen_names(ctx, rnd)
        trees = build_trees(ctx, rnd, names)
        d_cases = []
        trees_for_oracle = []
        for i, t in enumerate(trees):
            ur = UROOTS[i % len(UROOTS)]
            d_cases.append((ur, t))
            trees_for_oracle.append((ur, t))
        for t in malformed_trees(rnd):
            for ur in (None, b"/r"):
                d_cases.append((ur, t))
        # a few trees whose symlinks carry odd permission bits (printer tie only)
        for _ in range(20):
            t = Node(b"", S_IFDIR | 0o755, children=[make_entry(rnd, rnd.choice(names), names, "slink", True) for _ in range(5)])
            d_cases.append((rnd.choice(UROOTS), t))
        p_cases = None
        t_trees = tool_trees(ctx, rnd, names)
        c_cases = gen_contents_cases(ctx, random.Random(ctx.seed * 104729 + 1616))
        rule = ("names/targets: all strings over {space,tab,dquote,backslash,CR,'a','#'} up to length %d; every byte 1..255 except "
                "'/' and newline as first/middle/last/only character; %d random names (<=120 bytes) over a quoting-heavy alphabet; "
                "packed %d to a tree over all 7 inode types x 15 unpack roots (two ending in '/'); %d malformed trees; parser: %d hand-made boundary "
                "listings + model listings + seeded mutations + token soup, buffer sizes 1..4096; seed %d; non-trivial = the case "
                "contains a character from {space,tab,dquote,backslash,CR} or reaches an error branch"
                % (5 if ctx.tier == "quick" else 6, 4000 if ctx.tier == "quick" else 100000, 40, len(malformed_trees(rnd)), 735, ctx.seed))

    ctx.log("cases generated: %d describe cases, %d tool trees" % (len(d_cases), len(t_trees)))
    # ---------------- printer tie ----------------
    d_lines = [c if isinstance(c, str) else dcase(*c) for c in d_cases]
    rc_c, out_c, err_c = run_lines(hd, d_lines) if d_lines else (0, [], "")
    rc_m, out_m, err_m = run_lines(drv, d_lines) if d_lines else (0, [], "")
    tie_print_bad = []
    if rc_c != 0:
        idx = min(len(out_c), len(d_lines) - 1)
        ctx.violation("crash:describe", "describe_tree harness died (rc=%d) on case %d: %s" % (rc_c, idx, err_c[-500:]),
                      dict(cases=[d_lines[idx]], stderr=err_c[-3000:]))
    nontrivial = 0
    for i, l in enumerate(d_lines):
        a = out_c[i] if i < len(out_c) else "<none>"
        b = out_m[i] if i < len(out_m) else "<none>"
        if a != b:
            tie_print_bad.append(i)
        if re.search(r"(20|09|22|5c|0d)", l):
            nontrivial += 1
    listings = []
    for i, l in enumerate(out_m):
        p = l.split(" ", 1)
        if len(p) == 2 and p[0] == "0":
            listings.append(unhx(p[1]))
    ctx.coverage["printer_cases"] = len(d_lines)

    ctx.log("printer tie done (%d mismatches)" % len(tie_print_bad))
    # ---------------- parser tie ----------------
    if p_cases is None:
        p_cases = gen_pack_files(ctx, rnd, listings)
    p_lines = [c for c in p_cases if c.startswith("P")]
    rc_c2, pout_c, perr_c = run_lines(hp, p_lines) if p_lines else (0, [], "")
    rc_m2, pout_m, perr_m = run_lines(drv, p_lines) if p_lines else (0, [], "")
    tie_parse_bad = []
    if rc_c2 != 0:
        idx = min(len(pout_c), len(p_lines) - 1)
        ctx.violation("crash:parser", "fstree_from_file_stream harness died (rc=%d) on case %d: %s" % (rc_c2, idx, perr_c[-500:]),
                      dict(cases=[p_lines[idx]], stderr=perr_c[-3000:]))
    errs = 0
    for i, l in enumerate(p_lines):
        a = pout_c[i] if i < len(pout_c) else "<none>"
        b = pout_m[i] if i < len(pout_m) else "<none>"
        if a != b:
            tie_parse_bad.append(i)
        if a.startswith("-1"):
            errs += 1
    ctx.coverage["parser_cases"] = len(p_lines)
    ctx.coverage["evaluations"] = len(d_lines) + len(p_lines)
    ctx.coverage["distinct_nontrivial"] = nontrivial + errs
    ctx.coverage["traces_validated_against_impl"] = len(d_lines) + len(p_lines) - len(tie_print_bad) - len(tie_parse_bad)
    ctx.coverage["rule"] = rule
    ctx.coverage["distribution"] = dict(printer_cases=len(d_lines), printer_cases_with_quoting_chars=nontrivial,
                                        parser_cases=len(p_lines), parser_cases_rejected=errs,
                                        listings_fed_to_parser=len(listings))
    if d_lines:
        k = len(d_lines) // 2
        ctx.add_samples([dict(case=d_lines[k][:300], impl=(out_c[k] if k < len(out_c) else "")[:300], model=(out_m[k] if k < len(out_m) else "")[:300])])
    if p_lines:
        for k in (3, len(p_lines) // 2):
            if k < len(p_lines):
                ctx.add_samples([dict(case=p_lines[k][:300], impl=(pout_c[k] if k < len(pout_c) else "")[:300], model=(pout_m[k] if k < len(pout_m) else "")[:300])])

    # ---------------- fstree tie: the same pack files applied to the real fstree / to FsModel ----------------
    f_lines = ["F" + l[1:] for l in p_lines if "676c6f62" not in l] + [c for c in p_cases if c.startswith("F")]
    rc_c3, fout_c, ferr_c = run_lines(hp, f_lines) if f_lines else (0, [], "")
    rc_m3, fout_m, ferr_m = run_lines(drv, f_lines) if f_lines else (0, [], "")
    tie_fs_bad = []
    fs_ok = 0
    if rc_c3 != 0:
        idx = min(len(fout_c), len(f_lines) - 1)
        ctx.violation("crash:fstree", "fstree harness died (rc=%d) on case %d: %s" % (rc_c3, idx, ferr_c[-500:]),
                      dict(cases=[f_lines[idx]], stderr=ferr_c[-3000:]))
    for i, l in enumerate(f_lines):
        a = (fout_c[i] if i < len(fout_c) else "<none>").split(" ", 2)
        b = (fout_m[i] if i < len(fout_m) else "<none>").split(" ", 2)
        if a[0] != b[0]:
            tie_fs_bad.append(i)
        elif a[0] == "0":
            fs_ok += 1
            if sorted((a + ["", ""])[2].split(";")) != sorted((b + ["", ""])[2].split(";")):
                tie_fs_bad.append(i)
    ctx.coverage["fstree_cases"] = len(f_lines)
    ctx.coverage["fstree_cases_accepted"] = fs_ok
    ctx.coverage["evaluations"] += len(f_lines)
    ctx.coverage["traces_validated_against_impl"] += len(f_lines) - len(tie_fs_bad)
    ctx.log("parser tie done: %d cases (%d mismatches); fstree tie: %d cases (%d mismatches)" % (
        len(p_lines), len(tie_parse_bad), len(f_lines), len(tie_fs_bad)))
    # ---------------- search: component oracle (always; it is cheap) ----------------
    seen = set()
    comp_checked = 0
    comp_failed = 0
    broke = bool(tie_print_bad or tie_parse_bad or tie_fs_bad or ctx.proof_broken)
    if trees_for_oracle:
        # batch: describe all, then parse all in F mode
        dl = [dcase(ur, t) for ur, t in trees_for_oracle]
        rc, outs, err = run_lines(hd, dl)
        fl = []
        for i, (ur, t) in enumerate(trees_for_oracle):
            o = outs[i] if i < len(outs) else "-1 ="
            ret, listing = (o.split(" ", 1) + ["="])[:2]
            fl.append(pcase(unhx(listing) if ret == "0" else b"\"", mode="F"))
        rc2, fouts, ferr = run_lines(hp, fl)
        for i, (ur, t) in enumerate(trees_for_oracle):
            comp_checked += 1
            ok = False
            if i < len(outs) and outs[i].startswith("0 ") and i < len(fouts):
                try:
                    pret, got = parse_dump(fouts[i])
                    ok = pret == 0 and diff_entries(fstree_view(expected_entries(ur, t)), got) is None
                except (ValueError, IndexError):
                    ok = False
            if not ok:
                comp_failed += 1
                if len(seen) < 8:
                    res = component_oracle(hd, hp, ur, t) or ("differs", "batch", {})
                    report_component(ctx, hd, hp, ur, t, res, seen)
    ctx.coverage["component_oracle_trees"] = comp_checked
    ctx.coverage["component_oracle_failed"] = comp_failed

    ctx.log("component oracle done: %d trees, %d failed" % (comp_checked, comp_failed))
    # ---------------- search: tool level ----------------
    tool_runs = 0
    tool_bad = 0
    imgleg = None
    try:
        with core.Lock("extract-C16img"):
            imgleg = ImageLeg(core.build_model_driver("C16img", "ExtractC16Img.v", os.path.join(HERE, "driver_img.ml")))
    except RuntimeError as ex:
        ctx.proof_broken.append("extraction of the composed model (ExtractC16Img.v) failed: %s" % (str(ex)[-600:],))
    for i, t in enumerate(t_trees):
        wd = os.path.join(ctx.scratch, "tool%d" % i)
        uname = ["unp", "un pack", "u\\n\"p\tack", "unp"][i % 4]
        res = tool_oracle(ctx, info["tools"], t, uname, wd, imgleg)
        tool_runs += 1
        shutil.rmtree(wd, ignore_errors=True)
        if res is None:
            continue
        if isinstance(res, tuple):
            res = [res]
        tool_bad += 1
        for sig, what, detail in res:
            if sig in seen:
                continue
            seen.add(sig)
            if sig.startswith("tool:setup"):
                ctx.notes.append("tool oracle could not set up its input: " + what)
                continue
            ctx.violation(sig, what, dict(kind="tool", uroot=None, unpack_dir_name=uname, tree=t.to_json(), **detail))
    ctx.log("tool oracle done: %d round trips, %d failed" % (tool_runs, tool_bad))
    ctx.coverage["tool_roundtrips"] = tool_runs
    ctx.coverage["tool_roundtrips_failed"] = tool_bad
    if imgleg is not None:
        ctx.log("image level tie: %d round trips, listing predicted byte for byte in %d, tables predicted byte for byte in %d "
                "(%d bytes), %d with multi-block tables skipped, %d broken"
                % (imgleg.runs, imgleg.listings_equal, imgleg.tables_exact, imgleg.table_bytes, imgleg.tables_skipped, len(imgleg.fails)))
        ctx.coverage["image_tie"] = dict(roundtrips=imgleg.runs, listings_equal=imgleg.listings_equal, tables_exact=imgleg.tables_exact,
                                         table_bytes=imgleg.table_bytes, tables_skipped=imgleg.tables_skipped, broken=len(imgleg.fails))
        ctx.trusted.append("props/C16/driver_img.ml; vlib/sqfsimg.py (reads the tree of the first image and the tables of the second)")
        kinds = set()
        for kind, what, detail in imgleg.fails:
            if kind in kinds:
                continue
            kinds.add(kind)
            ctx.tie_broken.append("image:" + kind)
            ctx.violation("tie-image:" + kind, "correspondence coq/ImgDescribe (composed model) vs rdsquashfs --describe | gensquashfs "
                          "--pack-file broken: " + what, dict(kind="tool", correspondence="props/C16 image level tie", **detail),
                          no_input=True)

    # ---------------- contents leg: describe + unpack -> pack file, bytes of every file; location / open() tie ----------------
    if c_cases:
        shim = os.path.join(ctx.scratch, "shim_open16.so")
        cc = subprocess.run(["gcc", "-shared", "-fPIC", "-O1", "-w", "-o", shim, os.path.join(HERE, "shim_open.c"), "-ldl"],
                            stdout=subprocess.PIPE, stderr=subprocess.PIPE)
        if cc.returncode != 0:
            ctx.proof_broken.append("props/C16/shim_open.c does not compile: " + cc.stderr.decode("utf-8", "replace")[-300:])
        else:
            tot = dict(files=0, bytes=0, opens=0, listing=0)
            cbad = 0
            hdrv, herr = None, None
            try:
                hdrv = core.build_model_driver("C16host", "ExtractC16Host.v", os.path.join(HERE, "driver_host.ml"))
            except RuntimeError as ex:
                herr = str(ex)
                ctx.proof_broken.append("coq/Extract/ExtractC16Host.v / props/C16/driver_host.ml do not build: " + herr[-300:])
            done = []
            for i, case in enumerate(c_cases):
                wd = os.path.join(ctx.scratch, "cont%d" % i)
                pend = {}
                try:
                    res, cnt = contents_case(ctx, info["tools"], shim, drv, imgleg, case, wd, pend)
                except (sqfsimg.ParseError, OSError, ValueError, IndexError) as ex:
                    res, cnt = [("tie-contents:machinery", "contents leg could not be evaluated: %r" % (ex,), True)], {}
                done.append((case, wd, res, cnt, pend))
            # the extracted HostModel on all cycles at once (the unpacked files stay until its answers are compared)
            asked = [j for j, dn in enumerate(done) if dn[4].get("line")]
            hout = []
            if hdrv is not None and asked:
                rch, hout, eh = run_lines(hdrv, [done[j][4]["line"] for j in asked])
                if rch != 0 or len(hout) != len(asked):
                    ctx.proof_broken.append("the extracted HostModel driver failed (rc %d, %d of %d answers): %s" % (rch, len(hout), len(asked), eh[-200:]))
                    hout = []
            for k, j in enumerate(asked):
                case, wd, res, cnt, pend = done[j]
                if k < len(hout):
                    try:
                        r2, n = contents_model_check(pend, hout[k])
                    except (OSError, ValueError, IndexError) as ex:
                        r2, n = [("tie-contents:machinery", "contents leg could not be evaluated: %r" % (ex,), True)], 0
                    # the tie results first (as before: where the files are looked for, then what the tool said)
                    res[:] = r2 + res
                    cnt["opens"] = n
            for case, wd, res, cnt, pend in done:
                shutil.rmtree(wd, ignore_errors=True)
                for k in tot:
                    tot[k] += cnt.get(k, 0)
                if res:
                    cbad += 1
                for sig, what, no_input in res:
                    if sig in seen:
                        continue
                    seen.add(sig)
                    if no_input:
                        ctx.tie_broken.append("contents:" + sig.split(":")[1])
                    ctx.violation(sig, what, dict(kind="contents", contents_case=case,
                                                  correspondence="props/C16 contents leg: coq/ImgDescribe/HostModel.v (packdir_of, gens_dir, input_path over the "
                                                                 "modelled parser, at_cwd; extracted, coq/Extract/ExtractC16Host.v) vs "
                                                                 "rdsquashfs --describe / gensquashfs pack_files"), no_input=no_input)
            ctx.log("contents leg: %d cycles (%d failed), %d regular files / %d bytes compared by sha256, %d listings equal to the model's "
                    "candidate, %d open() calls compared with the extracted model's resolution" % (len(c_cases), cbad, tot["files"], tot["bytes"],
                                                                                         tot["listing"], tot["opens"]))
            ctx.coverage["contents_leg"] = dict(cycles=len(c_cases), failed=cbad, files=tot["files"], bytes=tot["bytes"],
                                                listings=tot["listing"], opens=tot["opens"], variants=C_VARIANTS, classes=C_CLASSES)
            ctx.coverage["evaluations"] += tot["files"] + tot["opens"]
            ctx.trusted.append("props/C16/shim_open.c (LD_PRELOAD open()/chdir() logger), Coq extraction of HostModel.v's packdir_of / gens_dir / "
                               "input_path / at_cwd / unpack_dir (coq/Extract/ExtractC16Host.v, ExtrOcamlBasic) + props/C16/driver_host.ml, "
                               "os.path.realpath/samefile")
            ctx.assumptions.append("describe_repack_contents: the host file system between rdsquashfs and gensquashfs is a finite map from "
                                   "path strings to bytes, relative paths resolved textually against the working directory (no symlinks, "
                                   "no '//' / '.' / '..' normalisation); checked on real files by the contents leg (samefile + sha256)")

    # ---------------- tie broken => say so (the searches above have already run) ----------------
    concrete = any(not v["no_input"] for v in ctx.violations)
    if tie_print_bad:
        i = tie_print_bad[0]
        ctx.tie_broken.append("printer")
        # does the implementation behave like the code before the repair?
        sub = tie_print_bad[:200]
        rc_o, out_o, _ = run_lines(drv, ["O" + d_lines[j][1:] for j in sub])
        if rc_o == 0 and all(k < len(out_o) and j < len(out_c) and out_o[k] == out_c[j] for k, j in enumerate(sub)):
            ctx.notes.append("describe.c of the working tree agrees with DescribeOld.v (the code before props/C16/fixes/F10-describe-escaping.patch "
                             "and F10b-describe-root-attributes.patch) on all %d compared mismatching cases: the fixes are not applied" % len(sub))
        ctx.violation("tie-describe", "correspondence describe (model, repaired code) vs describe.c broken on %d of %d cases; first: impl=%s model=%s%s" % (
            len(tie_print_bad), len(d_lines), (out_c[i] if i < len(out_c) else "<none>")[:120], (out_m[i] if i < len(out_m) else "<none>")[:120],
            "" if concrete else " (the property oracles found no failing input)"),
            dict(cases=[d_lines[j] for j in tie_print_bad[:5]], impl=out_c[i] if i < len(out_c) else None, model=out_m[i] if i < len(out_m) else None,
                 correspondence="props/C16: DescribeModel.describe = describe_tree() of bin/rdsquashfs/src/describe.c (exact, stdout bytes + return value)"),
            no_input=True)
    if tie_parse_bad:
        i = tie_parse_bad[0]
        ctx.tie_broken.append("parser")
        ctx.violation("tie-parse", "correspondence fstree_from_file_stream (model) vs fstree_from_file.c/split_line.c/get_line.c/parse_int.c broken on %d of %d cases; first: impl=%s model=%s%s" % (
            len(tie_parse_bad), len(p_lines), (pout_c[i] if i < len(pout_c) else "<none>")[:120], (pout_m[i] if i < len(pout_m) else "<none>")[:120],
            "" if concrete else " (the property oracles found no failing input)"),
            dict(cases=[p_lines[j] for j in tie_parse_bad[:5]], impl=pout_c[i] if i < len(pout_c) else None, model=pout_m[i] if i < len(pout_m) else None,
                 correspondence="props/C16: ParseModel.fstree_from_file_stream = fstree_from_file_stream() (exact: return value + sequence of fstree_add_generic/glob_files calls)"),
            no_input=True)


    if tie_fs_bad:
        i = tie_fs_bad[0]
        ctx.tie_broken.append("fstree")
        ctx.violation("tie-fstree", "correspondence FsModel.fs_add vs fstree_add_generic (lib/fstree/src/fstree.c) broken on %d of %d pack files; first: impl=%s model=%s%s" % (
            len(tie_fs_bad), len(f_lines), (fout_c[i] if i < len(fout_c) else "<none>")[:160], (fout_m[i] if i < len(fout_m) else "<none>")[:160],
            "" if concrete else " (the property oracles found no failing input)"),
            dict(cases=[f_lines[j] for j in tie_fs_bad[:5]], impl=fout_c[i] if i < len(fout_c) else None, model=fout_m[i] if i < len(fout_m) else None,
                 correspondence="props/C16: fstree_from_file_stream over FsModel.fs_add = the fstree after fstree_from_file_stream() (verdict; on success the set of "
                                "(path, mode, uid, gid, devno, implicit flag, target/input file))"),
            no_input=True)


def setup():
    core.build_model_driver("C16", "ExtractC16.v", os.path.join(HERE, "driver.ml"))
    core.build_model_driver("C16host", "ExtractC16Host.v", os.path.join(HERE, "driver_host.ml"))
