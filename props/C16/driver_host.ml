(* C16 model driver, contents leg (coq/ImgDescribe/HostModel.v, extracted by coq/Extract/ExtractC16Host.v).
   One case per line, strings hex encoded ("=" the empty string, "-" an absent option):
     H <pack file name> <-D option|-> <start cwd of gensquashfs> <cwd of rdsquashfs> <--unpack-path option|-> <listing> <node path>*
   a node path is its components joined by ','.  Result line:
     <packdir_of|-> <gens_dir|!> <unpack_dir> P <parse rc> {<input_path|!> <at_cwd gens_dir input_path|!> <at_cwd unpack_dir (join path)>}*
   packdir_of: the argument of the chdir() of pack_files ("-": no chdir); gens_dir: the directory it then works in ("!": the
   chdir fails); input_path: the path argument of sqfs_native_file_open for the node at that tree path, in the fstree the
   modelled parser (ParseModel.fstree_from_file_stream over RepackModel.do_add) builds from the listing ("!": no such node). *)
open C16host_model

let rec pos_of_int i = if i = 1 then XH else if i land 1 = 1 then XI (pos_of_int (i lsr 1)) else XO (pos_of_int (i lsr 1))
let n_of_int i = if i = 0 then N0 else Npos (pos_of_int i)
let rec int_of_pos = function XH -> 1 | XO p -> 2 * int_of_pos p | XI p -> 2 * int_of_pos p + 1
let int_of_n = function N0 -> 0 | Npos p -> int_of_pos p

let unhex s =
  if s = "=" then [] else
  let n = String.length s / 2 in
  List.init n (fun i -> n_of_int (int_of_string ("0x" ^ String.sub s (2*i) 2)))
let hex l =
  let b = Buffer.create 64 in
  List.iter (fun c -> Buffer.add_string b (Printf.sprintf "%02x" (int_of_n c))) l;
  if Buffer.length b = 0 then "=" else Buffer.contents b
let opt s = if s = "-" then None else Some (unhex s)
let hexo none = function Some l -> hex l | None -> none

let () =
  try
    while true do
      let line = input_line stdin in
      let toks = List.filter (fun s -> s <> "") (String.split_on_char ' ' line) in
      (match toks with
       | "H" :: pack :: optd :: cwd :: ucwd :: unp :: listing :: paths ->
         let pack = unhex pack and cwd = unhex cwd and optd = opt optd in
         let d = { fd_uid = N0; fd_gid = N0; fd_mtime = N0; fd_perm = n_of_int 493 } in
         let (fs, err) = fstree_from_file_stream (do_add d) default_options (fs_init d) (unhex listing) in
         let root = fs_root fs in
         let pcwd = gens_dir cwd optd pack in
         let udir = unpack_dir (unhex ucwd) (opt unp) in
         let b = Buffer.create 1024 in
         Buffer.add_string b (Printf.sprintf "%s %s %s P %d" (hexo "-" (packdir_of optd pack)) (hexo "!" pcwd) (hex udir)
                                (match err with None -> 0 | Some _ -> -1));
         List.iter (fun p ->
             let q = List.map unhex (String.split_on_char ',' p) in
             let ip = input_path root q in
             let ab = match pcwd, ip with Some c, Some l -> Some (at_cwd c l) | _ -> None in
             Buffer.add_string b (Printf.sprintf " %s %s %s" (hexo "!" ip) (hexo "!" ab) (hex (at_cwd udir (join q))))) paths;
         print_endline (Buffer.contents b)
       | _ -> print_endline "BADCASE")
    done
  with End_of_file -> ()
