/* LD_PRELOAD logger for the C16 contents leg: every open()/open64()/openat()/chdir() of the process is appended to
 * $C16_OPENLOG as one line
 *     O <flags> <hex of getcwd()> <hex of the path argument> <result: fd >= 0 ? 0 : errno>
 *     C <hex of getcwd() before> <hex of the path argument> <result>
 * The call itself is forwarded unchanged. */
#define _GNU_SOURCE
#include <dlfcn.h>
#include <fcntl.h>
#include <stdarg.h>
#include <stdio.h>
#include <stdlib.h>
#include <string.h>
#include <unistd.h>
#include <errno.h>
#include <limits.h>

static void hex(char *dst, const char *s)
{
	static const char *d = "0123456789abcdef";
	if (*s == '\0') {
		*dst++ = '=';
	}
	for (; *s; ++s) {
		*dst++ = d[((unsigned char)*s) >> 4];
		*dst++ = d[((unsigned char)*s) & 15];
	}
	*dst = '\0';
}

static void logline(char kind, int flags, const char *cwd0, const char *path, int res)
{
	const char *lf = getenv("C16_OPENLOG");
	char cwd[PATH_MAX], line[3 * PATH_MAX * 2 + 64], *p = line;
	int saved = errno, fd;
	int (*real_open)(const char *, int, ...) = dlsym(RTLD_NEXT, "open");

	if (lf == NULL || path == NULL || strlen(path) >= PATH_MAX)
		return;
	if (cwd0 != NULL && strlen(cwd0) < PATH_MAX)
		strcpy(cwd, cwd0);
	else if (getcwd(cwd, sizeof(cwd)) == NULL)
		strcpy(cwd, "?");
	p += sprintf(p, "%c %d ", kind, flags);
	hex(p, cwd);
	p += strlen(p);
	*p++ = ' ';
	hex(p, path);
	p += strlen(p);
	p += sprintf(p, " %d\n", res);
	fd = real_open(lf, O_WRONLY | O_APPEND | O_CREAT, 0644);
	if (fd >= 0) {
		if (write(fd, line, p - line) < 0) {
		}
		close(fd);
	}
	errno = saved;
}

int open(const char *path, int flags, ...)
{
	int (*real_open)(const char *, int, ...) = dlsym(RTLD_NEXT, "open");
	mode_t mode = 0;
	int fd;

	if (flags & (O_CREAT | O_TMPFILE)) {
		va_list ap;
		va_start(ap, flags);
		mode = va_arg(ap, mode_t);
		va_end(ap);
	}
	fd = real_open(path, flags, mode);
	logline('O', flags, NULL, path, fd >= 0 ? 0 : errno);
	return fd;
}

int open64(const char *path, int flags, ...)
{
	int (*real_open)(const char *, int, ...) = dlsym(RTLD_NEXT, "open64");
	mode_t mode = 0;
	int fd;

	if (flags & (O_CREAT | O_TMPFILE)) {
		va_list ap;
		va_start(ap, flags);
		mode = va_arg(ap, mode_t);
		va_end(ap);
	}
	fd = real_open(path, flags, mode);
	logline('O', flags, NULL, path, fd >= 0 ? 0 : errno);
	return fd;
}

int openat(int dirfd, const char *path, int flags, ...)
{
	int (*real_openat)(int, const char *, int, ...) = dlsym(RTLD_NEXT, "openat");
	mode_t mode = 0;
	int fd;

	if (flags & (O_CREAT | O_TMPFILE)) {
		va_list ap;
		va_start(ap, flags);
		mode = va_arg(ap, mode_t);
		va_end(ap);
	}
	fd = real_openat(dirfd, path, flags, mode);
	if (dirfd == AT_FDCWD)
		logline('O', flags, NULL, path, fd >= 0 ? 0 : errno);
	return fd;
}

int chdir(const char *path)
{
	int (*real_chdir)(const char *) = dlsym(RTLD_NEXT, "chdir");
	char cwd[PATH_MAX];
	int ret, saved;

	/* logged with the directory BEFORE the call */
	if (getcwd(cwd, sizeof(cwd)) == NULL)
		strcpy(cwd, "?");
	ret = real_chdir(path);
	saved = errno;
	logline('C', 0, cwd, path, ret == 0 ? 0 : saved);
	errno = saved;
	return ret;
}
