(* C16 model driver, image leg.  One case per line:
     R <uroot|-> <def uid> <def gid> <def mtime> <def perm> <nfb> {<path> <ext> <start> <size> <sparse> <fidx> <foff> <n> <sizes>*} <tree>
   <tree> as in driver.ml (name mode uid gid target devno ext nchildren children...), hex strings with "=" for empty.
   Result line:  <describe rc> <listing hex> <parse rc> <post rc> T <itbl hex> D <dtbl hex> Q <ids,> Y <root ref>
   The tables are those of ImgScan.pp_tables on the tree the listing builds (metadata stored uncompressed). *)
open C16img_model

let rec pos_of_int i = if i = 1 then XH else if i land 1 = 1 then XI (pos_of_int (i lsr 1)) else XO (pos_of_int (i lsr 1))
let n_of_int i = if i = 0 then N0 else Npos (pos_of_int i)
let rec int_of_pos = function XH -> 1 | XO p -> 2 * int_of_pos p | XI p -> 2 * int_of_pos p + 1
let int_of_n = function N0 -> 0 | Npos p -> int_of_pos p
let int_of_z = function Z0 -> 0 | Zpos p -> int_of_pos p | Zneg p -> - (int_of_pos p)

let n_of_dec s =
  let r = ref N0 in
  String.iter (fun c -> r := N.add (N.mul !r (n_of_int 10)) (n_of_int (Char.code c - 48))) s; !r

let unhex s =
  if s = "=" then [] else
  let n = String.length s / 2 in
  List.init n (fun i -> n_of_int (int_of_string ("0x" ^ String.sub s (2*i) 2)))
let hex l =
  let b = Buffer.create 64 in
  List.iter (fun c -> Buffer.add_string b (Printf.sprintf "%02x" (int_of_n c))) l;
  if Buffer.length b = 0 then "=" else Buffer.contents b

let rec build toks =
  match toks with
  | name :: mode :: uid :: gid :: target :: devno :: _ext :: nch :: rest ->
    let cnt = int_of_string nch in
    let rec kids k rest acc =
      if k = 0 then (List.rev acc, rest)
      else let (c, rest') = build rest in kids (k - 1) rest' (c :: acc) in
    let (cs, rest') = kids cnt rest [] in
    (TNode0 (unhex name, n_of_dec mode, n_of_dec uid, n_of_dec gid, unhex target, n_of_dec devno, cs), rest')
  | _ -> failwith "bad tree"

(* '/'-joined path -> components *)
let split_path (s : string) : n list list =
  if s = "=" then [] else
  let rec go cur acc = function
    | [] -> List.rev (List.rev cur :: acc)
    | c :: r -> if int_of_n c = 47 then go [] (List.rev cur :: acc) r else go (c :: cur) acc r in
  List.filter (fun c -> c <> []) (go [] [] (unhex s))

let rec take_fb k toks tbl =
  if k = 0 then toks else
  match toks with
  | p :: ext :: start :: size :: sparse :: fidx :: foff :: nb :: rest ->
    let n = int_of_string nb in
    let rec split i l acc = if i = 0 then (List.rev acc, l) else
        match l with x :: r -> split (i - 1) r (n_of_dec x :: acc) | [] -> failwith "bad fb" in
    let (bl, rest') = split n rest [] in
    let b = if ext = "1" then BFileX (n_of_dec start, n_of_dec size, n_of_dec sparse, n_of_int 1, n_of_dec fidx, n_of_dec foff, nOX, bl)
            else BFile (n_of_dec start, n_of_dec fidx, n_of_dec foff, n_of_dec size, bl) in
    Hashtbl.replace tbl (split_path p) b;
    take_fb (k - 1) rest' tbl
  | _ -> failwith "bad fb"

let () =
  try
    while true do
      let line = input_line stdin in
      let toks = List.filter (fun s -> s <> "") (String.split_on_char ' ' line) in
      (match toks with
       | "R" :: uroot :: duid :: dgid :: dmtime :: dperm :: nfb :: rest ->
         let ur = if uroot = "-" then None else Some (unhex uroot) in
         let d = { fd_uid = n_of_dec duid; fd_gid = n_of_dec dgid; fd_mtime = n_of_dec dmtime; fd_perm = n_of_dec dperm } in
         let tbl = Hashtbl.create 64 in
         let rest = take_fb (int_of_string nfb) rest tbl in
         let (t, _) = build rest in
         let (out, ok) = describe ur t in
         let (fs, err) = fstree_from_file_stream (do_add d) default_options (fs_init d) out in
         let b = Buffer.create 4096 in
         Buffer.add_string b (Printf.sprintf "%d %s %d" (if ok then 0 else -1) (hex out) (match err with None -> 0 | Some _ -> -1));
         (if ok && err = None then
            match post_process fs with
            | POk pp ->
              let fb p = match Hashtbl.find_opt tbl p with Some x -> x | None -> BFile (N0, nOX, nOX, N0, []) in
              (match pp_tables (toy_compress N0) c_id_table_limit fb (fun _ -> nOX) pp with
               | Ok0 tb ->
                 Buffer.add_string b (Printf.sprintf " 0 T %s D %s Q %s Y %d" (hex tb.tb_itbl) (hex tb.tb_dtbl)
                                        (String.concat "," (List.map (fun i -> string_of_int (int_of_n i)) tb.tb_ids))
                                        (int_of_n tb.tb_root))
               | Err0 e -> Buffer.add_string b (Printf.sprintf " 0 X err%d" (int_of_z e))
               | Crash -> Buffer.add_string b " 0 X crash"
               | OutOfFuel -> Buffer.add_string b " 0 X fuel")
            | _ -> Buffer.add_string b " -1");
         print_endline (Buffer.contents b)
       | _ -> print_endline "BADCASE")
    done
  with End_of_file -> ()
