/* C09 harness: threadpool_serial.c (the reference implementation) on client programs.
 * stdin : Q <caseid> <prog> <fails>          (prog over S D G X, fails "-" or id:status,...)
 * stdout: Q <caseid> <prog> <fails> | S=0,D=0:100,G=0,X=X, |
 */
#include "config.h"
#include "lib/util/src/threadpool_serial.c"
#include <stdio.h>

typedef struct { int id; int val; int ncb; } item_t;
static item_t items[64];
static int fail_st[64];

static int cb(void *user, void *work)
{
	item_t *it = work;
	(void)user;
	it->val += 100;
	it->ncb += 1;
	return fail_st[it->id];
}

int main(void)
{
	static char line[4096], cid[64], prog[256], fails[512];

	while (fgets(line, sizeof(line), stdin)) {
		thread_pool_t *pool;
		const char *p;
		int next_id = 0, i, destroyed = 0;

		if (sscanf(line, "Q %63s %255s %511s", cid, prog, fails) != 3)
			continue;
		memset(fail_st, 0, sizeof(fail_st));
		if (strcmp(fails, "-") != 0) {
			p = fails;
			while (*p) {
				char *e;
				long id = strtol(p, &e, 10), st = 0;
				if (*e == ':')
					st = strtol(e + 1, &e, 10);
				if (id >= 0 && id < 64)
					fail_st[id] = (int)st;
				if (*e != ',')
					break;
				p = e + 1;
			}
		}
		for (i = 0; i < 64; ++i) {
			items[i].id = i;
			items[i].val = i;
			items[i].ncb = 0;
		}
		pool = thread_pool_create_serial(cb);
		if (pool == NULL)
			continue;
		printf("Q %s %s %s | ", cid, prog, fails);
		for (p = prog; *p && !destroyed; ++p) {
			switch (*p) {
			case 'S':
				if (next_id < 64) {
					int r = pool->submit(pool, &items[next_id++]);
					printf("S=%d,", r);
				}
				break;
			case 'D': {
				item_t *it = pool->dequeue(pool);
				if (it == NULL)
					printf("D=N,");
				else
					printf("D=%d:%d,", it->id, it->val);
				break;
			}
			case 'G':
				printf("G=%d,", pool->get_status(pool));
				break;
			case 'X':
				pool->destroy(pool);
				destroyed = 1;
				printf("X=X,");
				break;
			}
		}
		if (!destroyed)
			pool->destroy(pool);
		printf(" |\n");
	}
	return 0;
}
