/* C09 search oracle on the real (unshimmed) pool with real threads.
 * Compiled together with lib/util/src/threadpool.c and alloc.c (optionally under TSan/ASan).
 * stdin : R <caseid> <nworkers> <prog> <fails> <seed> <mode>
 *         prog over S D G X (X last), fails "-" or id:status,..;
 *         mode 0 = callbacks with pseudo-random short delays (seeded),
 *         mode 1 = test_threadpool style: item i completes only after all later items (needs
 *                  nworkers >= number of items; completion order is the reverse of submission)
 * stdout: R <caseid> ... | <verdict> | S=0,D=0:100,...
 * A watchdog (alarm) turns a hang into "HANG" + exit code 3 (the case line is printed first).
 */
#define _GNU_SOURCE
#include "config.h"
#include "util/threadpool.h"

#include <pthread.h>
#include <sched.h>
#include <signal.h>
#include <stdio.h>
#include <stdlib.h>
#include <string.h>
#include <unistd.h>

#define MAX_ITEMS 64
#define MAX_W 16

typedef struct { int id; int val; int ncb; } item_t;

static item_t items[MAX_ITEMS];
static int fail_st[MAX_ITEMS];
static int ctxs[MAX_W];
static int ctx_busy[MAX_W];
static int mode, nitems_total;
static unsigned long long seed;
static int any_fail_done, turn;
static pthread_mutex_t omtx = PTHREAD_MUTEX_INITIALIZER;
static pthread_mutex_t tmtx = PTHREAD_MUTEX_INITIALIZER;
static pthread_cond_t tcond = PTHREAD_COND_INITIALIZER;
static char oracle[128];
static char cur_case[4096];

static void oracle_fail(const char *w)
{
	pthread_mutex_lock(&omtx);
	if (!oracle[0])
		snprintf(oracle, sizeof(oracle), "%s", w);
	pthread_mutex_unlock(&omtx);
}

static unsigned long long mix(unsigned long long z)
{
	z += 0x9E3779B97F4A7C15ULL;
	z = (z ^ (z >> 30)) * 0xBF58476D1CE4E5B9ULL;
	z = (z ^ (z >> 27)) * 0x94D049BB133111EBULL;
	return z ^ (z >> 31);
}

static void on_alarm(int sig)
{
	static const char msg[] = " | HANG |\n";
	(void)sig;
	if (write(1, cur_case, strlen(cur_case)) < 0 || write(1, msg, sizeof(msg) - 1) < 0)
		_exit(4);
	_exit(3);
}

static int cb(void *user, void *work)
{
	item_t *it = work;
	int c = -1, st, i;
	unsigned long long r = mix(seed * 1315423911ULL + (unsigned)it->id);

	if (user >= (void *)ctxs && user < (void *)(ctxs + MAX_W))
		c = (int)((int *)user - ctxs);
	if (c < 0) {
		oracle_fail("ctx-unknown");
	} else if (__atomic_exchange_n(&ctx_busy[c], 1, __ATOMIC_SEQ_CST)) {
		oracle_fail("ctx-shared");
	}
	if (mode == 1) {
		/* wait until every later item is done: reverse completion order */
		pthread_mutex_lock(&tmtx);
		while (turn != it->id)
			pthread_cond_wait(&tcond, &tmtx);
		pthread_mutex_unlock(&tmtx);
	} else {
		switch (r % 4) {
		case 0: break;
		case 1: sched_yield(); break;
		case 2: for (i = 0; i < (int)((r >> 8) % 2000); ++i) __asm__ volatile("" ::: "memory"); break;
		case 3: usleep((r >> 8) % 60); break;
		}
	}
	it->val += 100;
	if (__atomic_add_fetch(&it->ncb, 1, __ATOMIC_SEQ_CST) > 1)
		oracle_fail("processed-twice");
	st = fail_st[it->id];
	if (st != 0)
		__atomic_store_n(&any_fail_done, 1, __ATOMIC_SEQ_CST);
	if (c >= 0)
		__atomic_store_n(&ctx_busy[c], 0, __ATOMIC_SEQ_CST);
	if (mode == 1) {
		pthread_mutex_lock(&tmtx);
		turn = it->id - 1;
		pthread_cond_broadcast(&tcond);
		pthread_mutex_unlock(&tmtx);
	}
	return st;
}

int main(void)
{
	static char line[4096], cid[64], prog[256], fails[512], out[8192];

	signal(SIGALRM, on_alarm);
	while (fgets(line, sizeof(line), stdin)) {
		thread_pool_t *pool;
		const char *p;
		int nw, i, next_id = 0, sub_ok[MAX_ITEMS], n_sub_ok = 0, n_deq = 0, seen_fail = 0;
		size_t n = 0, l;

		if (sscanf(line, "R %63s %d %255s %511s %llu %d", cid, &nw, prog, fails, &seed, &mode) != 6)
			continue;
		l = strlen(line);
		while (l > 0 && (line[l - 1] == '\n' || line[l - 1] == '\r'))
			line[--l] = '\0';
		snprintf(cur_case, sizeof(cur_case), "%s", line);
		if (nw < 1 || nw > MAX_W)
			continue;
		memset(fail_st, 0, sizeof(fail_st));
		if (strcmp(fails, "-") != 0) {
			p = fails;
			while (*p) {
				char *e;
				long id = strtol(p, &e, 10), st = 0;
				if (*e == ':')
					st = strtol(e + 1, &e, 10);
				if (id >= 0 && id < MAX_ITEMS)
					fail_st[id] = (int)st;
				if (*e != ',')
					break;
				p = e + 1;
			}
		}
		nitems_total = 0;
		for (p = prog; *p; ++p)
			nitems_total += *p == 'S';
		for (i = 0; i < MAX_ITEMS; ++i) {
			items[i].id = i;
			items[i].val = i;
			items[i].ncb = 0;
		}
		memset(ctx_busy, 0, sizeof(ctx_busy));
		any_fail_done = 0;
		turn = nitems_total - 1;
		oracle[0] = '\0';
		out[0] = '\0';

		alarm(8);
		pool = thread_pool_create((size_t)nw, cb);
		if (pool == NULL) {
			printf("%s | CREATE-FAILED |\n", cur_case);
			continue;
		}
		if ((int)pool->get_worker_count(pool) != nw)
			oracle_fail("worker-count");
		for (i = 0; i < nw; ++i)
			pool->set_worker_ptr(pool, (size_t)i, &ctxs[i]);

		for (p = prog; *p; ++p) {
			switch (*p) {
			case 'S': {
				int id = next_id++;
				int fb = __atomic_load_n(&any_fail_done, __ATOMIC_SEQ_CST);
				int r = pool->submit(pool, &items[id]);

				if (r == 0) {
					sub_ok[n_sub_ok++] = id;
					if (seen_fail)
						oracle_fail("submit-accepted-after-failure-was-handed-back");
				} else if (!fb && !__atomic_load_n(&any_fail_done, __ATOMIC_SEQ_CST)) {
					oracle_fail("submit-refused-without-failure");
				}
				n += snprintf(out + n, sizeof(out) - n, "S=%d,", r);
				break;
			}
			case 'D': {
				int fb = __atomic_load_n(&any_fail_done, __ATOMIC_SEQ_CST);
				item_t *it = pool->dequeue(pool);

				if (it == NULL) {
					if (n_sub_ok > n_deq && !fb && !__atomic_load_n(&any_fail_done, __ATOMIC_SEQ_CST))
						oracle_fail("dequeue-null-with-items-outstanding");
					n += snprintf(out + n, sizeof(out) - n, "D=N,");
				} else if (it < items || it >= items + MAX_ITEMS) {
					oracle_fail("dequeue-foreign-pointer");
					n += snprintf(out + n, sizeof(out) - n, "D=?,");
				} else {
					if (n_deq >= n_sub_ok || sub_ok[n_deq] != it->id)
						oracle_fail("fifo-order");
					else if (__atomic_load_n(&it->ncb, __ATOMIC_SEQ_CST) != 1)
						oracle_fail("handed-back-not-processed-once");
					n_deq++;
					if (fail_st[it->id] != 0)
						seen_fail = 1;
					n += snprintf(out + n, sizeof(out) - n, "D=%d:%d,", it->id, it->val);
				}
				break;
			}
			case 'G': {
				int fb = __atomic_load_n(&any_fail_done, __ATOMIC_SEQ_CST);
				int r = pool->get_status(pool);

				if (r == 0 && seen_fail)
					oracle_fail("status-lost");
				if (r != 0 && !fb && !__atomic_load_n(&any_fail_done, __ATOMIC_SEQ_CST))
					oracle_fail("status-without-failure");
				n += snprintf(out + n, sizeof(out) - n, "G=%d,", r);
				break;
			}
			case 'X':
				pool->destroy(pool);
				pool = NULL;
				n += snprintf(out + n, sizeof(out) - n, "X=X,");
				break;
			}
			if (pool == NULL)
				break;
		}
		if (pool != NULL)
			pool->destroy(pool);
		alarm(0);
		printf("%s | %s%s | %s\n", cur_case, oracle[0] ? "ORACLE:" : "OK", oracle, out);
		fflush(stdout);
	}
	return 0;
}
