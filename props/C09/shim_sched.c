/* shim_sched.c — see shim_sched.h.  Self-contained: libc + ucontext only. */
#define _GNU_SOURCE
#define SHIM_SCHED_IMPLEMENTATION
#include "shim_sched.h"

#include <stdio.h>
#include <stdlib.h>
#include <string.h>
#include <ucontext.h>

#define SHIM_STACK (256 * 1024)

typedef struct {
	int owner_plus1;	/* 0 = free (matches PTHREAD_MUTEX_INITIALIZER = all zero) */
} shim_mutex_t;

typedef struct {
	int state;
	ucontext_t ctx;
	void *stack;
	void *(*fn)(void *);
	void (*client)(void *);
	void *arg;
	int did_op;		/* performed a shim operation since the last yield point */
	shim_mutex_t *want;	/* SHIM_T_LOCK / SHIM_T_WOKEN / SHIM_T_WAIT: the mutex */
	void *cond;		/* SHIM_T_WAIT / SHIM_T_WOKEN */
	int join_target;
	unsigned long wait_seq;	/* order of arrival in cond_wait (for signal) */
	int fine;		/* scheduled with SHIM_RUN_FINE: stop at the next fine point */
	int fine_kind;		/* SHIM_T_FINE: enum shim_fine_kind */
	int nheld;		/* mutexes held */
} shim_thread_t;

static shim_thread_t th[SHIM_MAX_THREADS];
static int nth_ = 1;		/* slot 0 reserved for the client */
static int cur = -1;		/* running thread, -1 = scheduler / outside */
static int in_run;
static int last_ran = -1;
static long nsteps;
static unsigned long wait_counter;
static ucontext_t sched_ctx;

/* ---- lock-discipline oracle ---- */
#define GUARD_MAX_CONDS 8
static struct {
	int active;
	shim_mutex_t *mtx;
	void *conds[GUARD_MAX_CONDS];
	int nconds;
	shim_guard_fn snap;
	void *ud;
	unsigned long long last[2];
	int nviol;
	char msg[320];
} guard;

static void die(const char *msg)
{
	fprintf(stderr, "shim_sched: %s\n", msg);
	abort();
}

void shim_reset(void)
{
	int i;

	if (in_run)
		die("shim_reset inside shim_run");
	for (i = 0; i < SHIM_MAX_THREADS; ++i) {
		free(th[i].stack);
		memset(&th[i], 0, sizeof(th[i]));
	}
	nth_ = 1;
	cur = -1;
	last_ran = -1;
	nsteps = 0;
	wait_counter = 0;
	guard.active = 0;
	guard.nviol = 0;
	guard.msg[0] = '\0';
}

void shim_guard_set(pthread_mutex_t *mtx, pthread_cond_t *const *conds, int nconds,
		    shim_guard_fn snap, void *ud)
{
	int i;

	memset(&guard, 0, sizeof(guard));
	guard.mtx = (shim_mutex_t *)mtx;
	for (i = 0; i < nconds && i < GUARD_MAX_CONDS; ++i)
		guard.conds[i] = (void *)conds[i];
	guard.nconds = i;
	guard.snap = snap;
	guard.ud = ud;
	if (snap) {
		guard.last[0] = snap(ud, 0);
		guard.last[1] = snap(ud, 1);
	}
	guard.active = 1;
}

void shim_guard_clear(void)
{
	guard.active = 0;
}

const char *shim_guard_violation(void)
{
	return guard.nviol ? guard.msg : NULL;
}

int shim_guard_violation_count(void)
{
	return guard.nviol;
}

static void guard_report(const char *what, const char *op)
{
	if (guard.nviol++ == 0)
		snprintf(guard.msg, sizeof(guard.msg), "thread-%d:%s:noticed-at-its-%s:step-%ld", cur, what, op,
			 nsteps);
}

enum { G_OTHER = 0, G_SIGNAL = 1 };

/* Called at the entry of every shim operation of the running thread (and at its exit).  Exactly one
 * thread runs at a time and control changes hands only inside shim operations, so whatever changed
 * since the previous call was changed by the calling thread, in the code between its previous shim
 * operation and this one; whether it held the mutex during that stretch is what the mutex says now
 * (lock / unlock / cond_wait are shim operations themselves). */
static void guard_check(const char *op, void *obj, int kind)
{
	int holds, i;

	if (!guard.active || cur < 0)
		return;
	holds = guard.mtx->owner_plus1 == cur + 1;
	if (guard.snap) {
		unsigned long long h0 = guard.snap(guard.ud, 0), h1 = guard.snap(guard.ud, 1);

		if (h0 != guard.last[0] && !holds)
			guard_report("mutex-protected-state-modified-without-the-mutex", op);
		if (h1 != guard.last[1] && cur != 0)
			guard_report("submitter-only-state-modified-by-another-thread", op);
		guard.last[0] = h0;
		guard.last[1] = h1;
	}
	if (kind == G_SIGNAL && !holds) {
		for (i = 0; i < guard.nconds; ++i) {
			if (guard.conds[i] == obj) {
				char w[64];

				snprintf(w, sizeof(w), "cond-%d-signalled-without-the-mutex", i);
				guard_report(w, op);
			}
		}
	}
}

int shim_self(void)
{
	return cur;
}

const char *shim_result_name(int r)
{
	switch (r) {
	case SHIM_OK: return "OK";
	case SHIM_DEADLOCK: return "DEADLOCK";
	case SHIM_BUDGET: return "BUDGET";
	case SHIM_BADCHOICE: return "BADCHOICE";
	case SHIM_STOPPED: return "STOPPED";
	}
	return "?";
}

static void to_scheduler(void)
{
	int me = cur;

	th[me].did_op = 0;
	if (swapcontext(&th[me].ctx, &sched_ctx) != 0)
		die("swapcontext");
	/* resumed */
}

/* fine pre-emption point: honoured only when the thread was scheduled with SHIM_RUN_FINE */
static void fine_point(int kind)
{
	if (cur < 0 || !th[cur].fine)
		return;
	th[cur].state = SHIM_T_FINE;
	th[cur].fine_kind = kind;
	to_scheduler();
	th[cur].fine_kind = SHIM_F_NONE;
}

static void trampoline(int idx)
{
	shim_thread_t *t = &th[idx];

	if (t->client)
		t->client(t->arg);
	else
		t->fn(t->arg);
	guard_check("exit", NULL, G_OTHER);
	t->state = SHIM_T_EXITED;
	/* never resumed: uc_link returns to the scheduler */
}

static void make_thread(int idx)
{
	shim_thread_t *t = &th[idx];

	t->stack = malloc(SHIM_STACK);
	if (t->stack == NULL)
		die("out of memory");
	if (getcontext(&t->ctx) != 0)
		die("getcontext");
	t->ctx.uc_stack.ss_sp = t->stack;
	t->ctx.uc_stack.ss_size = SHIM_STACK;
	t->ctx.uc_link = &sched_ctx;
	makecontext(&t->ctx, (void (*)(void))trampoline, 1, idx);
	t->state = SHIM_T_READY;
	t->did_op = 0;
}

int shim_pthread_create(pthread_t *out, const pthread_attr_t *a, void *(*fn)(void *), void *arg)
{
	int idx;

	(void)a;
	guard_check("pthread_create", NULL, G_OTHER);
	if (nth_ >= SHIM_MAX_THREADS)
		return 11; /* EAGAIN */
	idx = nth_++;
	memset(&th[idx], 0, sizeof(th[idx]));
	th[idx].fn = fn;
	th[idx].arg = arg;
	make_thread(idx);
	*out = (pthread_t)idx;
	if (cur >= 0)
		th[cur].did_op = 1;
	return 0;
}

int shim_pthread_join(pthread_t t, void **ret)
{
	int idx = (int)t;

	if (ret)
		*ret = NULL;
	if (idx <= 0 || idx >= nth_)
		return 3; /* ESRCH */
	if (cur < 0) {
		if (th[idx].state != SHIM_T_EXITED)
			die("pthread_join on a live thread outside shim_run");
		return 0;
	}
	guard_check("pthread_join", NULL, G_OTHER);
	th[cur].did_op = 1;
	if (th[idx].state != SHIM_T_EXITED) {
		th[cur].state = SHIM_T_JOIN;
		th[cur].join_target = idx;
		to_scheduler();
		th[cur].did_op = 1;
	}
	return 0;
}

int shim_mutex_init(pthread_mutex_t *m, const pthread_mutexattr_t *a)
{
	(void)a;
	memset(m, 0, sizeof(*m));
	return 0;
}

int shim_mutex_destroy(pthread_mutex_t *m)
{
	shim_mutex_t *sm = (shim_mutex_t *)m;

	guard_check("pthread_mutex_destroy", m, G_OTHER);
	if (guard.active && guard.mtx == sm)
		guard.active = 0;	/* the guarded state is about to go away */
	if (sm->owner_plus1 != 0)
		die("pthread_mutex_destroy on a locked mutex");
	return 0;
}

int shim_mutex_lock(pthread_mutex_t *m)
{
	shim_mutex_t *sm = (shim_mutex_t *)m;

	if (cur < 0) {
		if (sm->owner_plus1 != 0)
			die("lock of a held mutex outside shim_run");
		sm->owner_plus1 = 1000;
		return 0;
	}
	if (sm->owner_plus1 == cur + 1)
		die("recursive pthread_mutex_lock (would deadlock)");
	guard_check("pthread_mutex_lock", m, G_OTHER);
	if (th[cur].did_op || sm->owner_plus1 != 0) {
		th[cur].state = SHIM_T_LOCK;
		th[cur].want = sm;
		to_scheduler();
		if (sm->owner_plus1 != 0)
			die("scheduled a thread whose mutex is held");
	}
	sm->owner_plus1 = cur + 1;
	th[cur].nheld++;
	th[cur].did_op = 1;
	return 0;
}

int shim_mutex_unlock(pthread_mutex_t *m)
{
	shim_mutex_t *sm = (shim_mutex_t *)m;

	if (cur < 0) {
		sm->owner_plus1 = 0;
		return 0;
	}
	if (sm->owner_plus1 != cur + 1)
		die("pthread_mutex_unlock by a thread that does not hold the mutex");
	guard_check("pthread_mutex_unlock", m, G_OTHER);
	sm->owner_plus1 = 0;
	th[cur].nheld--;
	th[cur].did_op = 1;
	fine_point(SHIM_F_POSTUNLOCK);
	return 0;
}

int shim_cond_init(pthread_cond_t *c, const pthread_condattr_t *a)
{
	(void)a;
	memset(c, 0, sizeof(*c));
	return 0;
}

int shim_cond_destroy(pthread_cond_t *c)
{
	int i;

	guard_check("pthread_cond_destroy", c, G_OTHER);
	for (i = 0; i < nth_; ++i) {
		if ((th[i].state == SHIM_T_WAIT || th[i].state == SHIM_T_WOKEN) && th[i].cond == (void *)c)
			die("pthread_cond_destroy with waiters");
	}
	return 0;
}

int shim_cond_wait(pthread_cond_t *c, pthread_mutex_t *m)
{
	shim_mutex_t *sm = (shim_mutex_t *)m;

	if (cur < 0)
		die("pthread_cond_wait outside shim_run");
	if (sm->owner_plus1 != cur + 1)
		die("pthread_cond_wait without holding the mutex");
	guard_check("pthread_cond_wait", c, G_OTHER);
	/* the caller has evaluated its predicate, is not yet a waiter, and still owns the mutex */
	fine_point(SHIM_F_PREWAIT);
	sm->owner_plus1 = 0;
	th[cur].nheld--;
	th[cur].state = SHIM_T_WAIT;
	th[cur].cond = (void *)c;
	th[cur].want = sm;
	th[cur].wait_seq = ++wait_counter;
	to_scheduler();
	if (sm->owner_plus1 != 0)
		die("scheduled a woken thread whose mutex is held");
	sm->owner_plus1 = cur + 1;
	th[cur].nheld++;
	th[cur].cond = NULL;
	th[cur].did_op = 1;
	return 0;
}

int shim_cond_broadcast(pthread_cond_t *c)
{
	int i;

	guard_check("pthread_cond_broadcast", c, G_SIGNAL);
	fine_point(SHIM_F_PRESIGNAL);
	for (i = 0; i < nth_; ++i) {
		if (th[i].state == SHIM_T_WAIT && th[i].cond == (void *)c)
			th[i].state = SHIM_T_WOKEN;
	}
	if (cur >= 0)
		th[cur].did_op = 1;
	return 0;
}

int shim_cond_signal(pthread_cond_t *c)
{
	int i, best = -1;

	guard_check("pthread_cond_signal", c, G_SIGNAL);
	fine_point(SHIM_F_PRESIGNAL);
	for (i = 0; i < nth_; ++i) {
		if (th[i].state == SHIM_T_WAIT && th[i].cond == (void *)c) {
			if (best < 0 || th[i].wait_seq < th[best].wait_seq)
				best = i;
		}
	}
	if (best >= 0)
		th[best].state = SHIM_T_WOKEN;
	if (cur >= 0)
		th[cur].did_op = 1;
	return 0;
}

void shim_yield(void)
{
	if (cur < 0)
		return;
	guard_check("yield", NULL, G_OTHER);
	th[cur].state = SHIM_T_READY;
	to_scheduler();
}

int shim_yield_int(void)
{
	shim_yield();
	return 0;
}

static int is_runnable(int i)
{
	switch (th[i].state) {
	case SHIM_T_READY:
	case SHIM_T_FINE:
		return 1;
	case SHIM_T_LOCK:
	case SHIM_T_WOKEN:
		return th[i].want->owner_plus1 == 0;
	case SHIM_T_JOIN:
		return th[th[i].join_target].state == SHIM_T_EXITED;
	default:
		return 0;
	}
}

void shim_get_view(shim_view_t *v)
{
	int i;

	memset(v, 0, sizeof(*v));
	v->nthreads = nth_;
	v->last = last_ran;
	v->step = nsteps;
	for (i = 0; i < nth_; ++i) {
		v->state[i] = th[i].state;
		v->runnable[i] = is_runnable(i);
		v->waiting[i] = th[i].state == SHIM_T_WAIT;
		v->join_target[i] = th[i].state == SHIM_T_JOIN ? th[i].join_target : -1;
		v->fine_kind[i] = th[i].state == SHIM_T_FINE ? th[i].fine_kind : SHIM_F_NONE;
		v->holds[i] = th[i].nheld;
	}
}

int shim_run(void (*client)(void *), void *arg, shim_chooser_t chooser, void *chooser_ud,
	     shim_hook_t hook, void *hook_ud, long max_steps)
{
	shim_view_t v;
	int i, alive, any, result;

	if (in_run)
		die("nested shim_run");
	memset(&th[0], 0, sizeof(th[0]));
	th[0].client = client;
	th[0].arg = arg;
	make_thread(0);
	in_run = 1;
	nsteps = 0;
	last_ran = -1;
	if (guard.active && guard.snap) {
		guard.last[0] = guard.snap(guard.ud, 0);
		guard.last[1] = guard.snap(guard.ud, 1);
	}

	for (;;) {
		shim_choice_t ch;

		shim_get_view(&v);
		alive = 0;
		any = 0;
		for (i = 0; i < v.nthreads; ++i) {
			if (v.state[i] != SHIM_T_EXITED && v.state[i] != SHIM_T_UNUSED)
				alive = 1;
			if (v.runnable[i])
				any = 1;
		}
		if (!alive) {
			result = SHIM_OK;
			break;
		}
		if (!any) {
			result = SHIM_DEADLOCK;
			break;
		}
		if (nsteps >= max_steps) {
			result = SHIM_BUDGET;
			break;
		}
		ch = chooser(&v, chooser_ud);
		if (ch.kind == SHIM_STOP) {
			result = SHIM_STOPPED;
			break;
		}
		if (ch.tid < 0 || ch.tid >= v.nthreads) {
			result = SHIM_BADCHOICE;
			break;
		}
		if (ch.kind == SHIM_SPURIOUS) {
			if (!v.waiting[ch.tid]) {
				result = SHIM_BADCHOICE;
				break;
			}
			th[ch.tid].state = SHIM_T_WOKEN;
			nsteps++;
		} else {
			if (!v.runnable[ch.tid]) {
				result = SHIM_BADCHOICE;
				break;
			}
			cur = ch.tid;
			th[cur].fine = ch.kind == SHIM_RUN_FINE;
			nsteps++;
			if (swapcontext(&sched_ctx, &th[cur].ctx) != 0)
				die("swapcontext");
			last_ran = cur;
			cur = -1;
		}
		if (hook)
			hook(ch.kind, ch.tid, hook_ud);
	}
	cur = -1;
	in_run = 0;
	return result;
}

/* ---- ready-made choosers ------------------------------------------------ */

void shim_list_chooser_init(shim_list_chooser_t *c, const char *schedule)
{
	c->pos = schedule;
	c->exhausted_steps = 0;
}

shim_choice_t shim_list_chooser(const shim_view_t *v, void *ud)
{
	shim_list_chooser_t *c = ud;
	shim_choice_t ch;
	int i;

	while (*c->pos == ',' || *c->pos == ' ')
		c->pos++;
	if (*c->pos != '\0' && *c->pos != '\n') {
		ch.kind = SHIM_RUN;
		if (*c->pos == 's') {
			ch.kind = SHIM_SPURIOUS;
			c->pos++;
		}
		ch.tid = (int)strtol(c->pos, (char **)&c->pos, 10);
		if (*c->pos == 'f') {
			if (ch.kind == SHIM_RUN)
				ch.kind = SHIM_RUN_FINE;
			c->pos++;
		}
		return ch;
	}
	c->exhausted_steps++;
	ch.kind = SHIM_RUN;
	if (v->last >= 0 && v->runnable[v->last]) {
		ch.tid = v->last;
		return ch;
	}
	for (i = 0; i < v->nthreads; ++i) {
		if (v->runnable[i]) {
			ch.tid = i;
			return ch;
		}
	}
	ch.kind = SHIM_STOP;
	ch.tid = -1;
	return ch;
}

static unsigned long long rnd_next(unsigned long long *s)
{
	/* splitmix64 */
	unsigned long long z = (*s += 0x9E3779B97F4A7C15ULL);

	z = (z ^ (z >> 30)) * 0xBF58476D1CE4E5B9ULL;
	z = (z ^ (z >> 27)) * 0x94D049BB133111EBULL;
	return z ^ (z >> 31);
}

void shim_random_chooser_init(shim_random_chooser_t *c, unsigned long long seed,
			      int spur_permille, int spur_budget)
{
	c->s = seed;
	c->spur_permille = spur_permille;
	c->spur_budget = spur_budget;
	c->fine_permille = 0;
	c->fine_budget = 0;
}

void shim_random_chooser_set_fine(shim_random_chooser_t *c, int fine_permille, int fine_budget)
{
	c->fine_permille = fine_permille;
	c->fine_budget = fine_budget;
}

shim_choice_t shim_random_chooser(const shim_view_t *v, void *ud)
{
	shim_random_chooser_t *c = ud;
	shim_choice_t ch;
	int cand[SHIM_MAX_THREADS], n = 0, i;

	if (c->spur_budget > 0 && (int)(rnd_next(&c->s) % 1000) < c->spur_permille) {
		for (i = 0; i < v->nthreads; ++i)
			if (v->waiting[i])
				cand[n++] = i;
		if (n > 0) {
			c->spur_budget--;
			ch.kind = SHIM_SPURIOUS;
			ch.tid = cand[rnd_next(&c->s) % (unsigned)n];
			return ch;
		}
	}
	n = 0;
	for (i = 0; i < v->nthreads; ++i)
		if (v->runnable[i])
			cand[n++] = i;
	ch.kind = SHIM_RUN;
	ch.tid = n ? cand[rnd_next(&c->s) % (unsigned)n] : -1;
	if (!n) {
		ch.kind = SHIM_STOP;
	} else if (c->fine_budget > 0 && c->fine_permille > 0 &&
		   (int)(rnd_next(&c->s) % 1000) < c->fine_permille) {
		/* no extra random draw unless fine pre-emptions were asked for: old seeds keep their schedules */
		c->fine_budget--;
		ch.kind = SHIM_RUN_FINE;
	}
	return ch;
}
