(* C09 model driver.
   stdin : "E <caseid> <nworkers> <prog> <fails> | <schedule> | ..." lines (the harness output; the part
           after the second '|' is ignored), or "Q <caseid> <prog> <fails>" lines for the serial pool.
   stdout: the same line with the model's verdict and trace hash; with -v every trace line ("T ...").
   -old  : replay the model of the code as found (without the repair of F01). *)
open C09_model

let rec nat_of_int i = if i <= 0 then O else S (nat_of_int (i - 1))
let rec int_of_nat = function O -> 0 | S n -> 1 + int_of_nat n
let rec pos_of_int i = if i = 1 then XH else if i land 1 = 1 then XI (pos_of_int (i lsr 1)) else XO (pos_of_int (i lsr 1))
let z_of_int i = if i = 0 then Z0 else if i > 0 then Zpos (pos_of_int i) else Zneg (pos_of_int (-i))
let rec int_of_pos = function XH -> 1 | XO p -> 2 * int_of_pos p | XI p -> 2 * int_of_pos p + 1
let int_of_z = function Z0 -> 0 | Zpos p -> int_of_pos p | Zneg p -> - (int_of_pos p)

let verbose = ref false
let fixed = ref true

let fnv_init = 0xcbf29ce484222325L
let fnv_prime = 0x100000001b3L
let hash_line h s =
  let h = ref h in
  String.iter (fun c -> h := Int64.mul (Int64.logxor !h (Int64.of_int (Char.code c))) fnv_prime) s;
  Int64.mul (Int64.logxor !h 10L) fnv_prime

let parse_fails s =
  let a = Array.make 100 0 in
  if s <> "-" then
    List.iter (fun kv ->
      match String.split_on_char ':' kv with
      | [k; v] -> let k = int_of_string k in if k >= 0 && k < 100 then a.(k) <- int_of_string v
      | _ -> ()) (String.split_on_char ',' s);
  a

let fmt_items l =
  if l = [] then "-" else
  String.concat "," (List.map (fun (t, d) -> Printf.sprintf "%d:%d" (int_of_nat t) (int_of_nat d)) l)

let letters s =
  let b = Buffer.create 16 in
  (match s.ms with
   | MIdle -> Buffer.add_char b 'I'
   | MDeqWait -> Buffer.add_char b 'W'
   | MDeqWoken -> Buffer.add_char b 'K'
   | MJoin i -> Buffer.add_string b (Printf.sprintf "J%d" (int_of_nat i))
   | MDead -> Buffer.add_char b 'X');
  List.iter (fun w -> Buffer.add_char b (match w with
    | WReady _ -> 'R' | WWaiting -> 'W' | WWoken -> 'K' | WWorking _ -> 'C' | WExited -> 'X')) s.ws;
  Buffer.contents b

let fmt_state s =
  match s.ms with
  | MDead -> "dead"
  | _ -> Printf.sprintf "q=%s d=%s s=%s nt=%d nd=%d ic=%d st=%d" (fmt_items s.queue) (fmt_items s.done0)
           (fmt_items s.safe_done) (int_of_nat s.next_ticket) (int_of_nat s.next_deq) (int_of_nat s.item_count)
           (int_of_z s.status)

let fmt_event = function
  | ENone -> "-"
  | ERet (OSubmit d, RStatus z) -> Printf.sprintf "S%d=%d" (int_of_nat d) (int_of_z z)
  | ERet (ODequeue, RItem d) -> let d = int_of_nat d in Printf.sprintf "D=%d:%d" (d mod 100) d
  | ERet (ODequeue, RNull) -> "D=N"
  | ERet (OStatus, RStatus z) -> Printf.sprintf "G=%d" (int_of_z z)
  | ERet (ODestroy, RVoid) -> "X"
  | ERet (_, _) -> "?"
  | ECbBegin (w, (_, d)) -> let d = int_of_nat d in Printf.sprintf "B%d:%d:%d" (int_of_nat w) (d mod 100) d
  | ECbEnd (w, (_, d), st) -> let d = int_of_nat d in Printf.sprintf "E%d:%d:%d:%d" (int_of_nat w) (d mod 100) d (int_of_z st)

let any_enabled s = main_enabled s || List.exists worker_enabled s.ws
let all_done s = s.ms = MDead && List.for_all (fun w -> w = WExited) s.ws

let replay nw prog fails sched =
  let cbv d = nat_of_int (int_of_nat d + 100) in
  let cbs d = z_of_int fails.((int_of_nat d) mod 100) in
  let s = ref (init (nat_of_int nw)) in
  let pc = ref 0 and next_id = ref 0 in
  let h = ref fnv_init in
  let bad = ref None in
  let toks = List.filter (fun t -> t <> "") (String.split_on_char ',' sched) in
  List.iteri (fun k tok ->
    if !bad = None then begin
      let lab =
        if tok.[0] = 's' then
          let t = int_of_string (String.sub tok 1 (String.length tok - 1)) in
          if t = 0 then Some LSpurMain else Some (LSpurWorker (nat_of_int (t - 1)))
        else
          let t = int_of_string tok in
          if t > 0 then Some (LWorker (nat_of_int (t - 1)))
          else match !s.ms with
            | MIdle ->
                if !pc >= String.length prog then None
                else begin
                  let c = prog.[!pc] in
                  incr pc;
                  match c with
                  | 'S' -> let id = !next_id in incr next_id; Some (LCall (OSubmit (nat_of_int id)))
                  | 'D' -> Some (LCall ODequeue)
                  | 'G' -> Some (LCall OStatus)
                  | 'X' -> Some (LCall ODestroy)
                  | _ -> None
                end
            | _ -> Some LMain in
      match lab with
      | None -> bad := Some k
      | Some l ->
        match step cbv cbs !fixed !s l with
        | None -> bad := Some k
        | Some (s', e) ->
            s := s';
            let line = Printf.sprintf "%s %s %s T=%s" tok (fmt_event e) (fmt_state s') (letters s') in
            if !verbose then print_string ("T " ^ line ^ "\n");
            h := hash_line !h line
    end) toks;
  let verdict =
    match !bad with
    | Some k -> Printf.sprintf "BADCHOICE@%d" k
    | None ->
        if all_done !s && !pc >= String.length prog then "OK"
        else if not (any_enabled !s) then
          Printf.sprintf "DEADLOCK:%s:st=%d" (letters !s) (int_of_z !s.status)
        else "STOPPED" in
  (verdict, !h)

let fmt_ret = function
  | RStatus z -> Printf.sprintf "%d" (int_of_z z)
  | RItem d -> let d = int_of_nat d in Printf.sprintf "%d:%d" (d mod 100) d
  | RNull -> "N"
  | RVoid -> "X"

(* serial pool and spec: returns of every call of the program *)
let serial_replay prog fails =
  let cbv d = nat_of_int (int_of_nat d + 100) in
  let cbs d = z_of_int fails.((int_of_nat d) mod 100) in
  let s = ref serial_init and q = ref [] and next_id = ref 0 in
  let out = Buffer.create 64 and spec = Buffer.create 64 in
  String.iter (fun c ->
    let o = match c with
      | 'S' -> let id = !next_id in incr next_id; Some (OSubmit (nat_of_int id))
      | 'D' -> Some ODequeue | 'G' -> Some OStatus | 'X' -> Some ODestroy | _ -> None in
    match o with
    | None -> ()
    | Some o ->
        let (s', r) = serial_call cbv cbs !s o in
        s := s';
        Buffer.add_string out (Printf.sprintf "%c=%s," c (fmt_ret r));
        let (q', r') = spec_call cbv !q o in
        q := q';
        Buffer.add_string spec (Printf.sprintf "%c=%s," c (fmt_ret r'))) prog;
  (Buffer.contents out, Buffer.contents spec)

let () =
  Array.iter (fun a -> if a = "-v" then verbose := true else if a = "-old" then fixed := false) Sys.argv;
  try
    while true do
      let line = input_line stdin in
      if String.length line > 2 && line.[0] = 'E' then begin
        match String.split_on_char '|' line with
        | head :: sched :: _ ->
            (match List.filter (fun t -> t <> "") (String.split_on_char ' ' head) with
             | [_; cid; nw; prog; fails] ->
                 let (v, h) = replay (int_of_string nw) prog (parse_fails fails) (String.trim sched) in
                 Printf.printf "E %s %s %s %s | %s | %s %016Lx\n" cid nw prog fails (String.trim sched) v h
             | _ -> print_string "?\n")
        | _ -> print_string "?\n"
      end else if String.length line > 2 && line.[0] = 'Q' then begin
        match List.filter (fun t -> t <> "") (String.split_on_char ' ' line) with
        | [_; cid; prog; fails] ->
            let (a, b) = serial_replay prog (parse_fails fails) in
            Printf.printf "Q %s %s %s | %s | %s\n" cid prog fails a b
        | _ -> print_string "?\n"
      end
    done
  with End_of_file -> ()
