/* The working tree's threadpool.c on the cooperative scheduler, as one object of the h_bpfail harness
 * (linked before the library archive, so thread_pool_create resolves to this one and the block
 * processor objects of the ASan library build run on the controlled pool). */
#define _GNU_SOURCE
#include "config.h"
#include "shim_sched.h"
#include "lib/util/src/threadpool.c"
