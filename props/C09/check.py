"""C09 — worker pool: FIFO, exactly-once, deadlock-free under every interleaving.

Theorems: coq/Properties_C09.v over the LTS model coq/C09/PoolModel.v (every callback, every
number of workers, every client program, every step sequence incl. spurious wake-ups).
Tie (trace): the working tree's threadpool.c compiled onto the cooperative scheduler
(shim_sched.{h,c}) is explored by a stateless DFS with a state cache (complete for the small
configurations, pre-emption bounded / random for the large ones); every execution's schedule is
replayed on the extracted model and the per-step traces (event, abstract pool state, thread
states = enabled sets) are compared; threadpool_serial.c is compared with its model and the spec.
Search: the harness evaluates the property itself on the implementation (FIFO, exactly once,
context exclusivity, failure reporting, deadlock = no runnable thread, step budget), plus the
unshimmed pool with real threads under a watchdog (ASan; TSan in the thorough tier) and the
block processor driven with a failing compressor; and (h_bpfail.c) the ASan+UBSan block processor on
the controlled pool with a compressor failing at its k-th call, for file lists reaching every submit
site x every k x schedules that decide who sees the failure first (submit / dequeue / get_status):
every call returns, the failure is reported, no block is owned twice, sanitizers and LSan silent.
Reduction argument checked, not assumed (session 3, seeded change C09-6): the scheduler shim's lock-discipline
oracle (every change of the pool's shared state, every signal/broadcast happens with pool->mtx held; the
submitter-only lists change in thread 0 only) runs in every execution (`tie:lock-discipline`), the DFS and the
random schedules additionally pre-empt threads at the entry of cond_wait (mutex held, not yet a waiter), at the
entry of broadcast/signal and right after unlock (bounded number per execution; oracles only), and a TSan build
of the real-thread harness runs a few tiny scenarios in the quick tier as well."""
import hashlib
import json
import os
import random
import re
import subprocess
from concurrent.futures import ThreadPoolExecutor

from vlib import build as B
from vlib import core

HERE = os.path.dirname(os.path.abspath(__file__))
LEVEL = "proof"
NPROC = 12


def fhash(*paths):
    h = hashlib.sha256()
    for p in paths:
        h.update(open(p, "rb").read())
    return h.hexdigest()[:16]


# ---------------------------------------------------------------- case generation

def programs(max_items):
    """client programs over S(ubmit) D(equeue) G(et_status); X (destroy) is appended by the harness"""
    out = []
    for k in range(1, max_items + 1):
        out.append("S" * k + "D" * (k + 1) + "G")          # submit all, dequeue all (+1: empty)
        out.append("SD" * k + "DG")                         # alternate
        out.append("D" + "S" * k + "G" + "D" * k)           # dequeue on empty pool first
        if k >= 2:
            out.append("S" * (k - 1) + "D" + "S" + "D" * k + "SG")   # refill, submit after drain
            out.append("S" * k + "D" * (k - 1))             # destroy with items still inside
    seen = []
    for p in out:
        if p not in seen:
            seen.append(p)
    return seen


def fail_sets(prog):
    k = prog.count("S")
    out = ["-"]
    for i in range(k):
        out.append("%d:%d" % (i, 5 + i))
    if k >= 2:
        out.append("0:5,1:6")
        out.append("%d:7,%d:-3" % (k - 2, k - 1))
    return out


def gen_shim_cases(ctx):
    rnd = random.Random(ctx.seed)
    cases = []
    thorough = ctx.tier == "thorough"
    cid = 0
    # complete exploration (unbounded pre-emptions and spurious wake-ups, state cache)
    for nw in (1, 2):
        for prog in programs(3):
            for fails in fail_sets(prog):
                cases.append("c%d %d %s %s dfs 99 99 400000 1" % (cid, nw, prog, fails))
                cid += 1
    # 3 workers
    for prog in programs(2):
        for fails in fail_sets(prog):
            cases.append("c%d 3 %s %s dfs 99 99 400000 1" % (cid, prog, fails))
            cid += 1
    big = ["SSSSSDDDDDDG", "SSDSDSSDDDDG", "SSSDDSSDDDSG"]
    if thorough:
        for prog in big:
            for fails in ["-", "0:5", "2:7", "4:9", "1:5,3:6"]:
                cases.append("c%d 3 %s %s dfs 99 99 3000000 1" % (cid, prog, fails))
                cid += 1
        for prog in programs(3):
            for fails in fail_sets(prog):
                cases.append("c%d 3 %s %s dfs 99 99 3000000 1" % (cid, prog, fails))
                cid += 1
        for prog in programs(2):
            for fails in fail_sets(prog):
                cases.append("c%d 4 %s %s dfs 99 99 3000000 1" % (cid, prog, fails))
                cid += 1
        nrand = 100000
    else:
        # pre-emption bounded for (3 workers, 5 items); which (program, failing item) pairs: by seed
        picks = [(p, f) for p in big for f in ["-", "0:5", "2:7", "4:9", "1:5,3:6"]]
        rnd.shuffle(picks)
        for prog, fails in picks[:4]:
            cases.append("c%d 3 %s %s dfs 2 1 40000 1" % (cid, prog, fails))
            cid += 1
        nrand = 3000
    # fine pre-emptions (entry of cond_wait with the mutex held / entry of broadcast / after unlock): complete
    # DFS with one fine pre-emption per execution (two in the thorough tier) for the small configurations.  These
    # executions have no counterpart at the model's step granularity: oracles + lock discipline only.
    fine_progs = ["G"] + programs(3 if thorough else 2)
    for nw in (1, 2, 3):
        for prog in fine_progs:
            if nw == 3 and prog.count("S") > (2 if thorough else 1):
                continue
            for fails in fail_sets(prog):
                cases.append("f%d %d %s %s dfs 99 99 %d 1 %d" % (cid, nw, prog, fails, 3000000 if thorough else 400000,
                                                                 2 if thorough and nw < 3 else 1))
                cid += 1
    # random schedules (3 workers, 5 items), no state cache
    per = 250
    for i in range(nrand // per):
        prog = rnd.choice(big + programs(3))
        k = prog.count("S")
        fails = rnd.choice(["-", "-", "%d:%d" % (rnd.randrange(k), rnd.randint(1, 9)),
                            "%d:4,%d:-2" % (rnd.randrange(k), rnd.randrange(k))])
        cases.append("c%d %d %s %s rand %d %d %d %d" % (cid, rnd.choice([2, 3, 3, 4]), prog, fails,
                                                        rnd.getrandbits(40), per, rnd.choice([0, 50, 150]), 3))
        cid += 1
    # the same with up to 3 fine pre-emptions per execution
    for i in range(max(4, nrand // per // 3)):
        prog = rnd.choice(big + programs(3))
        k = prog.count("S")
        fails = rnd.choice(["-", "-", "%d:%d" % (rnd.randrange(k), rnd.randint(1, 9))])
        cases.append("f%d %d %s %s rand %d %d %d %d %d %d" % (cid, rnd.choice([2, 3, 3, 4]), prog, fails,
                                                              rnd.getrandbits(40), per, rnd.choice([0, 50]), 2,
                                                              rnd.choice([100, 200, 300]), 3))
        cid += 1
    return cases


def gen_tsan_quick_cases(ctx):
    """tiny real-thread scenarios for the TSan build (a data race is reported as soon as both accesses have
    executed without a happens-before edge: no timing luck needed)"""
    cases = []
    i = 0
    for nw in (1, 2, 3):
        for prog, fails in (("X", "-"), ("GX", "-"), ("SDX", "-"), ("SSDDGX", "-"), ("SSDX", "-"), ("SSDDGX", "0:5"),
                            ("DSSGDDSX", "1:3"), ("SGDGX", "0:5"), ("SSGDGDX", "1:3"), ("SGSGDDGX", "0:7")):
            cases.append("R q%d %d %s %s %d 0" % (i, nw, prog, fails, ctx.seed * 131 + i))
            i += 1
    return cases


def gen_serial_cases(ctx):
    rnd = random.Random(ctx.seed + 77)
    cases = []
    cid = 0
    for prog in programs(3):
        for fails in fail_sets(prog):
            cases.append("Q q%d %sX %s" % (cid, prog, fails))
            cid += 1
    for _ in range(300 if ctx.tier == "quick" else 5000):
        n = rnd.randint(1, 14)
        prog = "".join(rnd.choice("SSDDG") for _ in range(n)) + "X"
        k = max(1, prog.count("S"))
        fails = rnd.choice(["-", "-", "%d:%d" % (rnd.randrange(k), rnd.randint(1, 9))])
        cases.append("Q q%d %s %s" % (cid, prog, fails))
        cid += 1
    return cases


def gen_real_cases(ctx):
    rnd = random.Random(ctx.seed + 991)
    n = 400 if ctx.tier == "quick" else 6000
    cases = []
    for i in range(n):
        k = rnd.randint(1, 12)
        shape = rnd.randrange(4)
        if shape == 0:
            prog = "S" * k + "D" * (k + 1) + "G"
        elif shape == 1:
            prog = "".join(rnd.choice("SSDDG") for _ in range(rnd.randint(2, 30)))
        elif shape == 2:
            prog = "SD" * k + "DG"
        else:
            prog = "S" * k + "D" * rnd.randint(0, k)
        k = prog.count("S")
        fails = "-"
        if k and rnd.random() < 0.5:
            fails = "%d:%d" % (rnd.randrange(k), rnd.randint(1, 9))
            if rnd.random() < 0.3:
                fails += ",%d:%d" % (rnd.randrange(k), -rnd.randint(1, 9))
        cases.append("R r%d %d %sX %s %d 0" % (i, rnd.randint(1, 6), prog, fails, rnd.getrandbits(32)))
    # test_threadpool style: completion in reverse order of submission
    for k in (1, 2, 5, 8, 10):
        cases.append("R t%d %d %sX - %d 1" % (k, k, "D" + "S" * k + "D" * (k + 1), rnd.getrandbits(32)))
        cases.append("R u%d %d %sX - %d 1" % (k, k + 2, "S" * k + "D" * k + "G", rnd.getrandbits(32)))
    return cases


def gen_blk_cases(ctx):
    rnd = random.Random(ctx.seed + 4242)
    n = 150 if ctx.tier == "quick" else 3000
    cases = []
    for i in range(n):
        nb = rnd.randint(1, 24)
        fb = rnd.randrange(nb) if rnd.random() < 0.6 else -1
        cases.append("B b%d %d %d %d %d %d %d" % (i, rnd.randint(1, 4), rnd.randint(1, 8), nb, fb,
                                                  rnd.getrandbits(32), rnd.randrange(2)))
    return cases


# ---------------------------------------------------------------- block processor on a failing pool (h_bpfail.c)

def bpfail_lists(B):
    """file lists (op strings) that reach every submit site of the block processor; B = block size"""
    h, q, t = B // 2, B // 4, B // 3
    return [
        "b0 a%d e" % (2 * B + h),                                       # one append over two boundaries; fragment tail
        "b0 a%d a%d a%d a%d e" % (h, B, B, q),                          # every append crosses one boundary
        "b0 a%d a%d a%d e" % (B, B, B),                                 # aligned appends (tail site), sentinel
        "b4 a%d e" % (B + h),                                           # DONT_FRAGMENT: end_file submits the current block
        "b4 a%d e b0 a%d e" % (3 * B, t),
        " ".join("b0 a%d e" % (t + i) for i in range(8)),               # fragments: fragment blocks from dequeue / finish
        "b0 a%d e b0 a%d e s b0 a%d e b0 a%d e" % (3 * B + 5, h, B, 4 * B + 1),
        "m%d m%d b0 a%d e m%d" % (h, B, 2 * B + 1, B),                  # manual submissions
        "b0 r%d a%d e b0 r%d e b0 r%d e" % (2 * B, B + 3, h, h),        # compressible blocks, duplicate fragments
        "b0 z%d a%d z%d e" % (B, 2 * B + 7, B),                         # sparse blocks in between (no compressor call)
        "b0 a%d e" % (5 * B + h),                                       # long append: get_new_block has to dequeue
        "b0 a%d e s b0 a%d a%d e s" % (h, h + 1, B),
        # fragments completed before a failing data block and dequeued after it: fragment block submits from dequeue
        " ".join("b0 a%d e" % (B if i % 4 == 3 else h + 1 + i) for i in range(10)),
        " ".join("b0 a%d e" % (h + 1 + i) for i in range(7)) + " b0 a%d e " % (2 * B) + " ".join("b0 a%d e" % (h + 9 + i) for i in range(5)),
    ]


def bpfail_random_list(rnd, B):
    sizes = [B // 4, B // 2, B - 1, B, B + 1, 3 * B // 2, 2 * B, 2 * B + B // 3, 3 * B + 1]
    ops = []
    for _ in range(rnd.randint(1, 5)):
        r = rnd.random()
        if r < 0.12:
            ops.append("m%d" % rnd.choice([B // 3, B // 2, B]))
        elif r < 0.22:
            ops.append("s")
        ops.append("b%d" % rnd.choice([0, 0, 0, 4, 4, 8, 16, 2, 1]))
        for _ in range(rnd.randint(1, 4)):
            ops.append("%s%d" % (rnd.choice("aaaaaarz"), rnd.choice(sizes)))
        ops.append("e")
    return " ".join(ops)


def gen_bpfail_cases(ctx):
    """F <cid> <bs> <workers> <backlog> <io> <k|all> <mode> <sched seed> <cont> <ops>.  The directed part does not
    depend on ctx.seed (so the site coverage asserted below is the same for every seed)."""
    rnd = random.Random(ctx.seed + 909)
    thorough = ctx.tier == "thorough"
    cases = []
    cid = 0
    B = 64
    scheds = [("W", 1), ("M", 1), ("P", 2), ("P", 5), ("R", 11), ("R", 12)]
    for li, ops in enumerate(bpfail_lists(B)):
        for nw in (1, 2):
            for mode, sseed in scheds:
                for cont in (0, 1):
                    backlog = (3, 6, 9)[(li + nw + cont) % 3]
                    cases.append("F d%d %d %d %d %d all %s %d %d %s" % (cid, B, nw, backlog, (li + nw) % 2, mode,
                                                                       sseed + 100 * li + nw, cont, ops))
                    cid += 1
    nrand = 400 if thorough else 40
    for i in range(nrand):
        Br = rnd.choice([32, 64, 64, 128])
        ops = bpfail_random_list(rnd, Br)
        for mode in (["W", "M", "P", "R", "R", "P"] if thorough else ["W", rnd.choice("MP"), "R"]):
            cases.append("F r%d %d %d %d %d all %s %d %d %s" % (cid, Br, rnd.randint(1, 4 if thorough else 3),
                                                               rnd.choice([3, 3, 4, 8]), rnd.randrange(2), mode,
                                                               rnd.getrandbits(32), rnd.randrange(2), ops))
            cid += 1
    return cases


BPFAIL_SITES = ["append-loop", "append-tail", "end-sentinel", "end-current", "fragblk-dequeue", "fragblk-finish", "manual"]


def bpfail_runs(ctx, exe, lines, env, verbose=False):
    """run h_bpfail on `lines`; returns (#runs, histogram {(seen, site): n}).  A process that dies (ASan/UBSan
    abort, signal) is attributed to the case that had begun; the rest of its share is re-run."""
    nproc = 8
    parts = [lines[k::nproc] for k in range(nproc)]
    parts = [p for p in parts if p]

    def explicit(line, runid):
        """the case line with k made explicit (replay of one run)"""
        f = line.split()
        f[6] = runid.rsplit("/", 1)[1]
        return " ".join(f)

    def one(part):
        res = []        # (line, runid, verdict, rest)
        crashes = []    # (line, runid, rc, stderr tail)
        todo = list(part)
        restarts = hangs = 0
        while todo and restarts < 6 and hangs < 2:
            rc, out, err = run_proc([exe] + (["-v"] if verbose else []), "\n".join(todo) + "\n", 300, env)
            by_cid = dict((l.split()[1], l) for l in todo)
            begun = None
            done_cids = []
            for l in out.split("\n"):
                if l.startswith("BEGIN "):
                    begun = l[6:].strip()
                    c = begun.rsplit("/", 1)[0]
                    if c not in done_cids:
                        done_cids.append(c)
                elif l.startswith("F "):
                    f = [x.strip() for x in l.split("|")]
                    runid = f[0][2:].strip()
                    res.append((by_cid.get(runid.rsplit("/", 1)[0], ""), runid, f[1] if len(f) > 1 else "?",
                                f[2] if len(f) > 2 else ""))
                    if begun == runid and not (len(f) > 1 and f[1].startswith("ORACLE:block-owned") or
                                               len(f) > 1 and f[1].startswith("ORACLE:block-list")):
                        begun = None
                elif verbose and l.startswith("T "):
                    print(l)
            if rc in (0, 5):    # 5: the harness gave up after three runs with a call that never returns (reported)
                break
            if rc in (3, 124):
                hangs += 1
            # died: attribute to the run that had begun, continue with the lines not yet started
            if begun is not None:
                crashes.append((by_cid.get(begun.rsplit("/", 1)[0], ""), begun, rc, err[-4000:]))
            elif rc != 3:       # 3 = watchdog: its HANG line is the report
                crashes.append(("", "?", rc, err[-4000:]))
            todo = [l for l in todo if l.split()[1] not in done_cids]
            restarts += 1
        return res, crashes

    with ThreadPoolExecutor(max_workers=nproc) as tp:
        results = list(tp.map(one, parts))
    n = 0
    hist = {}
    seen_sig = set()
    crashed_runs = {}
    for res, crashes in results:
        for line, runid, rc, err in crashes:
            crashed_runs[runid] = (line, rc, err)
    for res, crashes in results:
        for line, runid, verdict, rest in res:
            n += 1
            m = re.search(r"failed=(\d) seen=(\S) site=(\S+)", rest)
            if m and m.group(1) == "1":
                key = "%s:%s" % (m.group(2), m.group(3))
                hist[key] = hist.get(key, 0) + 1
            m = re.search(r"abandoned=(\d+)", rest)
            if m and int(m.group(1)) > 0:
                hist["runs-with-blocks-abandoned-in-pool"] = hist.get("runs-with-blocks-abandoned-in-pool", 0) + 1
            if verdict in ("OK", "CREATE-FAILED"):
                continue
            sig = "bpfail:" + (verdict[7:] if verdict.startswith("ORACLE:") else verdict.lower())
            if sig in seen_sig:
                continue
            seen_sig.add(sig)
            f = line.split()
            what = ("block processor on the controlled pool, compressor failing at call %s, schedule %s/%s, %s workers, "
                    "backlog %s, ops '%s': %s (%s)" % (runid.rsplit("/", 1)[1], f[7] if len(f) > 7 else "?",
                                                      f[8] if len(f) > 8 else "?", f[3] if len(f) > 3 else "?",
                                                      f[4] if len(f) > 4 else "?", " ".join(f[10:]), verdict, rest))
            rep = dict(kind="bpfail", case=explicit(line, runid) if line else "", output="%s | %s" % (verdict, rest))
            if runid in crashed_runs:
                err = crashed_runs[runid][2]
                sm = re.search(r"SUMMARY: (.*)", err)
                what += "; tearing the block processor down afterwards: %s" % (sm.group(1)[:200] if sm else
                                                                               "process died rc=%d" % crashed_runs[runid][1])
                rep["stderr"] = err
            ctx.violation(sig, what, rep)
    for runid, (line, rc, err) in crashed_runs.items():
        if any(r[1] == runid and r[2] != "OK" for res, _c in results for r in res):
            continue    # already reported together with its oracle verdict
        sm = re.search(r"SUMMARY: (\S+): (\S+)", err)
        kind = sm.group(2) if sm else ("rc%d" % rc)
        sig = "bpfail:sanitizer:" + kind
        if sig in seen_sig:
            continue
        seen_sig.add(sig)
        f = line.split()
        ctx.violation(sig, "block processor on the controlled pool, compressor failing at call %s, ops '%s': process died "
                      "(rc=%d) %s" % (runid.rsplit("/", 1)[-1], " ".join(f[10:]), rc,
                                      (re.search(r"SUMMARY: (.*)", err).group(1)[:240] if sm else err[-300:])),
                      dict(kind="bpfail", case=explicit(line, runid) if line else "", stderr=err), no_input=not line)
    return n, hist


# ---------------------------------------------------------------- running

def chunks(lst, n):
    k = max(1, (len(lst) + n - 1) // n)
    return [lst[i:i + k] for i in range(0, len(lst), k)]


def run_proc(cmd, data, timeout, env=None):
    try:
        r = subprocess.run(cmd, input=data.encode(), stdout=subprocess.PIPE, stderr=subprocess.PIPE,
                           timeout=timeout, env=env)
        return r.returncode, r.stdout.decode("utf-8", "replace"), r.stderr.decode("utf-8", "replace")
    except subprocess.TimeoutExpired as e:
        return 124, (e.stdout or b"").decode("utf-8", "replace"), "[timeout]"


def parse_E(line):
    """E|P <cid> <nw> <prog> <fails> | <sched> | <verdict> <hash>   (P: schedule with fine pre-emptions)"""
    parts = [x.strip() for x in line.split("|")]
    if len(parts) < 3 or parts[0][:2] not in ("E ", "P "):
        return None
    head = parts[0].split()
    tail = parts[2].split()
    if len(head) != 5 or len(tail) != 2:
        return None
    e = dict(cid=head[1], nw=int(head[2]), prog=head[3], fails=head[4], sched=parts[1],
             verdict=tail[0], hash=tail[1])
    if head[0] == "P":
        e["fine"] = True
    return e


def parse_L(line):
    """L <cid> <nw> <prog> <fails> | <sched> | <what>   (lock discipline violated in this execution)"""
    parts = [x.strip() for x in line.split("|")]
    head = parts[0].split()
    if len(parts) < 3 or len(head) != 5:
        return None
    return dict(cid=head[1], nw=int(head[2]), prog=head[3], fails=head[4], sched=parts[1], what=parts[2])


def classify(e):
    v = e["verdict"]
    if v.startswith("DEADLOCK"):
        m = re.match(r"DEADLOCK:(\S*?):st=(-?\d+)", v)
        letters, st = (m.group(1), int(m.group(2))) if m else ("?", 0)
        if letters.startswith("W") and st != 0:
            return ("F01:dequeue-waits-forever-after-worker-failure",
                    "dequeue blocks forever: a worker reported failure (status %d), the workers stopped, "
                    "and the next ticket will never complete (threads %s)" % (st, letters))
        return ("deadlock:%s:%s" % ("main-" + letters[:1], "st0" if st == 0 else "failed"),
                "no runnable thread (threads %s, pool status %d): deadlock / lost wake-up" % (letters, st))
    if v.startswith("ORACLE:"):
        return ("oracle:" + v[7:], "property violated on the implementation: " + v[7:])
    if v.startswith("CRASH:"):
        return ("crash:" + v[6:], "the pool crashed (%s) in the last step of this schedule" % v[6:])
    if v == "BUDGET":
        return ("livelock:step-budget", "step budget exceeded (livelock)")
    return ("harness:" + v, "harness verdict " + v)


def verbose_trace(exe, e, extra=()):
    line = "E %s %d %s %s | %s | x 0\n" % (e["cid"], e["nw"], e["prog"], e["fails"], e["sched"])
    if exe.endswith("driver"):
        if e.get("fine"):
            return ["(a schedule with fine pre-emptions has no counterpart at the model's step granularity)"]
        rc, out, err = run_proc([exe, "-v"] + list(extra), line, 60)
    else:
        rc, out, err = run_proc([exe, "-v"], "%s %d %s %s run %s\n" % (e["cid"], e["nw"], e["prog"], e["fails"], e["sched"]), 60)
    return out.split("\n")


def build_all(ctx):
    info = B.build("plain")
    hh = fhash(os.path.join(HERE, "shim_sched.h"))
    h_pool = B.compile_harness(info, [os.path.join(HERE, "h_pool.c"), os.path.join(HERE, "shim_sched.c")],
                               "h_pool_c09", extra=["-I" + HERE, "-DSHIM_HDR_HASH=0x" + hh[:8]])
    h_serial = B.compile_harness(info, [os.path.join(HERE, "h_serial.c")], "h_serial_c09", link_lib=False, libs=[])
    ainfo = B.build("asan")
    tp = os.path.join(B.REPO, "lib/util/src/threadpool.c")
    al = os.path.join(B.REPO, "lib/util/src/alloc.c")
    h_real = B.compile_harness(ainfo, [os.path.join(HERE, "h_real.c"), tp, al], "h_real_c09", link_lib=False,
                               libs=["-lpthread"])
    h_blk = B.compile_harness(ainfo, [os.path.join(HERE, "h_blk.c")], "h_blk_c09")
    # the whole library with threadpool.c on the cooperative scheduler (what C02 builds on)
    shim_h = os.path.join(HERE, "shim_sched.h")
    sinfo = B.build("plain", tools=False, tag="c09shim-" + hh,
                    per_file_flags={"lib/util/src/threadpool.c": ["-I" + HERE, "-include", shim_h]})
    h_blkshim = B.compile_harness(sinfo, [os.path.join(HERE, "h_blk.c"), os.path.join(HERE, "shim_sched.c")],
                                  "h_blkshim_c09", extra=["-DBLK_SHIM", "-I" + HERE, "-DSHIM_HDR_HASH=0x" + hh[:8]])
    # the ASan+UBSan block processor objects of the library + the working tree's threadpool.c on the scheduler
    h_bpfail = B.compile_harness(ainfo, [os.path.join(HERE, "h_bpfail.c"), os.path.join(HERE, "h_bpfail_pool.c"),
                                         os.path.join(HERE, "shim_sched.c")], "h_bpfail_c09",
                                 extra=["-I" + HERE, "-DSHIM_HDR_HASH=0x" + hh[:8]])
    h_tsan = None
    if True:    # quick tier too (a handful of tiny scenarios); the binary is cached in the build directory
        tinfo = dict(info)
        tinfo["cflags"] = ["-O1", "-g", "-w", "-pthread", "-fsanitize=thread"]
        try:
            h_tsan = B.compile_harness(tinfo, [os.path.join(HERE, "h_real.c"), tp, al], "h_real_tsan_c09",
                                       link_lib=False, libs=["-lpthread"])
        except B.BuildError as ex:
            ctx.notes.append("TSan build failed: %s" % str(ex)[-300:])
        if h_tsan:
            # a TSan binary that cannot even start (address-space layout of the host) must not count as a finding
            rc0, _o, e0 = run_proc([h_tsan], "", 60, dict(os.environ, TSAN_OPTIONS="halt_on_error=1 exitcode=66"))
            if rc0 != 0:
                ctx.notes.append("TSan binary does not run here (rc=%d %s): TSan leg skipped" % (rc0, e0[-200:]))
                h_tsan = None
    drv = core.build_model_driver("C09", "ExtractC09.v", os.path.join(HERE, "driver.ml"))
    return dict(pool=h_pool, serial=h_serial, real=h_real, blk=h_blk, blkshim=h_blkshim, tsan=h_tsan, drv=drv,
                bpfail=h_bpfail)


def shim_tie(ctx, ex, cases, timeout):
    """run the DFS / random harness on `cases`, replay every execution on the model, compare."""
    # round-robin, expensive (bounded 3x5 DFS, random) cases spread over the processes
    order = sorted(range(len(cases)), key=lambda i: (0 if " dfs 2 " in cases[i] else 1 if " rand " in cases[i] else 2, i))
    parts = [[cases[i] for i in order[k::NPROC]] for k in range(NPROC)]
    parts = [p for p in parts if p]

    def one(part):
        rc, out, err = run_proc([ex["pool"]], "\n".join(part) + "\n", timeout)
        elines = [l for l in out.split("\n") if l.startswith("E ")]
        nlines = [l for l in out.split("\n") if l.startswith("N ")]
        plines = [l for l in out.split("\n") if l.startswith("P ")]
        llines = [l for l in out.split("\n") if l.startswith("L ")]
        rc2, mout, merr = run_proc([ex["drv"]], "\n".join(elines) + "\n", timeout)
        mlines = [l for l in mout.split("\n") if l.startswith("E ")]
        return rc, err, elines, nlines, rc2, merr, mlines, plines, llines

    with ThreadPoolExecutor(max_workers=NPROC) as tp:
        res = list(tp.map(one, parts))
    stats = dict(execs=0, states=0, truncated=0, agree=0, fine_execs=0, fine_states=0, discipline=[], discipline_n=0)
    impl_bad = []
    tie_bad = []
    crashed = []
    samples = []
    for part, (rc, err, elines, nlines, rc2, merr, mlines, plines, llines) in zip(parts, res):
        # executions with fine pre-emptions: no model counterpart, judged by the harness's oracles
        stats["fine_execs"] += len(plines)
        for l in plines:
            e = parse_E(l)
            if e is not None and e["verdict"] not in ("OK", "STOPPED"):
                impl_bad.append(e)
        for l in llines:
            d = parse_L(l)
            if d is not None:
                stats["discipline"].append(d)
        if rc != 0 and not any("| CRASH:" in l for l in (elines[-1:] + plines[-1:])):
            crashed.append((rc, err[-1500:], part[:3]))
        if rc2 != 0:
            crashed.append((rc2, "model driver: " + merr[-1500:], part[:3]))
        for l in nlines:
            m = re.search(r"states=(\d+)", l)
            if m:
                stats["states"] += int(m.group(1))
            m = re.search(r"fine-states=(\d+)", l)
            if m:
                stats["fine_states"] += int(m.group(1))
            m = re.search(r"discipline-violations=(\d+)", l)
            if m:
                stats["discipline_n"] += int(m.group(1))
            if "truncated" in l or "overflow" in l:
                stats["truncated"] += 1
        stats["execs"] += len(elines) + len(plines)
        for i, l in enumerate(elines):
            ml = mlines[i] if i < len(mlines) else ""
            e = parse_E(l)
            if e is None:
                continue
            if e["verdict"] not in ("OK", "STOPPED"):
                impl_bad.append(e)
            if l == ml:
                stats["agree"] += 1
            else:
                tie_bad.append((e, parse_E(ml)))
        if elines and len(samples) < 3:
            k = len(elines) // 2
            samples.append(dict(impl=elines[k][:300], model=(mlines[k][:300] if k < len(mlines) else "")))
    return stats, impl_bad, tie_bad, crashed, samples


def report_shim(ctx, ex, stats, impl_bad, tie_bad, crashed):
    for rc, err, part in crashed[:2]:
        ctx.violation("harness-crash", "pool harness / model driver died (rc=%s): %s" % (rc, err[-400:]),
                      dict(kind="shim", cases=part, stderr=err), no_input=True)
    seen = set()
    # concrete failures first; among equal signatures prefer the shortest schedule
    impl_bad = sorted(impl_bad, key=lambda e: (len(e["sched"].split(",")), e["nw"], len(e["prog"])))
    disc = stats.get("discipline") or []
    if disc:
        d = sorted(disc, key=lambda x: (len(x["sched"].split(",")), x["nw"], len(x["prog"])))[0]
        what = ("lock discipline of threadpool.c violated — the reduction argument under the Coq LTS (every access to "
                "the pool's shared state, every cond_wait/signal/broadcast happens with pool->mtx held, so a critical "
                "section is one atomic step: coq/C09/PoolDiscipline.v, sections_atomic) does not apply to this code: %s; "
                "%d workers, program %s, failing items %s, schedule %s (%d executions with a violation)"
                % (d["what"], d["nw"], d["prog"], d["fails"], d["sched"], stats.get("discipline_n", len(disc))))
        de = dict(cid=d["cid"], nw=d["nw"], prog=d["prog"], fails=d["fails"], sched=d["sched"], verdict="x", hash="0")
        if "f" in d["sched"]:
            de["fine"] = True
        if impl_bad:
            e = impl_bad[0]
            sig0, what0 = classify(e)
            ctx.violation("tie:lock-discipline", what + "; a concrete consequence was found by the schedule search with "
                          "fine pre-emption points: %s — %d workers, program %s, failing items %s, schedule %s"
                          % (what0, e["nw"], e["prog"], e["fails"], e["sched"]),
                          dict(kind="shim", case=e, discipline=d, impl_trace=verbose_trace(ex["pool"], e)[-40:]))
        else:
            ctx.violation("tie:lock-discipline", what + "; the property oracles (FIFO, exactly-once, context, failure "
                          "report, deadlock) hold on the implementation for all explored executions incl. the fine "
                          "pre-emption points", dict(kind="shim", case=de, discipline=d,
                                                     correspondence="props/C09: shared state of threadpool.c only under "
                                                     "pool->mtx (shim_sched guard) == atomic steps of PoolModel.step",
                                                     impl_trace=verbose_trace(ex["pool"], de)[-40:]), no_input=True)
    for e in impl_bad:
        sig, what = classify(e)
        if e.get("fine"):
            what += " [schedule with fine pre-emption points: 'Nf' stops thread N at the entry of cond_wait (mutex " \
                    "still held, not yet a waiter), at the entry of a broadcast/signal or right after unlock]"
        if sig in seen:
            continue
        seen.add(sig)
        tr = verbose_trace(ex["pool"], e)
        rep = dict(kind="shim", case=e, impl_trace=tr[-40:], model_trace=verbose_trace(ex["drv"], e)[-40:])
        if sig.startswith("F01:"):
            old = [l for l in verbose_trace(ex["drv"], e, extra=["-old"]) if l.startswith("E ")]
            rep["model_of_unrepaired_code"] = old[-1:] if old else []
            rep["coq_witness"] = "Properties_C09.v: pool_failure_deadlock_refuted"
        ctx.violation(sig, "%s — %d workers, program %s, failing items %s, schedule %s" %
                      (what, e["nw"], e["prog"], e["fails"], e["sched"]), rep)
        if len(seen) >= 4:
            break
    if tie_bad and not impl_bad:
        e, m = tie_bad[0]
        ti = verbose_trace(ex["pool"], e)
        tm = verbose_trace(ex["drv"], e)
        first = next((i for i, (a, b) in enumerate(zip(ti, tm)) if a != b), min(len(ti), len(tm)))
        ctx.violation("tie-pool-trace",
                      "correspondence threadpool.c vs PoolModel.step broken (%d of %d executions differ); first: "
                      "%d workers, program %s, failing %s, schedule %s, step %d: impl '%s' model '%s'; the property "
                      "oracles (FIFO, exactly-once, context, failure report, deadlock) hold on the implementation "
                      "for all explored executions"
                      % (len(tie_bad), stats["execs"], e["nw"], e["prog"], e["fails"], e["sched"], first,
                         ti[first] if first < len(ti) else "", tm[first] if first < len(tm) else ""),
                      dict(kind="shim", case=e, impl_trace=ti[-40:], model_trace=tm[-40:],
                           correspondence="props/C09: threadpool.c on shim_sched == extracted PoolModel.step (trace)"),
                      no_input=True)


def serial_tie(ctx, ex, cases):
    rc, out, err = run_proc([ex["serial"]], "\n".join(cases) + "\n", 120)
    rc2, mout, merr = run_proc([ex["drv"]], "\n".join(cases) + "\n", 120)
    cl = [l for l in out.split("\n") if l.startswith("Q ")]
    ml = [l for l in mout.split("\n") if l.startswith("Q ")]
    n = 0
    for i, c in enumerate(cases):
        a = cl[i].split("|") if i < len(cl) else ["", "", ""]
        b = ml[i].split("|") if i < len(ml) else ["", "", ""]
        impl, model, spec = a[1].strip() if len(a) > 1 else "", b[1].strip() if len(b) > 1 else "", \
            b[2].strip() if len(b) > 2 else ""
        fails = c.split()[3]
        n += 1
        if impl != model:
            ctx.violation("tie-serial", "threadpool_serial.c and its model differ on %s: impl %s model %s" % (c, impl, model),
                          dict(kind="serial", case=c, impl=impl, model=model), no_input=(fails != "-" or impl == spec))
            break
        if fails == "-" and impl != spec:
            ctx.violation("serial-not-fifo", "threadpool_serial.c is not the FIFO-of-f(item) spec on %s: %s vs %s" % (c, impl, spec),
                          dict(kind="serial", case=c, impl=impl, spec=spec))
            break
    return n


def real_runs(ctx, exe, cases, tag, env):
    """unshimmed pool, real threads (or the block processor on the shim).  Returns (#cases run, #unreported)."""
    parts = chunks(cases, 6)

    def one(part):
        return run_proc([exe], "\n".join(part) + "\n", 600, env)

    with ThreadPoolExecutor(max_workers=6) as tp:
        res = list(tp.map(one, parts))
    n = 0
    unreported = 0
    seen = set()
    for part, (rc, out, err) in zip(parts, res):
        lines = [l for l in out.split("\n") if l[:2] in ("R ", "B ")]
        n += len(lines)
        for l in lines:
            f = [x.strip() for x in l.split("|")]
            v = f[1] if len(f) > 1 else "?"
            if v == "OK":
                continue
            if v == "OK-UNREPORTED":
                unreported += 1
                continue
            if v == "HANG":
                sig = "hang:%s" % tag
                if sig in seen:
                    continue
                what = "%s: call did not return (%s): %s" % (
                    tag, "scheduler: no runnable thread" if tag == "blkshim" else
                    "watchdog, real threads; reproduced when re-run alone", f[0])
                if tag != "blkshim":
                    # a watchdog expiry is timing evidence: only a hang that reproduces when the case is
                    # re-run alone counts (this box may be heavily loaded by other checks)
                    again = 0
                    for _ in range(3):
                        rc1, out1, _e = run_proc([exe], f[0] + "\n", 120, env)
                        if "| HANG |" in out1:
                            again += 1
                            break
                    if not again:
                        ctx.notes.append("%s: watchdog expired once on '%s' but 3 re-runs completed (machine load); "
                                         "not counted" % (tag, f[0]))
                        continue
            else:
                sig = "%s:%s" % (tag, v)
                what = "%s: %s on %s" % (tag, v, l)
            if sig not in seen:
                seen.add(sig)
                ctx.violation(sig, what, dict(kind=tag, case=f[0], output=l))
        if tag == "tsan" and rc == 66 and "ThreadSanitizer" in err:
            if "tsan:report" in seen:
                continue
            seen.add("tsan:report")
            sm = re.search(r"SUMMARY: ThreadSanitizer: (.*)", err)
            case = part[len(lines)] if len(lines) < len(part) else part[-1]
            ctx.violation("tsan:" + (sm.group(1).split()[0] + "-" + sm.group(1).split()[1] if sm and len(sm.group(1).split()) > 1
                                     else "report"),
                          "ThreadSanitizer on the unshimmed pool with real threads: %s (case '%s'): an access to the pool's "
                          "shared state is not ordered by pool->mtx — outside the domain of the Coq LTS (lock discipline)"
                          % (sm.group(1)[:300] if sm else err[-300:], case),
                          dict(kind="tsan", case=case, stderr=err[-6000:],
                               correspondence="props/C09: shared state of threadpool.c only under pool->mtx == atomic "
                               "steps of PoolModel.step"), no_input=True)
            continue
        if rc not in (0, 3) and ("%s-crash" % tag) not in seen:
            seen.add("%s-crash" % tag)
            ctx.violation("%s-crash" % tag, "%s harness died rc=%d: %s" % (tag, rc, err[-600:]),
                          dict(kind=tag, cases=part[:50], stderr=err[-3000:]))
    return n, unreported


def run(ctx):
    ex = build_all(ctx)
    ctx.trusted += [
        "props/C09/shim_sched.{h,c}: cooperative scheduler standing in for pthreads (one thread runs from one "
        "mutex/condvar/yield point to the next; sound for code that touches shared state only under its mutex — "
        "that discipline is now checked at run time: writes by snapshot comparison between the shim operations of a "
        "thread, signals/broadcasts/waits directly; READS outside the mutex only by the TSan leg)",
        "props/C09/h_pool.c (prints events/abstract state; reads thread_pool_impl_t fields), driver.ml (replay glue)",
        "reduction: thread-local code between critical sections is merged with the adjacent step (Coq: "
        "C09/PoolDiscipline.v sections_atomic / normalise_* for traces that keep the discipline)",
    ]
    ctx.assumptions += [
        "memory-model effects below mutex granularity are outside the model (the code holds the mutex for every shared "
        "access: checked by the shim's lock-discipline oracle and TSan, no longer assumed)",
        "callbacks terminate and touch only their item and their own context",
        "only one thread (the submitter) calls the pool API, as documented",
    ]
    env_asan = dict(os.environ, ASAN_OPTIONS="detect_leaks=0", UBSAN_OPTIONS="halt_on_error=1")
    env_lsan = dict(os.environ, ASAN_OPTIONS="detect_leaks=1:fast_unwind_on_malloc=0",
                    UBSAN_OPTIONS="halt_on_error=1:print_stacktrace=1")

    if ctx.replay:
        r = json.load(open(ctx.replay))
        kind = r.get("kind")
        if kind == "shim" and isinstance(r.get("case"), dict):
            e = r["case"]
            line = "%s %d %s %s run %s" % (e["cid"], e["nw"], e["prog"], e["fails"], e["sched"])
            stats, impl_bad, tie_bad, crashed, samples = shim_tie(ctx, ex, [line], 120)
            ctx.coverage["evaluations"] = stats["execs"]
            report_shim(ctx, ex, stats, impl_bad, tie_bad, crashed)
            print("\n".join(verbose_trace(ex["pool"], e)))
        elif kind in ("real", "blk", "blkshim") and r.get("case"):
            n, _ = real_runs(ctx, ex[kind], [r["case"]], kind, env_asan)
            ctx.coverage["evaluations"] = n
        elif kind == "tsan" and r.get("case") and ex.get("tsan"):
            n, _ = real_runs(ctx, ex["tsan"], [r["case"]], "tsan", dict(os.environ, TSAN_OPTIONS="halt_on_error=1 exitcode=66"))
            ctx.coverage["evaluations"] = n
        elif kind == "bpfail" and r.get("case"):
            n, _h = bpfail_runs(ctx, ex["bpfail"], [r["case"]], env_lsan, verbose=True)
            ctx.coverage["evaluations"] = n
        elif kind == "serial" and r.get("case"):
            ctx.coverage["evaluations"] = serial_tie(ctx, ex, [r["case"]])
        else:
            ctx.notes.append("replay file without a re-runnable case; running the full check")
            ctx.replay = None
        if ctx.replay:
            ctx.coverage["rule"] = "replay of " + ctx.replay
            return

    # 1. tie on the cooperative scheduler (+ the harness's own property oracles)
    cases = gen_shim_cases(ctx)
    stats, impl_bad, tie_bad, crashed, samples = shim_tie(ctx, ex, cases, 1500 if ctx.tier == "thorough" else 170)
    ctx.log("shim tie: %d cases, %d executions (%d with fine pre-emptions, %d states with a thread stopped at a fine "
            "point), %d states, %d differ, %d impl-level failures, %d executions violating the lock discipline" %
            (len(cases), stats["execs"], stats["fine_execs"], stats["fine_states"], stats["states"], len(tie_bad),
             len(impl_bad), stats["discipline_n"]))
    if stats["fine_execs"] < 1000 and not impl_bad and not crashed:
        ctx.violation("machinery-fine-preemption-coverage", "only %d executions with fine pre-emption points explored"
                      % stats["fine_execs"], dict(kind="machinery"), no_input=True)
    report_shim(ctx, ex, stats, impl_bad, tie_bad, crashed)
    if stats["truncated"]:
        ctx.notes.append("%d DFS cases hit their execution limit (exploration incomplete there)" % stats["truncated"])
    if stats["execs"] < 1000:
        ctx.violation("machinery-too-few-executions", "only %d executions explored" % stats["execs"],
                      dict(kind="machinery"), no_input=True)

    # 2. serial pool vs model vs spec
    scases = gen_serial_cases(ctx)
    ns = serial_tie(ctx, ex, scases)

    # 3. real threads
    rcases = gen_real_cases(ctx)
    nr, _ = real_runs(ctx, ex["real"], rcases, "real", env_asan)
    nt = 0
    if ex.get("tsan"):
        tcases = gen_tsan_quick_cases(ctx) + (rcases[: len(rcases) // 2] if ctx.tier == "thorough" else [])
        nt, _ = real_runs(ctx, ex["tsan"], tcases, "tsan",
                          dict(os.environ, TSAN_OPTIONS="halt_on_error=1 exitcode=66"))
        nr += nt
    bcases = gen_blk_cases(ctx)
    nb, unrep = real_runs(ctx, ex["blk"], bcases, "blk", env_asan)
    # the same block-processor cases (and more) on the cooperative scheduler: deterministic schedules
    rnd = random.Random(ctx.seed + 5)
    scases = list(bcases)
    for i in range(len(bcases) * 3):
        f = bcases[i % len(bcases)].split()
        f[1] = "s%d" % i
        f[6] = str(rnd.getrandbits(32))
        scases.append(" ".join(f))
    nbs, unrep2 = real_runs(ctx, ex["blkshim"], scases, "blkshim", None)
    nb += nbs
    unrep += unrep2
    if unrep:
        ctx.notes.append("block processor: in %d of %d runs a worker failure on the last block(s) was never asked for "
                         "(dequeue kept returning items; the block is stored uncompressed) — pool reports it, caller does "
                         "not look; relevant to C13, not a C09 violation" % (unrep, nb))
    ctx.log("serial %d, real-thread %d, block-processor %d cases" % (ns, nr, nb))

    # 3b. block processor (ASan+UBSan+LSan) on the controlled pool, compressor failing at its k-th call
    fcases = gen_bpfail_cases(ctx)
    nviol = len(ctx.violations)
    nf, fhist = bpfail_runs(ctx, ex["bpfail"], fcases, env_lsan)
    rejected_at = dict((site, fhist.get("S:" + site, 0)) for site in BPFAIL_SITES)
    ctx.log("failing-pool leg: %d case lines, %d runs; failure first seen by submit at %s; by dequeue %d, by get_status %d"
            % (len(fcases), nf, rejected_at, sum(v for k, v in fhist.items() if k.startswith("D:")),
               sum(v for k, v in fhist.items() if k.startswith("G:"))))
    if len(ctx.violations) == nviol and (nf < 1000 or min(rejected_at.values()) == 0 or
                                       not any(k.startswith("D:") for k in fhist)):
        ctx.violation("machinery-bpfail-coverage", "failing-pool leg lost its coverage: %d runs, rejected submits per site %s, "
                      "histogram %s" % (nf, rejected_at, fhist), dict(kind="machinery"), no_input=True)
    if fhist.get("runs-with-blocks-abandoned-in-pool"):
        ctx.notes.append("failing-pool leg: in %d of %d runs the block processor was torn down after the reported failure "
                         "with blocks still inside the pool (accepted, never dequeued): block_processor_destroy frees its "
                         "own lists and pool->destroy frees only the pool's wrappers, so these blocks are leaked by the "
                         "unchanged code on the error path (released by the harness's pool proxy, counted, not judged: "
                         "the pool's contract is proved in Properties_C09.v, pool_owned_are_accepted_minus_returned)"
                         % (fhist["runs-with-blocks-abandoned-in-pool"], nf))
    nb += nf

    ctx.coverage["evaluations"] = stats["execs"] + ns + nr + nb
    ctx.coverage["distinct_nontrivial"] = stats["states"]
    ctx.coverage["traces_validated_against_impl"] = stats["agree"]
    ctx.coverage["exhaustive"] = False
    ctx.coverage["distribution"] = dict(shim_cases=len(cases), shim_executions=stats["execs"],
                                        shim_executions_with_fine_preemptions=stats["fine_execs"],
                                        states_with_a_thread_stopped_at_a_fine_point=stats["fine_states"],
                                        lock_discipline_checked_in_every_shim_execution=True,
                                        lock_discipline_violations=stats["discipline_n"], tsan_cases=nt,
                                        distinct_states=stats["states"], dfs_truncated=stats["truncated"],
                                        serial_cases=ns, real_thread_cases=nr, block_processor_cases=nb,
                                        failing_pool_runs=nf, failing_pool_first_seen=fhist)
    ctx.coverage["rule"] = (
        "shim: complete DFS (all interleavings incl. unbounded spurious wake-ups, state cache) of threadpool.c for "
        "1-2 workers x %d client programs with <=3 items x every failing position (and 3 workers, <=2 items); "
        "%s; %d seeded random schedules of 2-4 workers / <=5 items; every execution without fine pre-emptions replayed "
        "on the extracted model (per-step event + abstract state + thread states compared by trace hash); lock "
        "discipline (shared pool state changes / signals only with pool->mtx held; submitter-only lists only in thread "
        "0) checked by the shim between all shim operations of every execution; complete DFS with one fine pre-emption "
        "(entry of cond_wait with the mutex held, entry of broadcast/signal, after unlock) for 1-3 workers x small "
        "programs x every failing position, random schedules with <=3 fine pre-emptions; distinct_nontrivial = distinct "
        "abstract states reached by the DFS; serial pool: %d programs; real threads (ASan%s): %d programs incl. "
        "test_threadpool-style reverse completion; block processor with failing compressor: %d runs (of which %d: "
        "ASan+UBSan+LSan block processor on the controlled pool, %d file lists x every k (compressor fails at its k-th "
        "call) x schedules workers-first / main-first / phases / random x stop-or-continue after the first error, "
        "ownership oracle after every call); seed %d"
        % (len(programs(3)), "3 workers x 5 items complete" if ctx.tier == "thorough" else
           "3 workers x 5 items with <=2 pre-emptions, <=1 spurious wake-up (4 program/failure pairs)",
           sum(int(c.split()[-3]) for c in cases if " rand " in c), ns,
           "+TSan" if ex.get("tsan") else "", nr, nb, nf, len(fcases), ctx.seed))
    ctx.add_samples(samples)

    # 4. independent re-check of the compiled proofs (thorough tier)
    if ctx.tier == "thorough" and ctx.proof and ctx.proof.get("ok"):
        rc, out = core.sh(["timeout", "900", "coqchk", "-silent", "-o", "-Q", ".", "SqfsV", "SqfsV.Properties_C09"],
                          cwd=core.COQ)
        ok = rc == 0 and "Axioms: <none>" in out
        ctx.coverage["coqchk"] = "ok, no axioms" if ok else "rc=%d %s" % (rc, out[-400:])
        if not ok:
            ctx.proof_broken.append("coqchk does not accept Properties_C09.vo without axioms: " + out[-600:])


def setup():
    core.build_model_driver("C09", "ExtractC09.v", os.path.join(HERE, "driver.ml"))
