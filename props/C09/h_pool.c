/* C09 harness: the working tree's threadpool.c on the cooperative scheduler.
 *
 * stdin, one case per line:
 *   <caseid> <nworkers> <prog> <fails> dfs <preempt> <spurious> <maxexec> [<statecache 0|1> [<maxfine>]]
 *       (bound 99 = unbounded; with the state cache an execution that reaches an already
 *        explored (state, last thread, budgets) stops there: verdict STOPPED;
 *        maxfine = number of FINE pre-emptions per execution: a thread is stopped at the entry of
 *        cond_wait (mutex still held, not yet a waiter), at the entry of cond_broadcast/signal, or right
 *        after mutex_unlock, and the other threads run before it continues — see shim_sched.h)
 *   <caseid> <nworkers> <prog> <fails> run <schedule>        (tokens 3 | 3f | s3)
 *   <caseid> <nworkers> <prog> <fails> rand <seed> <count> <spur_permille> <spur_budget> [<fine_permille> <fine_budget>]
 * prog  : S = submit the next item (ids 0,1,2.. in order), D = dequeue, G = get_status,
 *         X = destroy (must be last; appended if missing)
 * fails : "-" or "id:status,id:status" (callback return value for these items)
 * stdout, one line per execution:
 *   E <caseid> <nworkers> <prog> <fails> | <schedule> | <verdict> <tracehash>
 *   P ... (same fields) for an execution with at least one fine pre-emption token: it has no counterpart
 *       in the model's step granularity and is judged by the oracles only
 *   L <caseid> <nworkers> <prog> <fails> | <schedule> | <what>     lock discipline violated in that execution
 *       (first few per case; "N <caseid> discipline-violations=<n>" gives the count)
 * with -v additionally every trace line ("T ...") before its E line.
 * Trace line: <who> <event> <pool state> T=<thread letters>   (see NOTES.md)
 */
#include "config.h"
#include "shim_sched.h"
#include "lib/util/src/threadpool.c"

#include <stdio.h>
#include <stdint.h>
#include <signal.h>
#include <unistd.h>

#define MAX_ITEMS 32
#define MAX_W 8
#define MAX_DEPTH 512

typedef struct {
	int id;
	int val;
	int ncb;
} item_t;

static int verbose;

/* ---- case ---- */
static char c_id[64], c_prog[128], c_fails[256];
static int c_nw;
static int fail_st[MAX_ITEMS];

/* ---- per execution ---- */
static thread_pool_t *pool;
static int pool_alive;
static item_t items[MAX_ITEMS];
static int ctxs[MAX_W];
static int ctx_busy[MAX_W];
static int in_cb[MAX_W + 1];
static char main_ev[64], cb_ev[MAX_W + 1][64];
static int sub_ok[MAX_ITEMS], n_sub_ok, n_deq, next_id;
static int any_fail_done, fail_seen_by_client;
static char oracle[96];
static int client_pc;
static uint64_t hash;
static char sched_buf[MAX_DEPTH * 5 + 16];
static size_t sched_len;
static char last_T[64];
static char sig_buf[1400];	/* abstract state after the last step (DFS state cache key) */
static int last_item[MAX_W + 1];
static int used_fine;		/* the schedule contains a fine pre-emption token */
static long n_discipline, n_discipline_printed;
/* what thread 0 saw at the entry of its last shim operation (for a dequeue that took the lock: the entry of
 * its final pthread_mutex_unlock, i.e. the state it decided on, still under the mutex): is the item with
 * the next ticket to hand back sitting completed at the head of the done list? */
static long main_ops;
static int main_done_ready;
static const void *main_done_head;
/* ghost, independent of the pool's fields: item id has certainly passed store_completed, because the worker
 * that processed it has since entered another callback or has exited (a worker stores the item it holds
 * before it looks for the next one / before it leaves) */
static int sure_stored[MAX_ITEMS];

/* ---- lock-discipline oracle: what the shim compares between the shim operations of a thread ----
 * part 0: everything of the pool that workers and the submitter share: may only change while the
 *         changing thread holds pool->mtx;
 * part 1: the lists and the counter that belong to the submitting thread alone (threadpool.h: only
 *         one thread calls the API): may be touched without the lock, but by thread 0 only. */
static uint64_t mixh(uint64_t h, uint64_t x)
{
	h ^= x;
	h *= 0x100000001b3ULL;
	return h ^ (h >> 29);
}

static uint64_t hash_list(uint64_t h, const work_item_t *l)
{
	int n = 0;

	for (; l != NULL && n < 4 * MAX_ITEMS; l = l->next, ++n) {
		h = mixh(h, (uint64_t)(uintptr_t)l);
		h = mixh(h, (uint64_t)l->ticket_number);
		h = mixh(h, (uint64_t)(uintptr_t)l->data);
	}
	return mixh(h, (uint64_t)n);
}

static unsigned long long pool_snap(void *ud, int part)
{
	const thread_pool_impl_t *p = (const thread_pool_impl_t *)pool;
	uint64_t h = 0xcbf29ce484222325ULL;
	(void)ud;

	if (part == 0 && shim_self() == 0) {
		main_ops++;
		main_done_ready = p->done != NULL && p->done->ticket_number == p->next_dequeue_ticket;
		main_done_head = main_done_ready ? p->done->data : NULL;
	}
	if (part == 0) {
		h = mixh(h, (uint64_t)p->status);
		h = mixh(h, (uint64_t)p->next_ticket);
		h = mixh(h, (uint64_t)p->next_dequeue_ticket);
		h = mixh(h, (uint64_t)(uintptr_t)p->queue_last);
		h = hash_list(h, p->queue);
		h = hash_list(h, p->done);
	} else {
		h = mixh(h, (uint64_t)p->item_count);
		h = mixh(h, (uint64_t)(uintptr_t)p->safe_done_last);
		h = hash_list(h, p->safe_done);
		h = hash_list(h, p->recycle);
	}
	return h;
}

static void oracle_fail(const char *what)
{
	if (oracle[0] == '\0')
		snprintf(oracle, sizeof(oracle), "%s", what);
}

static void hash_line(const char *s)
{
	for (; *s; ++s) {
		hash ^= (unsigned char)*s;
		hash *= 0x100000001b3ULL;
	}
	hash ^= '\n';
	hash *= 0x100000001b3ULL;
}

static int worker_cb(void *user, void *work)
{
	item_t *it = work;
	int me = shim_self();
	int c = -1, st;

	if (user >= (void *)ctxs && user < (void *)(ctxs + MAX_W))
		c = (int)((int *)user - ctxs);
	if (c < 0)
		oracle_fail("ctx-unknown");
	else if (ctx_busy[c])
		oracle_fail("ctx-shared");
	if (c >= 0)
		ctx_busy[c] = 1;
	if (me >= 1 && me <= MAX_W) {
		if (last_item[me] >= 0 && last_item[me] < MAX_ITEMS)
			sure_stored[last_item[me]] = 1;
		in_cb[me] = 1;
		last_item[me] = it->id;
		snprintf(cb_ev[me], sizeof(cb_ev[me]), "B%d:%d:%d", c, it->id, it->val);
	}
	shim_yield();
	it->val += 100;
	it->ncb += 1;
	if (it->ncb > 1)
		oracle_fail("processed-twice");
	st = fail_st[it->id];
	if (st != 0)
		any_fail_done = 1;
	if (c >= 0)
		ctx_busy[c] = 0;
	if (me >= 1 && me <= MAX_W) {
		in_cb[me] = 0;
		snprintf(cb_ev[me], sizeof(cb_ev[me]), "E%d:%d:%d:%d", c, it->id, it->val, st);
	}
	shim_yield();
	return st;
}

static void client(void *arg)
{
	const char *p;
	(void)arg;

	for (p = c_prog; *p; ++p) {
		if (p != c_prog)
			shim_yield();
		client_pc = (int)(p - c_prog) + 1;
		switch (*p) {
		case 'S': {
			int id = next_id++;
			int fail_before = any_fail_done;
			int seen_before = fail_seen_by_client;
			int r = pool->submit(pool, &items[id]);

			if (r == 0) {
				sub_ok[n_sub_ok++] = id;
				if (seen_before)
					oracle_fail("submit-accepted-after-failure-was-handed-back");
			} else if (!fail_before && !any_fail_done) {
				oracle_fail("submit-refused-without-failure");
			}
			snprintf(main_ev, sizeof(main_ev), "S%d=%d", id, r);
			break;
		}
		case 'D': {
			int fail_before = any_fail_done;
			long ops_before = main_ops;
			int sure_before = 0;
			item_t *it;

			if (n_deq < n_sub_ok) {
				shim_view_t v;
				int w;

				shim_get_view(&v);
				for (w = 1; w <= c_nw && w < v.nthreads; ++w)
					if (v.state[w] == SHIM_T_EXITED && last_item[w] >= 0)
						sure_stored[last_item[w]] = 1;
				sure_before = sure_stored[sub_ok[n_deq]];
			}
			it = pool->dequeue(pool);

			if (it == NULL) {
				const thread_pool_impl_t *ip = (const thread_pool_impl_t *)pool;
				int ready;

				if (n_sub_ok > n_deq && !fail_before && !any_fail_done)
					oracle_fail("dequeue-null-with-items-outstanding");
				/* NULL although the next item in submission order is completed and waiting to be
				 * handed back (a worker failure does not entitle the pool to drop what was already
				 * processed: model dequeue_locked looks at the done list before the status).
				 * safe_done belongs to this thread alone: read directly.  done: the state this
				 * dequeue decided on under the mutex (snapshot at the entry of its last shim
				 * operation; other threads may have run since when the schedule has a fine
				 * pre-emption after the unlock); a dequeue that did no shim operation ran without
				 * interruption since this thread was resumed: read directly. */
				if (main_ops == ops_before) {
					main_done_ready = ip->done != NULL &&
							  ip->done->ticket_number == ip->next_dequeue_ticket;
					main_done_head = main_done_ready ? ip->done->data : NULL;
				}
				ready = main_done_ready;
				if (n_sub_ok > n_deq && (ip->safe_done != NULL || ready)) {
					const item_t *h = ip->safe_done != NULL ? ip->safe_done->data : main_done_head;

					/* two names so that a dropped SUCCESSFUL predecessor of the failing item and
					 * the dropped failing item itself are reported with their own witnesses */
					if (h >= items && h < items + MAX_ITEMS && fail_st[h->id] != 0)
						oracle_fail("dequeue-null-with-failed-item-ready");
					else
						oracle_fail("dequeue-null-with-completed-item-ready");
				}
				/* the same judged without looking into the pool: the next item in submission order
				 * had been processed and stored before this dequeue was called */
				if (sure_before)
					oracle_fail(fail_st[sub_ok[n_deq]] != 0 ? "dequeue-null-for-failed-item-stored-before-the-call" :
						    "dequeue-null-for-item-stored-before-the-call");
				snprintf(main_ev, sizeof(main_ev), "D=N");
			} else if (it < items || it >= items + MAX_ITEMS) {
				oracle_fail("dequeue-foreign-pointer");
				snprintf(main_ev, sizeof(main_ev), "D=?");
			} else {
				if (n_deq >= n_sub_ok || sub_ok[n_deq] != it->id)
					oracle_fail("fifo-order");
				else if (it->ncb != 1)
					oracle_fail("handed-back-not-processed-once");
				n_deq++;
				if (fail_st[it->id] != 0)
					fail_seen_by_client = 1;
				snprintf(main_ev, sizeof(main_ev), "D=%d:%d", it->id, it->val);
			}
			break;
		}
		case 'G': {
			int seen_before = fail_seen_by_client;
			int fail_before = any_fail_done;
			int r = pool->get_status(pool);

			if (r == 0 && seen_before)
				oracle_fail("status-lost");
			if (r != 0 && !fail_before && !any_fail_done)
				oracle_fail("status-without-failure");
			snprintf(main_ev, sizeof(main_ev), "G=%d", r);
			break;
		}
		case 'X':
			pool->destroy(pool);
			pool_alive = 0;
			snprintf(main_ev, sizeof(main_ev), "X");
			break;
		default:
			break;
		}
	}
}

static size_t fmt_list(char *out, size_t cap, const char *tag, work_item_t *l)
{
	size_t n = 0;
	int first = 1;

	n += snprintf(out + n, cap - n, "%s=", tag);
	for (; l != NULL && n + 32 < cap; l = l->next) {
		item_t *it = l->data;
		n += snprintf(out + n, cap - n, "%s%zu:%d", first ? "" : ",", l->ticket_number, it ? it->val : -1);
		first = 0;
	}
	if (first)
		n += snprintf(out + n, cap - n, "-");
	return n;
}

static void fmt_threads(char *out, size_t cap)
{
	shim_view_t v;
	size_t n = 0;
	int i;

	shim_get_view(&v);
	for (i = 0; i < v.nthreads && n + 8 < cap; ++i) {
		char c = '?';
		switch (v.state[i]) {
		case SHIM_T_READY: c = (i > 0 && in_cb[i]) ? 'C' : (i == 0 ? 'I' : 'R'); break;
		case SHIM_T_LOCK: c = 'L'; break;
		case SHIM_T_WAIT: c = 'W'; break;
		case SHIM_T_WOKEN: c = 'K'; break;
		case SHIM_T_JOIN: c = 'J'; break;
		case SHIM_T_EXITED: c = 'X'; break;
		case SHIM_T_FINE:
			c = v.fine_kind[i] == SHIM_F_PREWAIT ? 'a' : v.fine_kind[i] == SHIM_F_PRESIGNAL ? 'b' : 'u';
			break;
		}
		out[n++] = c;
		if (c == 'J')
			n += snprintf(out + n, cap - n, "%d", v.join_target[i] - 1);
	}
	out[n] = '\0';
}

static void hook(int kind, int tid, void *ud)
{
	char line[1024];
	size_t n = 0;
	const char *ev = "-";
	(void)ud;

	if (kind == SHIM_SPURIOUS) {
		n += snprintf(line + n, sizeof(line) - n, "s%d - ", tid);
		sched_len += snprintf(sched_buf + sched_len, sizeof(sched_buf) - sched_len, "%ss%d",
				      sched_len ? "," : "", tid);
	} else {
		if (tid == 0) {
			if (main_ev[0])
				ev = main_ev;
		} else if (tid <= MAX_W && cb_ev[tid][0]) {
			ev = cb_ev[tid];
		}
		n += snprintf(line + n, sizeof(line) - n, "%d%s %s ", tid, kind == SHIM_RUN_FINE ? "f" : "", ev);
		sched_len += snprintf(sched_buf + sched_len, sizeof(sched_buf) - sched_len, "%s%d%s",
				      sched_len ? "," : "", tid, kind == SHIM_RUN_FINE ? "f" : "");
		if (kind == SHIM_RUN_FINE)
			used_fine = 1;
	}
	if (pool_alive) {
		thread_pool_impl_t *p = (thread_pool_impl_t *)pool;

		n += fmt_list(line + n, sizeof(line) - n, "q", p->queue);
		line[n++] = ' ';
		n += fmt_list(line + n, sizeof(line) - n, "d", p->done);
		line[n++] = ' ';
		n += fmt_list(line + n, sizeof(line) - n, "s", p->safe_done);
		n += snprintf(line + n, sizeof(line) - n, " nt=%zu nd=%zu ic=%zu st=%d", p->next_ticket,
			      p->next_dequeue_ticket, p->item_count, p->status);
	} else {
		n += snprintf(line + n, sizeof(line) - n, "dead");
	}
	fmt_threads(last_T, sizeof(last_T));
	n += snprintf(line + n, sizeof(line) - n, " T=%s", last_T);
	main_ev[0] = '\0';
	if (kind != SHIM_SPURIOUS && tid >= 1 && tid <= MAX_W)
		cb_ev[tid][0] = '\0';
	{
		/* everything the future of the execution can depend on */
		const char *sp = strchr(line, ' ');
		size_t m = 0;
		int i;

		sp = sp ? strchr(sp + 1, ' ') : NULL;
		m += snprintf(sig_buf + m, sizeof(sig_buf) - m, "%s|pc=%d,%d,%d,%d,%d,%d|", sp ? sp + 1 : line,
			      client_pc, next_id, n_sub_ok, n_deq, any_fail_done, fail_seen_by_client);
		for (i = 0; i < next_id && m + 16 < sizeof(sig_buf); ++i)
			m += snprintf(sig_buf + m, sizeof(sig_buf) - m, "%d.%d,", items[i].val, items[i].ncb);
		for (i = 1; i <= c_nw && m + 16 < sizeof(sig_buf); ++i)
			m += snprintf(sig_buf + m, sizeof(sig_buf) - m, "w%d,", last_item[i]);
		for (i = 0; i < n_sub_ok && m + 16 < sizeof(sig_buf); ++i)
			m += snprintf(sig_buf + m, sizeof(sig_buf) - m, "o%d,", sub_ok[i]);
	}
	hash_line(line);
	if (verbose)
		printf("T %s\n", line);
}

/* ---- choosers: DFS with pre-emption / spurious / fine-pre-emption bounds ---- */

#define MAX_OPTS (3 * SHIM_MAX_THREADS)

typedef struct {
	int nopt;
	shim_choice_t opt[MAX_OPTS];
	int cp[MAX_OPTS], cs[MAX_OPTS], cf[MAX_OPTS];
	int idx;
	int used_p, used_s, used_f;	/* budget used before this choice */
	uint64_t key;			/* hash of this scheduling point (state cache key) */
	/* a thread stopped at a fine point: its local state is not part of the abstract state, but it is
	 * determined by the scheduling point it was last resumed at (fine_parent = key of that point: an
	 * ordinary one, or its previous fine point) since it ran alone from there to here */
	int fine_tid;
	uint64_t fine_parent;
	int fine_j;
} dfs_frame_t;

static dfs_frame_t frames[MAX_DEPTH];
static int dfs_depth, dfs_prefix, dfs_bound_p, dfs_bound_s, dfs_bound_f;
static int dfs_overflow, dfs_cache;
static long dfs_pruned, dfs_states, dfs_fine_states;

#define VIS_BITS 23
static uint64_t *vis;

static int visited_test_and_set(uint64_t h)
{
	size_t i = (size_t)(h >> (64 - VIS_BITS));

	if (h == 0)
		h = 1;
	for (;;) {
		if (vis[i] == h)
			return 1;
		if (vis[i] == 0) {
			vis[i] = h;
			return 0;
		}
		i = (i + 1) & (((size_t)1 << VIS_BITS) - 1);
	}
}

#define UNBOUNDED 99

static shim_choice_t dfs_chooser(const shim_view_t *v, void *ud)
{
	dfs_frame_t *f, *g = NULL;
	shim_choice_t stop = { SHIM_STOP, -1 };
	int k = dfs_depth, i, up, us, uf, ft = -1;
	(void)ud;

	if (k >= MAX_DEPTH) {
		dfs_overflow = 1;
		return stop;
	}
	f = &frames[k];
	if (k == 0) {
		up = us = uf = 0;
	} else {
		g = &frames[k - 1];
		up = g->used_p + g->cp[g->idx];
		us = g->used_s + g->cs[g->idx];
		uf = g->used_f + g->cf[g->idx];
	}
	if (k >= dfs_prefix) {
		char key[1600];
		uint64_t h = 0xcbf29ce484222325ULL;
		const char *q;

		for (i = 0; i < v->nthreads; ++i)
			if (v->state[i] == SHIM_T_FINE)
				ft = i;
		f->fine_tid = ft;
		f->fine_parent = 0;
		f->fine_j = 0;
		if (g != NULL && g->opt[g->idx].kind == SHIM_RUN_FINE && ft != g->opt[g->idx].tid) {
			/* the thread met no fine point before its next ordinary yield point: this execution
			 * is the one the SHIM_RUN option of the same thread produces */
			dfs_pruned++;
			return stop;
		}
		if (ft >= 0 && g != NULL) {
			if (g->fine_tid == ft && !(g->opt[g->idx].kind == SHIM_RUN_FINE && g->opt[g->idx].tid == ft)) {
				/* another thread moved while ft stays where it is */
				f->fine_parent = g->fine_parent;
				f->fine_j = g->fine_j;
			} else {
				/* ft ran from the scheduling point g (ordinary, or its previous fine point) to here */
				f->fine_parent = g->key;
				f->fine_j = g->fine_tid == ft ? g->fine_j + 1 : 1;
			}
		}
		snprintf(key, sizeof(key), "%s|%d|%d|%d|%d|%d|%llx|%d", k == 0 ? "init" : sig_buf,
			 dfs_bound_p >= UNBOUNDED ? 0 : v->last, dfs_bound_p >= UNBOUNDED ? 0 : up,
			 dfs_bound_s >= UNBOUNDED ? 0 : us, uf, ft, (unsigned long long)f->fine_parent, f->fine_j);
		for (q = key; *q; ++q) {
			h ^= (unsigned char)*q;
			h *= 0x100000001b3ULL;
		}
		f->key = h;
		if (dfs_cache) {
			if (visited_test_and_set(h)) {
				dfs_pruned++;
				return stop;
			}
			if (ft >= 0)
				dfs_fine_states++;
			if (++dfs_states > ((long)3 << (VIS_BITS - 2))) {
				dfs_overflow = 1;
				return stop;
			}
		}
	}
	if (k >= dfs_prefix) {
		int last_ok = v->last >= 0 && v->runnable[v->last];

		f->nopt = 0;
		f->used_p = up;
		f->used_s = us;
		f->used_f = uf;
		if (last_ok) {
			f->opt[f->nopt].kind = SHIM_RUN;
			f->opt[f->nopt].tid = v->last;
			f->cp[f->nopt] = 0;
			f->cs[f->nopt] = 0;
			f->cf[f->nopt] = 0;
			f->nopt++;
		}
		for (i = 0; i < v->nthreads; ++i) {
			if (!v->runnable[i] || (last_ok && i == v->last))
				continue;
			if (last_ok && dfs_bound_p < UNBOUNDED && up + 1 > dfs_bound_p)
				continue;
			f->opt[f->nopt].kind = SHIM_RUN;
			f->opt[f->nopt].tid = i;
			f->cp[f->nopt] = (last_ok && dfs_bound_p < UNBOUNDED) ? 1 : 0;
			f->cs[f->nopt] = 0;
			f->cf[f->nopt] = 0;
			f->nopt++;
		}
		if (dfs_bound_s >= UNBOUNDED || us + 1 <= dfs_bound_s) {
			for (i = 0; i < v->nthreads; ++i) {
				if (!v->waiting[i])
					continue;
				f->opt[f->nopt].kind = SHIM_SPURIOUS;
				f->opt[f->nopt].tid = i;
				f->cp[f->nopt] = 0;
				f->cs[f->nopt] = dfs_bound_s < UNBOUNDED ? 1 : 0;
				f->cf[f->nopt] = 0;
				f->nopt++;
			}
		}
		/* fine pre-emptions: stop thread i at its next fine point.  One thread at a time: while a
		 * thread is stopped at a fine point only that thread may be sent to its next fine point. */
		if (uf + 1 <= dfs_bound_f) {
			for (i = 0; i < v->nthreads; ++i) {
				int pre = last_ok && i != v->last;

				if (!v->runnable[i] || (ft >= 0 && i != ft) || v->state[i] == SHIM_T_JOIN)
					continue;
				if (pre && dfs_bound_p < UNBOUNDED && up + 1 > dfs_bound_p)
					continue;
				f->opt[f->nopt].kind = SHIM_RUN_FINE;
				f->opt[f->nopt].tid = i;
				f->cp[f->nopt] = (pre && dfs_bound_p < UNBOUNDED) ? 1 : 0;
				f->cs[f->nopt] = 0;
				f->cf[f->nopt] = 1;
				f->nopt++;
			}
		}
		f->idx = 0;
		if (f->nopt == 0)
			return stop;
	}
	dfs_depth++;
	return f->opt[f->idx];
}

static int dfs_backtrack(void)
{
	int k;

	for (k = dfs_depth - 1; k >= 0; --k) {
		if (frames[k].idx + 1 < frames[k].nopt) {
			frames[k].idx++;
			dfs_prefix = k + 1;
			return 1;
		}
	}
	return 0;
}

/* a crash of the code under test inside an execution: report the schedule that led to it */
static void on_crash(int sig)
{
	char buf[8192];
	int n;

	if (shim_self() >= 0)
		sched_len += snprintf(sched_buf + sched_len, sizeof(sched_buf) - sched_len, "%s%d", sched_len ? "," : "",
				      shim_self());
	n = snprintf(buf, sizeof(buf), "%c %s %d %s %s | %s | CRASH:signal-%d %016llx\n", used_fine ? 'P' : 'E', c_id,
		     c_nw, c_prog, c_fails, sched_buf, sig, (unsigned long long)hash);

	fflush(stdout);
	if (n > 0 && write(1, buf, (size_t)n) < 0)
		_exit(6);
	_exit(5);
}

/* ---- one execution ---- */

static void run_once(shim_chooser_t ch, void *ud)
{
	char verdict[192];
	int i, r;

	shim_reset();
	memset(items, 0, sizeof(items));
	for (i = 0; i < MAX_ITEMS; ++i) {
		items[i].id = i;
		items[i].val = i;
	}
	memset(ctx_busy, 0, sizeof(ctx_busy));
	memset(in_cb, 0, sizeof(in_cb));
	memset(cb_ev, 0, sizeof(cb_ev));
	memset(last_item, -1, sizeof(last_item));
	client_pc = 0;
	sig_buf[0] = '\0';
	main_ev[0] = '\0';
	n_sub_ok = n_deq = next_id = 0;
	any_fail_done = fail_seen_by_client = 0;
	oracle[0] = '\0';
	hash = 0xcbf29ce484222325ULL;
	sched_len = 0;
	sched_buf[0] = '\0';
	last_T[0] = '\0';
	used_fine = 0;
	main_ops = 0;
	main_done_ready = 0;
	main_done_head = NULL;
	memset(sure_stored, 0, sizeof(sure_stored));

	pool = thread_pool_create((size_t)c_nw, worker_cb);
	if (pool == NULL) {
		printf("E %s %d %s %s | | CREATE-FAILED 0\n", c_id, c_nw, c_prog, c_fails);
		return;
	}
	pool_alive = 1;
	for (i = 0; i < c_nw; ++i)
		pool->set_worker_ptr(pool, (size_t)i, &ctxs[i]);
	{
		thread_pool_impl_t *p = (thread_pool_impl_t *)pool;
		pthread_cond_t *conds[2];

		conds[0] = &p->queue_cond;
		conds[1] = &p->done_cond;
		shim_guard_set(&p->mtx, conds, 2, pool_snap, NULL);
	}

	r = shim_run(client, NULL, ch, ud, hook, NULL, 2000);
	shim_guard_clear();

	if (oracle[0]) {
		snprintf(verdict, sizeof(verdict), "ORACLE:%s", oracle);
	} else if (r == SHIM_OK) {
		snprintf(verdict, sizeof(verdict), "OK");
	} else if (r == SHIM_DEADLOCK) {
		int st = pool_alive ? ((thread_pool_impl_t *)pool)->status : 0;
		fmt_threads(last_T, sizeof(last_T));
		snprintf(verdict, sizeof(verdict), "DEADLOCK:%s:st=%d", last_T, st);
	} else {
		snprintf(verdict, sizeof(verdict), "%s", shim_result_name(r));
	}
	printf("%c %s %d %s %s | %s | %s %016llx\n", used_fine ? 'P' : 'E', c_id, c_nw, c_prog, c_fails, sched_buf,
	       verdict, (unsigned long long)hash);
	if (shim_guard_violation() != NULL) {
		n_discipline++;
		if (n_discipline_printed < 8) {
			n_discipline_printed++;
			printf("L %s %d %s %s | %s | %s\n", c_id, c_nw, c_prog, c_fails, sched_buf, shim_guard_violation());
		}
	}
	/* a pool whose threads are stuck cannot be destroyed: leaked on purpose */
}

static void parse_fails(void)
{
	const char *p = c_fails;

	memset(fail_st, 0, sizeof(fail_st));
	if (strcmp(c_fails, "-") == 0)
		return;
	while (*p) {
		char *e;
		long id = strtol(p, &e, 10);
		long st = 0;

		if (*e == ':')
			st = strtol(e + 1, &e, 10);
		if (id >= 0 && id < MAX_ITEMS)
			fail_st[id] = (int)st;
		p = (*e == ',') ? e + 1 : e;
		if (e == p && *p != '\0' && *p != ',')
			break;
	}
}

int main(int argc, char **argv)
{
	static char line[8192], mode[16], rest[4096];

	if (argc > 1 && strcmp(argv[1], "-v") == 0)
		verbose = 1;
	{
		static char altstack[65536];
		stack_t ss;
		struct sigaction sa;

		ss.ss_sp = altstack;
		ss.ss_size = sizeof(altstack);
		ss.ss_flags = 0;
		sigaltstack(&ss, NULL);
		memset(&sa, 0, sizeof(sa));
		sa.sa_handler = on_crash;
		sa.sa_flags = SA_ONSTACK;
		sigaction(SIGSEGV, &sa, NULL);
		sigaction(SIGBUS, &sa, NULL);
		sigaction(SIGABRT, &sa, NULL);
		sigaction(SIGFPE, &sa, NULL);
	}

	while (fgets(line, sizeof(line), stdin)) {
		int n = 0;
		size_t l;

		rest[0] = '\0';
		if (sscanf(line, "%63s %d %127s %255s %15s %n", c_id, &c_nw, c_prog, c_fails, mode, &n) < 5)
			continue;
		snprintf(rest, sizeof(rest), "%s", line + n);
		l = strlen(rest);
		while (l > 0 && (rest[l - 1] == '\n' || rest[l - 1] == '\r'))
			rest[--l] = '\0';
		if (c_nw < 1 || c_nw > MAX_W)
			continue;
		l = strlen(c_prog);
		if (l == 0 || c_prog[l - 1] != 'X') {
			c_prog[l] = 'X';
			c_prog[l + 1] = '\0';
		}
		parse_fails();
		n_discipline = n_discipline_printed = 0;

		if (strcmp(mode, "run") == 0) {
			shim_list_chooser_t lc;

			shim_list_chooser_init(&lc, rest);
			run_once(shim_list_chooser, &lc);
		} else if (strcmp(mode, "rand") == 0) {
			unsigned long long seed = 1;
			int count = 1, permille = 0, budget = 0, fpermille = 0, fbudget = 0, i;

			sscanf(rest, "%llu %d %d %d %d %d", &seed, &count, &permille, &budget, &fpermille, &fbudget);
			for (i = 0; i < count; ++i) {
				shim_random_chooser_t rc;

				shim_random_chooser_init(&rc, seed * 1000003ULL + (unsigned)i, permille, budget);
				shim_random_chooser_set_fine(&rc, fpermille, fbudget);
				run_once(shim_random_chooser, &rc);
			}
		} else if (strcmp(mode, "dfs") == 0) {
			long maxexec = 100000, nexec = 0;

			dfs_bound_p = 2;
			dfs_bound_s = 0;
			dfs_cache = 1;
			dfs_bound_f = 0;
			sscanf(rest, "%d %d %ld %d %d", &dfs_bound_p, &dfs_bound_s, &maxexec, &dfs_cache, &dfs_bound_f);
			dfs_prefix = 0;
			dfs_pruned = dfs_states = dfs_fine_states = 0;
			if (dfs_cache) {
				if (vis == NULL)
					vis = malloc(sizeof(uint64_t) << VIS_BITS);
				memset(vis, 0, sizeof(uint64_t) << VIS_BITS);
			}
			for (;;) {
				dfs_depth = 0;
				dfs_overflow = 0;
				run_once(dfs_chooser, NULL);
				nexec++;
				if (dfs_overflow)
					printf("N %s depth-overflow\n", c_id);
				if (nexec >= maxexec) {
					printf("N %s truncated %ld\n", c_id, nexec);
					break;
				}
				if (!dfs_backtrack())
					break;
			}
			printf("N %s dfs-done execs=%ld states=%ld pruned=%ld fine-states=%ld\n", c_id, nexec, dfs_states,
			       dfs_pruned, dfs_fine_states);
		}
		if (n_discipline)
			printf("N %s discipline-violations=%ld\n", c_id, n_discipline);
		fflush(stdout);
	}
	return 0;
}
