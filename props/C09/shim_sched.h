/* shim_sched.h — deterministic cooperative scheduler in place of pthreads.
 *
 * Usage: compile the code under test with `-include shim_sched.h` (or #include this
 * header before #include-ing the .c file) and link shim_sched.c.  <pthread.h> is
 * included first, untouched; afterwards the pthread entry points used by the code
 * under test are re-#defined onto shim_* functions.  Threads become ucontext
 * coroutines; exactly one runs at a time; control returns to the scheduler only at
 * *yield points*:
 *
 *   - thread start                         (state SHIM_T_READY)
 *   - shim_yield() / sched_yield()         (state SHIM_T_READY)
 *   - pthread_mutex_lock                   (state SHIM_T_LOCK; runnable iff mutex free)
 *       ... unless the thread performed no shim operation since its last yield point
 *       and the mutex is free: then the lock is taken at once ("merged" with the
 *       preceding yield point; thread-local code between them commutes with everything)
 *   - pthread_cond_wait                    (releases the mutex; state SHIM_T_WAIT = blocked;
 *       after broadcast/signal/spurious wake: SHIM_T_WOKEN = runnable iff mutex free)
 *   - pthread_join on a live thread        (state SHIM_T_JOIN; runnable iff target exited)
 *   - thread exit                          (state SHIM_T_EXITED)
 *
 * pthread_mutex_unlock is NOT a yield point (what follows is thread-local until the
 * next lock).  One scheduler step = one thread running from its yield point to its
 * next one, i.e. one critical-section segment.
 *
 * That granularity is only sound for code that keeps the LOCK DISCIPLINE (every access to
 * shared state, every cond_wait / signal / broadcast happens with the mutex held).  Two
 * opt-in facilities make the discipline itself an observable instead of an assumption
 * (both are inert unless the harness asks for them, so older users see no change):
 *
 *   FINE PRE-EMPTION POINTS.  A thread scheduled with SHIM_RUN_FINE (instead of SHIM_RUN)
 *   additionally stops (state SHIM_T_FINE, always runnable) at
 *     - the ENTRY of pthread_cond_wait, before the mutex is released and before the thread
 *       is registered as a waiter (SHIM_F_PREWAIT; the mutex stays held by the stopped
 *       thread: threads that need it block, threads that misbehave run),
 *     - the entry of pthread_cond_broadcast / pthread_cond_signal (SHIM_F_PRESIGNAL),
 *     - right after pthread_mutex_unlock released the mutex (SHIM_F_POSTUNLOCK).
 *   A thread resumed with SHIM_RUN runs on to its next ordinary yield point.
 *
 *   LOCK-DISCIPLINE ORACLE (shim_guard_set).  The harness names the mutex, the condition
 *   variables it guards and a snapshot function over the guarded state.  At every shim
 *   operation of a thread (and at its exit) the snapshot is compared with the previous one:
 *   only the running thread can have changed it, so a change of part 0 (mutex-protected
 *   state) while that thread does not hold the mutex, a change of part 1 (state private to
 *   thread 0) by another thread, or a signal / broadcast on a guarded condition variable
 *   without the mutex is recorded (shim_guard_violation).  The guard ends when the guarded
 *   mutex is destroyed (the state is about to be freed) or at shim_reset().
 *
 * Thread ids: 0 = the client coroutine given to shim_run(); 1.. = threads in
 * pthread_create order.  pthread_create may be called before shim_run() (from the
 * plain program context): the threads are registered and start when first scheduled.
 * Outside shim_run() lock/unlock act immediately, never yield.
 *
 * The schedule is decided by a chooser callback; after every step a hook is called.
 * Ready-made choosers: explicit list (shim_list_chooser), seeded random
 * (shim_random_chooser).  See NOTES.md (props/C09) for the protocol.
 */
#ifndef SHIM_SCHED_H
#define SHIM_SCHED_H

#include <pthread.h>
#include <signal.h>
#include <sched.h>
#include <stddef.h>

#define SHIM_MAX_THREADS 16

enum shim_tstate {
	SHIM_T_UNUSED = 0,
	SHIM_T_READY,	/* at start or at an explicit yield: always runnable */
	SHIM_T_LOCK,	/* in pthread_mutex_lock: runnable iff the mutex is free */
	SHIM_T_WAIT,	/* in pthread_cond_wait, not signalled: blocked */
	SHIM_T_WOKEN,	/* in pthread_cond_wait, signalled: runnable iff the mutex is free */
	SHIM_T_JOIN,	/* in pthread_join: runnable iff the target exited */
	SHIM_T_EXITED,
	SHIM_T_FINE	/* stopped at a fine pre-emption point (see shim_fine_kind): always runnable */
};

enum shim_fine_kind {
	SHIM_F_NONE = 0,
	SHIM_F_PREWAIT = 1,	/* entry of cond_wait: mutex still held, not yet a waiter */
	SHIM_F_PRESIGNAL = 2,	/* entry of cond_broadcast / cond_signal */
	SHIM_F_POSTUNLOCK = 3	/* mutex_unlock done, before the thread's next instruction */
};

enum shim_result {
	SHIM_OK = 0,		/* every thread exited */
	SHIM_DEADLOCK = 1,	/* some thread alive, none runnable */
	SHIM_BUDGET = 2,	/* step budget exceeded */
	SHIM_BADCHOICE = 3,	/* chooser picked a thread that is not runnable / not waiting */
	SHIM_STOPPED = 4	/* chooser asked to stop */
};

/* SHIM_RUN_FINE: like SHIM_RUN, but the thread also stops at its next fine pre-emption point */
enum shim_choice_kind { SHIM_RUN = 0, SHIM_SPURIOUS = 1, SHIM_STOP = 2, SHIM_RUN_FINE = 3 };

typedef struct {
	int kind;	/* enum shim_choice_kind */
	int tid;
} shim_choice_t;

typedef struct {
	int nthreads;				/* ids 0..nthreads-1 */
	int state[SHIM_MAX_THREADS];		/* enum shim_tstate */
	int runnable[SHIM_MAX_THREADS];		/* 1 if SHIM_RUN tid is allowed now */
	int waiting[SHIM_MAX_THREADS];		/* 1 if SHIM_SPURIOUS tid is allowed now */
	int join_target[SHIM_MAX_THREADS];	/* for SHIM_T_JOIN */
	int last;				/* thread that ran last, -1 at start */
	long step;				/* number of choices made so far */
	int fine_kind[SHIM_MAX_THREADS];	/* enum shim_fine_kind, for SHIM_T_FINE */
	int holds[SHIM_MAX_THREADS];		/* number of mutexes the thread holds right now */
} shim_view_t;

typedef shim_choice_t (*shim_chooser_t)(const shim_view_t *view, void *ud);
/* called after every executed choice; kind/tid = the choice just executed */
typedef void (*shim_hook_t)(int kind, int tid, void *ud);

#ifdef __cplusplus
extern "C" {
#endif

/* forget all threads (abandoned coroutines of a deadlocked run are freed) */
void shim_reset(void);
/* run `client(arg)` as thread 0 together with all registered threads */
int shim_run(void (*client)(void *), void *arg, shim_chooser_t chooser, void *chooser_ud,
	     shim_hook_t hook, void *hook_ud, long max_steps);
void shim_yield(void);
int shim_yield_int(void);	/* for #define sched_yield */
int shim_self(void);		/* id of the running thread, -1 outside shim_run */
void shim_get_view(shim_view_t *out);
const char *shim_result_name(int r);

/* explicit schedule: tokens "3" (run thread 3), "3f" (run thread 3 up to its next fine
 * pre-emption point, SHIM_RUN_FINE) or "s3" (spurious wake of thread 3),
 * separated by ',' or ' '.  When the list is exhausted: run the lowest runnable id
 * that equals view->last if possible (non-preemptive continuation). */
typedef struct {
	const char *pos;
	int exhausted_steps;
} shim_list_chooser_t;
void shim_list_chooser_init(shim_list_chooser_t *c, const char *schedule);
shim_choice_t shim_list_chooser(const shim_view_t *view, void *ud);

/* seeded random: uniformly among runnable threads; with probability spur_permille/1000
 * (while spur_budget > 0) a spurious wake-up of a random waiter instead */
typedef struct {
	unsigned long long s;
	int spur_permille;
	int spur_budget;
	int fine_permille;	/* 0 after shim_random_chooser_init: no fine pre-emptions */
	int fine_budget;
} shim_random_chooser_t;
void shim_random_chooser_init(shim_random_chooser_t *c, unsigned long long seed,
			      int spur_permille, int spur_budget);
/* with probability fine_permille/1000 (while fine_budget > 0) a thread is run with SHIM_RUN_FINE */
void shim_random_chooser_set_fine(shim_random_chooser_t *c, int fine_permille, int fine_budget);
shim_choice_t shim_random_chooser(const shim_view_t *view, void *ud);

/* ---- lock-discipline oracle (opt-in) ----
 * snap(ud, 0): hash of the state that may only change while the calling thread holds `mtx`;
 * snap(ud, 1): hash of the state that only thread 0 (the client) may change, locked or not.
 * conds[0..nconds-1]: condition variables that may only be signalled / broadcast with `mtx` held. */
typedef unsigned long long (*shim_guard_fn)(void *ud, int part);
void shim_guard_set(pthread_mutex_t *mtx, pthread_cond_t *const *conds, int nconds,
		    shim_guard_fn snap, void *ud);
void shim_guard_clear(void);
/* NULL, or a description of the first violation since shim_guard_set (static buffer) */
const char *shim_guard_violation(void);
/* number of violations since shim_guard_set */
int shim_guard_violation_count(void);

int shim_pthread_create(pthread_t *t, const pthread_attr_t *a, void *(*fn)(void *), void *arg);
int shim_pthread_join(pthread_t t, void **ret);
int shim_mutex_init(pthread_mutex_t *m, const pthread_mutexattr_t *a);
int shim_mutex_destroy(pthread_mutex_t *m);
int shim_mutex_lock(pthread_mutex_t *m);
int shim_mutex_unlock(pthread_mutex_t *m);
int shim_cond_init(pthread_cond_t *c, const pthread_condattr_t *a);
int shim_cond_destroy(pthread_cond_t *c);
int shim_cond_wait(pthread_cond_t *c, pthread_mutex_t *m);
int shim_cond_broadcast(pthread_cond_t *c);
int shim_cond_signal(pthread_cond_t *c);

#ifdef __cplusplus
}
#endif

#ifndef SHIM_SCHED_IMPLEMENTATION
#undef pthread_create
#undef pthread_join
#undef pthread_mutex_init
#undef pthread_mutex_destroy
#undef pthread_mutex_lock
#undef pthread_mutex_unlock
#undef pthread_cond_init
#undef pthread_cond_destroy
#undef pthread_cond_wait
#undef pthread_cond_broadcast
#undef pthread_cond_signal
#undef pthread_sigmask
#undef sched_yield
#define pthread_create shim_pthread_create
#define pthread_join shim_pthread_join
#define pthread_mutex_init shim_mutex_init
#define pthread_mutex_destroy shim_mutex_destroy
#define pthread_mutex_lock shim_mutex_lock
#define pthread_mutex_unlock shim_mutex_unlock
#define pthread_cond_init shim_cond_init
#define pthread_cond_destroy shim_cond_destroy
#define pthread_cond_wait shim_cond_wait
#define pthread_cond_broadcast shim_cond_broadcast
#define pthread_cond_signal shim_cond_signal
#define pthread_sigmask(how, set, old) (0)
#define sched_yield shim_yield_int
#endif

#endif /* SHIM_SCHED_H */
