/* C09 search oracle one level up: the block processor (lib/sqfs/src/block_processor) on the
 * real pool with real threads and a compressor that fails on a chosen block.
 * Checks that the callers of pool->dequeue / get_status cope with a worker failure: every
 * library call returns (watchdog), and without a failure all blocks reach the writer in order.
 * stdin : B <caseid> <nworkers> <max_backlog> <nblocks> <failblock|-1> <seed> <dont_fragment 0|1>
 * stdout: B <...> | <verdict> | ret=<first nonzero return or 0> written=<ids in order>
 */
#define _GNU_SOURCE
#include "config.h"
#ifdef BLK_SHIM
/* shim mode: the library was built with threadpool.c on the cooperative scheduler
 * (-include shim_sched.h); the whole case runs as thread 0 of a seeded random schedule and the
 * scheduler reports DEADLOCK instead of a watchdog time-out (deterministic, replayable). */
#include "shim_sched.h"
#endif
#include "sqfs/block_processor.h"
#include "sqfs/block_writer.h"
#include "sqfs/compressor.h"
#include "sqfs/inode.h"
#include "sqfs/error.h"
#include "sqfs/block.h"

#include <signal.h>
#include <stdio.h>
#include <stdlib.h>
#include <string.h>
#include <unistd.h>
#include <sched.h>

#define BLK 256
#define FAIL_CODE (-77)

static char cur_case[1024];
static int fail_block;
static int did_fail;
static unsigned long long seed;

static unsigned long long mix(unsigned long long z)
{
	z += 0x9E3779B97F4A7C15ULL;
	z = (z ^ (z >> 30)) * 0xBF58476D1CE4E5B9ULL;
	z = (z ^ (z >> 27)) * 0x94D049BB133111EBULL;
	return z ^ (z >> 31);
}

static void on_alarm(int sig)
{
	static const char msg[] = " | HANG |\n";
	(void)sig;
	if (write(1, cur_case, strlen(cur_case)) < 0 || write(1, msg, sizeof(msg) - 1) < 0)
		_exit(4);
	_exit(3);
}

/* ---- compressor: never shrinks; fails on the block whose first byte is fail_block ---- */
typedef struct { sqfs_compressor_t base; } cmp_t;

static void cmp_destroy(sqfs_object_t *o) { free(o); }
static sqfs_object_t *cmp_copy(const sqfs_object_t *o)
{
	cmp_t *c = malloc(sizeof(*c));
	if (c)
		memcpy(c, o, sizeof(*c));
	return (sqfs_object_t *)c;
}
static void cmp_get_configuration(const sqfs_compressor_t *c, sqfs_compressor_config_t *cfg)
{
	(void)c;
	memset(cfg, 0, sizeof(*cfg));
}
static int cmp_write_options(sqfs_compressor_t *c, sqfs_file_t *f) { (void)c; (void)f; return 0; }
static int cmp_read_options(sqfs_compressor_t *c, sqfs_file_t *f) { (void)c; (void)f; return 0; }
static sqfs_s32 cmp_do_block(sqfs_compressor_t *c, const sqfs_u8 *in, sqfs_u32 size, sqfs_u8 *out, sqfs_u32 outsize)
{
	unsigned long long r = mix(seed * 2654435761ULL + in[0]);
	(void)c; (void)out; (void)outsize; (void)size;
	switch (r % 3) {
	case 0: break;
	case 1: sched_yield(); break;
#ifndef BLK_SHIM
	case 2: usleep((r >> 8) % 80); break;
#endif
	}
	if (fail_block >= 0 && in[0] == (sqfs_u8)(fail_block + 1)) {
		__atomic_store_n(&did_fail, 1, __ATOMIC_SEQ_CST);
		return FAIL_CODE;
	}
	return 0;
}

/* ---- block writer: records the first byte of every block ---- */
typedef struct { sqfs_block_writer_t base; int ids[1024]; int n; } wr_t;

static void wr_destroy(sqfs_object_t *o) { (void)o; }
static int wr_write(sqfs_block_writer_t *w, void *user, sqfs_u32 size, sqfs_u32 checksum, sqfs_u32 flags,
		    const sqfs_u8 *data, sqfs_u64 *location)
{
	wr_t *wr = (wr_t *)w;
	(void)user; (void)checksum; (void)flags;
	if (size > 0 && wr->n < 1024)
		wr->ids[wr->n++] = data[0] - 1;
	*location = (sqfs_u64)wr->n * BLK;
	return 0;
}
static sqfs_u64 wr_count(const sqfs_block_writer_t *w) { return (sqfs_u64)((const wr_t *)w)->n; }

static int c_nw, c_backlog, c_nblocks, c_nofrag;
static int r_first_err, r_create_failed;
static wr_t wr;

static void case_body(void *arg)
{
	static sqfs_u8 buf[BLK];
	sqfs_block_processor_desc_t desc;
	sqfs_block_processor_t *proc = NULL;
	sqfs_inode_generic_t *inode = NULL;
	cmp_t *cmp;
	int i, ret, first_err = 0;
	(void)arg;

	cmp = calloc(1, sizeof(*cmp));
	sqfs_object_init(cmp, cmp_destroy, cmp_copy);
	cmp->base.get_configuration = cmp_get_configuration;
	cmp->base.write_options = cmp_write_options;
	cmp->base.read_options = cmp_read_options;
	cmp->base.do_block = cmp_do_block;
	memset(&wr, 0, sizeof(wr));
	sqfs_object_init(&wr, wr_destroy, NULL);
	wr.base.write_data_block = wr_write;
	wr.base.get_block_count = wr_count;

	memset(&desc, 0, sizeof(desc));
	desc.size = sizeof(desc);
	desc.max_block_size = BLK;
	desc.num_workers = (sqfs_u32)c_nw;
	desc.max_backlog = (sqfs_u32)c_backlog;
	desc.cmp = (sqfs_compressor_t *)cmp;
	desc.wr = (sqfs_block_writer_t *)&wr;

	ret = sqfs_block_processor_create_ex(&desc, &proc);
	if (ret != 0) {
		r_create_failed = ret;
		sqfs_drop(cmp);
		return;
	}
	ret = sqfs_block_processor_begin_file(proc, &inode, NULL, c_nofrag ? SQFS_BLK_DONT_FRAGMENT : 0);
	if (ret != 0 && first_err == 0)
		first_err = ret;
	for (i = 0; i < c_nblocks && first_err == 0; ++i) {
		size_t k;
		for (k = 0; k < BLK; ++k)
			buf[k] = (sqfs_u8)(mix(i * 977 + k) | 1);
		buf[0] = (sqfs_u8)(i + 1);
		ret = sqfs_block_processor_append(proc, buf, (i == c_nblocks - 1 && !c_nofrag) ? BLK / 2 : BLK);
		if (ret != 0 && first_err == 0)
			first_err = ret;
	}
	if (first_err == 0) {
		ret = sqfs_block_processor_end_file(proc);
		if (ret != 0)
			first_err = ret;
	}
	if (first_err == 0) {
		ret = sqfs_block_processor_finish(proc);
		if (ret != 0)
			first_err = ret;
	}
	sqfs_drop(proc);	/* must return as well */
	free(inode);
	sqfs_drop(cmp);
	r_first_err = first_err;
}

int main(void)
{
	static char line[1024], cid[64];

	signal(SIGALRM, on_alarm);
	while (fgets(line, sizeof(line), stdin)) {
		int i, order_ok = 1, sched = 0;
		char written[4096];
		size_t n = 0, l;
		const char *verdict;

		if (sscanf(line, "B %63s %d %d %d %d %llu %d", cid, &c_nw, &c_backlog, &c_nblocks, &fail_block, &seed, &c_nofrag) != 7)
			continue;
		l = strlen(line);
		while (l > 0 && (line[l - 1] == '\n' || line[l - 1] == '\r'))
			line[--l] = '\0';
		snprintf(cur_case, sizeof(cur_case), "%s", line);
		if (c_nblocks > 200)
			c_nblocks = 200;
		did_fail = 0;
		r_first_err = 0;
		r_create_failed = 0;
		alarm(8);
#ifdef BLK_SHIM
		{
			shim_random_chooser_t rc;

			shim_reset();
			shim_random_chooser_init(&rc, seed, 30, 4);
			sched = shim_run(case_body, NULL, shim_random_chooser, &rc, NULL, NULL, 2000000);
		}
#else
		case_body(NULL);
#endif
		alarm(0);
		if (r_create_failed) {
			printf("%s | CREATE-FAILED | ret=%d\n", cur_case, r_create_failed);
			continue;
		}
		if (sched != 0) {
#ifdef BLK_SHIM
			printf("%s | %s | scheduler: %s (no runnable thread = deadlock)\n", cur_case,
			       sched == SHIM_DEADLOCK ? "HANG" : shim_result_name(sched), shim_result_name(sched));
#endif
			fflush(stdout);
			continue;
		}
		for (i = 0; i < wr.n; ++i) {
			n += snprintf(written + n, sizeof(written) - n, "%d,", wr.ids[i]);
			if (wr.ids[i] != i)
				order_ok = 0;
		}
		written[n] = '\0';
		if (!__atomic_load_n(&did_fail, __ATOMIC_SEQ_CST)) {
			if (r_first_err != 0)
				verdict = "ORACLE:error-without-failure";
			else if (!order_ok || wr.n != c_nblocks)
				verdict = "ORACLE:blocks-lost-or-reordered";
			else
				verdict = "OK";
		} else {
			if (!order_ok)
				verdict = "ORACLE:blocks-reordered";
			else if (r_first_err == 0)
				verdict = "OK-UNREPORTED";	/* nobody asked the pool: noted, not judged here */
			else if (r_first_err != FAIL_CODE)
				verdict = "ORACLE:wrong-error-code";
			else
				verdict = "OK";
		}
		printf("%s | %s | ret=%d written=%s\n", cur_case, verdict, r_first_err, written);
		fflush(stdout);
	}
	return 0;
}
