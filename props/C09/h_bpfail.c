/* C09 search leg "block processor on a failing pool".
 *
 * The working tree's block processor (lib/sqfs/src/block_processor/{frontend,backend,block_processor}.c,
 * ASan+UBSan objects of the library build) runs on the working tree's threadpool.c compiled onto the
 * cooperative scheduler (h_bpfail_pool.c + shim_sched.c), with a toy compressor that FAILS at its k-th
 * call, real block writer / fragment table on a memory file.  The schedule decides WHO learns of the
 * failure first:
 *     W  workers first   a runnable worker always runs before the main thread: the worker completes (and
 *                        fails) right after the submit, so the *next submit* is rejected
 *     M  main first      the main thread runs until it blocks: the failure is met by dequeue / get_status
 *     P  phases          seeded alternation of W and M phases of random length
 *     R  random          seeded uniform choice incl. spurious wake-ups
 * The pool handed to the block processor is wrapped by a counting proxy (same vtable), which knows which
 * blocks are inside the pool and which call saw the failure first.
 *
 * Oracles (all evaluated on the implementation):
 *   - every API call returns (scheduler: no deadlock, step budget), sqfs_drop returns
 *   - ownership: after every API call the blocks reachable from the block processor (blk_current,
 *     frag_block, free list, io queue) and the blocks inside the pool are pairwise distinct and the
 *     lists are acyclic: a block owned twice is a double free / use after free waiting to happen
 *   - failure reporting: if the compressor failed, the first non-zero return is the compressor's code,
 *     and finish() (always called in "continue" mode, called unless an earlier call failed otherwise)
 *     does not return 0; if it did not fail, every call returns 0
 *   - ASan/UBSan abort the process (the Python side attributes the crash to the case that had begun),
 *     LeakSanitizer is asked after every case (blocks abandoned inside a destroyed pool are released by
 *     the proxy: the pool's contract leaves them to the caller, they are counted, not judged).
 *     Run with ASAN_OPTIONS=detect_leaks=1:fast_unwind_on_malloc=0 -- with the frame-pointer unwinder an
 *     allocation made on a coroutine stack has no caller pc and LSan then treats the chunk as reachable.
 *
 * stdin : F <cid> <bs> <workers> <backlog> <io 0|1> <k|all> <mode W|M|P|R> <sched seed> <cont 0|1> <ops...>
 *   ops : b<flags> begin_file   a<n> append n pseudo-random non-zero bytes   r<n> append n equal bytes
 *         z<n> append n zero bytes   e end_file   s sync   m<n> submit_block (outside a file)
 *         (finish + drop are appended by the harness)
 *   k = all: run k = 0 first, then k = 1..(number of compressor calls of that run)
 * stdout: BEGIN <cid>/<k>
 *         F <cid>/<k> | <verdict> | first=<ret> fin=<ret|-> failed=<0|1> seen=<S|D|G|-> site=<site> rej=<n> ncalls=<n> abandoned=<n> steps=<n>
 * argv  : -v   print one line per API call (replay)
 * exit  : 0; 3 watchdog (busy loop); 5 gave up after three runs in which a call did not return; else: sanitizer
 */
#define _GNU_SOURCE
#include "config.h"
#include "shim_sched.h"
#include "lib/sqfs/src/block_processor/internal.h"
#include "sqfs/block_processor.h"
#include "sqfs/block_writer.h"
#include "sqfs/frag_table.h"
#include "sqfs/compressor.h"
#include "sqfs/inode.h"
#include "sqfs/error.h"
#include "sqfs/block.h"
#include "sqfs/io.h"

#include <signal.h>
#include <stdio.h>
#include <stdlib.h>
#include <string.h>
#include <unistd.h>

#if defined(__SANITIZE_ADDRESS__)
#include <sanitizer/lsan_interface.h>
#define HAVE_LSAN 1
#else
#define HAVE_LSAN 0
#endif

#define FAIL_CODE (-77)
#define MAX_OPS 256
#define MAX_POOLED 4096
#define LIST_LIMIT 100000

static int verbose;
static char cur_id[256];

/* ---------------- memory file (as props/C02/h_bp.c) ---------------- */
typedef struct {
	sqfs_file_t base;
	sqfs_u8 *data;
	size_t size, cap;
} memfile_t;

static int mf_read_at(sqfs_file_t *f, sqfs_u64 off, void *buf, size_t size)
{
	memfile_t *m = (memfile_t *)f;
	if (off > m->size || size > m->size - off)
		return SQFS_ERROR_OUT_OF_BOUNDS;
	memcpy(buf, m->data + off, size);
	return 0;
}

static int mf_reserve(memfile_t *m, size_t want)
{
	if (want > m->cap) {
		size_t n = m->cap ? m->cap : 256;
		sqfs_u8 *p;
		while (n < want) n *= 2;
		p = realloc(m->data, n);
		if (p == NULL) return SQFS_ERROR_ALLOC;
		m->data = p; m->cap = n;
	}
	return 0;
}

static int mf_write_at(sqfs_file_t *f, sqfs_u64 off, const void *buf, size_t size)
{
	memfile_t *m = (memfile_t *)f;
	if (mf_reserve(m, off + size)) return SQFS_ERROR_ALLOC;
	if (off > m->size) memset(m->data + m->size, 0, off - m->size);
	memcpy(m->data + off, buf, size);
	if (off + size > m->size) m->size = off + size;
	return 0;
}

static sqfs_u64 mf_get_size(const sqfs_file_t *f) { return ((const memfile_t *)f)->size; }

static int mf_truncate(sqfs_file_t *f, sqfs_u64 size)
{
	memfile_t *m = (memfile_t *)f;
	if (mf_reserve(m, size)) return SQFS_ERROR_ALLOC;
	if (size > m->size) memset(m->data + m->size, 0, size - m->size);
	m->size = size;
	return 0;
}

static const char *mf_name(sqfs_file_t *f) { (void)f; return "mem"; }
static void mf_destroy(sqfs_object_t *o) { free(((memfile_t *)o)->data); free(o); }

static sqfs_file_t *memfile_create(void)
{
	memfile_t *m = calloc(1, sizeof(*m));
	sqfs_object_init(m, mf_destroy, NULL);
	m->base.read_at = mf_read_at;
	m->base.write_at = mf_write_at;
	m->base.get_size = mf_get_size;
	m->base.truncate = mf_truncate;
	m->base.get_filename = mf_name;
	return (sqfs_file_t *)m;
}

/* ---------------- toy compressor that fails at its k-th call ---------------- */
typedef struct {
	sqfs_compressor_t base;
	int uncompress;
} toy_t;

static long k_fail;		/* 0 = never */
static long cmp_calls;		/* compress calls so far (all workers; one real thread under the shim) */
static int did_fail;

static sqfs_s32 toy_do_block(sqfs_compressor_t *c, const sqfs_u8 *in, sqfs_u32 size, sqfs_u8 *out, sqfs_u32 outsize)
{
	toy_t *t = (toy_t *)c;
	sqfs_u32 n = 0;

	if (t->uncompress) {
		if (size < 4) return SQFS_ERROR_CORRUPTED;
		n = in[1] | (in[2] << 8) | ((sqfs_u32)in[3] << 16);
		if (n + (size - 4) > outsize) return 0;
		memset(out, in[0], n);
		memcpy(out + n, in + 4, size - 4);
		return n + (size - 4);
	}
	sched_yield();	/* a worker may be pre-empted between taking the block and failing on it */
	cmp_calls += 1;
	if (k_fail > 0 && cmp_calls == k_fail) {
		did_fail = 1;
		return FAIL_CODE;
	}
	if (size == 0) return 0;
	while (n < size && in[n] == in[0]) ++n;
	if (n < 5) return 0;
	if (size - n + 4 > outsize) return 0;
	out[0] = in[0]; out[1] = n & 255; out[2] = (n >> 8) & 255; out[3] = (n >> 16) & 255;
	memcpy(out + 4, in + n, size - n);
	return size - n + 4;
}

static void toy_get_cfg(const sqfs_compressor_t *c, sqfs_compressor_config_t *cfg) { (void)c; memset(cfg, 0, sizeof(*cfg)); }
static int toy_wropt(sqfs_compressor_t *c, sqfs_file_t *f) { (void)c; (void)f; return 0; }
static int toy_rdopt(sqfs_compressor_t *c, sqfs_file_t *f) { (void)c; (void)f; return 0; }
static void toy_destroy(sqfs_object_t *o) { free(o); }
static sqfs_object_t *toy_copy(const sqfs_object_t *o)
{
	toy_t *t = malloc(sizeof(*t));
	memcpy(t, o, sizeof(*t));
	return (sqfs_object_t *)t;
}

static sqfs_compressor_t *toy_create(int uncompress)
{
	toy_t *t = calloc(1, sizeof(*t));
	sqfs_object_init(t, toy_destroy, toy_copy);
	t->base.get_configuration = toy_get_cfg;
	t->base.write_options = toy_wropt;
	t->base.read_options = toy_rdopt;
	t->base.do_block = toy_do_block;
	t->uncompress = uncompress;
	return (sqfs_compressor_t *)t;
}

/* ---------------- counting proxy around the pool ---------------- */
enum { SITE_NONE, SITE_APPEND_LOOP, SITE_APPEND_TAIL, SITE_END_SENTINEL, SITE_END_CURRENT,
       SITE_FRAGBLK_DEQUEUE, SITE_FRAGBLK_FINISH, SITE_MANUAL, SITE_OTHER };
static const char *site_name[] = { "-", "append-loop", "append-tail", "end-sentinel", "end-current",
				   "fragblk-dequeue", "fragblk-finish", "manual", "other" };
enum { OP_NONE, OP_BEGIN, OP_APPEND, OP_END, OP_SYNC, OP_MANUAL, OP_FINISH, OP_DROP };

typedef struct {
	thread_pool_t base;
	thread_pool_t *real;
	void *inside[MAX_POOLED];
	size_t n_inside;
	long rejected;
	int first_seen;		/* 0, 'S', 'D', 'G' */
	int first_site;
	size_t abandoned;
	/* the API call in progress (set by the driver) */
	int op;
	size_t bs;
	size_t app_fill, app_size;	/* append: fill of the current block before the call, bytes appended */
	long app_data_submits;		/* data block submits seen in this append call */
} proxy_t;

static proxy_t *the_proxy;

static int classify_site(proxy_t *p, sqfs_block_t *blk)
{
	if (blk->flags & SQFS_BLK_FRAGMENT_BLOCK) {
		if (blk->flags & BLK_FLAG_MANUAL_SUBMISSION)
			return SITE_MANUAL;
		return p->op == OP_FINISH ? SITE_FRAGBLK_FINISH : SITE_FRAGBLK_DEQUEUE;
	}
	switch (p->op) {
	case OP_MANUAL:
		return SITE_MANUAL;
	case OP_APPEND: {
		size_t total = p->app_fill + p->app_size;
		size_t complete = total / p->bs;
		p->app_data_submits += 1;
		if ((size_t)p->app_data_submits == complete && total % p->bs == 0)
			return SITE_APPEND_TAIL;
		return SITE_APPEND_LOOP;
	}
	case OP_END:
		if (blk->size == 0 && (blk->flags & SQFS_BLK_LAST_BLOCK) && !(blk->flags & SQFS_BLK_IS_FRAGMENT))
			return SITE_END_SENTINEL;
		return SITE_END_CURRENT;
	default:
		return SITE_OTHER;
	}
}

static void px_destroy(thread_pool_t *tp)
{
	proxy_t *p = (proxy_t *)tp;
	size_t i;

	p->real->destroy(p->real);
	/* whatever was still inside the pool was never handed back: the pool frees its own wrappers
	 * only.  Released here (counted) so that the leak check sees other blocks only. */
	p->abandoned = p->n_inside;
	for (i = 0; i < p->n_inside; ++i)
		free(p->inside[i]);
	p->n_inside = 0;
	p->real = NULL;
}

static size_t px_get_worker_count(thread_pool_t *tp) { proxy_t *p = (proxy_t *)tp; return p->real->get_worker_count(p->real); }
static void px_set_worker_ptr(thread_pool_t *tp, size_t idx, void *ptr) { proxy_t *p = (proxy_t *)tp; p->real->set_worker_ptr(p->real, idx, ptr); }

static int px_submit(thread_pool_t *tp, void *ptr)
{
	proxy_t *p = (proxy_t *)tp;
	int site = classify_site(p, ptr);
	int ret = p->real->submit(p->real, ptr);

	if (ret == 0) {
		if (p->n_inside < MAX_POOLED)
			p->inside[p->n_inside++] = ptr;
	} else {
		p->rejected += 1;
		if (p->first_seen == 0) {
			p->first_seen = 'S';
			p->first_site = site;
		}
	}
	return ret;
}

static void *px_dequeue(thread_pool_t *tp)
{
	proxy_t *p = (proxy_t *)tp;
	void *ptr = p->real->dequeue(p->real);
	size_t i;

	if (ptr != NULL) {
		for (i = 0; i < p->n_inside; ++i) {
			if (p->inside[i] == ptr) {
				memmove(p->inside + i, p->inside + i + 1, (p->n_inside - i - 1) * sizeof(void *));
				p->n_inside -= 1;
				break;
			}
		}
	} else if (p->first_seen == 0 && did_fail && p->real->get_status(p->real) != 0) {
		p->first_seen = 'D';
	}
	return ptr;
}

static int px_get_status(thread_pool_t *tp)
{
	proxy_t *p = (proxy_t *)tp;
	int st = p->real->get_status(p->real);

	if (st != 0 && p->first_seen == 0)
		p->first_seen = 'G';
	return st;
}

static thread_pool_t *proxy_wrap(thread_pool_t *real, size_t bs)
{
	static proxy_t px;	/* static: outlives the block processor, readable after drop */

	memset(&px, 0, sizeof(px));
	px.base.destroy = px_destroy;
	px.base.get_worker_count = px_get_worker_count;
	px.base.set_worker_ptr = px_set_worker_ptr;
	px.base.submit = px_submit;
	px.base.dequeue = px_dequeue;
	px.base.get_status = px_get_status;
	px.real = real;
	px.bs = bs;
	the_proxy = &px;
	return &px.base;
}

/* ---------------- ownership oracle ---------------- */
static const char *own_violation;	/* first violation, static text */
static char own_detail[160];

static size_t collect(sqfs_block_t *list, void **out, size_t n, size_t cap, const char *name)
{
	size_t steps = 0, start = n;

	while (list != NULL) {
		if (++steps > LIST_LIMIT || n >= cap) {
			if (!own_violation) {
				own_violation = "block-list-cyclic";
				snprintf(own_detail, sizeof(own_detail), "%s", name);
			}
			return n;
		}
		out[n++] = list;
		/* a list that runs into itself: stop at the first repetition */
		{
			size_t i;
			for (i = start; i + 1 < n; ++i) {
				if (out[i] == list) {
					if (!own_violation) {
						own_violation = "block-owned-twice";
						snprintf(own_detail, sizeof(own_detail), "%s+%s", name, name);
					}
					return n;
				}
			}
		}
		list = list->next;
	}
	return n;
}

static void check_ownership(sqfs_block_processor_t *proc, const char *after)
{
	static void *ptrs[MAX_POOLED * 2];
	static const char *tags[MAX_POOLED * 2];
	size_t n = 0, m, i, j;
	const size_t cap = MAX_POOLED * 2 - 8;

	if (own_violation)
		return;
	if (proc->blk_current) { tags[n] = "blk_current"; ptrs[n++] = proc->blk_current; }
	if (proc->frag_block) { tags[n] = "frag_block"; ptrs[n++] = proc->frag_block; }
	m = collect(proc->free_list, ptrs, n, cap, "free_list");
	for (; n < m; ++n) tags[n] = "free_list";
	m = collect(proc->io_queue, ptrs, n, cap, "io_queue");
	for (; n < m; ++n) tags[n] = "io_queue";
	for (i = 0; i < the_proxy->n_inside && n < cap; ++i) { tags[n] = "pool"; ptrs[n++] = the_proxy->inside[i]; }
	if (own_violation) {
		size_t l = strlen(own_detail);
		snprintf(own_detail + l, sizeof(own_detail) - l, " after %s", after);
		return;
	}
	for (i = 0; i < n; ++i) {
		for (j = i + 1; j < n; ++j) {
			if (ptrs[i] == ptrs[j]) {
				own_violation = "block-owned-twice";
				snprintf(own_detail, sizeof(own_detail), "%s+%s after %s", tags[i], tags[j], after);
				return;
			}
		}
	}
}

/* ---------------- the case ---------------- */
typedef struct { char kind; unsigned long arg; } op_t;

static struct {
	size_t bs, workers, backlog;
	int io, cont;
	op_t ops[MAX_OPS];
	size_t nops;
	/* results */
	int create_ret;
	int first_err, fin_ret, fin_called;
	int err_without_failure;
	size_t abandoned;
	long rejected;
	int first_seen, first_site;
} C;

static const char *opname(int k)
{
	switch (k) {
	case 'b': return "begin_file";
	case 'a': case 'r': case 'z': return "append";
	case 'e': return "end_file";
	case 's': return "sync";
	case 'm': return "submit_block";
	case 'f': return "finish";
	}
	return "?";
}

static void note_ret(sqfs_block_processor_t *proc, const char *what, size_t idx, int ret)
{
	char after[64];

	snprintf(after, sizeof(after), "%s#%zu=%d", what, idx, ret);
	if (verbose)
		printf("T %s %s ret=%d rejected=%ld inside=%zu backlog=%zu cur=%s frag=%s failed=%d\n", cur_id, after, ret,
		       the_proxy->rejected, the_proxy->n_inside, proc->backlog, proc->blk_current ? "y" : "n",
		       proc->frag_block ? "y" : "n", did_fail);
	if (ret != 0 && C.first_err == 0)
		C.first_err = ret;
	if (ret != 0 && !did_fail)
		C.err_without_failure = 1;
	check_ownership(proc, after);
}

static void case_body(void *arg)
{
	sqfs_file_t *file;
	sqfs_compressor_t *cmp, *uncmp;
	sqfs_block_writer_t *wr;
	sqfs_frag_table_t *tbl;
	sqfs_block_processor_desc_t desc;
	sqfs_block_processor_t *proc = NULL;
	sqfs_inode_generic_t **inodes;
	sqfs_u8 *buf;
	size_t i, nfiles = 0, ctr = 0;
	int ret, stop = 0;
	(void)arg;

	file = memfile_create();
	cmp = toy_create(0);
	uncmp = toy_create(1);
	wr = sqfs_block_writer_create(file, 0);
	tbl = sqfs_frag_table_create(0);
	inodes = calloc(C.nops + 1, sizeof(*inodes));
	buf = malloc(C.bs * 64 + 64);

	memset(&desc, 0, sizeof(desc));
	desc.size = sizeof(desc);
	desc.max_block_size = C.bs;
	desc.num_workers = C.workers;
	desc.max_backlog = C.backlog;
	desc.cmp = cmp;
	desc.wr = wr;
	desc.tbl = tbl;
	if (C.io) {
		desc.file = file;
		desc.uncmp = uncmp;
	}
	ret = sqfs_block_processor_create_ex(&desc, &proc);
	C.create_ret = ret;
	if (ret != 0)
		goto out;
	proc->pool = proxy_wrap(proc->pool, C.bs);

	for (i = 0; i < C.nops && !stop; ++i) {
		op_t *o = &C.ops[i];
		size_t n = o->arg, k;

		the_proxy->op = OP_NONE;
		switch (o->kind) {
		case 'b':
			the_proxy->op = OP_BEGIN;
			ret = sqfs_block_processor_begin_file(proc, &inodes[nfiles], NULL, (sqfs_u32)o->arg);
			if (ret == 0)
				nfiles++;
			break;
		case 'a': case 'r': case 'z':
			if (n == 0 || n > C.bs * 64)
				continue;
			for (k = 0; k < n; ++k)
				buf[k] = o->kind == 'z' ? 0 : o->kind == 'r' ? 0x41 : (sqfs_u8)(1 + ((ctr * 131 + k * 7 + k / 5) % 250));
			ctr++;
			the_proxy->op = OP_APPEND;
			the_proxy->app_fill = proc->blk_current ? proc->blk_current->size : 0;
			the_proxy->app_size = n;
			the_proxy->app_data_submits = 0;
			ret = sqfs_block_processor_append(proc, buf, n);
			break;
		case 'e':
			the_proxy->op = OP_END;
			ret = sqfs_block_processor_end_file(proc);
			break;
		case 's':
			the_proxy->op = OP_SYNC;
			ret = sqfs_block_processor_sync(proc);
			break;
		case 'm':
			if (n > C.bs)
				n = C.bs;
			for (k = 0; k < n; ++k)
				buf[k] = (sqfs_u8)(1 + ((ctr * 17 + k * 3) % 200));
			ctr++;
			the_proxy->op = OP_MANUAL;
			ret = sqfs_block_processor_submit_block(proc, NULL, 0, buf, n);
			break;
		default:
			continue;
		}
		note_ret(proc, opname(o->kind), i, ret);
		if (ret != 0 && !C.cont)
			stop = 1;
		if (own_violation)
			stop = 1;
	}
	if (!stop) {
		the_proxy->op = OP_FINISH;
		ret = sqfs_block_processor_finish(proc);
		C.fin_called = 1;
		C.fin_ret = ret;
		note_ret(proc, "finish", C.nops, ret);
	}
	if (own_violation) {
		/* report before the tear-down: freeing a block that is owned twice aborts under ASan */
		printf("F %s | ORACLE:%s | %s\n", cur_id, own_violation, own_detail);
		fflush(stdout);
	}
	the_proxy->op = OP_DROP;
out:
	sqfs_drop(proc);	/* must return; must not free anything twice */
	for (i = 0; i < C.nops + 1; ++i)
		free(inodes[i]);
	free(inodes);
	free(buf);
	sqfs_drop(tbl);
	sqfs_drop(wr);
	sqfs_drop(uncmp);
	sqfs_drop(cmp);
	sqfs_drop(file);
	if (the_proxy) {
		C.abandoned = the_proxy->abandoned;
		C.rejected = the_proxy->rejected;
		C.first_seen = the_proxy->first_seen;
		C.first_site = the_proxy->first_site;
	}
}

/* ---------------- schedules ---------------- */
typedef struct {
	int mode;
	shim_random_chooser_t rc;
	unsigned long long s;
	int phase_w;		/* P: 1 = workers first */
	long phase_left;
} sch_t;

static unsigned long long rnd64(unsigned long long *s)
{
	unsigned long long z = (*s += 0x9E3779B97F4A7C15ULL);
	z = (z ^ (z >> 30)) * 0xBF58476D1CE4E5B9ULL;
	z = (z ^ (z >> 27)) * 0x94D049BB133111EBULL;
	return z ^ (z >> 31);
}

static shim_choice_t chooser(const shim_view_t *v, void *ud)
{
	sch_t *s = ud;
	shim_choice_t ch;
	int i, wfirst;

	if (s->mode == 'R')
		return shim_random_chooser(v, &s->rc);
	if (s->mode == 'P') {
		if (s->phase_left <= 0) {
			s->phase_w = !s->phase_w;
			s->phase_left = 1 + (long)(rnd64(&s->s) % 9);
		}
		s->phase_left--;
		wfirst = s->phase_w;
	} else {
		wfirst = s->mode == 'W';
	}
	ch.kind = SHIM_RUN;
	if (!wfirst && v->runnable[0]) {
		ch.tid = 0;
		return ch;
	}
	for (i = 1; i < v->nthreads; ++i) {
		if (v->runnable[i]) {
			ch.tid = i;
			return ch;
		}
	}
	if (v->runnable[0]) {
		ch.tid = 0;
		return ch;
	}
	ch.kind = SHIM_STOP;
	ch.tid = -1;
	return ch;
}

static void on_alarm(int sig)
{
	char msg[400];
	int n = snprintf(msg, sizeof(msg), "F %s | HANG | watchdog: a call did not return (not a scheduler deadlock: busy loop)\n", cur_id);
	(void)sig;
	if (write(1, msg, (size_t)n) < 0)
		_exit(4);
	_exit(3);
}

static long run_one(const char *cid, long k, int mode, unsigned long long seed)
{
	sch_t s;
	int r;
	const char *verdict;
	char extra[200] = "";
	long steps_budget = 400000;	/* the longest run of the generators needs a few thousand steps */
	int leaked = 0;

	snprintf(cur_id, sizeof(cur_id), "%s/%ld", cid, k);
	printf("BEGIN %s\n", cur_id);
	fflush(stdout);
	k_fail = k;
	cmp_calls = 0;
	did_fail = 0;
	own_violation = NULL;
	own_detail[0] = '\0';
	the_proxy = NULL;
	C.create_ret = C.first_err = C.fin_ret = C.fin_called = C.err_without_failure = 0;
	C.abandoned = 0; C.rejected = 0; C.first_seen = 0; C.first_site = 0;
	memset(&s, 0, sizeof(s));
	s.mode = mode;
	s.s = seed * 0x9E3779B97F4A7C15ULL + 12345;
	s.phase_w = (int)(seed & 1);
	shim_random_chooser_init(&s.rc, seed, 30, 6);
	alarm(10);
	shim_reset();
	r = shim_run(case_body, NULL, chooser, &s, NULL, NULL, steps_budget);
	alarm(0);
	if (r != SHIM_OK) {
		static int stuck;

		/* abandoned coroutines hold memory: no leak check, the verdict is the finding */
		printf("F %s | %s | scheduler: %s (DEADLOCK = no runnable thread: a call never returns)\n", cur_id,
		       r == SHIM_DEADLOCK ? "HANG" : shim_result_name(r), shim_result_name(r));
		fflush(stdout);
		if (++stuck >= 3)
			_exit(5);	/* a tree this broken is not worth the remaining step budgets */
		return cmp_calls;
	}
	shim_reset();
#if HAVE_LSAN
	if (!own_violation)
		leaked = __lsan_do_recoverable_leak_check();
#endif
	if (own_violation)
		return cmp_calls;	/* already printed */
	if (C.create_ret != 0)
		verdict = "CREATE-FAILED";
	else if (leaked)
		verdict = "ORACLE:block-leaked";
	else if (!did_fail && (C.first_err != 0 || C.err_without_failure))
		verdict = "ORACLE:error-without-failure";
	else if (did_fail && C.err_without_failure)
		verdict = "ORACLE:error-before-failure";
	else if (did_fail && C.first_err == 0)
		verdict = "ORACLE:failure-never-reported";
	else if (did_fail && C.first_err != FAIL_CODE)
		verdict = "ORACLE:wrong-error-code";
	else if (did_fail && C.fin_called && C.fin_ret == 0)
		verdict = "ORACLE:finish-succeeds-after-failure";
	else
		verdict = "OK";
	if (C.fin_called)
		snprintf(extra, sizeof(extra), "%d", C.fin_ret);
	else
		snprintf(extra, sizeof(extra), "-");
	printf("F %s | %s | first=%d fin=%s failed=%d seen=%c site=%s rej=%ld ncalls=%ld abandoned=%zu\n", cur_id, verdict,
	       C.first_err, extra, did_fail, C.first_seen ? C.first_seen : '-', site_name[C.first_site], C.rejected,
	       cmp_calls, C.abandoned);
	fflush(stdout);
	return cmp_calls;
}

int main(int argc, char **argv)
{
	static char line[16384];
	int i;

	for (i = 1; i < argc; ++i)
		if (strcmp(argv[i], "-v") == 0)
			verbose = 1;
	signal(SIGALRM, on_alarm);
	while (fgets(line, sizeof(line), stdin)) {
		char cid[128], kspec[32], mode[8];
		unsigned long bs, nw, backlog, io, cont;
		unsigned long long seed;
		int off = 0;
		char *p, *tok;

		if (sscanf(line, "F %127s %lu %lu %lu %lu %31s %7s %llu %lu %n", cid, &bs, &nw, &backlog, &io, kspec, mode,
			   &seed, &cont, &off) < 9 || off == 0)
			continue;
		if (bs < 8 || bs > 65536 || nw < 1 || nw > SHIM_MAX_THREADS - 2)
			continue;
		C.bs = bs; C.workers = nw; C.backlog = backlog; C.io = (int)io; C.cont = (int)cont;
		C.nops = 0;
		p = line + off;
		while ((tok = strsep(&p, " \n\r")) != NULL && C.nops < MAX_OPS) {
			if (tok[0] == '\0')
				continue;
			C.ops[C.nops].kind = tok[0];
			C.ops[C.nops].arg = strtoul(tok + 1, NULL, 10);
			C.nops++;
		}
		if (strcmp(kspec, "all") == 0) {
			long n = run_one(cid, 0, mode[0], seed), k;
			if (n > 400)
				n = 400;
			for (k = 1; k <= n; ++k)
				run_one(cid, k, mode[0], seed);
		} else {
			run_one(cid, strtol(kspec, NULL, 10), mode[0], seed);
		}
	}
	/* every run had its own leak check: skip the one at exit (it would only repeat reported leaks and
	 * the memory of abandoned coroutines) */
	fflush(stdout);
	_exit(0);
}
