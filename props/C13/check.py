"""C13 -- fail-stop: an I/O or allocation failure is reported, never yields a bad image.

Theorems  : coq/Properties_C13.v  (status plumbing of the packers / readers over a fault oracle,
            for every script and every oracle).
Tie       : the real tools run under props/C13/shim_fault.c (LD_PRELOAD).  From the logged call
            sequence of the fault-free run and the produced image a *script* is derived; the extracted
            model, run on that script, must reproduce the logged call sequence, and for every fault
            position k the faulted real run and the model run with the fault at the aligned position
            must agree on: the call sequence, exit status class, presence of a diagnostic, the unlink
            of the output.
Search    : the property evaluated directly on the tools for every fault position (I/O classes
            write/read/trunc/open/fsync, kinds ENOSPC/EIO/EINTR-then-error/short-then-error), for every
            allocation made by project code (ASan build, -include vf_alloc.h), for compressor failures
            in the workers, and for truncated inputs.
The allocation sequence of the TOOLS is not modelled; the two parts are reported separately in the evidence.
Containers (session 3, props/C13/ualloc.py): the allocation sites and failure paths of lib/util/src/{array,
            hash_table,rbtree,str_table}.c ARE modelled (coq/UtilAlloc) and tied by an exact operation-sequence
            differential under the k-th-allocation-fails shim for every k (h_utilalloc.c / driver_ualloc.ml)."""
import hashlib
import json
import os
import random
import re
import shutil
import struct
import subprocess
import tarfile
import io as _io
from concurrent.futures import ThreadPoolExecutor

from vlib import build as B
from vlib import core

HERE = os.path.dirname(os.path.abspath(__file__))
import sys                # noqa: E402
if HERE not in sys.path:
    sys.path.insert(0, HERE)
import ualloc as UA       # noqa: E402  (containers under allocation failure: coq/UtilAlloc models vs lib/util/src)
LEVEL = "proof"
NONE64 = 0xFFFFFFFFFFFFFFFF
IO_CLASSES = ("open", "write", "read", "trunc", "fsync")


# ----------------------------------------------------------------------------------------------
# builds
# ----------------------------------------------------------------------------------------------
def build_shim(info):
    src = os.path.join(HERE, "shim_fault.c")
    out = os.path.join(info["dir"], "c13_shim.so")
    key = hashlib.sha256(open(src, "rb").read()).hexdigest()
    stamp = out + ".stamp"
    if os.path.exists(out) and os.path.exists(stamp) and open(stamp).read() == key:
        return out
    tmp = out + ".tmp%d" % os.getpid()
    r = subprocess.run(["gcc", "-O1", "-g", "-w", "-shared", "-fPIC", "-o", tmp, src, "-ldl"],
                       stdout=subprocess.PIPE, stderr=subprocess.STDOUT, text=True)
    if r.returncode != 0:
        raise RuntimeError("shim_fault.c does not compile: " + r.stdout[-2000:])
    os.rename(tmp, out)
    open(stamp, "w").write(key)
    return out


def build_all():
    plain = B.build("plain")
    shim = build_shim(plain)
    hdr = os.path.join(HERE, "vf_alloc.h")
    asan = B.build("asan", extra_cflags=["-include", hdr],
                   tag="c13-alloc-" + hashlib.sha256(open(hdr, "rb").read()).hexdigest()[:12])
    drv = core.build_model_driver("C13", "ExtractC13.v", os.path.join(HERE, "driver.ml"))
    return plain, shim, asan, drv


def setup():
    plain, shim, asan, drv = build_all()
    try:
        UA.build(B.build("asan"))
        core.build_model_driver("C13ualloc", "ExtractC13UtilEnd.v", os.path.join(HERE, "driver_ualloc.ml"))
    except Exception:          # reported by run()
        pass


# ----------------------------------------------------------------------------------------------
# inputs
# ----------------------------------------------------------------------------------------------
def rbytes(rnd, n):
    return bytes(rnd.getrandbits(8) for _ in range(n))


def make_tree(rnd, d, bs, flavor):
    """a small input tree; returns list of (relpath, kind) for bookkeeping"""
    os.makedirs(d)
    w = lambda p, data: open(os.path.join(d, p), "wb").write(data)
    os.makedirs(os.path.join(d, "sub", "deep"))
    w("a_small.txt", b"hello world %d\n" % rnd.randint(0, 999))
    big = rbytes(rnd, bs * 2 + rnd.randint(1, bs - 1))
    w("b_multi.bin", big)
    w("c_exact.bin", rbytes(rnd, bs * 2))
    w("d_zero_small", b"\0" * rnd.randint(10, bs - 1))
    w("sub/e_dup.bin", big)                         # block-level duplicate -> pread/ftruncate on the output
    w("sub/f_empty", b"")
    w("sub/g_dupsmall.txt", open(os.path.join(d, "a_small.txt"), "rb").read())   # fragment duplicate
    w("sub/deep/h_zero_blocks", b"\0" * (bs + 17))
    if flavor >= 1:
        w("sub/deep/i_long.bin", rbytes(rnd, bs * 13 + 5))     # longer than the default backlog at -j 1
        w("j_comp.txt", (b"abcdefgh" * (bs // 4)))             # compressible, two blocks
    os.symlink("a_small.txt", os.path.join(d, "k_link"))
    os.link(os.path.join(d, "a_small.txt"), os.path.join(d, "sub", "l_hard"))
    for dd, dn, fs in os.walk(d):
        for f in fs + dn:
            p = os.path.join(dd, f)
            if not os.path.islink(p):
                os.utime(p, (1000000000, 1000000000))


def make_tar(rnd, path, bs, xattrs=True):
    """deterministic pax archive with a few entry kinds"""
    buf = _io.BytesIO()
    tf = tarfile.open(fileobj=buf, mode="w", format=tarfile.PAX_FORMAT)

    def add(name, data=None, typ=tarfile.REGTYPE, link="", pax=None, mode=0o644):
        ti = tarfile.TarInfo(name)
        ti.type = typ
        ti.mtime = 1000000000
        ti.uid = 1000
        ti.gid = 100
        ti.uname = ""
        ti.gname = ""
        ti.mode = mode
        ti.linkname = link
        if pax:
            ti.pax_headers = pax
        if data is not None:
            ti.size = len(data)
            tf.addfile(ti, _io.BytesIO(data))
        else:
            tf.addfile(ti)
    add("dir", typ=tarfile.DIRTYPE, mode=0o755)
    add("dir/small.txt", b"hello tar %d\n" % rnd.randint(0, 999),
        pax={"SCHILY.xattr.user.test": "value%d" % rnd.randint(0, 9)} if xattrs else None)
    big = rbytes(rnd, bs * 2 + rnd.randint(1, bs - 1))
    add("dir/multi.bin", big)
    add("dir/zero", b"\0" * (bs // 2))
    add("dir/dup.bin", big)
    add("dir/empty", b"")
    add("dir/link", typ=tarfile.SYMTYPE, link="small.txt", mode=0o777)
    add("dir/hard", typ=tarfile.LNKTYPE, link="dir/small.txt")
    add("dir/long.bin", rbytes(rnd, 131072 + bs * 3 + 100))    # makes header reads cross the 128k buffer
    add("dir/after.txt", b"tail\n")
    tf.close()
    open(path, "wb").write(buf.getvalue())


class Case:
    def __init__(self, name, tool, argv, out, outkind, cwd, stdin=None, packer=False, packdir=False,
                 relative=False, aux=(), image=None, srcdir=None, jobs=1, unpdir=None):
        self.name = name
        self.tool = tool            # gensquashfs | tar2sqfs | sqfs2tar | rdsquashfs
        self.argv = argv            # with @OUT@ placeholder
        self.out = out              # output path relative to the run directory (or None: stdout)
        self.outkind = outkind      # file | stdout | dir
        self.cwd = cwd              # None: run directory
        self.stdin = stdin
        self.packer = packer
        self.packdir = packdir
        self.relative = relative
        self.aux = aux              # auxiliary input files (pack file, sort file)
        self.image = image          # input image of the readers
        self.srcdir = srcdir
        self.jobs = jobs
        self.iseed = None
        self.classes = None         # restrict the I/O sweep to these call classes (None: all)
        self.kinds = None           # fixed fault kinds for this invocation (None: the tier's choice)
        self.alloc_limit = None     # cap for the allocation sweep of this invocation


def gen_cases(ctx, plain, root, seed):
    """build the inputs under `root`; returns the list of cases"""
    rnd = random.Random(seed * 7919 + 13)
    T = plain["tools"]
    bs = 4096
    cases = []
    d0 = os.path.join(root, "in0")
    make_tree(rnd, d0, bs, 0)
    d1 = os.path.join(root, "in1")
    make_tree(rnd, d1, bs, 1)
    # G1: pack-dir, relative output path (cleanup must hit the right file), exportable, gzip
    cases.append(Case("gen-dir-rel", "gensquashfs",
                      [T["gensquashfs"], "-q", "-f", "-b", str(bs), "-c", "gzip", "-j", "1", "-e", "-D", d0, "out.sqfs"],
                      "out.sqfs", "file", None, packer=True, packdir=True, relative=True, srcdir=d0))
    # G2: pack file + sort file + compressor options, 4 workers, small backlog
    pf = os.path.join(root, "pack.txt")
    open(pf, "w").write("dir /d 0755 0 0\nfile /d/a 0644 1 2 a_small.txt\nfile /big 0644 0 0 b_multi.bin\n"
                        "slink /s 0777 0 0 d/a\nnod /n 0600 0 0 c 1 2\nfile /z 0644 0 0 d_zero_small\n"
                        "glob /g 0755 3 3 -type f -- sub\nfile /long 0644 0 0 sub/deep/i_long.bin\n")
    sf = os.path.join(root, "sort.txt")
    open(sf, "w").write("-10 big\n5 [glob] g/*\n")
    cases.append(Case("gen-packfile", "gensquashfs",
                      [T["gensquashfs"], "-q", "-f", "-b", str(bs), "-c", "gzip", "-X", "level=3", "-j", "4", "-Q", "3",
                       "-F", pf, "-S", sf, "-D", d1, "@OUT@"],
                      "out.sqfs", "file", None, packer=True, packdir=True, relative=False, aux=(pf, sf), srcdir=d1, jobs=4))
    # G2b: no fragment at all (every file carries dont_fragment): a compressor failure on the very last block of the
    # run must still reach the exit status although finish() has no fragment block left to flush
    d2 = os.path.join(root, "in2")
    os.makedirs(d2)
    open(os.path.join(d2, "a.bin"), "wb").write(rbytes(rnd, bs * 2 + 100))
    open(os.path.join(d2, "b.txt"), "wb").write(b"abcdefgh" * (bs // 8) + b"tail-of-b" * 20)
    for f in ("a.bin", "b.txt"):
        os.utime(os.path.join(d2, f), (1000000000, 1000000000))
    sf2 = os.path.join(root, "sort-nofrag.txt")
    open(sf2, "w").write("0 [glob,dont_fragment] *\n")
    cases.append(Case("gen-nofrag", "gensquashfs",
                      [T["gensquashfs"], "-q", "-f", "-b", str(bs), "-c", "gzip", "-j", "1", "-S", sf2, "-D", d2, "@OUT@"],
                      "out.sqfs", "file", None, packer=True, packdir=True, relative=False, aux=(sf2,), srcdir=d2))
    if ctx.tier != "quick":
        cases.append(Case("gen-dir-xz", "gensquashfs",
                          [T["gensquashfs"], "-q", "-f", "-b", str(bs), "-c", "xz", "-j", "1", "-D", d1, "@OUT@"],
                          "out.sqfs", "file", None, packer=True, packdir=True, relative=False, srcdir=d1))
    # G4: 512 directories + root = 513 inodes, exportable: the root's export table entry needs a realloc (F16)
    pf2 = os.path.join(root, "pack513.txt")
    open(pf2, "w").write("".join("dir /d%03d 0755 0 0\n" % i for i in range(512)))
    cases.append(Case("gen-export-513", "gensquashfs",
                      [T["gensquashfs"], "-q", "-f", "-c", "gzip", "-j", "1", "-e", "-F", pf2, "@OUT@"],
                      "out.sqfs", "file", None, packer=True, aux=(pf2,)))
    # G5: every table of the image spans several meta data blocks (directory, inode, fragment, export, ID, xattr
    # key/value and xattr ID tables), so every "for each block" flush loop has non-last iterations that can fail
    big = os.path.join(root, "big")
    os.makedirs(big)
    lines = []
    for i in range(700):
        lines.append("dir /directory_with_a_rather_long_name_to_fill_the_table_%05d 0755 %d %d\n" % (i, 1000 + i, 5000 + i))
    for i in range(520):
        open(os.path.join(big, "f%04d" % i), "wb").write(rnd.randbytes(2100))    # one fragment block each at -b 4096
        lines.append("file /f%04d 0644 %d %d f%04d\n" % (i, 10000 + i, 20000 + i, i))
    for i in range(600):
        lines.append("nod /n%04d 0600 %d %d c 1 2\n" % (i, 30000 + i, 40000 + i))
    pf3 = os.path.join(root, "packbig.txt")
    open(pf3, "w").write("".join(lines))
    xf = os.path.join(root, "xattrbig.txt")
    open(xf, "w").write("".join("# file: /n%04d\nuser.key%04d=value-%04d-%s\n" % (i, i, i, "x" * (i % 7)) for i in range(600)))
    cbig = Case("gen-bigtables", "gensquashfs",
                [T["gensquashfs"], "-q", "-f", "-b", str(bs), "-c", "gzip", "-j", "1", "-e", "-F", pf3, "-A", xf, "-D", big, "@OUT@"],
                "out.sqfs", "file", None, packer=True, packdir=True, relative=False, aux=(pf3, xf), srcdir=None)
    cbig.classes = ("write", "trunc")
    cbig.kinds = ["enospc"]
    cbig.alloc_limit = 40 if ctx.tier == "quick" else 600
    cases.append(cbig)
    # T1 / T2: tar2sqfs
    t0 = os.path.join(root, "in0.tar")
    make_tar(rnd, t0, bs)
    cases.append(Case("tar-j1", "tar2sqfs",
                      [T["tar2sqfs"], "-q", "-f", "-b", str(bs), "-c", "gzip", "-j", "1", "@OUT@"],
                      "out.sqfs", "file", None, stdin=t0, packer=True))
    if ctx.tier != "quick":
        cases.append(Case("tar-j4", "tar2sqfs",
                          [T["tar2sqfs"], "-q", "-f", "-b", str(bs), "-c", "zstd", "-j", "4", "-e", "@OUT@"],
                          "out.sqfs", "file", None, stdin=t0, packer=True, jobs=4))
    if ctx.tier != "quick":
        import gzip as _gz
        tgz = os.path.join(root, "in0.tar.gz")
        open(tgz, "wb").write(_gz.compress(open(t0, "rb").read(), 6, mtime=0))
        cases.append(Case("tar-gz-input", "tar2sqfs",
                          [T["tar2sqfs"], "-q", "-f", "-b", str(bs), "-c", "gzip", "-j", "1", "@OUT@"],
                          "out.sqfs", "file", None, stdin=tgz, packer=True))
        cases.append(Case("gen-notail", "gensquashfs",
                          [T["gensquashfs"], "-q", "-f", "-b", str(bs), "-c", "lz4", "-j", "2", "-T", "-D", d0, "@OUT@"],
                          "out.sqfs", "file", None, packer=True, packdir=True, relative=False, srcdir=d0, jobs=2))
    # reference image for the readers
    ref = os.path.join(root, "ref.sqfs")
    r = subprocess.run([T["gensquashfs"], "-q", "-f", "-b", str(bs), "-c", "gzip", "-D", d0, ref],
                       stdout=subprocess.PIPE, stderr=subprocess.PIPE, env=base_env())
    if r.returncode != 0:
        raise RuntimeError("cannot build the reference image: " + r.stderr.decode()[-500:])
    cases.append(Case("sqfs2tar", "sqfs2tar", [T["sqfs2tar"], ref], None, "stdout", None, image=ref))
    cases.append(Case("rdsquashfs-u", "rdsquashfs", [T["rdsquashfs"], "-q", "-u", "/", "-p", "@OUT@", ref],
                      "unp", "dir", None, image=ref))
    cases.append(Case("rdsquashfs-c", "rdsquashfs", [T["rdsquashfs"], "-c", "b_multi.bin", ref],
                      None, "stdout", None, image=ref))
    for c in cases:
        c.iseed = seed
    if ctx.tier != "quick":
        cases.append(Case("sqfs2tar-gz", "sqfs2tar", [T["sqfs2tar"], "-c", "gzip", ref], None, "stdout", None, image=ref))
        cases.append(Case("rdsquashfs-u-attr", "rdsquashfs",
                          [T["rdsquashfs"], "-q", "-u", "/", "-C", "-T", "-p", "@OUT@", ref], "unp", "dir", None, image=ref))
    for c in cases:
        c.iseed = seed
    return cases


def base_env():
    e = dict(os.environ)
    e["SOURCE_DATE_EPOCH"] = "1000000000"
    e.pop("LD_PRELOAD", None)
    for k in list(e):
        if k.startswith("VF_"):
            e.pop(k)
    return e


# ----------------------------------------------------------------------------------------------
# running a tool
# ----------------------------------------------------------------------------------------------
def tree_hash(p):
    hh = hashlib.sha256()
    for dd, dn, fs in sorted(os.walk(p)):
        dn.sort()
        for f in sorted(fs):
            q = os.path.join(dd, f)
            hh.update(os.path.relpath(q, p).encode())
            if os.path.islink(q):
                hh.update(b"L" + os.readlink(q).encode())
            else:
                hh.update(b"F" + open(q, "rb").read())
        for f in dn:
            hh.update(b"D" + os.path.relpath(os.path.join(dd, f), p).encode())
    return hh.hexdigest()


def dir_listing(p):
    out = []
    for dd, dn, fs in sorted(os.walk(p)):
        dn.sort()
        for f in sorted(fs):
            out.append(os.path.relpath(os.path.join(dd, f), p))
    return out


def parse_log(path):
    ev = []
    if not os.path.exists(path):
        return ev
    for l in open(path, errors="replace").read().split("\n"):
        p = l.split(" ")
        if len(p) != 8:
            continue
        try:
            ev.append(dict(cls=p[0], fn=p[1], tgt=p[2], size=int(p[3]), off=None if p[4] == "-" else int(p[4]),
                           res=int(p[5]), err=int(p[6]), F=(p[7] == "F")))
        except ValueError:
            pass
    return ev


def run_case(case, rundir, env_extra, tools_override=None, timeout=20):
    """one run of a case in a fresh directory.  Returns dict(rc, stderr, log, out_exists, out_hash, stdout_hash, ...)"""
    shutil.rmtree(rundir, ignore_errors=True)
    os.makedirs(rundir)
    outp = os.path.join(rundir, case.out) if case.out else None
    argv = [a.replace("@OUT@", outp or "") for a in case.argv]
    if tools_override:
        argv[0] = tools_override[os.path.basename(argv[0])]
    env = base_env()
    env.update(env_extra)
    log = os.path.join(rundir, "shim.log")
    if "LD_PRELOAD" in env:
        env["VF_LOG"] = log
    so_path = os.path.join(rundir, "stdout.bin")
    si = open(case.stdin, "rb") if case.stdin else subprocess.DEVNULL
    so = open(so_path, "wb")
    src_before = dir_listing(case.srcdir) if case.srcdir else None
    try:
        r = subprocess.run(argv, stdin=si, stdout=so, stderr=subprocess.PIPE, env=env, cwd=case.cwd or rundir,
                           timeout=timeout)
        rc = r.returncode
        err = r.stderr
    except subprocess.TimeoutExpired as e:
        rc = "HANG"
        err = e.stderr or b""
    finally:
        so.close()
        if case.stdin:
            si.close()
    res = dict(rc=rc, stderr=err.decode("utf-8", "replace"), rundir=rundir, outp=outp, argv=argv)
    res["log"] = parse_log(log)
    if outp is not None:
        res["out_exists"] = os.path.lexists(outp)
        if res["out_exists"]:
            res["out_hash"] = tree_hash(outp) if os.path.isdir(outp) else hashlib.sha256(open(outp, "rb").read()).hexdigest()
        else:
            res["out_hash"] = None
    else:
        res["out_exists"] = None
        res["out_hash"] = None
    res["stdout_hash"] = hashlib.sha256(open(so_path, "rb").read()).hexdigest()
    res["stdout_len"] = os.path.getsize(so_path)
    if src_before is not None:
        res["src_lost"] = sorted(set(src_before) - set(dir_listing(case.srcdir)))
    else:
        res["src_lost"] = []
    return res


def result_hash(case, res):
    return res["out_hash"] if case.outkind in ("file", "dir") else res["stdout_hash"]


# ----------------------------------------------------------------------------------------------
# log -> normalised I/O events, sites
# ----------------------------------------------------------------------------------------------
def target_kind(case, res, tgt):
    if tgt == "<stdin>":
        return "stdin"
    if tgt == "<stdout>":
        return "stdout"
    t = os.path.normpath(tgt)
    if res["outp"] and case.outkind == "file" and t == os.path.normpath(res["outp"]):
        return "out"
    if case.image and t == os.path.normpath(case.image):
        return "img"
    if case.outkind == "dir" and res["outp"] and (t + "/").startswith(os.path.normpath(res["outp"]) + "/"):
        return "unp"
    if case.outkind == "dir":
        return "unp"       # rdsquashfs -u creates its files relative to the unpack root after chdir
    return "in"


def io_events(case, res, zero_is_eof=True):
    """list of (cls, kind, ok, logindex); EINTR / short transfers are folded into the retry that follows"""
    out = []
    log = res["log"]
    for i, e in enumerate(log):
        if e["cls"] not in IO_CLASSES:
            continue
        if e["F"] and e["err"] == 4:          # EINTR: the loop retries, the retry is the event
            if e["cls"] in ("write", "read", "trunc"):
                continue
        if e["F"] and e["res"] > 0:           # short transfer, the retry is the event
            continue
        if e["F"] and e["res"] == 0 and e["cls"] == "read" and zero_is_eof:
            # a shortened read at the end of the file: still a plain end-of-file
            out.append((e["cls"], target_kind(case, res, e["tgt"]), True, i))
            continue
        ok = (e["res"] >= 0) and not e["F"]
        if e["F"] and e["res"] == 0 and e["cls"] in ("write",):
            ok = False
        out.append((e["cls"], target_kind(case, res, e["tgt"]), ok, i))
    return out


def side_events(case, res):
    """unlink / chdir lines: list of (what, kind, res)"""
    out = []
    for e in res["log"]:
        if e["cls"] == "unlink":
            out.append(("unlink", target_kind(case, res, e["tgt"]), e["res"]))
        elif e["cls"] == "chdir":
            out.append(("chdir", "", e["res"]))
    return out


class Super:
    FMT = "<IIIIIHHHHHHQQQQQQQQ"

    def __init__(self, data):
        f = struct.unpack(self.FMT, data[:96])
        (self.magic, self.inode_count, self.mtime, self.block_size, self.frag_count, self.comp_id, self.block_log,
         self.flags, self.id_count, self.vmaj, self.vmin, self.root_ref, self.bytes_used, self.id_start,
         self.xattr_start, self.inode_start, self.dir_start, self.frag_start, self.export_start) = f
        self.data = data

    def u64(self, off):
        return struct.unpack("<Q", self.data[off:off + 8])[0]


def out_write_site(sb, e, nth_super):
    """name of the writer stage an output pwrite belongs to (from the final super block)"""
    off = e["off"]
    if off is None:
        return "stream"
    if off == 0:
        return "super-init" if nth_super == 0 else "super-final"
    if sb is None:
        return "out"
    if off < sb.inode_start:
        if off == 96 and (sb.flags & 0x0400) and e["size"] < 64:
            return "comp-options"
        return "data"
    if off < sb.dir_start:
        return "inode-table"
    tables = []
    if sb.frag_start != NONE64:
        tables.append(("frag-table", sb.u64(sb.frag_start), sb.frag_start))
    if sb.export_start != NONE64:
        tables.append(("export-table", sb.u64(sb.export_start), sb.export_start))
    tables.append(("id-table", sb.u64(sb.id_start), sb.id_start))
    first = min(t[1] for t in tables)
    if off < first:
        return "dir-table"
    for name, lo, hi in tables:
        if lo <= off <= hi:
            return name
    if sb.xattr_start != NONE64 and off > sb.id_start and off < sb.bytes_used:
        return "xattr-table"
    return "padding"


def call_site(case, res, sb, logidx):
    """stable description of the faulted call, used in violation signatures"""
    log = res["log"]
    e = log[logidx]
    kind = target_kind(case, res, e["tgt"])
    if kind == "out" and e["cls"] == "write":
        nsup = sum(1 for x in log[:logidx] if x["cls"] == "write" and x["off"] == 0 and
                   target_kind(case, res, x["tgt"]) == "out")
        return "out:" + out_write_site(sb, e, nsup)
    if kind == "in":
        t = os.path.normpath(e["tgt"])
        if t in [os.path.normpath(a) for a in case.aux]:
            return "aux-input"
        return "input-file"
    if kind == "stdin":
        if not any(x["cls"] == "open" for x in log[:logidx]):
            return "stdin-probe"
        return "stdin"
    return kind


# ----------------------------------------------------------------------------------------------
# script derivation (fault-free log + image -> s-expression for the model driver)
# ----------------------------------------------------------------------------------------------
class ScriptError(Exception):
    pass


def dq_from_activity(A):
    """A: list of 'W' / 'R' / 'T' (output calls made by the back end).  Returns a dq s-expression."""
    items = []
    i = 0
    while i < len(A):
        store = 0
        if A[i] == "W":
            store = 1
            i += 1
        nr = 0
        while i < len(A) and A[i] == "R":
            nr += 1
            i += 1
        tr = 0
        if i < len(A) and A[i] == "T":
            tr = 1
            i += 1
        if not store and nr == 0 and not tr:
            raise ScriptError("cannot place output call %r" % A[i])
        dd = "(dd %d %d)" % (nr, tr) if (nr or tr) else "-"
        items.append("blk (io (pcb %d %s %s))" % (store, dd, "s" if store else "n"))
    return "(" + " ".join(items) + ")"


def gnb_from_activity(A):
    return "(gnb (%s) 1)" % dq_from_activity(A) if A else "(gnb () 1)"


ENQ = "(e 0 1)"


def iters_from_groups(groups):
    """groups: list of (nreads, activity, eof)"""
    its = []
    for n, A, eof in groups:
        if eof and not A:
            its.append("(it %d -)" % n)
        else:
            its.append("(it %d ((new %s) (enq %s)))" % (n, gnb_from_activity(A), ENQ))
            if eof:
                its.append("(it 0 -)")
    if not its or not its[-1].endswith("-)"):
        its.append("(it 0 -)")
    return "(" + " ".join(its) + ")"


def finish_script(case, res, sb, fin_writes, bp_activity, fin_frag_split=True):
    """fin_writes: the output pwrites (log entries) at/after the inode table, in order, plus the final super and padding"""
    sites = []
    nsup = 1
    for e in fin_writes:
        s = out_write_site(sb, e, nsup)
        sites.append(s)
    cnt = lambda name: sum(1 for s in sites if s == name)
    order = [s for i, s in enumerate(sites) if i == 0 or sites[i - 1] != s]
    expect = [x for x in ["inode-table", "dir-table", "frag-table", "export-table", "id-table", "xattr-table",
                          "super-final", "padding"] if cnt(x)]
    if order != expect:
        raise ScriptError("unexpected order of writer stages %r" % order)
    k_im = cnt("inode-table")
    k_dm = cnt("dir-table")
    if k_im < 1 or cnt("super-final") != 1 or cnt("id-table") < 2:
        raise ScriptError("writer stages incomplete: %r" % order)
    frag = "-" if sb.frag_start == NONE64 else str(cnt("frag-table") - 1)
    exp = "-" if sb.export_start == NONE64 else str(cnt("export-table") - 1)
    if (sb.frag_start == NONE64) != (cnt("frag-table") == 0) or (sb.export_start == NONE64) != (cnt("export-table") == 0):
        raise ScriptError("table writes do not match the super block")
    idn = cnt("id-table") - 1
    if sb.xattr_start == NONE64:
        xa = "empty"
        if cnt("xattr-table"):
            raise ScriptError("xattr writes without xattr table")
    else:
        m = cnt("xattr-table") - 2
        if m < 2:
            raise ScriptError("xattr table too short")
        xa = "(xa %d 1)" % (m - 1)
    pad = 1 if cnt("padding") else 0
    if cnt("padding") > 1:
        raise ScriptError("more than one padding write")
    ser = "(ser ((nd 0 %d)) 1 %d %d)" % (k_im - 1, 1 if k_dm else 0, k_dm)
    fin = "(fin (%s) -)" % dq_from_activity(bp_activity) if bp_activity else "(fin () -)"
    return "(finish %s %s %s %s %d %s %d)" % (fin, ser, frag, exp, idn, xa, pad)


def build_packer_script(case, res, sb, destroy=None):
    """destroy: (file index, activity list) -- output calls observed after a fault inside that file"""
    log = res["log"]
    ev = [(i, e, target_kind(case, res, e["tgt"])) for i, e in enumerate(log)
          if e["cls"] in IO_CLASSES or e["cls"] in ("close", "chdir")]
    pos = 0
    seg_of = {}           # log index -> file index (data phase)

    def peek():
        return ev[pos] if pos < len(ev) else None

    probe = 0
    if case.tool == "tar2sqfs":
        while peek() and peek()[1]["cls"] in ("read", "close") and peek()[2] == "stdin":
            if peek()[1]["cls"] == "read":
                probe += 1
            pos += 1
    x = peek()
    if not x or x[1]["cls"] != "open" or x[2] != "out":
        raise ScriptError("first call is not the open of the output")
    pos += 1
    while peek() and peek()[1]["cls"] == "close":
        pos += 1
    x = peek()
    if not x or x[1]["cls"] != "write" or x[1]["off"] != 0 or x[2] != "out":
        raise ScriptError("no initial super block write")
    pos += 1
    compopts = 0
    x = peek()
    if (sb.flags & 0x0400) and x and x[1]["cls"] == "write" and x[1]["off"] == 96 and x[2] == "out":
        compopts = 1
        pos += 1
    aux = [os.path.normpath(a) for a in case.aux]
    # the inode table starts with the last write that goes to inode_table_start (earlier data writes to the
    # same offset were cut off again by the block de-duplication)
    fin_begin = max([i for i, e, k in ev if e["cls"] == "write" and k == "out" and e["off"] == sb.inode_start] or [len(log)])
    pre = ["S"]
    files = []
    cur = None            # current file: dict(groups=[(n, A, eof)], flush=[...])
    if case.tool == "tar2sqfs":
        # one stream: everything read from stdin after the probe
        cur = dict(groups=[], flush=[], eof=False, closed=False, nclose=0, pending=[])
    bp = []
    fin_writes = []
    state = "pre"
    reads = 0
    in_fin = False
    last_was_eof = False
    while peek():
        i, e, k = peek()
        pos += 1
        c = e["cls"]
        if c == "chdir":
            continue
        if i >= fin_begin and not in_fin:
            in_fin = True
            if cur is not None:
                files.append(cur)
                cur = None
        if in_fin:
            if c == "write" and k == "out":
                fin_writes.append(e)
            elif c == "close":
                pass
            else:
                raise ScriptError("unexpected call %s on %s while the tables are written" % (c, k))
            continue
        if k == "out" and c in ("write", "read", "trunc"):
            tok = {"write": "W", "read": "R", "trunc": "T"}[c]
            if cur is None:
                bp.append(tok)
            elif cur["closed"]:
                bp.append(tok)
            elif cur["eof"]:
                cur["flush"].append(tok)
            else:
                if not cur["groups"]:
                    cur["groups"].append([0, [], False])
                cur["groups"][-1][1].append(tok)
            if cur is not None:
                seg_of[i] = len(files)
            continue
        if bp and cur is not None and not cur["closed"]:
            pass
        if c == "open" and k == "in":
            t = os.path.normpath(e["tgt"])
            if t in aux:
                pre.append("O")
                state = "aux"
                continue
            if cur is not None:
                if bp:
                    # output calls after the previous file was closed belong to no file: keep them with the
                    # next get_new_block (they happen inside the next append); simplest faithful place
                    pass
                files.append(cur)
            cur = dict(groups=[], flush=[], eof=False, closed=False, nclose=0, pending=bp)
            bp = []
            seg_of[i] = len(files)
            state = "file"
            continue
        if c == "read" and k == "in":
            t = os.path.normpath(e["tgt"])
            if t in aux:
                if pre and pre[-1].startswith("(L "):
                    pre[-1] = "(L %d)" % (int(pre[-1][3:-1]) + 1)
                else:
                    pre.append("(L 1)")
                continue
            if cur is None:
                raise ScriptError("read of an input file that was not opened")
            g = cur["groups"]
            if not g or g[-1][1]:
                g.append([0, [], False])
            g[-1][0] += 1
            if e["res"] == 0:
                g[-1][2] = True
                cur["eof"] = True
            seg_of[i] = len(files)
            continue
        if c == "read" and k == "stdin":
            if cur is None:
                cur = dict(groups=[], flush=[], eof=False, closed=False, nclose=0, pending=[])
            g = cur["groups"]
            if not g or g[-1][1]:
                g.append([0, [], False])
            g[-1][0] += 1
            if e["res"] == 0:
                g[-1][2] = True
            seg_of[i] = 0
            continue
        if c == "close":
            if cur is not None and k == "in" and os.path.normpath(e["tgt"]) not in aux:
                cur["nclose"] += 1
                if cur["nclose"] >= 2:
                    cur["closed"] = True
            continue
        raise ScriptError("unexpected call %s on %s in the data phase" % (c, k))
    if cur is not None:
        files.append(cur)
    if case.tool == "tar2sqfs":
        # everything read from stdin is one stream; output calls after its last read belong to finish
        if files:
            f = files[0]
            if f["groups"] and f["groups"][-1][1] and not f["groups"][-1][2]:
                pass
    # pending output calls seen between two files (after close, before the next open): they were made by
    # sqfs_block_processor functions called for the *next* file -- cannot happen with the real code (no
    # block processor call between close and open) except for bp_finish after the last file
    for fi, f in enumerate(files):
        if f["pending"]:
            raise ScriptError("output calls between two input files")
    fscripts = []
    for fi, f in enumerate(files):
        groups = [tuple(g) for g in f["groups"]]
        fl = "(sent %s %s)" % (gnb_from_activity(f["flush"]), ENQ) if f["flush"] else "(last %s)" % ENQ
        de = "empty"
        if destroy is not None and destroy[0] == fi and destroy[1]:
            de = "(sent %s %s)" % (gnb_from_activity(destroy[1]), ENQ)
        fscripts.append("(file %s %s %s)" % (iters_from_groups(groups), fl, de))
    fin = finish_script(case, res, sb, fin_writes, bp)
    cfg = "(cfg %d %d %d)" % (compopts, 1 if (case.packdir and case.tool == "gensquashfs") else 0, 1 if case.relative else 0)
    if case.tool == "gensquashfs":
        pre.append("S")
        return "(gen %s (%s) (%s) %s)" % (cfg, " ".join(pre), " ".join(fscripts), fin), seg_of
    ents = " ".join("(te 0 0 %s)" % f for f in fscripts)
    return "(tar %s %d (%s) 0 0 %s)" % (cfg, probe, ents, fin), seg_of


def build_reader_script(case, res):
    steps = []
    ev = io_events(case, res)
    pending = 0
    wr_idx = [j for j, x in enumerate(ev) if x[0] == "write"]
    last_write = wr_idx[-1] if wr_idx else -1
    for j, (c, k, ok, _) in enumerate(ev):
        if c == "read" and k == "img":
            pending += 1
            continue
        if c == "write":
            if case.tool == "sqfs2tar" and j == last_write:
                if pending:
                    steps.append("(setup %d)" % pending)
                    pending = 0
                steps.append("term")
            elif pending:
                steps.append("(copy %d %s)" % (pending, k))
                pending = 0
            else:
                steps.append("(write %s)" % k)
            continue
        if pending:
            steps.append("(setup %d)" % pending)
            pending = 0
        if c == "open":
            steps.append("(open %s)" % k)
        elif c == "fsync":
            steps.append("fsync")
        else:
            raise ScriptError("unexpected call %s on %s" % (c, k))
    if pending:
        steps.append("(setup %d)" % pending)
    return "(" + " ".join(steps) + ")"


# ----------------------------------------------------------------------------------------------
# model side
# ----------------------------------------------------------------------------------------------
def run_model(drv, lines):
    r = subprocess.run([drv], input=("\n".join(lines) + "\n").encode(), stdout=subprocess.PIPE, stderr=subprocess.PIPE)
    out = r.stdout.decode().split("\n")
    return out[:len(lines)]


def parse_model(line):
    p = line.split(" ")
    if not p or p[0] == "ERROR" or p[0] == "":
        return None
    code = int(p[0])
    toks = p[1:]
    io = []          # (cls, kind, ok, global fallible index)
    g = 0
    diag = False
    unlinks = []
    for t in toks:
        q = t.split(":")
        if q[0] in ("open", "write", "read", "trunc", "fsync"):
            io.append((q[0], q[1], q[2] == "1", g))
            g += 1
        elif q[0] == "stage":
            g += 1
        elif q[0] == "diag":
            diag = True
        elif q[0] == "unlink":
            unlinks.append(q[1])
    return dict(code=code, io=io, diag=diag, unlinks=unlinks, last=toks[-1] if toks else "", ntok=len(toks))


def model_tool(case):
    return {"gensquashfs": "gen", "tar2sqfs": "tar"}.get(case.tool, "rd")


def norm_kind(case, k):
    # the reader model does not distinguish the image open; the model's fsync target is generic
    return k


def compare_io(case, mio, rio, reader):
    """model I/O events vs real I/O events.  Returns None or a description of the first difference."""
    a = [(c, k, ok) for (c, k, ok, _) in mio]
    b = [(c, k, ok) for (c, k, ok, _) in rio]
    if reader:
        a = [(c, ("*" if c == "fsync" else k), ok) for (c, k, ok) in a]
        b = [(c, ("*" if c == "fsync" else k), ok) for (c, k, ok) in b]
    if a == b:
        return None
    for i in range(max(len(a), len(b))):
        x = a[i] if i < len(a) else None
        y = b[i] if i < len(b) else None
        if x != y:
            return "call #%d: model %s, tool %s (model %d calls, tool %d calls)" % (i, x, y, len(a), len(b))
    return "?"


# ----------------------------------------------------------------------------------------------
# the property, evaluated on one faulted run of a real tool
# ----------------------------------------------------------------------------------------------
def symptom_of(case, base, res, reached=True):
    """None if the run satisfies C13, else a short symptom name"""
    rc = res["rc"]
    if rc == "HANG":
        return "hang"
    if isinstance(rc, int) and rc < 0:
        return "signal%d" % (-rc)
    if "ERROR: AddressSanitizer" in res["stderr"] or "runtime error:" in res["stderr"] or \
       "ERROR: LeakSanitizer" in res["stderr"]:
        return "sanitizer"
    if res["src_lost"]:
        return "deleted-input"
    if rc == 0:
        if result_hash(case, res) != result_hash(case, base):
            return "exit0-diff"
        return "exit0" if reached else None
    if not res["stderr"].strip():
        return "no-diagnostic"
    if case.packer and res["out_exists"]:
        return "file-left"
    return None


def short_err(res):
    e = res["stderr"]
    i = e.find("ERROR: AddressSanitizer")
    if i < 0:
        i = e.find("runtime error:")
    if i >= 0:
        return e[max(0, i - 100):i + 500]
    return e[-300:]


# ----------------------------------------------------------------------------------------------
# sweeps
# ----------------------------------------------------------------------------------------------
def pmap(fn, jobs, workers=16):
    with ThreadPoolExecutor(max_workers=workers) as ex:
        return list(ex.map(fn, jobs))


def io_sweep(ctx, case, shim, drv, root, kinds_for, stats, only=None):
    """fault-free run, script, model trace; then every fault position.  only: (cls, k, kind) for replays"""
    envp = {"LD_PRELOAD": shim}
    base = run_case(case, os.path.join(root, "base"), envp)
    if base["rc"] != 0:
        ctx.violation("faultfree:%s" % case.name, "fault-free run of %s fails (rc=%s): %s" % (case.name, base["rc"], base["stderr"][-300:]),
                      dict(kind="faultfree", case=case.name, argv=base["argv"]), no_input=True)
        return
    base2 = run_case(case, os.path.join(root, "base2"), envp)
    if result_hash(case, base2) != result_hash(case, base) or \
       [(e["cls"], e["size"], e["off"]) for e in base["log"] if e["cls"] in IO_CLASSES] != \
       [(e["cls"], e["size"], e["off"]) for e in base2["log"] if e["cls"] in IO_CLASSES]:
        ctx.notes.append("%s: two fault-free runs differ (output or call sequence); tie skipped for this case" % case.name)
        deterministic = False
    else:
        deterministic = True
    sb = None
    if case.packer and base["out_exists"]:
        sb = Super(open(base["outp"], "rb").read())
    rio0 = io_events(case, base)
    counts = {}
    for c, k, ok, i in rio0:
        counts[c] = counts.get(c, 0) + 1
    ncomp = sum(1 for e in base["log"] if e["cls"] == "comp")
    stats["calls"][case.name] = dict(counts, close=sum(1 for e in base["log"] if e["cls"] == "close"), comp=ncomp)
    # ---- script + fault-free model trace
    script = None
    seg_of = {}
    m0 = None
    reader = not case.packer
    tie_ok = deterministic
    if tie_ok:
        try:
            if case.packer:
                script, seg_of = build_packer_script(case, base, sb)
            else:
                script = build_reader_script(case, base)
            ml = run_model(drv, ["%s repaired - %s" % (model_tool(case), script)])
            m0 = parse_model(ml[0])
            if m0 is None:
                raise ScriptError("model driver rejected the script: " + ml[0][:200])
            d = compare_io(case, m0["io"], rio0, reader)
            if d or m0["code"] != 0:
                ctx.tie_broken.append("fault-free trace %s" % case.name)
                ctx.violation("tie-trace:%s" % case.name,
                              "fault-free call sequence of %s differs from the model run on the derived script: %s (model exit %d)"
                              % (case.name, d, m0["code"]),
                              dict(kind="tie-faultfree", case=case.name, script=script, difference=d,
                                   correspondence="props/C13: model trace = logged call sequence (fault-free)"), no_input=True)
                tie_ok = False
            else:
                stats["traces_ok"] += 1
        except ScriptError as ex:
            ctx.tie_broken.append("script derivation %s" % case.name)
            ctx.violation("tie-script:%s" % case.name, "cannot derive a model script from the fault-free log of %s: %s" % (case.name, ex),
                          dict(kind="tie-script", case=case.name, error=str(ex),
                               correspondence="props/C13: script derivation from the logged call sequence"), no_input=True)
            tie_ok = False
    # ---- jobs
    jobs = []
    for cls in (case.classes or IO_CLASSES):
        for k in range(1, counts.get(cls, 0) + 1):
            for kind in (case.kinds or kinds_for(case, cls, k)):
                jobs.append((cls, k, kind))
    if only is not None:
        jobs = [only]
    elif ctx.tier != "quick" and case.classes is None:
        # close(): outside the property's quantifier (sqfs_native_file_close returns void); observed, and only
        # crashes / hangs / a changed output would be reported
        nclose = sum(1 for e in base["log"] if e["cls"] == "close")

        def one_close(k):
            rd = os.path.join(root, "close.%d" % k)
            res = run_case(case, rd, dict(envp, VF_CLASS="close", VF_K=str(k), VF_KIND="eio"))
            shutil.rmtree(rd, ignore_errors=True)
            return k, res
        for k, res in pmap(one_close, list(range(1, nclose + 1))):
            stats["close_runs"] += 1
            sym = symptom_of(case, base, res, reached=False)
            if res["rc"] == 0:
                stats["close_ignored"] += 1
            if sym in ("hang", "sanitizer", "exit0-diff", "deleted-input") or (sym or "").startswith("signal"):
                ctx.violation("io:%s:close:%s" % (case.tool, sym), "%s: close call #%d fails with EIO -> %s" % (case.name, k, sym),
                              dict(kind="io", case=case.name, input_seed=case.iseed, tool=case.tool, fault_class="close", k=k, fault_kind="eio", symptom=sym))

    def one(j):
        cls, k, kind = j
        rd = os.path.join(root, "f.%s.%d.%s" % (cls, k, kind))
        res = run_case(case, rd, dict(envp, VF_CLASS=cls, VF_K=str(k), VF_KIND=kind))
        keep = dict(res)
        shutil.rmtree(rd, ignore_errors=True)
        return j, keep
    results = pmap(one, jobs)
    # ---- evaluate
    model_lines = []
    model_jobs = []
    for (cls, k, kind), res in results:
        stats["io_runs"] += 1
        flt = [i for i, e in enumerate(res["log"]) if e["F"] and e["cls"] == cls and
               ((e["res"] < 0 and e["err"] != 4) or (kind == "zero" and e["res"] == 0) or
                (e["res"] < 0 and cls in ("open", "fsync")))]
        reached = bool(flt)
        if not reached and res["rc"] != "HANG":
            stats["io_not_reached"] += 1
        if reached:
            stats["io_reached"] += 1
        # position of the k-th call of the class in the fault-free I/O numbering
        kth = [x for x in rio0 if x[0] == cls][k - 1]
        site = call_site(case, base, sb, kth[3])
        sym = symptom_of(case, base, res, reached)
        if sym == "exit0" and kind == "persist" and False:
            sym = None
        if sym:
            sig = "io:%s:%s:%s:%s" % (case.tool, cls, site, sym)
            stats["io_violations"].setdefault(sig, 0)
            stats["io_violations"][sig] += 1
            if stats["io_violations"][sig] == 1:
                ctx.violation(sig,
                              "%s: %s call #%d (%s, kind %s) fails -> %s; rc=%s stderr=%r"
                              % (case.name, cls, k, site, kind, sym, res["rc"], short_err(res)[:200]),
                              dict(kind="io", case=case.name, input_seed=case.iseed, tool=case.tool, argv=res["argv"], fault_class=cls, k=k,
                                   fault_kind=kind, site=site, symptom=sym, rc=res["rc"], stderr=res["stderr"][-1500:],
                                   output_left=res["out_exists"], input_files_lost=res["src_lost"],
                                   how="LD_PRELOAD=c13_shim.so VF_CLASS=%s VF_K=%d VF_KIND=%s <argv>" % (cls, k, kind)))
        # ---- tie for this position
        if tie_ok and kind != "persist" and res["rc"] != "HANG" and reached:
            destroy = None
            if case.packer and reached:
                rio = io_events(case, res)
                # output calls after the fault (before the end): handed to the model as the script of the
                # block processor calls made by stream_destroy
                fpos = None
                for j2, x in enumerate(rio):
                    if not x[2]:
                        fpos = j2
                        break
                if fpos is not None:
                    post = [x for x in rio[fpos + 1:] if x[1] == "out" and x[0] in ("write", "read", "trunc")]
                    if post and kth[3] in seg_of:
                        destroy = (seg_of[kth[3]], [{"write": "W", "read": "R", "trunc": "T"}[x[0]] for x in post])
            try:
                sc = script
                if destroy is not None:
                    sc, _ = build_packer_script(case, base, sb, destroy=destroy)
                # aligned model index: the I/O event with the same ordinal
                ordinal = [x[3] for x in rio0].index(kth[3])
                gidx = m0["io"][ordinal][3]
                model_lines.append("%s repaired %d %s" % (model_tool(case), gidx, sc))
                model_jobs.append(((cls, k, kind), res, site, sym))
            except (ScriptError, IndexError, ValueError) as ex:
                ctx.notes.append("%s %s#%d: no model run (%s)" % (case.name, cls, k, ex))
    if model_lines:
        outs = run_model(drv, model_lines)
        for ((cls, k, kind), res, site, sym), ml in zip(model_jobs, outs):
            m = parse_model(ml)
            if m is None:
                continue
            rio = io_events(case, res)
            diffs = []
            d = compare_io(case, m["io"], rio, reader)
            if d:
                diffs.append("calls: " + d)
            if (m["code"] == 0) != (res["rc"] == 0):
                diffs.append("exit: model %d, tool %s" % (m["code"], res["rc"]))
            if res["rc"] != 0 and m["code"] != 0 and m["diag"] != bool(res["stderr"].strip()):
                diffs.append("diagnostic: model %s, tool stderr %r" % (m["diag"], res["stderr"][:80]))
            if case.packer:
                real_unl = [x for x in side_events(case, res) if x[0] == "unlink"]
                real_out_unl = any(x[1] == "out" and x[2] == 0 for x in real_unl)
                model_out_unl = "out" in m["unlinks"]
                if real_out_unl != model_out_unl:
                    diffs.append("unlink of the output: model %s, tool %s" % (model_out_unl, real_unl))
                if model_out_unl and m["last"] != "unlink:out":
                    diffs.append("model: unlink is not the last event")
            stats["tie_runs"] += 1
            if not diffs:
                stats["traces_ok"] += 1
                continue
            stats["tie_diffs"] += 1
            if sym:
                continue       # the run violates the property itself: reported above with its input
            sig = "tie:%s:%s:%s" % (case.tool, cls, site)
            if sig in stats["tie_sigs"]:
                continue
            stats["tie_sigs"].add(sig)
            ctx.tie_broken.append(sig)
            ctx.violation(sig,
                          "%s: %s call #%d (%s, kind %s): model and tool disagree (%s) although the run satisfies C13"
                          % (case.name, cls, k, site, kind, "; ".join(diffs)[:400]),
                          dict(kind="io", case=case.name, input_seed=case.iseed, tool=case.tool, argv=res["argv"], fault_class=cls, k=k,
                               fault_kind=kind, site=site, differences=diffs, model=ml[:2000],
                               correspondence="props/C13: faulted run of the tool = model run with the fault at the aligned call"),
                          no_input=True)
    return base, sb, counts, ncomp


ALLOC_HELPERS = ("alloc_flex", "alloc_array", "array_init", "array_init_copy", "array_append", "array_set_capacity",
                 "hash_table_create", "hash_table_init", "mknode", "str_table_init")


def alloc_sweep(ctx, case, asan, root, stats, limit=None, only=None, func=None):
    tools = asan["tools"]
    envp = {"ASAN_OPTIONS": "detect_leaks=0:abort_on_error=0:allocator_may_return_null=1",
            "UBSAN_OPTIONS": "print_stacktrace=1"}
    if func:
        envp["VF_ALLOC_FUNC"] = func

    def run_k(k, tag):
        rd = os.path.join(root, tag)
        al = os.path.join(root, tag + ".alog")
        if os.path.exists(al):
            os.unlink(al)
        res = run_case(case, rd, dict(envp, VF_ALLOC_K=str(k), VF_ALLOC_LOG=al), tools_override=tools, timeout=40)
        site = None
        count = None
        caller_off = None
        if os.path.exists(al):
            for l in open(al).read().split("\n"):
                p = l.split(" ")
                if p[0] == "site" and len(p) >= 5:
                    site = (p[1], p[2], p[3])
                elif p[0] == "caller" and len(p) >= 2:
                    caller_off = int(p[1])
                elif p[0] == "count" and len(p) >= 2:
                    count = int(p[1])
            os.unlink(al)
        if site and site[1] in ALLOC_HELPERS and caller_off and caller_off > 0:
            # the allocation sits in a generic helper: name the function that called the helper
            try:
                a2l = subprocess.run(["addr2line", "-f", "-e", res["argv"][0], hex(caller_off - 1)],
                                     stdout=subprocess.PIPE, stderr=subprocess.DEVNULL, text=True, timeout=20)
                fn = a2l.stdout.split("\n")[0].strip()
                if fn and fn != "??":
                    site = (site[0], site[1] + "@" + fn, site[2])
            except (OSError, subprocess.TimeoutExpired):
                pass
        res["alloc_site"] = site
        res["alloc_count"] = count
        if k:
            shutil.rmtree(rd, ignore_errors=True)
        return res
    base = run_case_keep = run_k(0, "abase")
    if base["rc"] != 0 or not base["alloc_count"]:
        ctx.violation("faultfree-alloc:%s" % case.name, "fault-free run of the allocation-counting build of %s fails (rc=%s): %s"
                      % (case.name, base["rc"], base["stderr"][-300:]), dict(kind="faultfree", case=case.name), no_input=True)
        return
    n = base["alloc_count"]
    stats["alloc_counts"][case.name] = n
    ks = list(range(1, n + 1))
    if limit and n > limit:
        rnd = random.Random(ctx.seed * 31 + len(case.name))
        head = ks[:limit // 2]
        rest = ks[limit // 2:]
        ks = head + sorted(rnd.sample(rest, limit - len(head)))
    if only is not None:
        ks = [only]
    results = pmap(lambda k: (k, run_k(k, "a%d" % k)), ks)
    for k, res in results:
        stats["alloc_runs"] += 1
        site = res["alloc_site"]
        if site is None and res["rc"] != "HANG":
            stats["alloc_not_reached"] += 1
            reached = False
        else:
            reached = True
            stats["alloc_sites"].add("%s:%s" % (site[0], site[1]) if site else "?")
        sym = symptom_of(case, base, res, reached=False)
        if sym:
            sname = "%s:%s" % (site[0], site[1]) if site else "unknown"
            sig = "alloc:%s:%s:%s" % (case.tool, sname, sym)
            stats["alloc_violations"].setdefault(sig, 0)
            stats["alloc_violations"][sig] += 1
            if stats["alloc_violations"][sig] == 1:
                ctx.violation(sig,
                              "%s: allocation #%d (%s in %s) returns NULL -> %s; rc=%s stderr=%r"
                              % (case.name, k, site[2] if site else "?", sname, sym, res["rc"], short_err(res)[:300]),
                              dict(kind="alloc", case=case.name, input_seed=case.iseed, tool=case.tool, argv=res["argv"], k=k, site=sname, symptom=sym,
                                   func=func, rc=res["rc"], stderr=res["stderr"][-2500:], output_left=res["out_exists"],
                                   how="ASan build with -include props/C13/vf_alloc.h; %sVF_ALLOC_K=%d <argv>"
                                       % ("VF_ALLOC_FUNC=%s " % func if func else "", k)))


def comp_sweep(ctx, case, shim, root, ncomp, stats, only=None):
    """a compressor call fails: in a worker (data blocks) or in the main thread (meta data)"""
    envp = {"LD_PRELOAD": shim}
    base = run_case(case, os.path.join(root, "cbase"), envp)
    ks = list(range(1, ncomp + 1)) if only is None else [only]

    def one(k):
        rd = os.path.join(root, "c%d" % k)
        res = run_case(case, rd, dict(envp, VF_CLASS="comp", VF_K=str(k), VF_KIND="eio"), timeout=8)
        shutil.rmtree(rd, ignore_errors=True)
        return k, res
    for k, res in pmap(one, ks, workers=16):
        stats["comp_runs"] += 1
        reached = any(e["F"] and e["cls"] == "comp" for e in res["log"]) or res["rc"] == "HANG"
        sym = symptom_of(case, base, res, reached)
        if sym:
            sig = "comp:%s:%s" % (case.tool, sym)
            stats["comp_violations"].setdefault(sig, 0)
            stats["comp_violations"][sig] += 1
            if stats["comp_violations"][sig] == 1:
                ctx.violation(sig, "%s: compressor call #%d (deflate) fails -> %s; rc=%s stderr=%r"
                              % (case.name, k, sym, res["rc"], res["stderr"][-200:]),
                              dict(kind="comp", case=case.name, input_seed=case.iseed, tool=case.tool, argv=res["argv"], k=k, symptom=sym, rc=res["rc"],
                                   stderr=res["stderr"][-1000:],
                                   how="LD_PRELOAD=c13_shim.so VF_CLASS=comp VF_K=%d VF_KIND=eio <argv>" % k))


def trunc_sweep(ctx, plain, root, case, stats, npos):
    """truncated input: tar archive cut at byte positions (tar2sqfs), image cut (sqfs2tar)"""
    rnd = random.Random(ctx.seed * 101 + 7)
    if case.tool == "tar2sqfs":
        data = open(case.stdin, "rb").read()
        tf = tarfile.open(case.stdin)
        regions = []      # byte ranges that carry information: headers (incl. pax records) and payloads
        for m in tf.getmembers():
            regions.append((m.offset, m.offset_data))
            if m.isreg() and m.size:
                regions.append((m.offset_data, m.offset_data + m.size))
        end = max(b for a, b in regions)
        cuts = sorted(set([1, 100, 511, 513, 1024 + 7] + [rnd.randint(1, end - 1) for _ in range(npos)]))
        base = run_case(case, os.path.join(root, "tbase"), {})

        def one(c):
            p = os.path.join(root, "cut%d.tar" % c)
            open(p, "wb").write(data[:c])
            cc = Case(case.name, case.tool, case.argv, case.out, case.outkind, None, stdin=p, packer=True)
            res = run_case(cc, os.path.join(root, "t%d" % c), {})
            os.unlink(p)
            shutil.rmtree(res["rundir"], ignore_errors=True)
            return c, res
        for c, res in pmap(one, cuts):
            stats["trunc_runs"] += 1
            sym = symptom_of(case, base, res, reached=False)
            if sym == "exit0-diff":
                # an archive that ends between two entries (or in the padding after a payload) is a shorter
                # archive; one that ends inside a header or inside a payload is truncated and has to be refused
                sym = "exit0-truncated" if any(a < c < b for a, b in regions) else None
            if sym:
                sig = "trunc:%s:%s" % (case.tool, sym)
                if sig not in stats["trunc_sigs"]:
                    stats["trunc_sigs"].add(sig)
                    ctx.violation(sig, "%s: archive cut after %d of %d bytes -> %s; rc=%s stderr=%r"
                                  % (case.name, c, len(data), sym, res["rc"], res["stderr"][-200:]),
                                  dict(kind="trunc", case=case.name, input_seed=case.iseed, tool=case.tool, cut=c, symptom=sym, rc=res["rc"],
                                       stderr=res["stderr"][-1000:]))
    elif case.image:
        data = open(case.image, "rb").read()
        sb = Super(data)
        cuts = sorted(set([50, 96, 200] + [rnd.randint(97, sb.bytes_used - 1) for _ in range(npos)] + [sb.bytes_used - 1]))
        base = run_case(case, os.path.join(root, "tbase"), {})

        def one(c):
            p = os.path.join(root, "cut%d.sqfs" % c)
            open(p, "wb").write(data[:c])
            cc = Case(case.name, case.tool, [a if a != case.image else p for a in case.argv], case.out, case.outkind, None, image=p)
            res = run_case(cc, os.path.join(root, "t%d" % c), {})
            os.unlink(p)
            shutil.rmtree(res["rundir"], ignore_errors=True)
            return c, res
        for c, res in pmap(one, cuts):
            stats["trunc_runs"] += 1
            sym = symptom_of(case, base, res, reached=False)
            if sym:
                sig = "trunc:%s:%s" % (case.tool, sym)
                if sig not in stats["trunc_sigs"]:
                    stats["trunc_sigs"].add(sig)
                    ctx.violation(sig, "%s: image cut after %d of %d bytes -> %s; rc=%s stderr=%r"
                                  % (case.name, c, len(data), sym, res["rc"], res["stderr"][-200:]),
                                  dict(kind="trunc", case=case.name, input_seed=case.iseed, tool=case.tool, cut=c, symptom=sym, rc=res["rc"],
                                       stderr=res["stderr"][-1000:]))


def cwd_probe(ctx, plain, shim, root, stats):
    """gensquashfs --pack-dir with a relative output name: a failure after the chdir must remove the partial
    output and must not touch a file of the same name inside the pack directory"""
    d = os.path.join(root, "cwdprobe")
    src = os.path.join(d, "src")
    os.makedirs(src)
    open(os.path.join(src, "data.bin"), "wb").write(bytes(range(256)) * 20)
    victim = os.path.join(src, "victim.sqfs")
    open(victim, "wb").write(b"precious input file\n")
    env = base_env()
    env.update(LD_PRELOAD=shim, VF_CLASS="write", VF_K="2", VF_KIND="enospc")
    argv = [plain["tools"]["gensquashfs"], "-q", "-f", "-j", "1", "-D", "src", "victim.sqfs"]
    try:
        r = subprocess.run(argv, cwd=d, env=env, stdout=subprocess.PIPE, stderr=subprocess.PIPE, timeout=20)
        rc = r.returncode
        err = r.stderr.decode("utf-8", "replace")
    except subprocess.TimeoutExpired:
        rc, err = "HANG", ""
    stats["io_runs"] += 1
    stats["io_reached"] += 1
    sym = None
    if rc == "HANG":
        sym = "hang"
    elif rc == 0:
        sym = "exit0"
    elif not os.path.exists(victim):
        sym = "deleted-input"
    elif os.path.exists(os.path.join(d, "victim.sqfs")):
        sym = "file-left"
    if sym:
        ctx.violation("io:gensquashfs:cleanup-relative:%s" % sym,
                      "gensquashfs -D src victim.sqfs (relative output, cwd = parent of src), second output write fails with "
                      "ENOSPC -> %s: rc=%s, src/victim.sqfs %s, ./victim.sqfs %s; stderr=%r"
                      % (sym, rc, "still there" if os.path.exists(victim) else "DELETED",
                         "left behind" if os.path.exists(os.path.join(d, "victim.sqfs")) else "removed", err[-200:]),
                      dict(kind="cwd-probe", case="cwd-probe", argv=argv, symptom=sym, rc=rc, stderr=err[-1000:],
                           how="mkdir src; echo x > src/victim.sqfs; LD_PRELOAD=c13_shim.so VF_CLASS=write VF_K=2 VF_KIND=enospc "
                               "gensquashfs -q -f -j 1 -D src victim.sqfs"))
    shutil.rmtree(d, ignore_errors=True)


# ----------------------------------------------------------------------------------------------
def new_stats():
    return dict(io_runs=0, io_reached=0, io_not_reached=0, io_violations={}, tie_runs=0, tie_diffs=0, tie_sigs=set(),
                traces_ok=0, alloc_runs=0, alloc_not_reached=0, alloc_sites=set(), alloc_violations={}, alloc_counts={},
                comp_runs=0, comp_violations={}, trunc_runs=0, trunc_sigs=set(), calls={}, close_runs=0, close_ignored=0)


def run(ctx):
    plain, shim, asan, drv = build_all()
    ctx.trusted += [
        "props/C13/shim_fault.c (LD_PRELOAD fault injection and call log), props/C13/vf_alloc.h (allocation wrappers)",
        "props/C13/check.py: derivation of the model script from the logged call sequence and the super block of the produced image; "
        "alignment of fault positions through the call log",
        "props/C13/driver.ml (s-expression reader, event printer)",
        "ASan/UBSan verdicts of the allocation-fault build; gcc -include renaming of malloc/calloc/realloc/strdup/strndup in project sources only",
        "props/C13/h_utilalloc.c (allocation wrappers: call counter, k-th call returns NULL, sequence numbers = the models' allocation ids), "
        "props/C13/driver_ualloc.ml, props/C13/ualloc.py (generators, abstract-value reading of the dumps), props/C13/h_rbpool.c",
    ]
    ctx.assumptions += [
        "model granularity: one library-level I/O primitive = one outcome (the EINTR / short-count retry loops of file.c, ostream.c, "
        "istream.c are C12's); EINTR-then-error and short-then-error are checked on the tools and folded into one failed primitive for the tie",
        "the thread pool returns every submitted item (no deadlock after a worker failure): DESIGN F01 is C09's; a hang shows up here as comp:*:hang",
        "worker failures are modelled at dequeue time (serial-pool timing); the threaded pool can expose the status to an earlier submit",
        "close() results are ignored by design of sqfs_native_file_close (void); close faults are outside the property's quantifier and not asserted",
        "allocation faults of the TOOLS are enumerated on the real tools, their allocation sequence is not modelled (tool-level theorems cover "
        "I/O and stage-call plumbing only); the allocation sites of the four lib/util containers are modelled (coq/UtilAlloc): calloc-variant of "
        "rbtree.c (NO_CUSTOM_ALLOC), one shared oracle stream per run, element size > 0, fewer than 2^30 entries per hash table",
    ]
    stats = new_stats()
    seed = ctx.seed
    only = None
    rep = None
    if ctx.replay:
        rep = json.load(open(ctx.replay))
        seed = rep.get("input_seed") or rep.get("seed", seed)
    root = os.path.join(ctx.scratch, "w")
    os.makedirs(root)
    cases = gen_cases(ctx, plain, root, seed)
    quick = ctx.tier == "quick"

    def kinds_for(case, cls, k):
        if cls == "open":
            return ["eio"]
        if cls == "fsync":
            return ["eio"]
        if cls == "trunc":
            return ["eio"] if quick else ["eio", "eintr"]
        if cls == "read":
            if quick:
                return ["eio", "short"] if case.tool in ("tar2sqfs",) else ["eio"]
            return ["eio", "eintr", "short", "persist"]
        if quick:
            return ["enospc", "short"] if case.name in ("gen-dir-rel", "tar-j1", "sqfs2tar") else ["eio", "eintr"]
        return ["enospc", "eio", "eintr", "short", "zero", "persist"]

    if rep is not None and rep.get("kind") in ("ualloc", "ualloc-pool"):
        ustats = UA.run_leg(ctx, B.build("asan"), only=rep.get("case"))
        ctx.coverage["containers_alloc_part"] = ustats
        return
    if rep is not None and rep.get("kind") == "cwd-probe":
        cwd_probe(ctx, plain, shim, root, stats)
        fill_coverage(ctx, stats, cases)
        return
    if rep is not None:
        cs = [c for c in cases if c.name == rep.get("case")]
        if not cs:
            ctx.notes.append("replay: unknown case %r" % rep.get("case"))
            return
        case = cs[0]
        d = os.path.join(root, "replay")
        os.makedirs(d)
        k = rep.get("kind")
        if k == "cwd-probe":
            cwd_probe(ctx, plain, shim, root, stats)
            fill_coverage(ctx, stats, cases)
            return
        if k == "io":
            io_sweep(ctx, case, shim, drv, d, kinds_for, stats, only=(rep["fault_class"], rep["k"], rep["fault_kind"]))
        elif k == "alloc":
            alloc_sweep(ctx, case, asan, d, stats, only=rep["k"], func=rep.get("func"))
        elif k == "comp":
            comp_sweep(ctx, case, shim, d, 0, stats, only=rep["k"])
        elif k == "trunc":
            trunc_sweep(ctx, plain, d, case, stats, 30)
        else:
            # fault-free / script-derivation / trace disagreements: the whole sweep of that invocation
            io_sweep(ctx, case, shim, drv, d, kinds_for, stats)
        fill_coverage(ctx, stats, cases)
        return

    cwd_probe(ctx, plain, shim, root, stats)
    # containers under allocation failure (coq/UtilAlloc): exact tie for every allocation position + model-free oracle
    try:
        ustats = UA.run_leg(ctx, B.build("asan"), seed=seed)
    except Exception as e:        # a harness that does not compile against the working tree is a finding, not a crash of the check
        ustats = dict(error=str(e)[-600:])
        ctx.violation("ualloc-tie:harness", "props/C13/h_utilalloc.c / h_rbpool.c do not build against the working tree "
                      "(lib/util/src containers changed shape): %s" % str(e)[-400:], dict(kind="ualloc-build"), no_input=True)
    ctx.coverage["containers_alloc_part"] = ustats
    ctx.log("containers under allocation failure: %s" % ustats)
    all_cases = []
    seeds = [seed] if quick else [seed, seed + 1000, seed + 2000]
    for si, iseed in enumerate(seeds):
        if si:
            root = os.path.join(ctx.scratch, "w%d" % si)
            os.makedirs(root)
            cases = gen_cases(ctx, plain, root, iseed)
        all_cases += cases
        sweep_cases(ctx, cases, plain, shim, asan, drv, root, kinds_for, stats, quick, first=(si == 0))
        shutil.rmtree(root, ignore_errors=True)
    if not quick:
        # independent re-check of the compiled proofs
        rc, out = core.sh(["timeout", "900", "coqchk", "-silent", "-o", "-Q", ".", "SqfsV", "SqfsV.Properties_C13"], cwd=core.COQ)
        ctx.coverage["coqchk"] = dict(rc=rc, axioms="<none>" if "* Axioms: <none>" in out else out[-600:])
        if rc != 0 or "* Axioms: <none>" not in out:
            ctx.proof_broken.append("coqchk SqfsV.Properties_C13: rc=%d %s" % (rc, out[-400:]))
    cases = all_cases
    fill_coverage(ctx, stats, cases)


def sweep_cases(ctx, cases, plain, shim, asan, drv, root, kinds_for, stats, quick, first=True):
    for case in cases:
        if case.name == "gen-export-513":
            continue
        d = os.path.join(root, "io-" + case.name)
        os.makedirs(d)
        r = io_sweep(ctx, case, shim, drv, d, kinds_for, stats)
        shutil.rmtree(d, ignore_errors=True)
        if r is None:
            continue
        base, sb, counts, ncomp = r
        if case.packer and ncomp and first and case.classes is None and (case.name in ("gen-dir-rel", "gen-packfile", "gen-nofrag") or not quick):
            d = os.path.join(root, "comp-" + case.name)
            os.makedirs(d)
            comp_sweep(ctx, case, shim, d, ncomp, stats)
            shutil.rmtree(d, ignore_errors=True)
        ctx.log("%s: I/O sweep done (%d runs so far)" % (case.name, stats["io_runs"]))
    for case in cases:
        d = os.path.join(root, "alloc-" + case.name)
        os.makedirs(d)
        if case.name == "gen-export-513":
            if first:
                # targeted: only the growth of the export table / the arrays (the full sequence is thousands long)
                for fn in ("array_set_capacity", "array_append"):
                    alloc_sweep(ctx, case, asan, d, stats, func=fn)
                if not quick:
                    alloc_sweep(ctx, case, asan, d, stats, limit=600)
        else:
            alloc_sweep(ctx, case, asan, d, stats, limit=case.alloc_limit or (260 if quick else None))
        shutil.rmtree(d, ignore_errors=True)
    ctx.log("allocation sweep done (%d runs)" % stats["alloc_runs"])
    for case in cases:
        if case.name in ("tar-j1", "sqfs2tar") or (not quick and case.name == "rdsquashfs-u"):
            d = os.path.join(root, "trunc-" + case.name)
            os.makedirs(d)
            trunc_sweep(ctx, plain, d, case, stats, 12 if quick else 120)
            shutil.rmtree(d, ignore_errors=True)


def fill_coverage(ctx, stats, cases):
    cov = ctx.coverage
    cov["evaluations"] = stats["io_runs"] + stats["alloc_runs"] + stats["comp_runs"] + stats["trunc_runs"]
    cov["distinct_nontrivial"] = stats["io_reached"] + (stats["alloc_runs"] - stats["alloc_not_reached"]) + stats["comp_runs"]
    cov["traces_validated_against_impl"] = stats["traces_ok"]
    ua = cov.get("containers_alloc_part") or {}
    if isinstance(ua.get("cases"), int):
        # container operation sequences under allocation failure, each compared line by line with the extracted model
        cov["evaluations"] += ua["cases"]
        cov["distinct_nontrivial"] += ua.get("faults_hit", 0)
        cov["traces_validated_against_impl"] += ua["cases"] - sum((ua.get("known") or {}).values())
    cov["exhaustive"] = False
    cov["rule"] = ("for each of %d tool invocations (%s) built from a seeded input tree / archive / image (seed %d): "
                   "every position k of every I/O call class (open, write/pwrite, read/pread, ftruncate, fsync) of the logged "
                   "fault-free run x the fault kinds of the tier; every (quick: up to 260 sampled) allocation made by project code "
                   "returns NULL once (ASan+UBSan build); every deflate call fails once (packers, gzip); truncated archives/images. "
                   "non-trivial = the injected fault was reached; plus the lib/util containers: generated operation sequences x every single failing "
                   "allocation call (sampled above 14 per sequence in the quick tier) x random sets of failing calls x every-rehash-fails, "
                   "compared with the extracted allocation-aware models" % (len(cases), ", ".join(sorted(set(c.name for c in cases))), ctx.seed))
    cov["io_part"] = dict(runs=stats["io_runs"], fault_reached=stats["io_reached"], model_vs_tool_runs=stats["tie_runs"],
                          model_vs_tool_disagreements=stats["tie_diffs"], calls_per_case=stats["calls"],
                          violations=stats["io_violations"])
    cov["alloc_part"] = dict(runs=stats["alloc_runs"], fault_reached=stats["alloc_runs"] - stats["alloc_not_reached"],
                             allocations_per_case=stats["alloc_counts"], distinct_sites=len(stats["alloc_sites"]),
                             violations=stats["alloc_violations"],
                             note="tool level: not covered by theorems, enumerated on the implementation only; the four lib/util "
                                  "containers under allocation failure are covered by coq/UtilAlloc (containers_alloc_part)")
    cov["comp_part"] = dict(runs=stats["comp_runs"], violations=stats["comp_violations"])
    cov["close_observed"] = dict(runs=stats["close_runs"], exit0_although_close_failed=stats["close_ignored"],
                                 note="close() is outside the property's quantifier; not asserted")
    cov["trunc_part"] = dict(runs=stats["trunc_runs"], violations=sorted(stats["trunc_sigs"]))
    ctx.add_samples([dict(case=c.name, argv=[os.path.basename(a) if "/" in a else a for a in c.argv]) for c in cases][:4])
