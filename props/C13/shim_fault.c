/* C13 fault shim (LD_PRELOAD).  Logs every counted I/O system call made through the PLT by the tool and
 * makes the k-th call of one class fail.
 *
 *   VF_LOG    path of the log file (append)            -- one line per counted call
 *   VF_CLASS  write | read | trunc | open | close | fsync | comp   -- class that receives the fault
 *   VF_K      1-based index inside the class (0/unset: log only)
 *   VF_KIND   enospc | eio | eintr | short | zero | persist
 *               enospc/eio : call k fails with that errno (nothing transferred)
 *               eintr      : call k fails with EINTR (nothing transferred), the next call of the class on the same
 *                            descriptor fails with EIO
 *               short      : call k transfers max(1,n/2) bytes for real, the next call of the class on the same
 *                            descriptor fails (ENOSPC/EIO)
 *               zero       : call k returns 0 (write: "no progress"; read: premature end of file)
 *               persist    : call k and every later call of the class fail with EIO
 *
 * A call is counted iff its target is "interesting": fd 0/1 as inherited, or a file opened through this
 * shim whose path is not below /proc /sys /etc /usr /lib /dev /run.  stderr and stdio-internal writes are
 * never seen (libc internal calls do not go through the PLT).
 *
 * Log line:  <class> <func> <target> <size> <offset|-> <result> <errno> <F|.>
 * No allocation, no stdio inside the hooks.
 */
#define _GNU_SOURCE
#include <dlfcn.h>
#include <errno.h>
#include <fcntl.h>
#include <stdarg.h>
#include <stddef.h>
#include <stdint.h>
#include <stdlib.h>
#include <string.h>
#include <sys/stat.h>
#include <sys/syscall.h>
#include <sys/types.h>
#include <unistd.h>

enum { C_WRITE, C_READ, C_TRUNC, C_OPEN, C_CLOSE, C_FSYNC, C_COMP, C_N };
static const char *cname[C_N] = { "write", "read", "trunc", "open", "close", "fsync", "comp" };

#define MAXFD 1024
#define PLEN 200
static char paths[MAXFD][PLEN];
static long counter[C_N];
static int f_class = -1;
static long f_k = 0;
static int f_kind = 0; /* 0 enospc 1 eio 2 eintr 3 short 4 zero 5 persist */
static int logfd = -1;
static int inited = 0;
static volatile int lock = 0;

static void lk(void) { while (__sync_lock_test_and_set(&lock, 1)) ; }
static void ulk(void) { __sync_lock_release(&lock); }

static void init(void)
{
	const char *s;
	int i;
	if (inited)
		return;
	inited = 1;
	strcpy(paths[0], "<stdin>");
	strcpy(paths[1], "<stdout>");
	strcpy(paths[2], "<stderr>");
	s = getenv("VF_LOG");
	if (s != NULL && *s) {
		int fd = syscall(SYS_openat, AT_FDCWD, s, O_WRONLY | O_CREAT | O_APPEND | O_CLOEXEC, 0644);
		if (fd >= 0) {
			/* move out of the way of the low descriptors the tool will get */
			int nfd = syscall(SYS_fcntl, fd, F_DUPFD_CLOEXEC, 900);
			if (nfd >= 0) {
				syscall(SYS_close, fd);
				fd = nfd;
			}
			logfd = fd;
		}
	}
	s = getenv("VF_CLASS");
	if (s != NULL) {
		for (i = 0; i < C_N; ++i)
			if (!strcmp(s, cname[i]))
				f_class = i;
	}
	s = getenv("VF_K");
	if (s != NULL)
		f_k = atol(s);
	s = getenv("VF_KIND");
	if (s != NULL) {
		if (!strcmp(s, "enospc")) f_kind = 0;
		else if (!strcmp(s, "eio")) f_kind = 1;
		else if (!strcmp(s, "eintr")) f_kind = 2;
		else if (!strcmp(s, "short")) f_kind = 3;
		else if (!strcmp(s, "zero")) f_kind = 4;
		else if (!strcmp(s, "persist")) f_kind = 5;
	}
}

static int boring_path(const char *p)
{
	static const char *pre[] = { "/proc/", "/sys/", "/etc/", "/usr/", "/lib", "/dev/", "/run/", NULL };
	int i;
	if (p == NULL || !*p)
		return 1;
	for (i = 0; pre[i]; ++i)
		if (!strncmp(p, pre[i], strlen(pre[i])))
			return 1;
	return 0;
}

static int counted_fd(int fd)
{
	if (fd < 0 || fd >= MAXFD)
		return 0;
	if (!paths[fd][0])
		return 0;
	if (!strcmp(paths[fd], "<stderr>"))
		return 0;
	return !boring_path(paths[fd]) || paths[fd][0] == '<';
}

static char *put_s(char *p, const char *s) { while (*s) *p++ = *s++; return p; }
static char *put_n(char *p, long long v)
{
	char tmp[24];
	int n = 0;
	unsigned long long u;
	if (v < 0) { *p++ = '-'; u = (unsigned long long)(-(v + 1)) + 1; } else u = v;
	do { tmp[n++] = '0' + (u % 10); u /= 10; } while (u);
	while (n) *p++ = tmp[--n];
	return p;
}

static void logline(int cls, const char *fn, const char *tgt, long long size, long long off, int has_off,
		    long long res, int err, int faulted)
{
	char buf[512], *p = buf;
	const char *t;
	if (logfd < 0)
		return;
	p = put_s(p, cname[cls]); *p++ = ' ';
	p = put_s(p, fn); *p++ = ' ';
	for (t = tgt; *t && p < buf + 300; ++t)
		*p++ = (*t == ' ' || *t == '\n') ? '_' : *t;
	*p++ = ' ';
	p = put_n(p, size); *p++ = ' ';
	if (has_off) p = put_n(p, off); else *p++ = '-';
	*p++ = ' ';
	p = put_n(p, res); *p++ = ' ';
	p = put_n(p, err); *p++ = ' ';
	*p++ = faulted ? 'F' : '.';
	*p++ = '\n';
	syscall(SYS_write, logfd, buf, p - buf);
}

/* decide what to do with the next call of class cls.
 * returns 0: run normally; 1: fail with *err; 2: short transfer; 3: return zero */
static int f_fd = -2;       /* descriptor of call k (follow-up failures stay on that descriptor) */
static int f_armed = 0;     /* the follow-up failure of eintr / short is still due */
static int decide_fd(int cls, int fd, int *err)
{
	long n = ++counter[cls];
	if (cls != f_class || f_k <= 0)
		return 0;
	if (f_armed && (f_kind == 2 || f_kind == 3) && n > f_k) {
		if (fd != f_fd)
			return 0;
		f_armed = 0;
		*err = (f_kind == 3 && cls == C_WRITE) ? ENOSPC : EIO;
		return 1;
	}
	if (n == f_k) {
		f_fd = fd;
		if (f_kind == 2 || f_kind == 3)
			f_armed = 1;
	}
	if (f_kind == 5) {
		if (n >= f_k) { *err = EIO; return 1; }
		return 0;
	}
	if (n == f_k) {
		switch (f_kind) {
		case 0: *err = (cls == C_READ || cls == C_CLOSE || cls == C_FSYNC) ? EIO : ENOSPC; return 1;
		case 1: *err = EIO; return 1;
		case 2: *err = EINTR; return 1;
		case 3: return 2;
		case 4: return 3;
		}
	}
	return 0;
}
static int decide(int cls, int *err) { return decide_fd(cls, -1, err); }

#define REAL(name) static __typeof__(name) *real_##name; \
	if (!real_##name) real_##name = (__typeof__(name) *)dlsym(RTLD_NEXT, #name)

/* ------------------------------------------------------------------ write */
ssize_t write(int fd, const void *buf, size_t n)
{
	int err = 0, d;
	ssize_t r;
	REAL(write);
	init();
	if (!counted_fd(fd))
		return real_write(fd, buf, n);
	lk();
	d = decide_fd(C_WRITE, fd, &err);
	if (d == 1) { r = -1; }
	else if (d == 3) { r = 0; err = 0; }
	else if (d == 2 && n >= 2) { r = real_write(fd, buf, n / 2); err = r < 0 ? errno : 0; }
	else if (d == 2) { r = -1; err = ENOSPC; d = 1; }
	else { r = real_write(fd, buf, n); err = r < 0 ? errno : 0; }
	logline(C_WRITE, "write", paths[fd], n, 0, 0, r, err, d != 0);
	ulk();
	errno = err;
	return r;
}

static ssize_t do_pwrite(const char *fn, int fd, const void *buf, size_t n, off_t off)
{
	int err = 0, d;
	ssize_t r;
	REAL(pwrite64);
	init();
	if (!counted_fd(fd))
		return real_pwrite64(fd, buf, n, off);
	lk();
	d = decide_fd(C_WRITE, fd, &err);
	if (d == 1) { r = -1; }
	else if (d == 3) { r = 0; err = 0; }
	else if (d == 2 && n >= 2) { r = real_pwrite64(fd, buf, n / 2, off); err = r < 0 ? errno : 0; }
	else if (d == 2) { r = -1; err = ENOSPC; d = 1; }
	else { r = real_pwrite64(fd, buf, n, off); err = r < 0 ? errno : 0; }
	logline(C_WRITE, fn, paths[fd], n, off, 1, r, err, d != 0);
	ulk();
	errno = err;
	return r;
}
ssize_t pwrite(int fd, const void *buf, size_t n, off_t off) { return do_pwrite("pwrite", fd, buf, n, off); }
ssize_t pwrite64(int fd, const void *buf, size_t n, off64_t off) { return do_pwrite("pwrite", fd, buf, n, off); }

/* ------------------------------------------------------------------- read */
ssize_t read(int fd, void *buf, size_t n)
{
	int err = 0, d;
	ssize_t r;
	REAL(read);
	init();
	if (!counted_fd(fd))
		return real_read(fd, buf, n);
	lk();
	d = decide_fd(C_READ, fd, &err);
	if (d == 1) { r = -1; }
	else if (d == 3) { r = 0; err = 0; }
	else if (d == 2 && n >= 2) { r = real_read(fd, buf, n / 2 > 7 ? 7 : n / 2); err = r < 0 ? errno : 0; }
	else if (d == 2) { r = -1; err = EIO; d = 1; }
	else { r = real_read(fd, buf, n); err = r < 0 ? errno : 0; }
	logline(C_READ, "read", paths[fd], n, 0, 0, r, err, d != 0);
	ulk();
	errno = err;
	return r;
}

static ssize_t do_pread(const char *fn, int fd, void *buf, size_t n, off_t off)
{
	int err = 0, d;
	ssize_t r;
	REAL(pread64);
	init();
	if (!counted_fd(fd))
		return real_pread64(fd, buf, n, off);
	lk();
	d = decide_fd(C_READ, fd, &err);
	if (d == 1) { r = -1; }
	else if (d == 3) { r = 0; err = 0; }
	else if (d == 2 && n >= 2) { r = real_pread64(fd, buf, n / 2, off); err = r < 0 ? errno : 0; }
	else if (d == 2) { r = -1; err = EIO; d = 1; }
	else { r = real_pread64(fd, buf, n, off); err = r < 0 ? errno : 0; }
	logline(C_READ, fn, paths[fd], n, off, 1, r, err, d != 0);
	ulk();
	errno = err;
	return r;
}
ssize_t pread(int fd, void *buf, size_t n, off_t off) { return do_pread("pread", fd, buf, n, off); }
ssize_t pread64(int fd, void *buf, size_t n, off64_t off) { return do_pread("pread", fd, buf, n, off); }

/* -------------------------------------------------------------- ftruncate */
static int do_ftruncate(int fd, off_t len)
{
	int err = 0, d, r;
	REAL(ftruncate64);
	init();
	if (!counted_fd(fd))
		return real_ftruncate64(fd, len);
	lk();
	d = decide_fd(C_TRUNC, fd, &err);
	if (d == 1) { r = -1; }
	else if (d == 2 || d == 3) { r = -1; err = EIO; d = 1; }
	else { r = real_ftruncate64(fd, len); err = r < 0 ? errno : 0; }
	logline(C_TRUNC, "ftruncate", paths[fd], len, 0, 0, r, err, d != 0);
	ulk();
	errno = err;
	return r;
}
int ftruncate(int fd, off_t len) { return do_ftruncate(fd, len); }
int ftruncate64(int fd, off64_t len) { return do_ftruncate(fd, len); }

/* ------------------------------------------------------------------ fsync */
int fsync(int fd)
{
	int err = 0, d, r;
	REAL(fsync);
	init();
	if (!counted_fd(fd))
		return real_fsync(fd);
	lk();
	d = decide_fd(C_FSYNC, fd, &err);
	if (d == 1) { r = -1; }
	else if (d == 2 || d == 3) { r = -1; err = EIO; d = 1; }
	else { r = real_fsync(fd); err = r < 0 ? errno : 0; }
	logline(C_FSYNC, "fsync", paths[fd], 0, 0, 0, r, err, d != 0);
	ulk();
	errno = err;
	return r;
}

/* make a path absolute (lexically: cwd + "/" + path) for the log */
static void abspath(int dirfd, const char *path, char *out, size_t n)
{
	size_t l = 0;
	out[0] = 0;
	if (path[0] != '/' && dirfd == AT_FDCWD) {
		if (syscall(SYS_getcwd, out, n - 2) < 0)
			out[0] = 0;
		l = strlen(out);
		if (l > 0 && out[l - 1] != '/')
			out[l++] = '/';
	}
	strncpy(out + l, path, n - l - 1);
	out[n - 1] = 0;
}

/* ------------------------------------------------------------------- open */
static int do_open(const char *fn, int dirfd, const char *path, int flags, mode_t mode)
{
	int err = 0, d, r;
	char ap[PLEN];
	init();
	if (boring_path(path) || (flags & O_DIRECTORY))
		return syscall(SYS_openat, dirfd, path, flags, mode);
	abspath(dirfd, path, ap, sizeof(ap));
	lk();
	d = decide(C_OPEN, &err);
	if (d != 0) {
		r = -1;
		if (d != 1) { err = EIO; d = 1; }
	} else {
		r = syscall(SYS_openat, dirfd, path, flags, mode);
		err = r < 0 ? errno : 0;
		if (r >= 0 && r < MAXFD)
			memcpy(paths[r], ap, PLEN);
	}
	logline(C_OPEN, fn, ap, flags, 0, 0, r, err, d != 0);
	ulk();
	errno = err;
	return r;
}

int open(const char *path, int flags, ...)
{
	mode_t mode = 0;
	if (flags & (O_CREAT | O_TMPFILE)) {
		va_list ap; va_start(ap, flags); mode = va_arg(ap, mode_t); va_end(ap);
	}
	return do_open("open", AT_FDCWD, path, flags, mode);
}
int open64(const char *path, int flags, ...)
{
	mode_t mode = 0;
	if (flags & (O_CREAT | O_TMPFILE)) {
		va_list ap; va_start(ap, flags); mode = va_arg(ap, mode_t); va_end(ap);
	}
	return do_open("open", AT_FDCWD, path, flags, mode);
}
int openat(int dirfd, const char *path, int flags, ...)
{
	mode_t mode = 0;
	if (flags & (O_CREAT | O_TMPFILE)) {
		va_list ap; va_start(ap, flags); mode = va_arg(ap, mode_t); va_end(ap);
	}
	return do_open("openat", dirfd, path, flags, mode);
}
int openat64(int dirfd, const char *path, int flags, ...)
{
	mode_t mode = 0;
	if (flags & (O_CREAT | O_TMPFILE)) {
		va_list ap; va_start(ap, flags); mode = va_arg(ap, mode_t); va_end(ap);
	}
	return do_open("openat", dirfd, path, flags, mode);
}

/* ------------------------------------------------------------ close / dup */
int close(int fd)
{
	int err = 0, d, r;
	init();
	if (fd == logfd)
		return 0;
	if (fd == f_fd)
		f_armed = 0;    /* the descriptor number may be reused for another file */
	if (!counted_fd(fd)) {
		if (fd >= 0 && fd < MAXFD)
			paths[fd][0] = 0;
		return syscall(SYS_close, fd);
	}
	lk();
	d = decide(C_CLOSE, &err);
	r = syscall(SYS_close, fd); /* the descriptor is released in every case (Linux semantics) */
	if (d != 0) {
		r = -1;
		if (d != 1 || err == EINTR) err = EIO;
		d = 1;
	} else {
		err = r < 0 ? errno : 0;
	}
	logline(C_CLOSE, "close", paths[fd], 0, 0, 0, r, err, d != 0);
	paths[fd][0] = 0;
	ulk();
	errno = err;
	return r;
}

int dup(int fd)
{
	int r;
	init();
	r = syscall(SYS_dup, fd);
	if (r >= 0 && r < MAXFD && fd >= 0 && fd < MAXFD) {
		lk();
		memcpy(paths[r], paths[fd], PLEN);
		ulk();
	}
	return r;
}

int dup2(int fd, int nfd)
{
	int r;
	init();
	r = syscall(SYS_dup3, fd, nfd, 0);
	if (fd == nfd)
		return fd;
	if (r >= 0 && r < MAXFD && fd >= 0 && fd < MAXFD) {
		lk();
		memcpy(paths[r], paths[fd], PLEN);
		ulk();
	}
	return r;
}

/* ------------------------------------------- unlink / chdir (logged only) */
static void note(const char *what, int dirfd, const char *path, long r, int err)
{
	char ap[PLEN], buf[400], *p = buf;
	const char *t;
	if (logfd < 0)
		return;
	abspath(dirfd, path, ap, sizeof(ap));
	p = put_s(p, what); *p++ = ' ';
	p = put_s(p, what); *p++ = ' ';
	for (t = ap; *t && p < buf + 300; ++t)
		*p++ = (*t == ' ' || *t == '\n') ? '_' : *t;
	p = put_s(p, " 0 - ");
	p = put_n(p, r); *p++ = ' ';
	p = put_n(p, err);
	p = put_s(p, " .\n");
	syscall(SYS_write, logfd, buf, p - buf);
}

int unlink(const char *path)
{
	int r, e;
	init();
	lk();
	r = syscall(SYS_unlinkat, AT_FDCWD, path, 0);
	e = r < 0 ? errno : 0;
	note("unlink", AT_FDCWD, path, r, e);
	ulk();
	errno = e;
	return r;
}

int unlinkat(int dirfd, const char *path, int flags)
{
	int r, e;
	init();
	lk();
	r = syscall(SYS_unlinkat, dirfd, path, flags);
	e = r < 0 ? errno : 0;
	note("unlink", dirfd, path, r, e);
	ulk();
	errno = e;
	return r;
}

int chdir(const char *path)
{
	int r, e;
	init();
	lk();
	r = syscall(SYS_chdir, path);
	e = r < 0 ? errno : 0;
	note("chdir", AT_FDCWD, r == 0 ? "." : path, r, e);
	ulk();
	errno = e;
	return r;
}

/* ----------------------------------------------- compressor entry points */
/* class "comp": the k-th block-compression call of the system codec libraries fails (used to reach the
 * worker-failure path of the block processor: DESIGN F01 and the dropped worker status). */
struct z_stream_s;
int deflate(struct z_stream_s *strm, int flush)
{
	static int (*real)(struct z_stream_s *, int);
	int err = 0, d, r;
	if (!real) real = (int (*)(struct z_stream_s *, int))dlsym(RTLD_NEXT, "deflate");
	init();
	lk();
	d = decide(C_COMP, &err);
	ulk();
	if (d != 0) {
		lk(); logline(C_COMP, "deflate", "-", 0, 0, 0, -2, 0, 1); ulk();
		return -2; /* Z_STREAM_ERROR */
	}
	r = real(strm, flush);
	lk(); logline(C_COMP, "deflate", "-", 0, 0, 0, r, 0, 0); ulk();
	return r;
}
