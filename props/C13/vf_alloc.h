/* C13 allocation-fault wrappers, force-included (-include) into every *project* source file of a build.
 * Only allocations written in project code are counted (library-internal allocations of libc / zlib /
 * liblzma ... are not renamed).  Header only: the shared state lives in weak globals.
 *
 *   VF_ALLOC_K    1-based index of the allocation that returns NULL (0/unset: count only)
 *   VF_ALLOC_FUNC if set, only allocations made inside the function of that name are counted
 *   VF_ALLOC_LOG  file that receives "site <file> <function> <kind> <n>" when the fault is injected and
 *                 "count <N>" at exit
 */
#ifndef VF_ALLOC_H
#define VF_ALLOC_H

#ifndef _GNU_SOURCE
#define _GNU_SOURCE
#endif
#include <errno.h>
#include <fcntl.h>
#include <stdlib.h>
#include <string.h>
#include <sys/syscall.h>
#include <unistd.h>

__attribute__((weak)) long vf_alloc_count;
__attribute__((weak)) long vf_alloc_k = -1;
__attribute__((weak)) int vf_alloc_lock;
__attribute__((weak)) char vf_alloc_logpath[512];
__attribute__((weak)) char vf_alloc_func[128];

static void vf_alloc_emit(const char *a, const char *b, const char *c, const char *d, long n)
{
	char buf[700], tmp[24], *p = buf;
	const char *parts[4];
	int i, fd, k = 0;
	parts[0] = a; parts[1] = b; parts[2] = c; parts[3] = d;
	if (!vf_alloc_logpath[0])
		return;
	for (i = 0; i < 4; ++i) {
		const char *s = parts[i];
		if (s == NULL)
			continue;
		/* basename only */
		if (i == 1 && strrchr(s, '/') != NULL)
			s = strrchr(s, '/') + 1;
		while (*s && p < buf + 600)
			*p++ = *s++;
		*p++ = ' ';
	}
	do { tmp[k++] = '0' + (n % 10); n /= 10; } while (n);
	while (k) *p++ = tmp[--k];
	*p++ = '\n';
	fd = syscall(SYS_openat, AT_FDCWD, vf_alloc_logpath, O_WRONLY | O_CREAT | O_APPEND, 0644);
	if (fd >= 0) {
		syscall(SYS_write, fd, buf, p - buf);
		syscall(SYS_close, fd);
	}
}

__attribute__((weak)) void vf_alloc_fini(void)
{
	vf_alloc_emit("count", NULL, NULL, NULL, vf_alloc_count);
}

extern char __executable_start __attribute__((weak));

static int vf_alloc_fail(const char *kind, const char *file, const char *func, void *ra)
{
	long n;
	while (__sync_lock_test_and_set(&vf_alloc_lock, 1))
		;
	if (vf_alloc_k < 0) {
		const char *s = getenv("VF_ALLOC_K");
		const char *l = getenv("VF_ALLOC_LOG");
		const char *f = getenv("VF_ALLOC_FUNC");
		vf_alloc_k = s ? atol(s) : 0;
		if (f != NULL && strlen(f) < sizeof(vf_alloc_func))
			strcpy(vf_alloc_func, f);
		if (l != NULL && strlen(l) < sizeof(vf_alloc_logpath))
			strcpy(vf_alloc_logpath, l);
		atexit(vf_alloc_fini);
	}
	if (vf_alloc_func[0] && strcmp(vf_alloc_func, func) != 0) {
		__sync_lock_release(&vf_alloc_lock);
		return 0;
	}
	n = ++vf_alloc_count;
	__sync_lock_release(&vf_alloc_lock);
	if (vf_alloc_k > 0 && n == vf_alloc_k) {
		vf_alloc_emit("site", file, func, kind, n);
		/* return address of the enclosing function, as an offset into the executable (for addr2line) */
		vf_alloc_emit("caller", NULL, NULL, NULL,
			      (long)((char *)ra - &__executable_start));
		errno = ENOMEM;
		return 1;
	}
	return 0;
}

static inline __attribute__((always_inline)) void *vf_malloc(size_t n, const char *file, const char *func)
{
	return vf_alloc_fail("malloc", file, func, __builtin_return_address(0)) ? NULL : malloc(n);
}
static inline __attribute__((always_inline)) void *vf_calloc(size_t a, size_t b, const char *file, const char *func)
{
	return vf_alloc_fail("calloc", file, func, __builtin_return_address(0)) ? NULL : calloc(a, b);
}
static inline __attribute__((always_inline)) void *vf_realloc(void *p, size_t n, const char *file, const char *func)
{
	return vf_alloc_fail("realloc", file, func, __builtin_return_address(0)) ? NULL : realloc(p, n);
}
static inline __attribute__((always_inline)) char *vf_strdup(const char *s, const char *file, const char *func)
{
	return vf_alloc_fail("strdup", file, func, __builtin_return_address(0)) ? NULL : strdup(s);
}
static inline __attribute__((always_inline)) char *vf_strndup(const char *s, size_t n, const char *file, const char *func)
{
	return vf_alloc_fail("strndup", file, func, __builtin_return_address(0)) ? NULL : strndup(s, n);
}

#undef malloc
#undef calloc
#undef realloc
#undef strdup
#undef strndup
#define malloc(n) vf_malloc((n), __FILE__, __func__)
#define calloc(a, b) vf_calloc((a), (b), __FILE__, __func__)
#define realloc(p, n) vf_realloc((p), (n), __FILE__, __func__)
#define strdup(s) vf_strdup((s), __FILE__, __func__)
#define strndup(s, n) vf_strndup((s), (n), __FILE__, __func__)

#endif /* VF_ALLOC_H */
