(* C13 model driver.
   input : one case per line   <tool> <variant> <faults> <script>
             tool    = gen | tar | rd
             variant = repaired | unpatched
             faults  = "-" or comma separated indices of failing fallible calls
             script  = s-expression (grammar below, built by props/C13/check.py)
   output: one line per case    <exit code> <event> <event> ...
             events: open:<f>:<ok> write:<f>:<ok> read:<f>:<ok> trunc:<f>:<ok> fsync:<f>:<ok>
                     stage:<n>:<ok> close:<f> unlink:<f> chdir:<0|1> diag:<n>            *)
open C13_model

type sx = A of string | L of sx list

let parse (s : string) : sx =
  let n = String.length s in
  let pos = ref 0 in
  let rec skip () = if !pos < n && (s.[!pos] = ' ' || s.[!pos] = '\t') then (incr pos; skip ()) in
  let rec one () =
    skip ();
    if !pos >= n then failwith "sexp: eof"
    else if s.[!pos] = '(' then begin
      incr pos;
      let items = ref [] in
      let rec loop () =
        skip ();
        if !pos >= n then failwith "sexp: unclosed"
        else if s.[!pos] = ')' then incr pos
        else (items := one () :: !items; loop ()) in
      loop ();
      L (List.rev !items)
    end else begin
      let st = !pos in
      while !pos < n && s.[!pos] <> ' ' && s.[!pos] <> '(' && s.[!pos] <> ')' do incr pos done;
      A (String.sub s st (!pos - st))
    end in
  one ()

let rec nat_of_int i = if i <= 0 then O else S (nat_of_int (i - 1))
let rec int_of_nat = function O -> 0 | S n -> 1 + int_of_nat n
let rec int_of_pos = function XH -> 1 | XO p -> 2 * int_of_pos p | XI p -> 2 * int_of_pos p + 1
let int_of_z = function Z0 -> 0 | Zpos p -> int_of_pos p | Zneg p -> - (int_of_pos p)

let bad what x =
  let rec show = function A s -> s | L l -> "(" ^ String.concat " " (List.map show l) ^ ")" in
  failwith ("script: bad " ^ what ^ ": " ^ show x)

let nat = function A s -> nat_of_int (int_of_string s) | x -> bad "nat" x
let bool = function A "1" -> true | A "0" -> false | x -> bad "bool" x
let opt f = function A "-" -> None | x -> Some (f x)
let list f = function L l -> List.map f l | x -> bad "list" x

let enq = function
  | L [A "e"; c; i] -> { enq_copy = bool c; enq_item = bool i }
  | x -> bad "enq" x
let dedup = function
  | L [A "dd"; r; t] -> { dd_reads = nat r; dd_trunc = bool t }
  | x -> bad "dedup" x
let post = function
  | A "n" -> PostNone | A "s" -> PostSetSize | A "f" -> PostFragSet | x -> bad "post" x
let pcb = function
  | L [A "pcb"; st; dd; p] -> { pcb_store = bool st; pcb_dedup = opt dedup dd; pcb_post = post p }
  | x -> bad "pcb" x
let pcf = function
  | L [A "sp"; i] -> PcfSparse (bool i)
  | L [A "hit"; n] -> PcfHit (nat n)
  | L [A "st"; lk; fl; nb; lk2] -> PcfStore (nat lk, opt enq fl, bool nb, nat lk2)
  | x -> bad "pcf" x
let item = function
  | L [A "io"; p] -> DqIo (pcb p)
  | A "blk" -> DqBlock
  | L [A "frag"; f] -> DqFrag (pcf f)
  | A "null" -> DqNull
  | x -> bad "dq item" x
let dq = list item
let gnb = function
  | L [A "gnb"; d; m] -> { gnb_dq = list dq d; gnb_malloc = bool m }
  | x -> bad "gnb" x
let step = function
  | L [A "new"; g] -> ANew (gnb g)
  | L [A "enq"; e] -> AEnq (enq e)
  | x -> bad "app step" x
let ef = function
  | A "empty" -> EfEmpty
  | L [A "sent"; g; e] -> EfSentinel (gnb g, enq e)
  | L [A "last"; e] -> EfLast (enq e)
  | L [A "frag"; A "-"; e] -> EfFrag (None, enq e)
  | L [A "frag"; L [g; e0]; e] -> EfFrag (Some (gnb g, enq e0), enq e)
  | x -> bad "ef" x
let iter = function
  | L [A "it"; n; A "-"] -> { it_reads = nat n; it_app = None }
  | L [A "it"; n; a] -> { it_reads = nat n; it_app = Some (list step a) }
  | x -> bad "iter" x
let file = function
  | L [A "file"; its; fl; de] -> { fs_iters = list iter its; fs_flush = ef fl; fs_destroy = ef de }
  | x -> bad "file" x
let fin = function
  | L [A "fin"; s1; A "-"] -> { fin_sync1 = list dq s1; fin_frag = None }
  | L [A "fin"; s1; L [e; s2]] -> { fin_sync1 = list dq s1; fin_frag = Some (enq e, list dq s2) }
  | x -> bad "fin" x
let node = function
  | L [A "nd"; d; i] -> { nd_dm = nat d; nd_im = nat i }
  | x -> bad "node" x
let ser = function
  | L [A "ser"; ns; imf; dmf; blocks] ->
      { ser_nodes = list node ns; ser_im_flush = bool imf; ser_dm_flush = bool dmf; ser_dm_blocks = nat blocks }
  | x -> bad "ser" x
let xattr = function
  | A "none" -> None
  | A "empty" -> Some None
  | L [A "xa"; kv; id] -> Some (Some { xa_kv = nat kv; xa_id = nat id })
  | x -> bad "xattr" x
let finish = function
  | L [A "finish"; f; s; fr; ex; id; xa; pad] ->
      { fi_bp = fin f; fi_ser = ser s; fi_frag = opt nat fr; fi_export = opt nat ex; fi_id = nat id;
        fi_xattr = xattr xa; fi_pad = bool pad }
  | x -> bad "finish" x
let cfg = function
  | L [A "cfg"; a; b; c] -> { c_compopts = bool a; c_packdir = bool b; c_out_relative = bool c }
  | x -> bad "cfg" x
let pre = function
  | A "S" -> PreStage | A "O" -> PreOpen | L [A "L"; n] -> PreLines (nat n) | x -> bad "pre" x
let gen = function
  | L [A "gen"; c; p; fs; f] -> { g_cfg = cfg c; g_pre = list pre p; g_files = list file fs; g_finish = finish f }
  | x -> bad "gen" x
let tbody = function
  | A "skip" -> TbSkip | A "node" -> TbNode | x -> TbFile (file x)
let tent = function
  | L [A "te"; s; h; b] -> { te_skip_reads = nat s; te_hdr_reads = nat h; te_body = tbody b }
  | x -> bad "tar entry" x
let tar = function
  | L [A "tar"; c; p; es; sk; er; f] ->
      { t_cfg = cfg c; t_probe_reads = nat p; t_entries = list tent es; t_end_skip = nat sk;
        t_end_reads = nat er; t_finish = finish f }
  | x -> bad "tar" x
let fid = function
  | A "out" -> FOut | A "in" -> FIn | A "stdin" -> FStdin | A "stdout" -> FStdout
  | A "img" -> FImg | A "unp" -> FUnp | x -> bad "file id" x
let rstep = function
  | L [A "setup"; n] -> RdSetup (nat n)
  | A "stage" -> RdStage
  | L [A "copy"; n; o] -> RdCopy (nat n, fid o)
  | L [A "write"; o] -> RdWrite (fid o)
  | L [A "open"; o] -> RdOpen (fid o)
  | A "fsync" -> RdFsync
  | A "term" -> RdTerminate
  | x -> bad "reader step" x

let fname = function
  | FOut -> "out" | FIn -> "in" | FStdin -> "stdin" | FStdout -> "stdout" | FImg -> "img"
  | FUnp -> "unp" | FWrong -> "WRONG"
let b01 b = if b then "1" else "0"
let show_ev = function
  | EvCall (KOpen f, ok) -> "open:" ^ fname f ^ ":" ^ b01 ok
  | EvCall (KWrite f, ok) -> "write:" ^ fname f ^ ":" ^ b01 ok
  | EvCall (KRead f, ok) -> "read:" ^ fname f ^ ":" ^ b01 ok
  | EvCall (KTrunc f, ok) -> "trunc:" ^ fname f ^ ":" ^ b01 ok
  | EvCall (KFsync f, ok) -> "fsync:" ^ fname f ^ ":" ^ b01 ok
  | EvCall (KStage n, ok) -> "stage:" ^ string_of_int (int_of_nat n) ^ ":" ^ b01 ok
  | EvClose f -> "close:" ^ fname f
  | EvUnlink f -> "unlink:" ^ fname f
  | EvChdir b -> "chdir:" ^ b01 b
  | EvDiag n -> "diag:" ^ string_of_int (int_of_nat n)

let () =
  try
    while true do
      let line = input_line stdin in
      (try
        let sp1 = String.index line ' ' in
        let sp2 = String.index_from line (sp1 + 1) ' ' in
        let sp3 = String.index_from line (sp2 + 1) ' ' in
        let tool = String.sub line 0 sp1 in
        let var = String.sub line (sp1 + 1) (sp2 - sp1 - 1) in
        let fl = String.sub line (sp2 + 1) (sp3 - sp2 - 1) in
        let script = String.sub line (sp3 + 1) (String.length line - sp3 - 1) in
        let v = if var = "unpatched" then unpatched else repaired in
        let faults = if fl = "-" then [] else List.map int_of_string (String.split_on_char ',' fl) in
        (* [run] consults the oracle exactly once per fallible call, in order, with the index of that call
           (FaultMonad.run: [o (nxt s)], then nxt := S nxt); a counter therefore equals the Peano argument and
           avoids converting it (quadratic on runs with 10^4 calls).  The first calls are cross-checked. *)
        let cnt = ref 0 in
        let o = fun n ->
          let i = !cnt in
          incr cnt;
          if i < 64 && int_of_nat n <> i then failwith "oracle index out of step";
          List.mem i faults in
        let sx = parse script in
        let p = match tool with
          | "gen" -> gensquashfs v (gen sx)
          | "tar" -> tar2sqfs v (tar sx)
          | "rd" -> reader_tool v (list rstep sx)
          | _ -> failwith "unknown tool" in
        let (code, t) = run_tool p o in
        print_string (string_of_int (int_of_z code));
        List.iter (fun e -> print_char ' '; print_string (show_ev e)) t;
        print_newline ()
      with Failure m -> Printf.printf "ERROR %s\n" m
         | Not_found -> Printf.printf "ERROR malformed line\n")
    done
  with End_of_file -> ()
