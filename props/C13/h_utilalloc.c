/* C13 / UtilAlloc tie: operation-sequence differential UNDER ALLOCATION FAILURE between the extracted
 * allocation-aware container models (coq/UtilAlloc: ArrayAlloc, HashAlloc, RbAlloc, StrAlloc) and the real
 * containers of the working tree.  lib/util/src/{alloc,array,hash_table,rbtree,str_table}.c are #included
 * with malloc / calloc / realloc / free renamed to wrappers that
 *   - count every allocation CALL of a case and make the K-th one (1-based, K = 0: none) return NULL,
 *   - give every successful allocation the next sequence number (the models' allocation ids; a successful
 *     realloc is a new id) and forget it at free.
 *
 * stdin:  CASE <id> <HT|RB|ST|AR> <K> <params> / one operation per line / END
 *         K = "0" | "k1,k2,..." (these calls fail) | "@function" (every allocation made inside that function
 *         fails: discovery runs; the L2 line reports which call numbers that were)
 * stdout: CASE <id> / one answer line per operation / L1 .. / L2 .. / END   (same text as driver_ualloc.ml)
 *
 * L1 = live allocation ids and number of allocation calls when the script ends, L2 = live ids after the
 * objects that still exist have been released (must be empty: leak oracle, besides LeakSanitizer).
 * A free of a pointer that is not live prints BADFREE (ASan reports the real double free anyway).
 * (adapted from props/C19/h_utilmodel.c, which runs the same containers without allocation failure) */
#include "config.h"
#include <stdlib.h>
#include <string.h>
#include <stdio.h>
#include <stdint.h>
#include <stdbool.h>
#include <assert.h>
#include <stddef.h>

#include "sqfs/predef.h"
#include "sqfs/error.h"
#include "util/util.h"
#include "util/array.h"
#include "util/hash_table.h"
#include "util/rbtree.h"
#include "util/str_table.h"
#include "sqfs/xattr_writer.h"
#include "sqfs/xattr.h"
#include "sqfs/meta_writer.h"
#include "sqfs/compressor.h"
#include "sqfs/super.h"
#include "sqfs/io.h"

/* ------------------------------------------------------------------ allocation ids and the fault */
#define MAXALLOC 65536
static struct { void *p; unsigned long id; } amap[MAXALLOC];
static size_t amap_n;
static unsigned long next_id, calls, badfree;
static unsigned long failset[512], failed[4096];
static size_t failset_n, failed_n;
static const char *fail_func;

static void amap_add(void *p)
{
	if (p == NULL || amap_n >= MAXALLOC) { fprintf(stderr, "harness: allocation table full / libc out of memory\n"); exit(3); }
	amap[amap_n].p = p;
	amap[amap_n].id = next_id++;
	++amap_n;
}

static long amap_id(const void *p)
{
	size_t i;
	if (p == NULL) return -1;
	for (i = amap_n; i > 0; --i)
		if (amap[i - 1].p == p) return (long)amap[i - 1].id;
	return -1;
}

static int amap_del(void *p)
{
	size_t i;
	for (i = amap_n; i > 0; --i) {
		if (amap[i - 1].p == p) { amap[i - 1] = amap[amap_n - 1]; --amap_n; return 1; }
	}
	return 0;
}

static int fault(const char *func)
{
	size_t i;
	int hit = 0;
	++calls;
	for (i = 0; i < failset_n; ++i) if (failset[i] == calls) hit = 1;
	if (fail_func != NULL && strcmp(fail_func, func) == 0) hit = 1;
	if (hit && failed_n < 4096) failed[failed_n++] = calls;
	return hit;
}

static void *w_malloc(size_t n, const char *f) { void *p; if (fault(f)) return NULL; p = malloc(n ? n : 1); amap_add(p); return p; }
static void *w_calloc(size_t a, size_t b, const char *f) { void *p; if (fault(f)) return NULL; p = calloc(a ? a : 1, b ? b : 1); amap_add(p); return p; }
static void *w_realloc(void *old, size_t n, const char *f)
{
	void *p;
	if (fault(f)) return NULL;
	if (old != NULL && !amap_del(old)) { ++badfree; printf("BADFREE realloc\n"); }
	p = realloc(old, n ? n : 1);
	amap_add(p);
	return p;
}
static void w_free(void *p)
{
	if (p == NULL) return;
	if (!amap_del(p)) { ++badfree; printf("BADFREE free\n"); fflush(stdout); }
	free(p);
}

#define malloc(n) w_malloc((n), __func__)
#define calloc(a, b) w_calloc((a), (b), __func__)
#define realloc(p, n) w_realloc((p), (n), __func__)
#define free w_free
#include "lib/util/src/alloc.c"
#include "lib/util/src/array.c"
#include "lib/util/src/hash_table.c"
#include "lib/util/src/rbtree.c"
#include "lib/util/src/str_table.c"
/* one level up: the xattr writer's recording path (create / begin / add_kv / end / destroy) and the
 * allocation sites of its flush (xattr_writer_flush.c + the meta writer it drives) */
#include "lib/sqfs/src/xattr/xattr_writer.c"
#include "lib/sqfs/src/xattr/xattr_writer_record.c"
#define hexmap hexmap_of_flush
#include "lib/sqfs/src/xattr/xattr_writer_flush.c"
#undef hexmap
#include "lib/sqfs/src/meta_writer.c"
#undef malloc
#undef calloc
#undef realloc
#undef free

static void print_id(const char *name, const void *p)
{
	long id = amap_id(p);
	if (id < 0) printf(" %s=-", name); else printf(" %s=%ld", name, id);
}

static int cmp_ul(const void *a, const void *b)
{
	unsigned long x = *(const unsigned long *)a, y = *(const unsigned long *)b;
	return x < y ? -1 : (x > y ? 1 : 0);
}

static void print_live(const char *tag)
{
	static unsigned long ids[MAXALLOC];
	size_t i;
	for (i = 0; i < amap_n; ++i) ids[i] = amap[i].id;
	qsort(ids, amap_n, sizeof(ids[0]), cmp_ul);
	printf("%s live=", tag);
	for (i = 0; i < amap_n; ++i) printf("%s%lu", i ? "," : "", ids[i]);
	printf(" calls=%lu", calls);
	if (fail_func != NULL) {
		printf(" failed=");
		for (i = 0; i < failed_n; ++i) printf("%s%lu", i ? "," : "", failed[i]);
	}
	printf("\n");
}

/* ------------------------------------------------------------------ helpers */
static char line[1 << 20];
static char *tok[64];
static int ntok;

static int read_line(void)
{
	size_t n;
	char *p;
	if (!fgets(line, sizeof(line), stdin)) return 0;
	n = strlen(line);
	while (n > 0 && (line[n - 1] == '\n' || line[n - 1] == '\r')) line[--n] = 0;
	ntok = 0;
	for (p = strtok(line, " "); p && ntok < 64; p = strtok(NULL, " ")) tok[ntok++] = p;
	return 1;
}

static size_t unhex(const char *s, unsigned char *out, size_t max)
{
	size_t n = 0;
	unsigned v;
	if (s == NULL || s[0] == '-') return 0;
	while (s[0] && s[1] && n < max) {
		sscanf(s, "%2x", &v);
		out[n++] = (unsigned char)v;
		s += 2;
	}
	return n;
}

static void hexout(const unsigned char *p, size_t n)
{
	size_t i;
	for (i = 0; i < n; ++i) printf("%02x", p[i]);
}

static int which(const char *s) { return s[0] == 'B' ? 1 : 0; }

static void skip_case(void)
{
	while (read_line()) if (ntok > 0 && strcmp(tok[0], "END") == 0) break;
}

/* ------------------------------------------------------------------ hash table */
struct hkey { unsigned id, cls; };
static struct hkey karena[1 << 16];
static size_t karena_n;

static bool hkey_equals(void *user, const void *a, const void *b)
{
	(void)user;
	return ((const struct hkey *)a)->cls == ((const struct hkey *)b)->cls;
}

static void ht_print_entry(struct hash_table *ht, struct hash_entry *e)
{
	const struct hkey *k = e->key;
	printf("@%ld %u %u %u %lu", (long)(e - ht->table), (unsigned)e->hash, k->id, k->cls,
	       (unsigned long)(uintptr_t)e->data);
}

static void run_ht(void)
{
	struct hash_table *t[2] = { NULL, NULL };
	karena_n = 0;
	t[0] = hash_table_create(NULL, hkey_equals);
	printf("init %s\n", t[0] ? "ok" : "null");
	while (read_line()) {
		struct hash_table *ht;
		struct hash_entry *e;
		struct hkey k, *kp;
		const char *op;
		int w;
		if (ntok == 0) continue;
		if (strcmp(tok[0], "END") == 0) break;
		if (strcmp(tok[0], "c") == 0) {
			if (t[1]) hash_table_destroy(t[1], NULL);
			t[1] = NULL;
			if (t[0] == NULL) { printf("c noobj\n"); continue; }
			t[1] = hash_table_clone(t[0]);
			printf("c %s\n", t[1] ? "ok" : "null");
			continue;
		}
		w = which(tok[0]);
		ht = t[w];
		op = tok[1];
		if (ht == NULL) { printf("%s noobj\n", op); continue; }
		switch (op[0]) {
		case 'i':
			kp = &karena[karena_n++ & 0xFFFF];
			kp->id = (unsigned)strtoul(tok[3], NULL, 10);
			kp->cls = (unsigned)strtoul(tok[4], NULL, 10);
			e = hash_table_insert_pre_hashed(ht, (sqfs_u32)strtoul(tok[2], NULL, 10), kp,
							 (void *)(uintptr_t)strtoul(tok[5], NULL, 10));
			if (e) printf("i @%ld\n", (long)(e - ht->table)); else printf("i NULL\n");
			break;
		case 's':
		case 'r':
			k.id = (unsigned)strtoul(tok[3], NULL, 10);
			k.cls = (unsigned)strtoul(tok[4], NULL, 10);
			e = hash_table_search_pre_hashed(ht, (sqfs_u32)strtoul(tok[2], NULL, 10), &k);
			printf("%c ", op[0]);
			if (e) { ht_print_entry(ht, e); printf("\n"); } else printf("-\n");
			if (e && op[0] == 'r') {
				/* upstream hash_table_remove_entry */
				e->key = ht->deleted_key;
				ht->entries--;
				ht->deleted_entries++;
			}
			break;
		case 'd': {
			sqfs_u32 i;
			printf("d");
			print_id("sid", ht);
			print_id("tid", ht->table);
			printf(" si=%u size=%u rehash=%u max=%u n=%u del=%u :", (unsigned)ht->size_index, (unsigned)ht->size,
			       (unsigned)ht->rehash, (unsigned)ht->max_entries, (unsigned)ht->entries, (unsigned)ht->deleted_entries);
			for (i = 0; i < ht->size; ++i) {
				e = ht->table + i;
				if (entry_is_free(e)) continue;
				if (entry_is_deleted(ht, e)) { printf(" %u=D", (unsigned)i); continue; }
				printf(" %u=%u/%u/%u/%lu", (unsigned)i, (unsigned)e->hash, ((const struct hkey *)e->key)->id,
				       ((const struct hkey *)e->key)->cls, (unsigned long)(uintptr_t)e->data);
			}
			printf("\n");
			break;
		}
		case 'x':
			hash_table_destroy(ht, NULL);
			t[w] = NULL;
			printf("x\n");
			break;
		default:
			printf("?\n");
		}
	}
	print_live("L1");
	if (t[0]) hash_table_destroy(t[0], NULL);
	if (t[1]) hash_table_destroy(t[1], NULL);
}

/* ------------------------------------------------------------------ rbtree */
static size_t g_ks;
static int cmp_bytes(const void *ctx, const void *l, const void *r)
{
	int d = memcmp(l, r, g_ks);
	(void)ctx;
	return d < 0 ? -1 : (d > 0 ? 1 : 0);
}

static size_t rb_count(const rbtree_node_t *n) { return n ? rb_count(n->left) + 1 + rb_count(n->right) : 0; }

static void rb_dump(const rbtree_t *t, const rbtree_node_t *n, unsigned depth)
{
	if (n == NULL) return;
	rb_dump(t, n->left, depth + 1);
	printf(" %ld/%u/%u/%u/", amap_id(n), (unsigned)n->is_red, depth, (unsigned)n->value_offset);
	hexout(n->data, t->key_size_padded + t->value_size);
	rb_dump(t, n->right, depth + 1);
}

static void run_rb(void)
{
	rbtree_t t[2];
	int live[2] = { 0, 0 };
	unsigned char kb[4096], vb[4096];
	size_t ks = strtoul(tok[4], NULL, 10), vs = strtoul(tok[5], NULL, 10);
	int ret;

	memset(t, 0, sizeof(t));
	g_ks = ks;
	ret = rbtree_init(&t[0], ks, vs, cmp_bytes);
	printf("init ret=%d", ret);
	if (ret == 0) {
		printf(" ks=%zu ksp=%zu vs=%zu", t[0].key_size, t[0].key_size_padded, t[0].value_size);
		live[0] = 1;
	}
	printf("\n");
	while (read_line()) {
		rbtree_t *rb;
		rbtree_node_t *n;
		const char *op;
		int w;
		if (ntok == 0) continue;
		if (strcmp(tok[0], "END") == 0) break;
		if (strcmp(tok[0], "c") == 0) {
			if (live[1]) { rbtree_cleanup(&t[1]); live[1] = 0; }
			if (!live[0]) { printf("c noobj\n"); continue; }
			ret = rbtree_copy(&t[0], &t[1]);
			live[1] = (ret == 0);
			printf("c ret=%d\n", ret);
			continue;
		}
		w = which(tok[0]);
		rb = &t[w];
		op = tok[1];
		if (!live[w]) { printf("%s noobj\n", op); continue; }
		switch (op[0]) {
		case 'i':
			memset(kb, 0, sizeof(kb)); memset(vb, 0, sizeof(vb));
			unhex(tok[2], kb, sizeof(kb)); unhex(ntok > 3 ? tok[3] : "", vb, sizeof(vb));
			ret = rbtree_insert(rb, kb, vb);
			printf("i ret=%d\n", ret);
			break;
		case 'l':
			memset(kb, 0, sizeof(kb));
			unhex(tok[2], kb, sizeof(kb));
			n = rbtree_lookup(rb, kb);
			if (n == NULL) { printf("l -\n"); break; }
			printf("l id=%ld red=%u voff=%u data=", amap_id(n), (unsigned)n->is_red, (unsigned)n->value_offset);
			hexout(n->data, rb->key_size_padded + rb->value_size);
			printf("\n");
			break;
		case 'd':
			printf("d n=%zu :", rb_count(rb->root));
			rb_dump(rb, rb->root, 0);
			printf("\n");
			break;
		case 'x':
			rbtree_cleanup(rb);
			live[w] = 0;
			printf("x\n");
			break;
		default:
			printf("?\n");
		}
	}
	print_live("L1");
	if (live[0]) rbtree_cleanup(&t[0]);
	if (live[1]) rbtree_cleanup(&t[1]);
}

/* ------------------------------------------------------------------ str_table */
static void st_dump(str_table_t *st)
{
	struct hash_table *ht = st->ht;
	sqfs_u32 i;
	size_t j;

	printf("d");
	print_id("aid", st->bucket_ptrs.data);
	print_id("sid", ht);
	print_id("tid", ht->table);
	printf(" next=%zu used=%zu count=%zu size=%zu si=%u n=%u del=%u :", st->next_index, st->bucket_ptrs.used,
	       st->bucket_ptrs.count, st->bucket_ptrs.size, (unsigned)ht->size_index, (unsigned)ht->entries,
	       (unsigned)ht->deleted_entries);
	for (i = 0; i < ht->size; ++i) {
		struct hash_entry *e = ht->table + i;
		str_bucket_t *b;
		if (entry_is_free(e)) continue;
		if (entry_is_deleted(ht, e)) { printf(" %u=D", (unsigned)i); continue; }
		b = e->data;
		printf(" %u=%u/%ld/%d/%zu/%zu/", (unsigned)i, (unsigned)e->hash, amap_id(b),
		       e->key == (const void *)b->string ? 1 : 0, b->index, b->refcount);
		hexout((const unsigned char *)b->string, strlen(b->string));
	}
	printf(" |");
	for (j = 0; j < st->bucket_ptrs.used; ++j)
		printf(" %ld", amap_id(((str_bucket_t **)st->bucket_ptrs.data)[j]));
	printf("\n");
}

static void run_st(void)
{
	str_table_t t[2];
	int live[2] = { 0, 0 };
	unsigned char sb[8192];
	size_t n, idx;
	int ret;

	memset(t, 0, sizeof(t));
	ret = str_table_init(&t[0]);
	printf("init ret=%d\n", ret);
	live[0] = (ret == 0);
	while (read_line()) {
		str_table_t *st;
		const char *op, *s;
		int w;
		if (ntok == 0) continue;
		if (strcmp(tok[0], "END") == 0) break;
		if (strcmp(tok[0], "c") == 0) {
			if (live[1]) { str_table_cleanup(&t[1]); live[1] = 0; }
			if (!live[0]) { printf("c noobj\n"); continue; }
			/* as the only caller (xattr_writer_copy) does: the enclosing struct is memcpy'd first */
			memcpy(&t[1], &t[0], sizeof(t[1]));
			ret = str_table_copy(&t[1], &t[0]);
			live[1] = (ret == 0);
			printf("c ret=%d\n", ret);
			fflush(stdout);
			continue;
		}
		w = which(tok[0]);
		st = &t[w];
		op = tok[1];
		if (!live[w]) { printf("%s noobj\n", op); continue; }
		switch (op[0]) {
		case 'g':
			n = unhex(ntok > 2 ? tok[2] : "", sb, sizeof(sb) - 1);
			sb[n] = 0;
			idx = 0;
			ret = str_table_get_index(st, (const char *)sb, &idx);
			printf("g ret=%d idx=%zu\n", ret, ret == 0 ? idx : (size_t)0);
			break;
		case 's':
			s = str_table_get_string(st, strtoul(tok[2], NULL, 10));
			if (s == NULL) { printf("s -\n"); break; }
			printf("s =");
			hexout((const unsigned char *)s, strlen(s));
			printf("\n");
			break;
		case '+':
			str_table_add_ref(st, strtoul(tok[2], NULL, 10));
			printf("+ rc=%zu\n", str_table_get_ref_count(st, strtoul(tok[2], NULL, 10)));
			break;
		case '-':
			str_table_del_ref(st, strtoul(tok[2], NULL, 10));
			printf("- rc=%zu\n", str_table_get_ref_count(st, strtoul(tok[2], NULL, 10)));
			break;
		case 'd':
			st_dump(st);
			break;
		case 'x':
			str_table_cleanup(st);
			live[w] = 0;
			printf("x\n");
			break;
		default:
			printf("?\n");
		}
	}
	print_live("L1");
	if (live[0]) str_table_cleanup(&t[0]);
	if (live[1]) str_table_cleanup(&t[1]);
}

/* ------------------------------------------------------------------ xattr writer */
static void xw_dump_table(const char *name, str_table_t *st)
{
	size_t j;
	printf(" %s[", name);
	print_id("aid", st->bucket_ptrs.data);
	print_id("sid", st->ht);
	print_id("tid", st->ht ? st->ht->table : NULL);
	printf(" next=%zu n=%u si=%u :", st->next_index, (unsigned)st->ht->entries, (unsigned)st->ht->size_index);
	for (j = 0; j < st->bucket_ptrs.used; ++j) {
		str_bucket_t *b = ((str_bucket_t **)st->bucket_ptrs.data)[j];
		printf(" %ld/%zu/", amap_id(b), b->refcount);
		hexout((const unsigned char *)b->string, strlen(b->string));
	}
	printf(" ]");
}

/* the block tree: in order, id/colour/depth/start/count/index (the key bytes hold pointers: not printed) */
static void xw_dump_tree(const rbtree_node_t *n, unsigned depth)
{
	const kv_block_desc_t *d;
	sqfs_u32 idx;
	if (n == NULL) return;
	xw_dump_tree(n->left, depth + 1);
	d = (const kv_block_desc_t *)n->data;
	memcpy(&idx, n->data + n->value_offset, sizeof(idx));
	printf(" %ld/%u/%u/%zu/%zu/%u", amap_id(n), (unsigned)n->is_red, depth, d->start, d->count, (unsigned)idx);
	xw_dump_tree(n->right, depth + 1);
}

/* a file that only remembers its size and a compressor that never compresses: what the flush needs */
struct nullfile { sqfs_file_t base; sqfs_u64 size; };
static int nf_write_at(sqfs_file_t *f, sqfs_u64 off, const void *buf, size_t size)
{
	struct nullfile *nf = (struct nullfile *)f;
	(void)buf;
	if (off + size > nf->size) nf->size = off + size;
	return 0;
}
static sqfs_u64 nf_get_size(const sqfs_file_t *f) { return ((const struct nullfile *)f)->size; }
static void obj_nodestroy(sqfs_object_t *o) { (void)o; }
static sqfs_s32 nc_do_block(sqfs_compressor_t *c, const sqfs_u8 *in, sqfs_u32 size, sqfs_u8 *out, sqfs_u32 outsize)
{
	(void)c; (void)in; (void)size; (void)out; (void)outsize;
	return 0;
}

static void run_xw(void)
{
	sqfs_xattr_writer_t *xwr = sqfs_xattr_writer_create(0);
	unsigned char kb[4096], vb[4096];
	size_t n, i;
	int ret;

	printf("init %s\n", xwr ? "ok" : "null");
	while (read_line()) {
		const char *op;
		if (ntok == 0) continue;
		if (strcmp(tok[0], "END") == 0) break;
		op = tok[1];
		if (xwr == NULL) { printf("%s noobj\n", op); continue; }
		switch (op[0]) {
		case 'b':
			ret = sqfs_xattr_writer_begin(xwr, 0);
			printf("b ret=%d start=%zu\n", ret, xwr->kv_start);
			break;
		case 'a':
			n = unhex(tok[2], kb, sizeof(kb) - 1);
			kb[n] = 0;
			n = unhex(ntok > 3 ? tok[3] : "", vb, sizeof(vb));
			ret = sqfs_xattr_writer_add_kv(xwr, (const char *)kb, vb, n);
			printf("a ret=%d\n", ret);
			break;
		case 'e':
		case 'E': {
			/* E: a failed end is tried once more (the state a failed end leaves must allow that) */
			int tries = op[0] == 'E' ? 2 : 1;
			printf("%c", op[0]);
			while (tries-- > 0) {
				sqfs_u32 out = 0xDEADBEEF;
				ret = sqfs_xattr_writer_end(xwr, &out);
				if (ret == 0) printf(" ret=0 out=%u", (unsigned)out);
				else printf(" ret=%d out=%s", ret, out == 0xDEADBEEF ? "-" : "ASSIGNED");
				if (ret == 0) break;
			}
			printf("\n");
			break;
		}
		case 'f': {
			struct nullfile nf;
			sqfs_compressor_t nc;
			sqfs_super_t super;
			memset(&nf, 0, sizeof(nf)); memset(&nc, 0, sizeof(nc)); memset(&super, 0, sizeof(super));
			sqfs_object_init(&nf, obj_nodestroy, NULL);
			sqfs_object_init(&nc, obj_nodestroy, NULL);
			nf.base.write_at = nf_write_at;
			nf.base.get_size = nf_get_size;
			nf.size = 96;
			nc.do_block = nc_do_block;
			ret = sqfs_xattr_writer_flush(xwr, (sqfs_file_t *)&nf, &super, &nc);
			printf("f ret=%d\n", ret);
			break;
		}
		case 'd': {
			kv_block_desc_t *it;
			printf("d");
			print_id("xid", xwr);
			xw_dump_table("keys", &xwr->keys);
			xw_dump_table("values", &xwr->values);
			printf(" pairs[");
			print_id("id", xwr->kv_pairs.data);
			printf(" count=%zu used=%zu start=%zu :", xwr->kv_pairs.count, xwr->kv_pairs.used, xwr->kv_start);
			for (i = 0; i < xwr->kv_pairs.used; ++i)
				printf(" %llu", (unsigned long long)((sqfs_u64 *)xwr->kv_pairs.data)[i]);
			printf(" ]");
			printf(" tree[ ks=%zu ksp=%zu vs=%zu nb=%zu :", xwr->kv_block_tree.key_size,
			       xwr->kv_block_tree.key_size_padded, xwr->kv_block_tree.value_size, xwr->num_blocks);
			xw_dump_tree(xwr->kv_block_tree.root, 0);
			printf(" ] chain[");
			/* the descriptors are the key bytes inside the tree nodes */
			for (it = xwr->kv_block_first; it != NULL; it = it->next)
				printf(" %ld", amap_id((const char *)it - offsetof(rbtree_node_t, data)));
			printf(" ]\n");
			break;
		}
		case 'x':
			sqfs_drop(xwr);
			xwr = NULL;
			printf("x\n");
			break;
		default:
			printf("?\n");
		}
	}
	print_live("L1");
	if (xwr) sqfs_drop(xwr);
}

/* ------------------------------------------------------------------ array */
static void run_ar(void)
{
	array_t t[2];
	int live[2] = { 0, 0 };
	unsigned char eb[4096];
	size_t size = strtoul(tok[4], NULL, 10), cap = strtoul(tok[5], NULL, 10), i;
	int ret;

	memset(t, 0, sizeof(t));
	ret = array_init(&t[0], size, cap);
	printf("init ret=%d size=%zu count=%zu used=%zu\n", ret, t[0].size, t[0].count, t[0].used);
	live[0] = (ret == 0);
	while (read_line()) {
		array_t *a;
		const char *op;
		void *p;
		int w;
		if (ntok == 0) continue;
		if (strcmp(tok[0], "END") == 0) break;
		if (strcmp(tok[0], "c") == 0) {
			if (live[1]) { array_cleanup(&t[1]); live[1] = 0; }
			if (!live[0]) { printf("c noobj\n"); continue; }
			memcpy(&t[1], &t[0], sizeof(t[1]));
			ret = array_init_copy(&t[1], &t[0]);
			live[1] = (ret == 0);
			printf("c ret=%d\n", ret);
			continue;
		}
		w = which(tok[0]);
		a = &t[w];
		op = tok[1];
		if (!live[w]) { printf("%s noobj\n", op); continue; }
		switch (op[0]) {
		case 'a':
			memset(eb, 0, sizeof(eb));
			unhex(ntok > 2 ? tok[2] : "", eb, sizeof(eb));
			ret = array_append(a, eb);
			printf("a ret=%d\n", ret);
			break;
		case 'c':
			ret = array_set_capacity(a, strtoul(tok[2], NULL, 10));
			printf("c ret=%d count=%zu\n", ret, a->count);
			break;
		case 'g':
			p = array_get(a, strtoul(tok[2], NULL, 10));
			if (p == NULL) { printf("g -\n"); break; }
			printf("g =");
			hexout(p, a->size);
			printf("\n");
			break;
		case 's':
			memset(eb, 0, sizeof(eb));
			unhex(ntok > 3 ? tok[3] : "", eb, sizeof(eb));
			ret = array_set(a, strtoul(tok[2], NULL, 10), eb);
			printf("s ret=%d\n", ret);
			break;
		case 'd':
			printf("d");
			print_id("id", a->data);
			printf(" size=%zu count=%zu used=%zu :", a->size, a->count, a->used);
			for (i = 0; i < a->used; ++i) {
				printf(" ");
				hexout((unsigned char *)a->data + i * a->size, a->size);
			}
			printf("\n");
			break;
		case 'x':
			array_cleanup(a);
			live[w] = 0;
			printf("x\n");
			break;
		default:
			printf("?\n");
		}
	}
	print_live("L1");
	if (live[0]) array_cleanup(&t[0]);
	if (live[1]) array_cleanup(&t[1]);
}

int main(void)
{
	setvbuf(stdout, NULL, _IOLBF, 1 << 16);	/* a sanitizer abort must not swallow the answers given so far */
	while (read_line()) {
		if (ntok < 4 || strcmp(tok[0], "CASE") != 0) continue;
		printf("CASE %s\n", tok[1]);
		fflush(stdout);
		amap_n = 0;
		next_id = 0;
		calls = 0;
		badfree = 0;
		failset_n = 0;
		failed_n = 0;
		fail_func = NULL;
		if (tok[3][0] == '@') {
			static char fname[128];
			strncpy(fname, tok[3] + 1, sizeof(fname) - 1);
			fail_func = fname;
		} else {
			char *q = tok[3];
			while (*q && failset_n < 512) {
				unsigned long v = strtoul(q, &q, 10);
				if (v) failset[failset_n++] = v;
				if (*q == ',') ++q; else break;
			}
		}
		if (strcmp(tok[2], "HT") == 0) run_ht();
		else if (strcmp(tok[2], "RB") == 0) run_rb();
		else if (strcmp(tok[2], "ST") == 0) run_st();
		else if (strcmp(tok[2], "AR") == 0) run_ar();
		else if (strcmp(tok[2], "XW") == 0) run_xw();
		else skip_case();
		print_live("L2");
		printf("END\n");
		fflush(stdout);
	}
	return 0;
}
