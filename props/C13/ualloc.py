"""C13 / UtilAlloc leg: the containers of lib/util/src (array.c, hash_table.c, rbtree.c, str_table.c) under
allocation failure.

Theorems: coq/UtilAlloc/*.v, section "containers under allocation failure" of coq/Properties_C13.v.
Tie: operation sequences x every allocation position k (the k-th allocation call of the case returns NULL):
  the real containers (h_utilalloc.c #includes the five .c files of the working tree with malloc / calloc /
  realloc / free renamed to counting, failing, id-assigning wrappers) and the extracted allocation-aware models
  (driver_ualloc.ml) must print the same text: return value of every operation, structural dump after every
  mutating operation (table row, counters, slot of every entry, tree shape / colours / node bytes, bucket - entry -
  index links, ALLOCATION IDS of every block), the answers of all later operations, the set of live allocation
  ids and the number of allocation calls at the end of the script and after releasing the objects.
Search oracle (model-free, on the C output): no sanitizer report / signal; nothing live after the release
  (leak), no free of a dead pointer; an operation that reports failure leaves the abstract value of its object
  unchanged (strings by index with reference counts / elements / in-order node bytes / set of entries);
  for arrays and trees every injected fault is reported by some operation;
  xattr writer (XW, session 3 extension): begin / add_kv / end / flush under every k-th-allocation fault - a failing end
  assigns no index and leaves block tree, descriptor list, num_blocks and the finished pairs as they were (the pairs of the
  set under construction compared as a multiset: end sorts them in place before it allocates), a failing flush changes
  nothing and leaks nothing; one deterministic "big" sequence whose flush crosses a metadata block boundary.
  rbtree_copy of the default configuration (pool allocator): h_rbpool.c, a failed copy releases what it allocated.
(generators adapted from props/C19/util_tie.py, which runs the same containers without allocation failure)
"""
import os
import random
import re
import shutil
import subprocess

from vlib import build as B
from vlib import core

HERE = os.path.dirname(os.path.abspath(__file__))

KNOWN = {
    "entry-count": ("ualloc:ST:get-index-entry-count",
                    "str_table_get_index: after a failing array_append the hash slot is cleared by hand but ht->entries stays "
                    "incremented (a free slot counted as an entry; the table then grows although it is empty) "
                    "[props/C13/fixes/C13N13-str-table-get-index-entry-count.patch]"),
    "copy-frees-source": ("ualloc:ST:copy-failure-frees-source",
                          "str_table_copy: when alloc_flex fails inside the bucket loop, str_table_cleanup(dst) frees the data of "
                          "EVERY entry of the cloned hash table - the entries not yet re-pointed still point at the buckets of "
                          "src: the source table is left with dangling buckets (heap-use-after-free on its next use, double free "
                          "at its cleanup) [props/C13/fixes/C13N14-str-table-copy-failure-frees-source.patch]"),
    "pool-leak": ("ualloc:RB:pool-copy-leak",
                  "rbtree_copy (default configuration, pool allocator): when copy_node fails, *out is zeroed without "
                  "mem_pool_destroy(out->pool): the pool of the copy leaks "
                  "[props/C13/fixes/C13N15-rbtree-copy-pool-leak.patch]"),
}


# ------------------------------------------------------------------------------------ cases
class UCase:
    def __init__(self, cid, kind, params, aim, k=0, base=None):
        # k: 0 | the number of the failing allocation call | a list of such numbers | "@function" (discovery)
        self.cid, self.kind, self.params, self.aim, self.k = cid, kind, params, aim, k
        self.base = base if base is not None else cid
        self.ops = []

    def kstr(self):
        if isinstance(self.k, (list, tuple)):
            return ",".join(str(x) for x in self.k) or "0"
        return str(self.k)

    def kmin(self):
        if isinstance(self.k, (list, tuple)):
            return min(self.k) if self.k else 0
        return self.k if isinstance(self.k, int) else 0

    def add(self, *toks):
        self.ops.append(" ".join(str(t) for t in toks))

    def lines(self):
        return ["CASE %d %s %s %s" % (self.cid, self.kind, self.kstr(), " ".join(str(p) for p in self.params))] + self.ops + ["END"]

    def with_k(self, cid, k):
        c = UCase(cid, self.kind, self.params, self.aim, k, self.base)
        c.ops = self.ops
        return c

    def to_json(self):
        return dict(cid=self.cid, kind=self.kind, aim=self.aim, k=self.kstr(), script=self.lines())


def nz_bytes(rnd, n):
    return bytes(rnd.randint(1, 255) for _ in range(n))


def gen_ht(rnd, cid, rows):
    aim = rnd.choice(["grow", "collide", "tomb", "clone", "full"])
    c = UCase(cid, "HT", [], aim)
    nid = [0]
    live = []
    cloned = [False]

    def who():
        return rnd.choice("AB") if cloned[0] else "A"

    def ins(h, cls, w=None):
        nid[0] += 1
        w = w or who()
        c.add(w, "i", h, nid[0], cls, rnd.randint(1, 10 ** 6))
        c.add(w, "d")
        live.append((h, cls))

    def clone():
        c.add("A", "d")
        c.add("c")
        c.add("B", "d")
        cloned[0] = True

    if aim in ("grow", "full"):
        # through two or three rows: a failing rehash leaves the table over its load bound; "full": the row-0 table
        # fills completely when every rehash fails (only one fault per case: the later rehash succeeds)
        for i in range(rnd.choice([3, 5, 6, 9, 10, 17])):
            ins(rnd.randrange(0, 1 << 32) if rnd.random() < 0.5 else i * 7 + 1, i + 10)
            if rnd.random() < 0.2:
                h, cls = rnd.choice(live)
                c.add("A", "s", h, 0, cls)
    elif aim == "collide":
        size = rows[0][1]
        base = rnd.randrange(0, size)
        for i in range(rnd.randint(2, 7)):
            ins(base + size * rnd.randrange(0, 50), rnd.randint(1, 3))
        h, _ = rnd.choice(live)
        ins(h, 1)
        ins(h, 1)
    elif aim == "tomb":
        hs = [rnd.randrange(0, 40) for _ in range(rnd.randint(3, 7))]
        for h in hs:
            ins(h, 1)
        for _ in range(rnd.randint(1, len(hs))):
            c.add("A", "r", rnd.choice(hs), 0, 1)
            c.add("A", "d")
        for _ in range(rnd.randint(2, 8)):
            h = rnd.randrange(0, 40)
            ins(h, 3, "A")
            c.add("A", "r", h, 0, 3)
            c.add("A", "d")
    else:
        for i in range(rnd.randint(1, 6)):
            ins(rnd.randrange(0, 64), rnd.randint(1, 4))
        clone()
        for i in range(rnd.randint(1, 5)):
            ins(rnd.randrange(0, 64), rnd.randint(1, 4))
    if not cloned[0] and rnd.random() < 0.4:
        clone()
        ins(rnd.randrange(0, 64), 9, "B")
    for (h, cls) in rnd.sample(live, min(4, len(live))):
        c.add(who(), "s", h, 0, cls)
    if rnd.random() < 0.3:
        c.add("A", "x")
    return c


def gen_rb(rnd, cid):
    aim = rnd.choice(["asc", "desc", "random", "copy"])
    ks, vs = rnd.choice([1, 3, 4, 8, 9]), rnd.choice([1, 4, 8])
    c = UCase(cid, "RB", [ks, vs, "bytes"], aim)
    n = rnd.choice([0, 1, 2, 3, 5, 8, 12])
    keys = list(dict.fromkeys(nz_bytes(rnd, ks) for _ in range(n)))
    if aim == "asc":
        keys.sort()
    elif aim == "desc":
        keys.sort(reverse=True)
    copied = False
    copy_at = rnd.randint(0, len(keys)) if aim == "copy" or rnd.random() < 0.6 else -1

    def copy():
        c.add("A", "d")
        c.add("c")
        c.add("B", "d")
        c.add("A", "d")

    for i, k in enumerate(keys):
        if i == copy_at:
            copy()
            copied = True
        w = rnd.choice("AB") if copied else "A"
        c.add(w, "i", k.hex(), nz_bytes(rnd, vs).hex())
        c.add(w, "d")
        if rnd.random() < 0.3:
            c.add(w, "l", rnd.choice(keys).hex())
    if copy_at == len(keys):
        copy()
        copied = True
    for k in rnd.sample(keys, min(len(keys), 4)):
        c.add("A", "l", k.hex())
        if copied:
            c.add("B", "l", k.hex())
    if copied and rnd.random() < 0.5:
        c.add("c")              # a second copy: the first one is released first
        c.add("B", "d")
    if rnd.random() < 0.3:
        c.add("A", "x")
        if copied:
            c.add("B", "d")
    return c


def gen_st(rnd, cid):
    aim = rnd.choice(["grow", "copy", "refs", "dup"])
    c = UCase(cid, "ST", [], aim)
    n = rnd.choice([1, 2, 3, 4, 5, 6, 9])
    strs = [(b"user.k%d" % rnd.randrange(0, 2 * n + 1)) if aim != "grow" else nz_bytes(rnd, rnd.randint(1, 9)) for _ in range(n)]
    copied = False
    copy_at = rnd.randint(0, len(strs)) if aim == "copy" or rnd.random() < 0.5 else -1
    cnt = {"A": 0, "B": 0}

    def side():
        return rnd.choice("AB") if copied else "A"

    def copy():
        c.add("A", "d")
        c.add("c")
        c.add("B", "d")
        c.add("A", "d")
        cnt["B"] = cnt["A"]

    for i, s in enumerate(strs):
        if i == copy_at:
            copy()
            copied = True
        w = side()
        c.add(w, "g", s.hex() or "-")
        c.add(w, "d")
        cnt[w] += 1
        if rnd.random() < 0.4:
            # the same string again (retry after a failure / a known string)
            c.add(w, "g", s.hex() or "-")
            c.add(w, "d")
        if aim == "refs" or rnd.random() < 0.3:
            w = side()
            c.add(w, rnd.choice("++-"), rnd.randint(0, cnt[w] + 1))
            c.add(w, "d")
        if rnd.random() < 0.3:
            w = side()
            c.add(w, "s", rnd.randint(0, cnt[w] + 1))
    if copy_at == len(strs):
        copy()
        copied = True
    for i in range(min(3, cnt["A"] + 1)):
        c.add("A", "s", i)
    if copied:
        c.add("B", "g", b"only-in-the-copy".hex())
        c.add("B", "d")
        c.add("A", "d")
        first = rnd.choice("AB")
        other = "B" if first == "A" else "A"
        c.add(first, "x")
        c.add(other, "d")
        c.add(other, "s", 0)
    return c


def gen_ar(rnd, cid):
    aim = rnd.choice(["grow", "cap", "copy"])
    size = rnd.choice([1, 2, 4, 8])
    cap = rnd.choice([0, 0, 1, 3, 128])
    c = UCase(cid, "AR", [size, cap], aim)
    n = rnd.choice([0, 1, 2, 4, 129, 130]) if aim == "grow" else rnd.randint(0, 8)
    copied = False
    copy_at = rnd.randint(0, n) if aim == "copy" or rnd.random() < 0.5 else -1
    used = {"A": 0, "B": 0}

    def copy():
        c.add("A", "d")
        c.add("c")
        c.add("B", "d")
        used["B"] = used["A"]

    for i in range(n):
        if i == copy_at:
            copy()
            copied = True
        w = rnd.choice("AB") if copied else "A"
        c.add(w, "a", nz_bytes(rnd, size).hex())
        if n < 20 or i in (0, 1, 127, 128, 129, n - 1):
            c.add(w, "d")
        used[w] += 1
        r = rnd.random()
        if r < 0.1:
            c.add(w, "g", rnd.randint(0, used[w] + 1))
        elif r < 0.2:
            c.add(w, "s", rnd.randint(0, used[w] + 1), nz_bytes(rnd, size).hex())
            c.add(w, "d")
        elif r < 0.3 or aim == "cap" and r < 0.6:
            c.add(w, "c", rnd.choice([0, 1, used[w], used[w] + 1, 128, 129, 257, 1000]))
            c.add(w, "d")
    if copy_at == n:
        copy()
        copied = True
    c.add("A", "d")
    if copied:
        c.add("B", "a", nz_bytes(rnd, size).hex())
        c.add("B", "d")
        c.add("A", "d")
        if rnd.random() < 0.5:
            c.add("A", "x")
            c.add("B", "d")
    return c


def gen_xw(rnd, cid, big=None):
    """the xattr writer's recording path: begin / add_kv with repeated keys, repeated values, the same pair again /
    end (a set seen before: the tree lookup finds it; a new one: rbtree_insert allocates a node; an empty one) / flush"""
    aim = big or rnd.choice(["sets", "dups", "grow", "end", "end", "end"])
    c = UCase(cid, "XW", [], aim)
    nk = rnd.choice([1, 2, 3, 5, 7])
    keys = [b"user.k%d" % i for i in range(nk)] + [b"trusted.t", b"security.s"]
    vals = [nz_bytes(rnd, rnd.choice([1, 2, 5, 9, 12])) for _ in range(rnd.choice([1, 2, 4, 6]))]
    if aim == "big":                # the flush fills metadata blocks: the meta writer's transient block allocations
        c.add("A", "b")
        for i in range(3):
            c.add("A", "a", keys[i % len(keys)].hex(), nz_bytes(rnd, 2750).hex())
        c.add("A", "e")
        c.add("A", "f")
        c.add("A", "d")
        return c
    done = []                       # the add lists of earlier sets (aim "end": some are repeated -> duplicate blocks)
    for _ in range(rnd.choice([1, 2, 3]) if aim != "end" else rnd.choice([3, 4, 6])):
        c.add("A", "b")
        if aim == "end" and done and rnd.random() < 0.45:
            adds = list(rnd.choice(done))
            rnd.shuffle(adds)       # the same set in another order: sorted, it is the same block
        elif aim == "end" and rnd.random() < 0.12:
            adds = []               # begin; end: 0xFFFFFFFF, no allocation
        else:
            adds = []
            for _ in range(rnd.choice([1, 2, 3, 5]) if aim != "grow" else rnd.choice([4, 7])):
                k = rnd.choice(keys)
                v = rnd.choice(vals) if aim != "grow" else nz_bytes(rnd, 3)
                adds.append((k, v))
                if aim == "dups" and rnd.random() < 0.5:
                    adds.append((k, v if rnd.random() < 0.5 else rnd.choice(vals)))
            if rnd.random() < 0.1:
                adds.append((rnd.choice([b"nodot", b"other.k", b"user."]), b"x"))      # refused before any allocation
        done.append(adds)
        for (k, v) in adds:
            c.add("A", "a", k.hex(), v.hex())
            c.add("A", "d")
        # e: one call; E: a failed end is tried again
        c.add("A", rnd.choice("eeE"))
        c.add("A", "d")
    if rnd.random() < 0.6 or aim == "big":
        c.add("A", "f")
        c.add("A", "d")
    if rnd.random() < 0.4:
        c.add("A", "x")
    return c


def hash_rows():
    txt = open(os.path.join(core.COQ, "Util", "GenUtil.v")).read()
    return [tuple(int(x) for x in m) for m in re.findall(r"\((\d+), (\d+), (\d+), (\d+), (\d+)\)", txt)]


def base_cases(rnd, tier):
    rows = hash_rows()
    big = tier != "quick"
    n = dict(HT=36, RB=30, ST=40, AR=26, XW=24) if not big else dict(HT=400, RB=300, ST=400, AR=250, XW=250)
    out = []
    cid = 0
    for kind, cnt in n.items():
        for _ in range(cnt):
            cid += 1
            if kind == "HT":
                out.append(gen_ht(rnd, cid, rows))
            elif kind == "RB":
                out.append(gen_rb(rnd, cid))
            elif kind == "ST":
                out.append(gen_st(rnd, cid))
            elif kind == "XW":
                out.append(gen_xw(rnd, cid))
                if len([c for c in out if c.kind == "XW"]) == cnt:
                    cid += 1
                    out.append(gen_xw(rnd, cid, big="big"))
            else:
                out.append(gen_ar(rnd, cid))
    return out


# ------------------------------------------------------------------------------------ running
def split_output(txt):
    out, cur = {}, None
    for line in txt.split("\n"):
        if line.startswith("CASE "):
            try:
                cur = int(line.split()[1])
            except ValueError:
                cur = None
                continue
            out[cur] = []
        elif cur is not None and line != "":
            out[cur].append(line)
    return out


def run_impl(exe, cases, timeout):
    """{cid: (lines, crashed, stderr)}; restarts behind a case that killed the process"""
    env = dict(os.environ, ASAN_OPTIONS="detect_leaks=1:abort_on_error=0:allocator_may_return_null=1",
               UBSAN_OPTIONS="print_stacktrace=1")
    res = {}
    if len(cases) > 400:
        # a case that kills the process makes the rest of its batch run again: keep the batches small
        for i in range(0, len(cases), 300):
            part = run_impl(exe, cases[i:i + 300], timeout)
            leak = part.pop("__leak__", None)
            res.update(part)
            if leak is not None:
                res["__leak__"] = leak
        return res
    todo = list(cases)
    while todo:
        data = "\n".join("\n".join(c.lines()) for c in todo) + "\n"
        try:
            r = subprocess.run([exe], input=data.encode(), stdout=subprocess.PIPE, stderr=subprocess.PIPE, env=env,
                               timeout=timeout)
            out, err, rc = r.stdout.decode("utf-8", "replace"), r.stderr.decode("utf-8", "replace"), r.returncode
        except subprocess.TimeoutExpired as e:
            out, err, rc = (e.stdout or b"").decode("utf-8", "replace"), "[timeout]", 124
        got = split_output(out)
        done = set(cid for cid, ls in got.items() if ls and ls[-1] == "END")
        for cid in done:
            res[cid] = (got[cid][:-1], False, "")
        rest = [c for c in todo if c.cid not in done]
        if not rest:
            if rc != 0:
                res["__leak__"] = err[-5000:]
            break
        bad = rest[0]
        res[bad.cid] = (got.get(bad.cid, []), True, err[-5000:] + "\n[exit status %d]" % rc)
        todo = rest[1:]
    return res


def run_model(drv, cases, timeout, unfixed=False):
    data = "\n".join("\n".join(c.lines()) for c in cases) + "\n"
    r = subprocess.run([drv] + (["unfixed"] if unfixed else []), input=data.encode(), stdout=subprocess.PIPE,
                       stderr=subprocess.PIPE, timeout=timeout)
    got = split_output(r.stdout.decode("utf-8", "replace"))
    return dict((cid, ls[:-1] if ls and ls[-1] == "END" else ls) for cid, ls in got.items()), r.stderr.decode("utf-8", "replace")


# ------------------------------------------------------------------------------------ the property, model-free
QUERY = dict(HT="s", RB="l", ST="s", AR="g", XW="?")
FAIL_ANS = re.compile(r"^(i NULL|c null|init null|[a-z] ret=-\d+|c ret=-\d+|init ret=-\d+)")


def abstract(kind, line):
    """the abstract value shown by a dump line (allocation ids, capacities, table geometry and counters removed)"""
    head, _, body = line.partition(":")
    if kind == "RB":
        return tuple("/".join(t.split("/")[3:]) for t in body.split())          # (value offset, node bytes) in order
    if kind == "ST":
        slots, _, arr = body.partition("|")
        ents = []
        for t in slots.split():
            p = t.partition("=")[2].split("/")
            if len(p) >= 6:
                ents.append((p[3], p[4], p[5]))                                   # index, refcount, string
        m = re.search(r"next=(\d+) used=(\d+)", head)
        return (m.group(1), m.group(2), tuple(sorted(ents)), len(arr.split()))
    if kind == "AR":
        m = re.search(r"size=(\d+) count=\d+ used=(\d+)", head)
        return (m.group(1), m.group(2), tuple(body.split()))
    if kind == "HT":
        return tuple(sorted(t.partition("=")[2] for t in body.split()))          # live entries and tombstones (D)
    if kind == "XW":
        # a failed add_kv may leave a new key / value string or a reference behind (not undone by the C code, see
        # XattrAlloc.v); what must not change is the recorded pairs
        # a failed end has sorted the pairs of the set under construction in place (nothing else): compare them as a
        # multiset; the finished pairs, the block tree (start / count / index of every node, in order), the list
        # through the blocks and num_blocks must be what they were
        m = re.search(r"pairs\[ id=\S+ count=\d+ used=(\d+) start=(\d+) :([\d ]*)\]", line)
        if not m:
            return line
        prs = m.group(3).split()
        st = int(m.group(2))
        t = re.search(r"tree\[ ks=\d+ ksp=\d+ vs=\d+ nb=(\d+) :([\d/ ]*)\] chain\[([\d ]*)\]", line)
        tree = (t.group(1), tuple("/".join(x.split("/")[3:]) for x in t.group(2).split()), tuple(t.group(3).split())) if t else None
        return (m.group(1), m.group(2), tuple(prs[:st]), tuple(sorted(prs[st:], key=int)), tree)
    return line


def oracle(case, lines):
    """C13 at container level on the implementation's own output: (signature, text) of the first failure or None"""
    ops = case.ops
    ans = lines[1:]                                  # init line first
    last = {"A": None, "B": None}
    failed = FAIL_ANS.match(lines[0]) is not None if lines else False
    pending = {"A": None, "B": None}                 # abstract value before an operation that reported failure
    for i, op in enumerate(ops):
        if i >= len(ans):
            break
        t = op.split()
        a = ans[i]
        if a.startswith("BADFREE"):
            return ("ualloc:%s:bad-free" % case.kind, "case %d [%s, k=%s]: free of a pointer that is not live around '%s'"
                    % (case.cid, case.aim, case.kstr(), op))
        if case.kind == "XW" and re.match(r"^[eE] .*ret=-\d+ out=ASSIGNED", a):
            return ("ualloc:XW:failed-end-assigned-index",
                    "case %d [%s, k=%s]: sqfs_xattr_writer_end reported failure but stored an index through its out pointer: '%s'"
                    % (case.cid, case.aim, case.kstr(), a))
        if t == ["c"]:
            if FAIL_ANS.match(a):
                failed = True
                pending["A"] = last["A"]             # the source of a failed copy must be untouched
            last["B"] = None
            continue
        w, o = t[0], t[1]
        if o == "d":
            if a.endswith("noobj"):
                continue
            cur = abstract(case.kind, a)
            if pending[w] is not None and pending[w] != cur:
                return ("ualloc:%s:failed-op-changed-state" % case.kind,
                        "case %d [%s, k=%s]: an operation on %s reported failure but the abstract value of the object "
                        "changed: before %s after %s" % (case.cid, case.aim, case.kstr(), w, str(pending[w])[:200], str(cur)[:200]))
            pending[w] = None
            last[w] = cur
        elif o == QUERY[case.kind]:
            continue
        elif FAIL_ANS.match(a):
            failed = True
            if pending[w] is None:
                pending[w] = last[w]
        else:
            # a mutating operation that succeeded (or the release of the object)
            pending[w] = None
            last[w] = None
    for l in lines:
        m = re.match(r"L2 live=(\S*) calls=(\d+)", l)
        if m:
            if m.group(1) != "":
                return ("ualloc:%s:leak" % case.kind,
                        "case %d [%s, k=%s]: allocations %s are still live after every object has been released"
                        % (case.cid, case.aim, case.kstr(), m.group(1)))
            if case.kmin() and case.kmin() <= int(m.group(2)) and not failed and case.kind in ("AR", "RB"):
                return ("ualloc:%s:fault-not-reported" % case.kind,
                        "case %d [%s]: allocation call %s of %s returned NULL but no operation reported a failure"
                        % (case.cid, case.aim, case.kstr(), m.group(2)))
    return None


def calls_of(lines):
    for l in lines:
        m = re.match(r"L2 live=\S* calls=(\d+)", l)
        if m:
            return int(m.group(1))
    return None


def failed_of(lines):
    """discovery run (K = @function): the numbers of the calls that were made to fail"""
    for l in lines:
        m = re.match(r"L2 live=\S* calls=\d+ failed=([\d,]*)", l)
        if m:
            return [int(x) for x in m.group(1).split(",") if x]
    return None


def classify_known(case, lines, crashed, err, unfixed_lines):
    """the implementation behaves like the model of the UNREPAIRED str_table.c: which of the two known defects"""
    if case.kind not in ("ST", "XW") or unfixed_lines is None:
        return None
    if not crashed:
        if lines == unfixed_lines:
            return "entry-count"
        return None
    stop = next((i for i, l in enumerate(unfixed_lines) if "DANGLING" in l or "CRASH" in l or "BADFREE" in l), None)
    if stop is None:
        return None
    if re.search(r"AddressSanitizer: (heap-use-after-free|attempting double-free)", err) \
            and lines == unfixed_lines[:len(lines)] and len(lines) <= stop + 1 and any(l.startswith("c ret=-") for l in lines):
        return "copy-frees-source"
    return None


def build(info):
    exe = B.compile_harness(info, [os.path.join(HERE, "h_utilalloc.c")], "h_utilalloc_c13", includes=["-I" + HERE])
    pool = B.compile_harness(info, [os.path.join(HERE, "h_rbpool.c")], "h_rbpool_c13", extra=["-UNO_CUSTOM_ALLOC"],
                             link_lib=False)
    return exe, pool


def pool_probe(ctx, pool, stats, report):
    """rbtree_copy with the pool allocator: the k-th mmap of the copy fails"""
    env = dict(os.environ, ASAN_OPTIONS="detect_leaks=1:abort_on_error=0")
    for nodes, k in ((10, 1), (5000, 1), (5000, 2), (5000, 3), (5000, 4)):
        r = subprocess.run([pool, str(nodes), str(k)], stdout=subprocess.PIPE, stderr=subprocess.PIPE, env=env, timeout=60)
        out, err = r.stdout.decode("utf-8", "replace"), r.stderr.decode("utf-8", "replace")
        stats["pool_runs"] += 1
        m = re.search(r"copy ret=(-?\d+) structs=(\d+)/(\d+) maps=(\d+)/(\d+)", out)
        if m is None:
            report("ualloc:RB:pool-probe", "h_rbpool %d %d: no answer (rc=%d) %s" % (nodes, k, r.returncode, err[-300:]),
                   dict(kind="ualloc-pool", nodes=nodes, k=k), True)
            continue
        ret, s0, s1, m0, m1 = (int(x) for x in m.groups())
        if ret != 0 and (s0 != s1 or m0 != m1 or "LeakSanitizer" in err):
            sig, what = KNOWN["pool-leak"]
            report(sig, "%s: %d nodes, mmap %d of the copy fails: pool structs %d -> %d, mappings %d -> %d after the failed copy"
                   % (what, nodes, k, s0, s1, m0, m1), dict(kind="ualloc-pool", nodes=nodes, k=k, stdout=out[-300:], stderr=err[-1500:]))
        elif r.returncode != 0:
            report("ualloc:RB:pool-probe:sanitizer", "h_rbpool %d %d: %s" % (nodes, k, err[-600:]),
                   dict(kind="ualloc-pool", nodes=nodes, k=k, stderr=err[-1500:]))


def run_leg(ctx, info, seed=None, only=None):
    """the whole leg; returns stats"""
    exe, pool = build(info)
    priv = os.path.join(ctx.scratch, "h_utilalloc")
    shutil.copy2(exe, priv)
    try:
        # an absolute path: the extraction file of this leg lives next to its driver (see its header)
        drv = core.build_model_driver("C13ualloc", "ExtractC13UtilEnd.v", os.path.join(HERE, "driver_ualloc.ml"))
    except RuntimeError as e:
        ctx.log("allocation-aware container model driver not built (%s): tie skipped, oracle only" % str(e)[:200])
        drv = None
    stats = dict(sequences=0, cases=0, answers=0, faults_hit=0, crashed=0, by_kind={}, known={}, pool_runs=0, max_calls=0)
    seen = set()

    # Integrator's triage (DESIGN 9.7): a leak of the copy's own pool on a failed rbtree_copy break no listed property (no crash, no wrong
    # output, nothing of the ORIGINAL damaged); they are observations in the evidence, not violations.
    OBSERVATION_ONLY = ("ualloc:RB:pool-copy-leak",)

    def report(sig, what, obj, no_input=False):
        if sig in seen:
            return
        seen.add(sig)
        if sig in OBSERVATION_ONLY:
            ctx.coverage.setdefault("observations_not_violations", []).append(dict(signature=sig, what=what[:400]))
            return
        ctx.violation(sig, what, obj, no_input=no_input)

    quick = ctx.tier == "quick"
    tmo = 120 if quick else 1500
    if only is not None:
        kk = [int(x) for x in str(only.get("k", "0")).split(",") if x.isdigit() and int(x)]
        c = UCase(only["cid"], only["kind"], [], only.get("aim", "replay"), kk)
        script = only["script"]
        c.params = script[0].split()[4:]
        c.ops = script[1:-1]
        cases = [c]
    else:
        rnd = random.Random((ctx.seed if seed is None else seed) * 7919 + 13)
        bases = base_cases(rnd, ctx.tier)
        stats["sequences"] = len(bases)
        # the fault-free runs tell how many allocation calls each sequence makes
        r0 = run_impl(priv, bases, tmo)
        cases = list(bases)
        cid = len(bases)
        per = 14 if quick else 60
        for bc in bases:
            got = r0.get(bc.cid)
            n = calls_of(got[0]) if got else None
            if not n:
                continue
            stats["max_calls"] = max(stats["max_calls"], n)
            ks = list(range(1, n + 1))
            if bc.aim == "big":
                # three 2750 byte values: the key-value stream crosses a metadata block boundary (the meta writer's transient
                # block allocation inside an append).  The model hashes long strings slowly: only the calls of end and flush
                ks = ks[-10:]
            elif len(ks) > per:
                keep = set(ks[:4] + ks[-3:])
                keep.update(rnd.sample(ks, per - len(keep)))
                ks = sorted(keep)
            for k in ks:
                cid += 1
                cases.append(bc.with_k(cid, k))
            # several faults in one run: a random set of failing calls
            for _ in range((2 if quick else 6) if bc.aim != "big" else 0):
                ks2 = sorted(k for k in range(1, n + 1) if rnd.random() < 0.3)
                if len(ks2) > 1:
                    cid += 1
                    cases.append(bc.with_k(cid, ks2))
        # every rehash fails (the table fills beyond its load bound, then completely: hash_table_insert returns NULL),
        # alone and together with one more failing call: discovered on the implementation (which calls those are
        # depends on the earlier failures), then replayed on both sides as an explicit set
        disc = [bc.with_k(10 ** 6 + i, "@hash_table_rehash") for i, bc in enumerate(bases)
                if bc.kind in ("HT", "ST", "XW") and bc.aim != "big"]
        rd = run_impl(priv, disc, tmo)
        for dc in disc:
            got = rd.get(dc.cid)
            fs = failed_of(got[0]) if got and not got[1] else None
            n = calls_of(got[0]) if got else None
            if not fs:
                continue
            cid += 1
            cases.append(dc.with_k(cid, fs))
            stats["rehash_all_fail"] = stats.get("rehash_all_fail", 0) + 1
            others = [k for k in range(1, (n or 0) + 1) if k not in fs]
            for k in rnd.sample(others, min(len(others), 3 if quick else 12)):
                cid += 1
                cases.append(dc.with_k(cid, sorted(fs + [k])))
        pool_probe(ctx, pool, stats, report)
    impl = run_impl(priv, cases, tmo)
    model = unfixed = None
    merr = ""
    if drv is not None:
        model, merr = run_model(drv, cases, 300 if quick else 3000)
    for c in cases:
        if c.cid not in impl:
            continue
        lines, crashed, err = impl[c.cid]
        stats["cases"] += 1
        stats["by_kind"][c.kind] = stats["by_kind"].get(c.kind, 0) + 1
        if c.kmin() and any(FAIL_ANS.match(l) for l in lines):
            stats["faults_hit"] += 1
        mo = model.get(c.cid) if model is not None else None
        if model is not None and not crashed and mo == lines:
            stats["answers"] += len(lines)
            prop = oracle(c, lines)
            if prop is not None:
                report(prop[0], "lib/util container under allocation failure: " + prop[1],
                       dict(kind="ualloc", case=c.to_json(), impl_output=lines[-12:]))
            continue
        # disagreement, crash, or no model: is it one of the known defects of the unrepaired code?
        if drv is not None and unfixed is None:
            unfixed, _ = run_model(drv, cases, 300 if quick else 3000, unfixed=True)
        known = classify_known(c, lines, crashed, err, unfixed.get(c.cid) if unfixed else None)
        if known is not None:
            stats["known"][known] = stats["known"].get(known, 0) + 1
            sig, what = KNOWN[known]
            report(sig, "%s; case %d [%s, allocation %s fails]" % (what, c.cid, c.aim, c.kstr()),
                   dict(kind="ualloc", case=c.to_json(), impl_output=lines[-8:], stderr=err[-2500:]))
            continue
        if crashed:
            stats["crashed"] += 1
            m = re.search(r"ERROR: (?:AddressSanitizer|LeakSanitizer): (attempting )?([A-Za-z-]+)", err)
            cls = m.group(2).lower() if m else ("ubsan" if "runtime error" in err else "died")
            nxt = c.ops[len(lines) - 1] if 0 <= len(lines) - 1 < len(c.ops) else "END"
            report("ualloc:%s:%s" % (c.kind, cls),
                   "container harness under allocation failure: sanitizer report / signal (%s) in case %d [%s %s, allocation %s fails] "
                   "around operation '%s'" % (cls, c.cid, c.kind, c.aim, c.kstr(), nxt[:60]),
                   dict(kind="ualloc", case=c.to_json(), stderr=err[-3000:], impl_output=lines[-12:]))
            continue
        prop = oracle(c, lines)
        if prop is not None:
            report(prop[0], "lib/util container under allocation failure: " + prop[1],
                   dict(kind="ualloc", case=c.to_json(), impl_output=lines[-12:]))
        if model is None:
            continue
        if mo is None:
            report("ualloc-tie:%s:no-model-answer" % c.kind, "model driver gave no answer for case %d: %s" % (c.cid, merr[-300:]),
                   dict(kind="ualloc", case=c.to_json()), no_input=True)
            continue
        k = next((i for i in range(min(len(mo), len(lines))) if mo[i] != lines[i]), min(len(mo), len(lines)))
        op = c.ops[k - 1] if 0 <= k - 1 < len(c.ops) else ("(init)" if k == 0 else "(end)")
        if prop is None:
            report("ualloc-tie:%s" % c.kind,
                   "case %d [%s %s, allocation %s fails]: lib/util container and its allocation-aware Coq model (coq/UtilAlloc) "
                   "disagree at step %d, operation '%s': implementation '%s' model '%s' (the model-free oracle found no C13 "
                   "failure on this case)" % (c.cid, c.kind, c.aim, c.kstr(), k, op[:60], (lines[k] if k < len(lines) else "<none>")[:220],
                                              (mo[k] if k < len(mo) else "<none>")[:220]),
                   dict(kind="ualloc", case=c.to_json(), impl_output=lines[max(0, k - 3):k + 2], model_output=mo[max(0, k - 3):k + 2],
                        correspondence="props/C13: coq/UtilAlloc models vs lib/util/src containers under allocation failure"),
                   no_input=True)
    if "__leak__" in impl:
        report("ualloc:leak", "container harness: LeakSanitizer reports a leak at exit", dict(kind="ualloc", stderr=impl["__leak__"][-3000:]))
    return stats
