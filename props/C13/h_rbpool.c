/* C13 / UtilAlloc: rbtree_copy of the DEFAULT configuration (pool allocator, NO_CUSTOM_ALLOC undefined) when the
 * pool cannot get memory.  lib/util/src/mempool.c and rbtree.c are #included with calloc / free / mmap / munmap
 * renamed to counting wrappers; the K-th mmap (1-based, counted from the start of the copy) fails.
 *
 * usage: h_rbpool <nodes> <K>
 * stdout: one line  "copy ret=<r> structs=<before>/<after> maps=<before>/<after>"  -- a failed copy must leave the
 * number of live pool structs and mappings as it found them (everything it allocated is released again). */
#ifdef NO_CUSTOM_ALLOC
#undef NO_CUSTOM_ALLOC
#endif
#include "config.h"
#include <stdlib.h>
#include <string.h>
#include <stdio.h>
#include <stdint.h>
#include <sys/mman.h>

static long structs_live, maps_live, mm_calls, mm_fail;

static void *w_calloc(size_t a, size_t b) { void *p = calloc(a, b); if (p) ++structs_live; return p; }
static void w_free(void *p) { if (p) --structs_live; free(p); }
static void *w_mmap(void *addr, size_t len, int prot, int flags, int fd, off_t off)
{
	void *p;
	if (mm_fail != 0 && ++mm_calls == mm_fail) return MAP_FAILED;
	p = mmap(addr, len, prot, flags, fd, off);
	if (p != MAP_FAILED) ++maps_live;
	return p;
}
static int w_munmap(void *p, size_t len) { --maps_live; return munmap(p, len); }

#define calloc w_calloc
#define free w_free
#define mmap w_mmap
#define munmap w_munmap
#include "lib/util/src/mempool.c"
#include "lib/util/src/rbtree.c"
#undef calloc
#undef free
#undef mmap
#undef munmap

static int cmp_u32(const void *ctx, const void *l, const void *r)
{
	sqfs_u32 a, b;
	(void)ctx;
	memcpy(&a, l, 4); memcpy(&b, r, 4);
	return a < b ? -1 : (a > b ? 1 : 0);
}

int main(int argc, char **argv)
{
	rbtree_t a, b;
	long n = argc > 1 ? atol(argv[1]) : 10, k = argc > 2 ? atol(argv[2]) : 1, i, s0, m0;
	int ret;

	if (rbtree_init(&a, 4, 4, cmp_u32)) return 2;
	for (i = 0; i < n; ++i) {
		sqfs_u32 key = (sqfs_u32)(i * 2654435761u), val = (sqfs_u32)i;
		if (rbtree_insert(&a, &key, &val)) return 2;
	}
	s0 = structs_live; m0 = maps_live;
	mm_calls = 0; mm_fail = k;
	ret = rbtree_copy(&a, &b);
	mm_fail = 0;
	printf("copy ret=%d structs=%ld/%ld maps=%ld/%ld\n", ret, s0, structs_live, m0, maps_live);
	fflush(stdout);
	if (ret == 0) rbtree_cleanup(&b);
	rbtree_cleanup(&a);
	printf("end structs=%ld maps=%ld\n", structs_live, maps_live);
	fflush(stdout);
	return 0;
}
