(* C13 / UtilAlloc model driver: glue around the extracted allocation-aware container models
   (c13_ualloc_model.ml).  Reads the same case lines as props/C13/h_utilalloc.c and prints the same
   answer lines:   CASE <id> <HT|RB|ST|AR> <K> <params> / one operation per line / END
   K = "0" or "k1,k2,...": the 1-based numbers of the allocation calls that return NULL.
   argv[1] = "unfixed": the str_table model follows the code without props/C13/fixes C13N13 / C13N14. *)
open C13_ualloc_model

let fixed = not (Array.length Sys.argv > 1 && Sys.argv.(1) = "unfixed")

let rec pos_of_int i = if i = 1 then XH else if i land 1 = 1 then XI (pos_of_int (i lsr 1)) else XO (pos_of_int (i lsr 1))
let n_of_int i = if i <= 0 then N0 else Npos (pos_of_int i)
let rec int_of_pos = function XH -> 1 | XO p -> 2 * int_of_pos p | XI p -> 2 * int_of_pos p + 1
let int_of_n = function N0 -> 0 | Npos p -> int_of_pos p
let int_of_z = function Z0 -> 0 | Zpos p -> int_of_pos p | Zneg p -> - (int_of_pos p)
let rec int_of_nat = function O -> 0 | S n -> 1 + int_of_nat n
let rec nat_of_int i = if i <= 0 then O else S (nat_of_int (i - 1))

let n10 = n_of_int 10
let n_of_string s =
  let r = ref N0 in
  String.iter (fun c -> if c >= '0' && c <= '9' then r := N.add (N.mul !r n10) (n_of_int (Char.code c - 48))) s;
  !r
let string_of_n x =
  if x = N0 then "0" else begin
    let b = Buffer.create 24 and cur = ref x and digits = ref [] in
    while !cur <> N0 do
      let (q, r) = N.div_eucl !cur n10 in
      digits := int_of_n r :: !digits; cur := q
    done;
    List.iter (fun d -> Buffer.add_char b (Char.chr (48 + d))) !digits;
    Buffer.contents b
  end

let unhex s =
  if s = "-" then [] else
  List.init (String.length s / 2) (fun i -> n_of_int (int_of_string ("0x" ^ String.sub s (2 * i) 2)))
let hex l = String.concat "" (List.map (fun b -> Printf.sprintf "%02x" (int_of_n b)) l)

let pad_to n l =
  let len = List.length l in
  if len >= n then List.filteri (fun i _ -> i < n) l else l @ List.init (n - len) (fun _ -> N0)

let which s = if s <> "" && s.[0] = 'B' then 1 else 0

(* the heap of the case *)
let hp = ref (heap0 [])
(* K = "0" | "k1,k2,...": the 1-based numbers of the allocation calls that return NULL *)
let new_heap (k : string) =
  let ks = List.filter (fun x -> x > 0) (List.map (fun x -> try int_of_string x with _ -> 0) (String.split_on_char ',' k)) in
  let mx = List.fold_left max 0 ks in
  hp := heap0 (List.init mx (fun i -> not (List.mem (i + 1) ks)))

let id_str name = function None -> Printf.sprintf " %s=-" name | Some i -> Printf.sprintf " %s=%s" name (string_of_n i)

let print_live tag =
  let ids = List.sort compare (List.map int_of_n !hp.h_live) in
  Printf.printf "%s live=%s calls=%s\n" tag (String.concat "," (List.map string_of_int ids)) (string_of_n !hp.h_calls);
  if !hp.h_bad then print_string "BADFREE model\n"

(* ------------------------------------------------------------------ hash table *)
let hkeq (a : n * n) (b : n * n) = N.eqb (snd a) (snd b)

let run_ht next_line =
  let t : (((n * n), n) ahtab) option array = [| None; None |] in
  let (r, h) = ht_create_a !hp in
  hp := h; t.(0) <- r;
  Printf.printf "init %s\n" (if r = None then "null" else "ok");
  let continue = ref true in
  while !continue do
    match next_line () with
    | None | Some ("END" :: _) -> continue := false
    | Some ["c"] ->
      (match t.(1) with Some x -> hp := ht_destroy_a x !hp; t.(1) <- None | None -> ());
      (match t.(0) with
       | None -> print_string "c noobj\n"
       | Some x ->
         let (r, h) = ht_clone_a x !hp in
         hp := h; t.(1) <- r; Printf.printf "c %s\n" (if r = None then "null" else "ok"))
    | Some (w :: op :: args) ->
      let w = which w in
      (match t.(w) with
       | None -> Printf.printf "%s noobj\n" op
       | Some ht ->
         (match op, args with
          | "i", [h; id; cls; data] ->
            (match ht_insert_a hkeq ht (n_of_string h) (n_of_string id, n_of_string cls) (n_of_string data) !hp with
             | Ok ((ht', Some a), h') -> hp := h'; t.(w) <- Some ht'; Printf.printf "i @%s\n" (string_of_n a)
             | Ok ((ht', None), h') -> hp := h'; t.(w) <- Some ht'; print_string "i NULL\n"
             | Crash -> print_string "i CRASH\n"
             | OutOfFuel -> print_string "i OUTOFFUEL\n")
          | ("s" | "r"), [h; id; cls] ->
            (match ht_search_a hkeq ht (n_of_string h) (n_of_string id, n_of_string cls) with
             | Ok (Some a) ->
               (match ht_entry ht.ah_core a with
                | Some ((eh, (kid, kcls)), d) ->
                  Printf.printf "%s @%s %s %s %s %s\n" op (string_of_n a) (string_of_n eh) (string_of_n kid)
                    (string_of_n kcls) (string_of_n d)
                | None -> Printf.printf "%s BADENTRY\n" op);
               if op = "r" then t.(w) <- Some (ht_remove_a ht a)
             | Ok None -> Printf.printf "%s -\n" op
             | Crash -> Printf.printf "%s CRASH\n" op
             | OutOfFuel -> Printf.printf "%s OUTOFFUEL\n" op)
          | "d", _ ->
            let c = ht.ah_core in
            Printf.printf "d%s%s si=%d size=%s rehash=%s max=%s n=%s del=%s :" (id_str "sid" (Some ht.ah_sid))
              (id_str "tid" (Some ht.ah_tid)) (int_of_nat c.ht_size_index)
              (string_of_n c.ht_size) (string_of_n c.ht_rehash) (string_of_n c.ht_max_entries)
              (string_of_n c.ht_entries) (string_of_n c.ht_deleted);
            List.iteri (fun i s ->
                match s with
                | SFree -> ()
                | SDeleted -> Printf.printf " %d=D" i
                | SPresent (h, (kid, kcls), d) ->
                  Printf.printf " %d=%s/%s/%s/%s" i (string_of_n h) (string_of_n kid) (string_of_n kcls) (string_of_n d))
              c.ht_table;
            print_string "\n"
          | "x", _ -> hp := ht_destroy_a ht !hp; t.(w) <- None; print_string "x\n"
          | _ -> print_string "?\n"))
    | Some _ -> ()
  done;
  print_live "L1";
  Array.iter (function Some x -> hp := ht_destroy_a x !hp | None -> ()) t

(* ------------------------------------------------------------------ rbtree *)
let run_rb next_line ks vs =
  let cmp = cmp_bytes in
  let (ret, t0) = rbtree_init (n_of_string ks) (n_of_string vs) in
  let t : rbtree option array = [| None; None |] in
  Printf.printf "init ret=%d" (int_of_z ret);
  if ret = Z0 then begin
    Printf.printf " ks=%s ksp=%s vs=%s" (string_of_n t0.rb_key_size) (string_of_n t0.rb_key_size_padded)
      (string_of_n t0.rb_value_size);
    t.(0) <- Some t0
  end;
  print_string "\n";
  let ksi = int_of_n t0.rb_key_size and vsi = int_of_n t0.rb_value_size in
  let cleanup w = match t.(w) with Some x -> hp := snd (rbtree_cleanup_a x !hp); t.(w) <- None | None -> () in
  let continue = ref true in
  while !continue do
    match next_line () with
    | None | Some ("END" :: _) -> continue := false
    | Some ["c"] ->
      cleanup 1;
      (match t.(0) with
       | None -> print_string "c noobj\n"
       | Some x ->
         (match rbtree_copy_a x !hp with
          | Some ((ret, y), h') ->
            hp := h'; t.(1) <- (if ret = Z0 then Some y else None); Printf.printf "c ret=%d\n" (int_of_z ret)
          | None -> t.(1) <- None; print_string "c CRASH\n"))
    | Some (w :: op :: args) ->
      let w = which w in
      (match t.(w) with
       | None -> Printf.printf "%s noobj\n" op
       | Some rb ->
         (match op, args with
          | "i", (k :: rest) ->
            let v = match rest with v :: _ -> v | [] -> "" in
            (match rbtree_insert_a cmp rb (pad_to ksi (unhex k)) (pad_to vsi (unhex v)) !hp with
             | Some ((ret, rb'), h') -> hp := h'; t.(w) <- Some rb'; Printf.printf "i ret=%d\n" (int_of_z ret)
             | None -> print_string "i CRASH\n")
          | "l", [k] ->
            (match rbtree_lookup cmp rb (pad_to ksi (unhex k)) with
             | Leaf -> print_string "l -\n"
             | Node (id, _, red, voff, data, _) ->
               Printf.printf "l id=%s red=%d voff=%s data=%s\n" (string_of_n id) (if red then 1 else 0)
                 (string_of_n voff) (hex data))
          | "d", _ ->
            let d = dump rb.rb_root N0 in
            Printf.printf "d n=%d :" (List.length d);
            List.iter (fun ((((id, red), depth), voff), data) ->
                Printf.printf " %s/%d/%s/%s/%s" (string_of_n id) (if red then 1 else 0) (string_of_n depth)
                  (string_of_n voff) (hex data)) d;
            print_string "\n"
          | "x", _ -> cleanup w; print_string "x\n"
          | _ -> print_string "?\n"))
    | Some _ -> ()
  done;
  print_live "L1";
  cleanup 0; cleanup 1

(* ------------------------------------------------------------------ str_table *)
let run_st next_line =
  let b = ref { bh_next = N0; bh_cells = [] } in
  let t : astr option array = [| None; None |] in
  let ((ret, st), h) = str_table_init_a !hp in
  hp := h;
  Printf.printf "init ret=%d\n" (int_of_z ret);
  if ret = Z0 then t.(0) <- st;
  let cleanup w =
    match t.(w) with
    | Some x -> let (b', h') = str_table_cleanup_a !b x !hp in b := b'; hp := h'; t.(w) <- None
    | None -> () in
  let rc st i =
    match str_table_get_ref_count !b st.as_core i with
    | SOk r -> "rc=" ^ string_of_n r | SCrash -> "CRASH" | SOutOfFuel -> "OUTOFFUEL" in
  let continue = ref true in
  while !continue do
    match next_line () with
    | None | Some ("END" :: _) -> continue := false
    | Some ["c"] ->
      cleanup 1;
      (match t.(0) with
       | None -> print_string "c noobj\n"
       | Some src ->
         (match str_table_copy_a fixed !b src src !hp with
          | SOk (((b', dst), ret), h') ->
            b := b'; hp := h'; Printf.printf "c ret=%d\n" (int_of_z ret); t.(1) <- (if ret = Z0 then dst else None)
          | SCrash -> t.(1) <- None; print_string "c CRASH\n"
          | SOutOfFuel -> t.(1) <- None; print_string "c OUTOFFUEL\n"))
    | Some (w :: op :: args) ->
      let w = which w in
      (match t.(w) with
       | None -> Printf.printf "%s noobj\n" op
       | Some st ->
         let arg0 = match args with a :: _ -> a | [] -> "" in
         (match op with
          | "g" ->
            (match str_table_get_index_a fixed !b st (unhex arg0) !hp with
             | SOk ((((b', st'), ret), idx), h') ->
               b := b'; hp := h'; t.(w) <- Some st';
               Printf.printf "g ret=%d idx=%s\n" (int_of_z ret) (if ret = Z0 then string_of_n idx else "0")
             | SCrash -> print_string "g CRASH\n"
             | SOutOfFuel -> print_string "g OUTOFFUEL\n")
          | "s" ->
            (match str_table_get_string !b st.as_core (n_of_string arg0) with
             | SOk (Some s) -> Printf.printf "s =%s\n" (hex s)
             | SOk None -> print_string "s -\n"
             | SCrash -> print_string "s CRASH\n"
             | SOutOfFuel -> print_string "s OUTOFFUEL\n")
          | "+" ->
            (match str_table_add_ref !b st.as_core (n_of_string arg0) with
             | SOk b' -> b := b'; Printf.printf "+ %s\n" (rc st (n_of_string arg0))
             | _ -> print_string "+ CRASH\n")
          | "-" ->
            (match str_table_del_ref !b st.as_core (n_of_string arg0) with
             | SOk b' -> b := b'; Printf.printf "- %s\n" (rc st (n_of_string arg0))
             | _ -> print_string "- CRASH\n")
          | "d" ->
            let c = st.as_core in
            let ht = c.st_ht and a = c.st_arr in
            Printf.printf "d%s%s%s next=%s used=%s count=%s size=%s si=%d n=%s del=%s :" (id_str "aid" st.as_aid)
              (id_str "sid" (Some st.as_sid)) (id_str "tid" (Some st.as_tid)) (string_of_n c.st_next_index)
              (string_of_n a.a_used) (string_of_n a.a_count) (string_of_n a.a_size) (int_of_nat ht.ht_size_index)
              (string_of_n ht.ht_entries) (string_of_n ht.ht_deleted);
            List.iteri (fun i s ->
                match s with
                | SFree -> ()
                | SDeleted -> Printf.printf " %d=D" i
                | SPresent (hash, (owner, _), bid) ->
                  (match bh_get !b bid with
                   | Some bk ->
                     Printf.printf " %d=%s/%s/%d/%s/%s/%s" i (string_of_n hash) (string_of_n bid)
                       (if owner = Some bid then 1 else 0) (string_of_n bk.b_index) (string_of_n bk.b_refcount)
                       (hex bk.b_string)
                   | None -> Printf.printf " %d=DANGLING" i))
              ht.ht_table;
            print_string " |";
            List.iter (fun bid -> Printf.printf " %s" (string_of_n bid)) a.a_data;
            print_string "\n"
          | "x" -> cleanup w; print_string "x\n"
          | _ -> print_string "?\n"))
    | Some _ -> ()
  done;
  print_live "L1";
  cleanup 0; cleanup 1

(* ------------------------------------------------------------------ array *)
let run_ar next_line size cap =
  let ((ret, a0), h) = array_init_a (n_of_string size) (n_of_string cap) !hp in
  hp := h;
  let t : (n list) aarr option array = [| None; None |] in
  Printf.printf "init ret=%d size=%s count=%s used=%s\n" (int_of_z ret) (string_of_n a0.aa_core.a_size)
    (string_of_n a0.aa_core.a_count) (string_of_n a0.aa_core.a_used);
  if ret = Z0 then t.(0) <- Some a0;
  let cleanup w = match t.(w) with Some x -> hp := snd (array_cleanup_a x !hp); t.(w) <- None | None -> () in
  let continue = ref true in
  while !continue do
    match next_line () with
    | None | Some ("END" :: _) -> continue := false
    | Some ["c"] ->
      cleanup 1;
      (match t.(0) with
       | None -> print_string "c noobj\n"
       | Some src ->
         let ((ret, dst), h') = array_init_copy_a src !hp in
         hp := h';
         Printf.printf "c ret=%d\n" (int_of_z ret);
         t.(1) <- (if ret = Z0 then Some dst else None))
    | Some (w :: op :: args) ->
      let w = which w in
      (match t.(w) with
       | None -> Printf.printf "%s noobj\n" op
       | Some a ->
         let esz = int_of_n a.aa_core.a_size in
         (match op, args with
          | "a", _ ->
            let x = match args with x :: _ -> x | [] -> "" in
            let ((ret, a'), h') = array_append_a a (pad_to esz (unhex x)) !hp in
            hp := h'; t.(w) <- Some a'; Printf.printf "a ret=%d\n" (int_of_z ret)
          | "c", [cap] ->
            (match array_set_capacity_a a (n_of_string cap) !hp with
             | Ok ((ret, a'), h') ->
               hp := h'; t.(w) <- Some a'; Printf.printf "c ret=%d count=%s\n" (int_of_z ret) (string_of_n a'.aa_core.a_count)
             | Crash -> print_string "c CRASH\n"
             | OutOfFuel -> print_string "c OUTOFFUEL\n")
          | "g", [i] ->
            (match array_get_a a (n_of_string i) with
             | Some e -> Printf.printf "g =%s\n" (hex e)
             | None -> print_string "g -\n")
          | "s", (i :: rest) ->
            let x = match rest with x :: _ -> x | [] -> "" in
            let (ret, a') = array_set_a a (n_of_string i) (pad_to esz (unhex x)) in
            t.(w) <- Some a'; Printf.printf "s ret=%d\n" (int_of_z ret)
          | "d", _ ->
            let c = a.aa_core in
            Printf.printf "d%s size=%s count=%s used=%s :" (id_str "id" a.aa_id) (string_of_n c.a_size)
              (string_of_n c.a_count) (string_of_n c.a_used);
            List.iter (fun e -> Printf.printf " %s" (hex e)) c.a_data;
            print_string "\n"
          | "x", _ -> cleanup w; print_string "x\n"
          | _ -> print_string "?\n"))
    | Some _ -> ()
  done;
  print_live "L1";
  cleanup 0; cleanup 1

(* ------------------------------------------------------------------ xattr writer *)
let run_xw next_line =
  let b = ref { bh_next = N0; bh_cells = [] } in
  let (r, h) = xw_create2_a !hp in
  hp := h;
  let xw : axw2 option ref = ref r in
  Printf.printf "init %s\n" (if r = None then "null" else "ok");
  let dump_table name (st : astr) =
    let c = st.as_core in
    Printf.printf " %s[%s%s%s next=%s n=%s si=%d :" name (id_str "aid" st.as_aid) (id_str "sid" (Some st.as_sid))
      (id_str "tid" (Some st.as_tid)) (string_of_n c.st_next_index) (string_of_n c.st_ht.ht_entries)
      (int_of_nat c.st_ht.ht_size_index);
    List.iter (fun bid ->
        match bh_get !b bid with
        | Some bk -> Printf.printf " %s/%s/%s" (string_of_n bid) (string_of_n bk.b_refcount) (hex bk.b_string)
        | None -> Printf.printf " %s/DANGLING" (string_of_n bid)) c.st_arr.a_data;
    print_string " ]" in
  let destroy () =
    match !xw with
    | Some w -> let (b', h') = xw_destroy2_a !b w !hp in b := b'; hp := h'; xw := None
    | None -> () in
  let continue = ref true in
  while !continue do
    match next_line () with
    | None | Some ("END" :: _) -> continue := false
    | Some (_ :: op :: args) ->
      (match !xw with
       | None -> Printf.printf "%s noobj\n" op
       | Some w2 ->
         let w = w2.x2_w in
         (match op, args with
          | "b", _ ->
            let w' = xw_begin2_a w2 in
            xw := Some w'; Printf.printf "b ret=0 start=%s\n" (string_of_n w'.x2_w.xw_start)
          | "a", (k :: rest) ->
            let v = match rest with v :: _ -> v | [] -> "" in
            (match xw_add_kv_chk_a fixed !b w (unhex k) (unhex v) !hp with
             | SOk (((b', w'), ret), h') ->
               b := b'; hp := h'; xw := Some { w2 with x2_w = w' }; Printf.printf "a ret=%d\n" (int_of_z ret)
             | SCrash -> print_string "a CRASH\n"
             | SOutOfFuel -> print_string "a OUTOFFUEL\n")
          | ("e" | "E"), _ ->
            print_string op;
            let tries = ref (if op = "E" then 2 else 1) in
            while !tries > 0 do
              decr tries;
              (match !xw with
               | None -> ()
               | Some cur ->
                 (match xw_end_a cur !hp with
                  | EOk (w', ret, out, h') ->
                    hp := h'; xw := Some w';
                    if ret = Z0 then begin
                      Printf.printf " ret=0 out=%s" (match out with Some i -> string_of_n i | None -> "UNASSIGNED");
                      tries := 0
                    end else
                      Printf.printf " ret=%d out=%s" (int_of_z ret) (match out with None -> "-" | Some _ -> "ASSIGNED")
                  | ECrash -> print_string " CRASH"; tries := 0))
            done;
            print_string "\n"
          | "f", _ ->
            (match xw_flush_a !b w2 !hp with
             | (Some ret, h') -> hp := h'; Printf.printf "f ret=%d\n" (int_of_z ret)
             | (None, h') -> hp := h'; print_string "f CRASH\n")
          | "d", _ ->
            Printf.printf "d%s" (id_str "xid" (Some w.xw_id));
            dump_table "keys" w.xw_keys;
            dump_table "values" w.xw_values;
            let p = w.xw_pairs in
            Printf.printf " pairs[%s count=%s used=%s start=%s :" (id_str "id" p.aa_id) (string_of_n p.aa_core.a_count)
              (string_of_n p.aa_core.a_used) (string_of_n w.xw_start);
            List.iter (fun e -> Printf.printf " %s" (string_of_n e)) p.aa_core.a_data;
            print_string " ]";
            let t = w2.x2_tree in
            Printf.printf " tree[ ks=%s ksp=%s vs=%s nb=%s :" (string_of_n t.rb_key_size) (string_of_n t.rb_key_size_padded)
              (string_of_n t.rb_value_size) (string_of_n w2.x2_num);
            List.iter (fun ((((id, red), depth), voff), data) ->
                Printf.printf " %s/%d/%s/%s/%s/%s" (string_of_n id) (if red then 1 else 0) (string_of_n depth)
                  (string_of_n (key_start data)) (string_of_n (key_count data)) (string_of_n (elem_idx ((id, voff), data))))
              (dump t.rb_root N0);
            print_string " ] chain[";
            List.iter (fun id -> Printf.printf " %s" (string_of_n id)) w2.x2_chain;
            print_string " ]\n"
          | "x", _ -> destroy (); print_string "x\n"
          | _ -> print_string "?\n"))
    | Some _ -> ()
  done;
  print_live "L1";
  destroy ()

let split s = List.filter (fun x -> x <> "") (String.split_on_char ' ' s)

let () =
  let next_line () = try Some (split (input_line stdin)) with End_of_file -> None in
  let go = ref true in
  while !go do
    match next_line () with
    | None -> go := false
    | Some ("CASE" :: id :: kind :: k :: params) ->
      Printf.printf "CASE %s\n" id;
      new_heap k;
      (try
         (match kind, params with
          | "HT", _ -> run_ht next_line
          | "RB", (ks :: vs :: _) -> run_rb next_line ks vs
          | "ST", _ -> run_st next_line
          | "AR", (size :: cap :: _) -> run_ar next_line size cap
          | "XW", _ -> run_xw next_line
          | _ -> ())
       with Failure m | Invalid_argument m -> Printf.printf "ERROR %s\n" m);
      print_live "L2";
      print_string "END\n"
    | Some _ -> ()
  done
