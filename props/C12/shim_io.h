/* C12 I/O shim, see shim_io.c */
#ifndef C12_SHIM_IO_H
#define C12_SHIM_IO_H
#include <stddef.h>
#include <stdint.h>

enum { SHIM_MIX = 0, SHIM_ONE = 1, SHIM_FULL = 2, SHIM_FIXED = 3 };

struct shim_cfg {
	uint64_t seed;
	int mode;	/* SHIM_* */
	int eintr_pm;	/* per-mille probability that a call starts an EINTR burst */
	int max_burst;	/* burst length 1..max_burst */
	long fail_at;	/* call index that fails with EIO (-1: never) */
	long zero_at;	/* write-like call index that returns 0 (-1: never) */
	int active;
	int fixed;	/* count for SHIM_FIXED */
	long eagain_at[3];	/* call indices that fail with EAGAIN (-1: unused); component tie only.
				   NB: a zero-initialised cfg has eagain_at = {0,0,0}; eagain_on gates them */
	int eagain_on;
};

struct shim_rec {
	char kind;	/* r w R W t */
	int fd;
	size_t req;
	long long off;
	long ret;
	int err;
};

void shim_configure(const struct shim_cfg *c);
const struct shim_rec *shim_log(size_t *count);
void shim_log_reset(void);
unsigned long shim_calls(void);
#endif
