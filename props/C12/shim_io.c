/* C12 I/O shim: turns every read/write/pread/pwrite (and ftruncate) of the code under
 * test into a seeded short count / EINTR burst / (component tie only) failure, and logs the
 * outcome stream.
 *
 * Two build modes:
 *   -DSHIM_WRAP     link-time wrapping (-Wl,--wrap=read,--wrap=write,--wrap=pread,--wrap=pwrite,
 *                   --wrap=ftruncate): only the calls made by the objects of the harness link
 *                   (repo objects + harness) are affected, glibc's own stdio is not.
 *                   Configured through shim_configure(); log read through shim_log()/shim_log_reset().
 *   (default)       LD_PRELOAD library for the tools; configured through C12_SHIM=seed:mode:eintr_pm
 *                   glibc-internal stdio writes do not go through the PLT and are not affected.
 *
 * Outcomes the shim produces and why each is something the kernel may do (POSIX read(2)/write(2)):
 *   short count  the real call is issued with a smaller count n' (1 <= n' <= req); whatever the
 *                kernel then returns (<= n') is returned.  Legal for every file type ("may be less
 *                than nbyte if ... interrupted by a signal after some data / pipe / fewer bytes
 *                immediately available"; for writes "fewer than nbyte" on ENOSPC-near, signal, pipe).
 *   EINTR        -1/errno=EINTR *without* issuing the real call (no data transferred), bursts bounded.
 *   EOF (0)      never injected for reads: a 0 result before end-of-file is not kernel behaviour; the 0
 *                results in the logs are the real kernel's.
 *   0 from write never injected at tool level: for a non-zero request POSIX leaves a 0 result
 *                unspecified for non-regular files and Linux does not produce it for blocking
 *                descriptors; the code under test treats it as an error (EPIPE / OUT_OF_BOUNDS).  The
 *                component tie injects it on request (zero_at) to validate exactly that error path.
 *   failure      -1/EIO without issuing the call, only on request (fail_at), component tie only.
 *   EAGAIN       -1/EAGAIN without issuing the call, only on request (eagain_at[], eagain_on),
 *                component tie only: what a descriptor in O_NONBLOCK mode answers when it has
 *                nothing to deliver / no room right now.  Logged as its own outcome ("=A").
 * Requests of 0 bytes are passed through untouched.  fd 2 is never touched.
 */
#define _GNU_SOURCE
#include <errno.h>
#include <stdint.h>
#include <stdlib.h>
#include <string.h>
#include <unistd.h>
#include <sys/types.h>

#include "shim_io.h"

static struct shim_cfg cfg = { 0, 0, 0, 4, -1, -1, 0, 0, { -1, -1, -1 }, 0 };
static unsigned long call_index;
static int burst_left;

static uint64_t mix(uint64_t x)
{
	x += 0x9E3779B97F4A7C15ull;
	x = (x ^ (x >> 30)) * 0xBF58476D1CE4E5B9ull;
	x = (x ^ (x >> 27)) * 0x94D049BB133111EBull;
	return x ^ (x >> 31);
}

/* decision for call number idx with request req: returns the count to issue, or 0 = EINTR,
 * -1 = fail, -2 = return zero, -3 = EAGAIN */
static long decide(unsigned long idx, size_t req, int is_write)
{
	uint64_t r = mix(cfg.seed * 0x100000001B3ull + idx);
	uint64_t r2 = mix(r);
	size_t n;

	if (cfg.fail_at >= 0 && (long)idx == cfg.fail_at)
		return -1;
	if (cfg.eagain_on) {
		int i;
		for (i = 0; i < 3; ++i) {
			if (cfg.eagain_at[i] >= 0 && (long)idx == cfg.eagain_at[i])
				return -3;
		}
	}
	if (cfg.zero_at >= 0 && (long)idx == cfg.zero_at && is_write)
		return -2;
	if (burst_left > 0) {
		--burst_left;
		return 0;
	}
	if (cfg.eintr_pm > 0 && (r % 1000) < (uint64_t)cfg.eintr_pm) {
		burst_left = (int)((r >> 20) % (uint64_t)(cfg.max_burst > 0 ? cfg.max_burst : 1));
		return 0;
	}
	switch (cfg.mode) {
	case SHIM_FULL:
		return (long)req;
	case SHIM_ONE:
		return 1;
	case SHIM_FIXED:
		n = cfg.fixed > 0 ? (size_t)cfg.fixed : 1;
		return (long)(n < req ? n : req);
	default:
		break;
	}
	switch (r2 % 8) {
	case 0: n = 1; break;
	case 1: n = 1 + (r2 >> 8) % 16; break;
	case 2: n = req > 1 ? req - 1 : 1; break;
	case 3: n = req; break;
	case 4: n = 1 + (r2 >> 8) % 700; break;	/* around the 512-byte tar record */
	case 5: n = (req + 1) / 2; break;
	default: n = 1 + (r2 >> 8) % req; break;
	}
	if (n > req)
		n = req;
	if (n < 1)
		n = 1;
	return (long)n;
}

/* ---- log ---- */
#ifdef SHIM_WRAP
static struct shim_rec *log_buf;
static size_t log_len, log_cap;

static void log_add(char kind, int fd, size_t req, long long off, long ret, int err)
{
	if (log_len == log_cap) {
		log_cap = log_cap ? log_cap * 2 : 1024;
		log_buf = realloc(log_buf, log_cap * sizeof(*log_buf));
		if (log_buf == NULL)
			abort();
	}
	log_buf[log_len].kind = kind;
	log_buf[log_len].fd = fd;
	log_buf[log_len].req = req;
	log_buf[log_len].off = off;
	log_buf[log_len].ret = ret;
	log_buf[log_len].err = err;
	++log_len;
}

void shim_configure(const struct shim_cfg *c)
{
	cfg = *c;
	call_index = 0;
	burst_left = 0;
}

const struct shim_rec *shim_log(size_t *count)
{
	*count = log_len;
	return log_buf;
}

void shim_log_reset(void)
{
	log_len = 0;
}

unsigned long shim_calls(void)
{
	return call_index;
}

#define REAL(name) __real_##name
#define WRAP(name) __wrap_##name
ssize_t __real_read(int, void *, size_t);
ssize_t __real_write(int, const void *, size_t);
ssize_t __real_pread(int, void *, size_t, off_t);
ssize_t __real_pwrite(int, const void *, size_t, off_t);
int __real_ftruncate(int, off_t);
#define ACTIVE(fd) (cfg.active && (fd) != 2)
#define NEXT_INDEX() (call_index++)
#define LOG(k, fd, req, off, ret, err) log_add(k, fd, req, off, ret, err)
#else
#include <dlfcn.h>
#include <stdio.h>
#define REAL(name) real_##name
#define WRAP(name) name
static ssize_t (*real_read)(int, void *, size_t);
static ssize_t (*real_write)(int, const void *, size_t);
static ssize_t (*real_pread)(int, void *, size_t, off_t);
static ssize_t (*real_pwrite)(int, const void *, size_t, off_t);
static int (*real_ftruncate)(int, off_t);
static int inited;
static int stats_fd = -1;
static unsigned long n_short, n_eintr;

static void shim_init(void)
{
	const char *e;

	if (inited)
		return;
	real_read = dlsym(RTLD_NEXT, "read");
	real_write = dlsym(RTLD_NEXT, "write");
	real_pread = dlsym(RTLD_NEXT, "pread");
	real_pwrite = dlsym(RTLD_NEXT, "pwrite");
	real_ftruncate = dlsym(RTLD_NEXT, "ftruncate");
	e = getenv("C12_SHIM");
	if (e != NULL) {
		unsigned long long seed = 0;
		int mode = 0, pm = 0, fixed = 0;
		sscanf(e, "%llu:%d:%d:%d", &seed, &mode, &pm, &fixed);
		cfg.seed = seed;
		cfg.mode = mode;
		cfg.eintr_pm = pm;
		cfg.fixed = fixed;
		cfg.max_burst = 3;
		cfg.fail_at = -1;
		cfg.zero_at = -1;
		cfg.active = 1;
	}
	e = getenv("C12_SHIM_STATS");
	if (e != NULL)
		stats_fd = atoi(e);
	inited = 1;
}

__attribute__((destructor)) static void shim_fini(void)
{
	if (stats_fd >= 0 && real_write != NULL) {
		char b[128];
		int n = snprintf(b, sizeof(b), "calls=%lu short=%lu eintr=%lu\n",
				 call_index, n_short, n_eintr);
		real_write(stats_fd, b, (size_t)n);
	}
}
#define ACTIVE(fd) (shim_init(), cfg.active && (fd) != 2 && (fd) != stats_fd)
#define NEXT_INDEX() __atomic_fetch_add(&call_index, 1, __ATOMIC_RELAXED)
#define LOG(k, fd, req, off, ret, err) \
	do { if ((err) == EINTR && (ret) < 0) __atomic_fetch_add(&n_eintr, 1, __ATOMIC_RELAXED); \
	     else if ((ret) >= 0 && (size_t)(ret) < (req)) __atomic_fetch_add(&n_short, 1, __ATOMIC_RELAXED); } while (0)
#endif

#define BODY(kind, is_write, CALL_FULL, CALL_N, off)                         \
	long n;                                                              \
	ssize_t ret;                                                         \
	int e;                                                               \
	if (!ACTIVE(fd) || count == 0)                                       \
		return CALL_FULL;                                            \
	n = decide(NEXT_INDEX(), count, is_write);                           \
	if (n == 0) {                                                        \
		LOG(kind, fd, count, off, -1, EINTR);                        \
		errno = EINTR;                                               \
		return -1;                                                   \
	}                                                                    \
	if (n == -1) {                                                       \
		LOG(kind, fd, count, off, -1, EIO);                          \
		errno = EIO;                                                 \
		return -1;                                                   \
	}                                                                    \
	if (n == -2) {                                                       \
		LOG(kind, fd, count, off, 0, 0);                             \
		return 0;                                                    \
	}                                                                    \
	if (n == -3) {                                                       \
		LOG(kind, fd, count, off, -1, EAGAIN);                       \
		errno = EAGAIN;                                              \
		return -1;                                                   \
	}                                                                    \
	ret = CALL_N;                                                        \
	e = errno;                                                           \
	LOG(kind, fd, count, off, (long)ret, ret < 0 ? e : 0);               \
	errno = e;                                                           \
	return ret;

ssize_t WRAP(read)(int fd, void *buf, size_t count)
{
	BODY('r', 0, REAL(read)(fd, buf, count), REAL(read)(fd, buf, (size_t)n), -1)
}

ssize_t WRAP(write)(int fd, const void *buf, size_t count)
{
	BODY('w', 1, REAL(write)(fd, buf, count), REAL(write)(fd, buf, (size_t)n), -1)
}

ssize_t WRAP(pread)(int fd, void *buf, size_t count, off_t offset)
{
	BODY('R', 0, REAL(pread)(fd, buf, count, offset), REAL(pread)(fd, buf, (size_t)n, offset), (long long)offset)
}

ssize_t WRAP(pwrite)(int fd, const void *buf, size_t count, off_t offset)
{
	BODY('W', 1, REAL(pwrite)(fd, buf, count, offset), REAL(pwrite)(fd, buf, (size_t)n, offset), (long long)offset)
}

int WRAP(ftruncate)(int fd, off_t length)
{
	long n;
	int ret, e;

	if (!ACTIVE(fd))
		return REAL(ftruncate)(fd, length);
	/* only EINTR / failure make sense here; "request" is logged as 1 */
	n = decide(NEXT_INDEX(), 1, 0);
	if (n == 0) {
		LOG('t', fd, (size_t)1, (long long)length, -1, EINTR);
		errno = EINTR;
		return -1;
	}
	if (n == -1) {
		LOG('t', fd, (size_t)1, (long long)length, -1, EIO);
		errno = EIO;
		return -1;
	}
	if (n == -3) {
		LOG('t', fd, (size_t)1, (long long)length, -1, EAGAIN);
		errno = EAGAIN;
		return -1;
	}
	ret = REAL(ftruncate)(fd, length);
	e = errno;
	LOG('t', fd, (size_t)1, (long long)length, (long)(ret == 0 ? 1 : -1), ret ? e : 0);
	errno = e;
	return ret;
}

#ifdef SHIM_WRAP
/* LFS names, in case a build maps the calls to them (link with --wrap=pread64,... as well) */
ssize_t __wrap_pread64(int fd, void *buf, size_t count, off_t offset)
{
	return __wrap_pread(fd, buf, count, offset);
}

ssize_t __wrap_pwrite64(int fd, const void *buf, size_t count, off_t offset)
{
	return __wrap_pwrite(fd, buf, count, offset);
}

int __wrap_ftruncate64(int fd, off_t length)
{
	return __wrap_ftruncate(fd, length);
}
#else
/* LFS aliases: the same entry points under their *64 names */
ssize_t pread64(int fd, void *buf, size_t count, off_t offset)
{
	return pread(fd, buf, count, offset);
}

ssize_t pwrite64(int fd, const void *buf, size_t count, off_t offset)
{
	return pwrite(fd, buf, count, offset);
}

int ftruncate64(int fd, off_t length)
{
	return ftruncate(fd, length);
}
#endif
