"""C12 — results do not depend on how the OS splits reads and writes.

Theorems: coq/Properties_C12.v (retry loops of file.c / ostream.c / istream.c, the buffered istream,
stream_api.c, get_line.c, record_to_memory.c as an executable model over an outcome-stream oracle).
Tie (trace): props/C12/h_io.c runs op lists on the working tree's real objects while shim_io.c
(--wrap=read,write,pread,pwrite,ftruncate) splits / interrupts / fails the calls and logs them; the
extracted model replays the same ops on the logged outcome stream and must predict every result,
every request (kind, size, offset) and the final file contents.
Search: (a) the same op lists / tar archives run on the C objects under an all-full plan and under the
chunked plan must give the same results; (b) the five tools with and without the LD_PRELOAD shim and
with stdin/stdout through real pipes in 1/7/511/513/4096/65537-byte chunks: sha256 + exit status."""
import hashlib
import json
import os
import random
import re
import resource
import shutil
import subprocess
import tarfile
import io
import time
from concurrent.futures import ThreadPoolExecutor

from vlib import build as B
from vlib import core

HERE = os.path.dirname(os.path.abspath(__file__))
LEVEL = "proof"
WRAP = ("-Wl,--wrap=read,--wrap=write,--wrap=pread,--wrap=pwrite,--wrap=ftruncate,"
        "--wrap=pread64,--wrap=pwrite64,--wrap=ftruncate64")
MODE_MIX, MODE_ONE, MODE_FULL, MODE_FIXED = 0, 1, 2, 3
PIPE_CHUNKS = [1, 7, 511, 513, 4096, 65537]


# --------------------------------------------------------------------------
# case generation
# --------------------------------------------------------------------------

def gen_text(rnd, n):
    """line-structured data: CRLF, blank lines, white space, NULs, lines longer than any buffer piece"""
    out = bytearray()
    while len(out) < n:
        k = rnd.random()
        if k < 0.15:
            line = b""
        elif k < 0.25:
            line = b" \t" * rnd.randint(0, 3)
        elif k < 0.30:
            line = bytes(rnd.choice(b"ab \t\x00\r\x0b\x0c") for _ in range(rnd.randint(1, 12)))
        elif k < 0.33:
            line = bytes(rnd.choice(b"xyz ") for _ in range(rnd.randint(2000, 9000)))
        else:
            line = rnd.choice([b"", b" ", b"\t "]) + bytes(rnd.choice(b"abcdefgh /=#") for _ in range(rnd.randint(1, 60))) + rnd.choice([b"", b" ", b"  \t"])
        out += line + rnd.choice([b"\n", b"\n", b"\r\n", b"\r\r\n"])
    out = out[:n]
    if out and rnd.random() < 0.5:
        out = out.rstrip(b"\n") or out
    return bytes(out)


def gen_data(rnd, n, style):
    if style == "text":
        return gen_text(rnd, n)
    if style == "zeros":
        return bytes(n)
    return rnd.randbytes(n)


def pick_size(rnd, bufsz, remaining_hint):
    c = rnd.random()
    if c < 0.25:
        return rnd.choice([0, 1, 2, 511, 512, 513, 1023, 1024, 1025])
    if c < 0.45:
        return rnd.randint(1, 5000)
    if c < 0.60:
        return rnd.choice([bufsz - 1, bufsz, bufsz + 1, 2 * bufsz, 2 * bufsz + 1]) if remaining_hint > 20000 else rnd.randint(1, 3000)
    if c < 0.75:
        return max(0, remaining_hint + rnd.choice([-1, 0, 1, 1000]))
    return rnd.randint(0, max(1, remaining_hint // 2))


def gen_ops(rnd, bufsz, dlen, flen, profile):
    ops = []
    n = rnd.randint(4, 28)
    fsize = flen
    for _ in range(n):
        k = rnd.random()
        if profile == "lines":
            if k < 0.75:
                ops.append("line %d" % rnd.randint(0, 7))
            elif k < 0.85:
                ops.append("read %d" % rnd.choice([0, 1, 2, 5, 100]))
            elif k < 0.95:
                ops.append("get %d" % rnd.choice([0, 1, 100, bufsz]))
            else:
                ops.append("skip %d" % rnd.randint(0, 50))
        elif profile == "stream":
            if k < 0.30:
                ops.append("read %d" % pick_size(rnd, bufsz, dlen))
            elif k < 0.45:
                ops.append("skip %d" % rnd.choice([pick_size(rnd, bufsz, dlen), 1 << 40]) if rnd.random() < 0.1 else "skip %d" % pick_size(rnd, bufsz, dlen // 3))
            elif k < 0.60:
                ops.append("get %d" % rnd.choice([0, 1, 512, bufsz - 1, bufsz, bufsz + 1, 1 << 33, rnd.randint(0, 4000)]))
            elif k < 0.72:
                ops.append("adv %d" % rnd.choice([0, 1, 100, 512, rnd.randint(0, 3000), bufsz - 1, bufsz, bufsz + 7]))
            elif k < 0.82:
                ops.append("record %d" % rnd.choice([1, 100, 511, 512, 513, 1024, rnd.randint(1, 3000)]))
            elif k < 0.92:
                ops.append("splice %d" % rnd.choice([pick_size(rnd, bufsz, dlen // 2), 4294967295]))
            else:
                ops.append("line %d" % rnd.randint(0, 7))
        elif profile == "out":
            if k < 0.40:
                d = rnd.randbytes(rnd.choice([0, 1, 2, 1023, 1024, 1025, rnd.randint(1, 6000)]))
                ops.append("put %s" % (d.hex() or "-"))
            elif k < 0.70:
                ops.append("hole %d" % rnd.choice([0, 1, 1023, 1024, 1025, 2048, 5000, rnd.randint(1, 20000)]))
            elif k < 0.85:
                ops.append("flush")
            else:
                ops.append("splice %d" % pick_size(rnd, bufsz, dlen // 2))
        else:  # file
            if k < 0.35:
                off = rnd.choice([0, 1, max(0, fsize - 1), fsize, fsize + 1, rnd.randint(0, fsize + 10)])
                ops.append("readat %d %d" % (off, rnd.choice([0, 1, rnd.randint(0, 3000), max(0, fsize - off), max(0, fsize - off) + 1])))
            elif k < 0.75:
                off = rnd.choice([0, max(0, fsize - 1), fsize, fsize + 1, fsize + rnd.randint(2, 3000), rnd.randint(0, fsize + 10)])
                d = rnd.randbytes(rnd.choice([0, 1, 2, rnd.randint(1, 5000)]))
                ops.append("writeat %d %s" % (off, d.hex() or "-"))
                if len(d) > 0 or off >= fsize:
                    fsize = max(fsize, off + len(d))
            elif k < 0.85:
                ln = rnd.choice([0, max(0, fsize - 1), fsize, fsize + 1, fsize + 1000, rnd.randint(0, fsize + 10)])
                ops.append("trunc %d" % ln)
                fsize = ln
            else:
                ops.append("fsize")
    return ops


def gen_cases(ctx, bufsz):
    rnd = random.Random(ctx.seed * 7919 + 12)
    quick = ctx.tier == "quick"
    cases = []

    def plan(benign=True, small=True):
        mode = rnd.choice([MODE_MIX, MODE_MIX, MODE_MIX, MODE_ONE if small else MODE_MIX, MODE_FULL])
        pm = rnd.choice([0, 80, 300])
        fail_at = zero_at = -1
        if not benign:
            k = rnd.choice([0, 1, 2, 3, rnd.randint(0, 8), rnd.randint(0, 25)])
            if rnd.random() < 0.7:
                fail_at = k
            else:
                zero_at = k
        return dict(seed=rnd.getrandbits(40), mode=mode, pm=pm, fail_at=fail_at, zero_at=zero_at)

    n_small = 260 if quick else 4000
    n_big = 10 if quick else 120
    for i in range(n_small):
        profile = rnd.choice(["lines", "stream", "stream", "out", "file"])
        dlen = rnd.choice([0, 1, 2, 511, 512, 513, 1024, rnd.randint(0, 6000), rnd.randint(0, 6000)])
        style = "text" if profile == "lines" or rnd.random() < 0.3 else "bin"
        data = gen_data(rnd, dlen, style)
        fdata = rnd.randbytes(rnd.choice([0, 1, 100, rnd.randint(0, 4000)])) if profile == "file" else b""
        benign = rnd.random() < 0.8
        p = plan(benign)
        c = dict(plan=p, nosparse=rnd.randint(0, 1), pipe=0, data=data, fdata=fdata,
                 ops=gen_ops(rnd, bufsz, len(data), len(fdata), profile), profile=profile, benign=benign)
        if profile in ("lines", "stream") and rnd.random() < 0.15:
            c["pipe"] = rnd.choice(PIPE_CHUNKS)
        cases.append(c)
    for i in range(n_big):
        profile = rnd.choice(["stream", "stream", "lines", "out"])
        dlen = rnd.choice([bufsz - 1, bufsz, bufsz + 1, 2 * bufsz, 2 * bufsz + 1, 2 * bufsz + rnd.randint(2, 40000),
                           bufsz + rnd.randint(2, 60000)])
        data = gen_data(rnd, dlen, "text" if profile == "lines" else rnd.choice(["bin", "bin", "text"]))
        benign = rnd.random() < 0.85
        p = plan(benign, small=False)
        c = dict(plan=p, nosparse=rnd.randint(0, 1), pipe=0, data=data, fdata=b"",
                 ops=gen_ops(rnd, bufsz, len(data), 0, profile), profile=profile, benign=benign)
        if rnd.random() < 0.3:
            c["pipe"] = rnd.choice(PIPE_CHUNKS[2:])
        cases.append(c)
    # ---- extension (session 3): EAGAIN at chosen call indices (C12/Eagain.v: KErrno 11) ----
    rnd2 = random.Random(ctx.seed * 104729 + 1211)
    n_ea = 300 if quick else 3000
    for i in range(n_ea):
        profile = rnd2.choice(["lines", "stream", "stream", "out", "file", "file"])
        dlen = rnd2.choice([0, 1, 511, 512, 513, 1024, rnd2.randint(0, 3000), rnd2.randint(0, 3000)])
        data = gen_data(rnd2, dlen, "text" if profile == "lines" or rnd2.random() < 0.3 else "bin")
        fdata = rnd2.randbytes(rnd2.choice([0, 1, 100, rnd2.randint(0, 3000)])) if profile == "file" else b""
        k = rnd2.choice([0, 0, 1, 2, 3, rnd2.randint(0, 8), rnd2.randint(0, 20)])
        shape = rnd2.random()
        if shape < 0.45:
            ea = [k]
        elif shape < 0.75:
            ea = [k, k + 1, k + 2]                    # a stall: consecutive would-blocks
        else:
            ea = sorted({k, k + rnd2.randint(1, 6), k + rnd2.randint(2, 12)})
        p = dict(seed=rnd2.getrandbits(40), mode=rnd2.choice([MODE_MIX, MODE_MIX, MODE_ONE, MODE_FULL]),
                 pm=rnd2.choice([0, 80, 300]), fail_at=-1, zero_at=-1, eagain=ea)
        cases.append(dict(plan=p, nosparse=rnd2.randint(0, 1), pipe=0, data=data, fdata=fdata,
                          ops=gen_ops(rnd2, bufsz, len(data), len(fdata), profile), profile=profile, benign=False))
    rule = ("%d small cases (source 0..6000 bytes incl. 0/1/511/512/513/1024) and %d large ones (source BUFSZ-1, BUFSZ, "
            "BUFSZ+1, 2*BUFSZ(+1), BUFSZ..3*BUFSZ) with 4..28 ops from four profiles (lines: get_line flags 0..7 on "
            "CR/LF/blank/NUL/long-line text; stream: read/skip/get/adv/record/splice with sizes 0,1,511..513,1023..1025,"
            "BUFSZ-1..BUFSZ+1, >remaining, 2^40; out: put/hole(0,1,1023..1025,..)/flush/splice, sparse and NO_SPARSE; "
            "file: read_at/write_at/truncate around and beyond the end); shim plan per case: mix/1-byte/full counts, "
            "EINTR 0/8/30%% bursts<=3, ~20%% of cases with one EIO or one 0-byte write at call 0..25; ~15%% of stream "
            "cases read from a real pipe fed in %s-byte chunks; seed %d; non-trivial = at least one short count or EINTR was "
            "taken by the code; plus %d EAGAIN cases (same four profiles, source 0..3000 bytes, -1/EAGAIN injected at 1..3 "
            "call indices in 0..32: single, a stall of three consecutive calls, or scattered)"
            % (n_small, n_big, "/".join(map(str, PIPE_CHUNKS)), ctx.seed, n_ea))
    return cases, rule


def case_text(c, full_plan=False):
    p = c["plan"]
    if full_plan:
        head = "C 0 %d 0 -1 -1 %d 0" % (MODE_FULL, c["nosparse"])
    else:
        head = "C %d %d %d %d %d %d %d" % (p["seed"], p["mode"], p["pm"], p["fail_at"], p["zero_at"], c["nosparse"], c["pipe"])
        if p.get("eagain"):
            ea = (list(p["eagain"]) + [-1, -1, -1])[:3]
            head += " %d %d %d" % tuple(ea)
    lines = [head, "D " + (c["data"].hex() or "-"), "F " + (c["fdata"].hex() or "-")]
    lines += ["O " + o for o in c["ops"]]
    lines.append("E")
    return lines


# --------------------------------------------------------------------------
# running both sides
# --------------------------------------------------------------------------

def _unlimit_stack():
    try:
        resource.setrlimit(resource.RLIMIT_STACK, (resource.RLIM_INFINITY, resource.RLIM_INFINITY))
    except (ValueError, OSError):
        pass


def run_proc(cmd, text, env=None, timeout=600, big_stack=False):
    r = subprocess.run(cmd, input=text.encode(), stdout=subprocess.PIPE, stderr=subprocess.PIPE, env=env,
                       timeout=timeout, preexec_fn=_unlimit_stack if big_stack else None)
    return r.returncode, r.stdout.decode("utf-8", "replace"), r.stderr.decode("utf-8", "replace")


def split_cases(out):
    """harness / driver output -> list of cases, each a list of lines"""
    res = []
    cur = None
    header = None
    for line in out.split("\n"):
        if line.startswith("P "):
            header = line
        elif line == "c":
            cur = []
            res.append(cur)
        elif cur is not None and line:
            cur.append(line)
    return header, res


def parallel_chunks(items, n):
    k = max(1, (len(items) + n - 1) // n)
    return [items[i:i + k] for i in range(0, len(items), k)]


def run_harness(h, scratch, case_texts, jobs=8):
    env = dict(os.environ, ASAN_OPTIONS="detect_leaks=0:abort_on_error=0")
    chunks = parallel_chunks(case_texts, jobs)

    def one(chunk):
        txt = "\n".join("\n".join(c) for c in chunk) + "\n"
        rc, out, err = run_proc([h, scratch], txt, env)
        hdr, cs = split_cases(out)
        return rc, hdr, cs, err
    with ThreadPoolExecutor(max_workers=jobs) as ex:
        rs = list(ex.map(one, chunks))
    allc = []
    problems = []
    hdr = None
    for (rc, h_, cs, err), chunk in zip(rs, chunks):
        hdr = h_ or hdr
        if rc != 0 or len(cs) != len(chunk):
            problems.append((rc, err[-3000:], len(allc) + len(cs) - 1))
            cs = cs + [["<harness died>"]] * (len(chunk) - len(cs))
        allc += cs
    return hdr, allc, problems


TOK = re.compile(r"^([rwRWt])(\d+)(?:@(-?\d+))?=(\+\d+|0|I|F|A)$")


def parse_c_case(lines):
    """-> (per-op results, per-op request lists, outcome tokens for the model, end line, stats)"""
    results, reqs, outcomes = [], [], []
    stats = dict(short=0, eintr=0, fail=0, zero=0, eagain=0, calls=0, illegal=[])
    end = None
    for ln in lines:
        if ln.startswith("o "):
            body, _, log = ln[2:].partition(" |")
            results.append(body.strip())
            rq = []
            for t in log.split():
                m = TOK.match(t)
                if not m:
                    stats["illegal"].append(t)
                    continue
                kind, req, off, res = m.group(1), int(m.group(2)), m.group(3), m.group(4)
                rq.append(kind + str(req) + ("@" + off if off is not None else ""))
                stats["calls"] += 1
                if res == "I":
                    outcomes.append("I")
                    stats["eintr"] += 1
                elif res == "F":
                    outcomes.append("F")
                    stats["fail"] += 1
                elif res == "A":                      # -1/EAGAIN: its own outcome in the model (KErrno 11)
                    outcomes.append("A")
                    stats["fail"] += 1
                    stats["eagain"] += 1
                elif res == "0":
                    if kind in "wW":
                        outcomes.append("Z")
                        stats["zero"] += 1
                    else:
                        outcomes.append("+%d" % req)      # end of file: the model must agree that nothing is left
                else:
                    n = int(res)
                    if n > req:
                        stats["illegal"].append(t)
                    if n < req:
                        stats["short"] += 1
                    outcomes.append("+%d" % n)
            reqs.append(rq)
        elif ln.startswith("e "):
            end = ln
    return results, reqs, outcomes, end, stats


def parse_m_case(lines):
    results, reqs = [], []
    end = None
    for ln in lines:
        if ln.startswith("o "):
            body, _, log = ln[2:].partition(" |")
            results.append(body.strip())
            reqs.append(log.split())
        elif ln.startswith("e "):
            end = ln
    return results, reqs, end


def run_model(drv, bufsz, zchunk, cases, c_parsed, jobs=8):
    items = []
    for c, (res, reqs, outcomes, end, st) in zip(cases, c_parsed):
        lines = case_text(c)
        lines.insert(len(lines) - 1, "X " + " ".join(outcomes))
        items.append(lines)
    chunks = parallel_chunks(items, jobs)

    def one(chunk):
        txt = "B %d %d\n" % (bufsz, zchunk) + "\n".join("\n".join(c) for c in chunk) + "\n"
        rc, out, err = run_proc([drv], txt, big_stack=True)
        _, cs = split_cases(out)
        return rc, cs, err
    with ThreadPoolExecutor(max_workers=jobs) as ex:
        rs = list(ex.map(one, chunks))
    allc = []
    problems = []
    for (rc, cs, err), chunk in zip(rs, chunks):
        if rc != 0 or len(cs) != len(chunk):
            problems.append((rc, err[-2000:], len(allc) + len(cs) - 1))
            cs = cs + [["<driver died>"]] * (len(chunk) - len(cs))
        allc += cs
    return allc, problems


def replay_case(c):
    return dict(plan=c["plan"], nosparse=c["nosparse"], pipe=c["pipe"], data=c["data"].hex(), fdata=c["fdata"].hex(),
                ops=c["ops"], profile=c.get("profile"), benign=c.get("benign", True))


def load_case(d):
    return dict(plan=d["plan"], nosparse=d["nosparse"], pipe=d["pipe"], data=bytes.fromhex(d["data"]),
                fdata=bytes.fromhex(d["fdata"]), ops=d["ops"], profile=d.get("profile"), benign=d.get("benign", True))


def end_fields(e):
    return dict(x.split("=", 1) for x in (e or "").split()[1:])


# --------------------------------------------------------------------------
# tar iterator differential (component-level search oracle)
# --------------------------------------------------------------------------

def tar_corpus(ctx, rnd):
    tars = []
    base = os.path.join(B.REPO, "lib/tar/test/data")
    for d, _, fs in sorted(os.walk(base)):
        for f in sorted(fs):
            if f.endswith(".tar"):
                tars.append((os.path.relpath(os.path.join(d, f), B.REPO), open(os.path.join(d, f), "rb").read()))
    p = os.path.join(B.REPO, "bin/tar2sqfs/test/simple.tar")
    if os.path.exists(p):
        tars.append(("bin/tar2sqfs/test/simple.tar", open(p, "rb").read()))
    for fmt, name in ((tarfile.GNU_FORMAT, "gnu"), (tarfile.PAX_FORMAT, "pax"), (tarfile.USTAR_FORMAT, "ustar")):
        tars.append(("generated-%s" % name, make_tar(rnd, fmt, 10, big=False)))
    return tars


def make_tar(rnd, fmt, n, big):
    bio = io.BytesIO()
    with tarfile.open(fileobj=bio, mode="w", format=fmt) as tf:
        def add(name, typ=tarfile.REGTYPE, data=b"", link="", mode=0o644):
            ti = tarfile.TarInfo(name)
            ti.type = typ
            ti.mode = mode
            ti.mtime = 1000000000 + rnd.randint(0, 1000)
            ti.uid = rnd.choice([0, 1000, 65534])
            ti.gid = rnd.choice([0, 100])
            ti.linkname = link
            ti.size = len(data) if typ == tarfile.REGTYPE else 0
            if fmt == tarfile.PAX_FORMAT and rnd.random() < 0.3:
                ti.pax_headers = {"SCHILY.xattr.user.k%d" % rnd.randint(0, 9): "v" * rnd.randint(1, 300)}
            tf.addfile(ti, io.BytesIO(data) if typ == tarfile.REGTYPE else None)
        add("d", tarfile.DIRTYPE, mode=0o755)
        long_ok = fmt != tarfile.USTAR_FORMAT
        for i in range(n):
            nm = "d/f%d" % i
            if long_ok and rnd.random() < 0.35:
                nm = "d/" + "n" * rnd.choice([95, 99, 100, 101, 150, 255]) + str(i)
            sz = rnd.choice([0, 1, 511, 512, 513, 1024, rnd.randint(0, 9000)])
            if big and i == 0:
                sz = rnd.choice([131071, 131072, 131073, 300000])
            add(nm, data=rnd.randbytes(sz))
            if rnd.random() < 0.3:
                tgt = ("t" * rnd.choice([5, 99, 100, 101, 200])) if long_ok else "tgt"
                add("d/l%d" % i, tarfile.SYMTYPE, link=tgt, mode=0o777)
    return bio.getvalue()


def tar_lines(tardata, plan):
    return ["C %d %d %d -1 -1 0 0" % (plan[0], plan[1], plan[2]), "T " + tardata.hex(), "Et"]


def parse_tar_out(lines):
    return [l for l in lines if l.startswith("t ") and not l.startswith("t calls=")]


# --------------------------------------------------------------------------
# tool level search oracle
# --------------------------------------------------------------------------

def sha(path):
    h = hashlib.sha256()
    try:
        with open(path, "rb") as f:
            for b in iter(lambda: f.read(1 << 20), b""):
                h.update(b)
    except OSError:
        return "<missing>"
    return h.hexdigest()


def tree_digest(root):
    h = hashlib.sha256()
    if not os.path.isdir(root):
        return "<missing>"
    for d, dn, fs in os.walk(root):
        dn.sort()
        for f in sorted(fs + dn):
            p = os.path.join(d, f)
            st = os.lstat(p)
            rel = os.path.relpath(p, root)
            if os.path.islink(p):
                h.update(("L %s %s\n" % (rel, os.readlink(p))).encode())
            elif os.path.isdir(p):
                h.update(("D %s\n" % rel).encode())
            else:
                h.update(("F %s %d %s\n" % (rel, st.st_size, sha(p))).encode())
    return h.hexdigest()


def feed_and_collect(cmd, env, stdin_data=None, in_chunk=0, out_chunk=0, timeout=120):
    """run cmd; stdin (if any) through a real pipe in in_chunk-byte writes; stdout through a pipe that is drained
    out_chunk bytes at a time. Returns (rc, stdout bytes, stderr text)."""
    import threading
    p = subprocess.Popen(cmd, stdin=subprocess.PIPE if stdin_data is not None else subprocess.DEVNULL,
                         stdout=subprocess.PIPE, stderr=subprocess.PIPE, env=env, bufsize=0)
    outb = []

    def feeder():
        try:
            fd = p.stdin.fileno()
            mv = memoryview(stdin_data)
            step = in_chunk if in_chunk > 0 else 1 << 20
            off = 0
            while off < len(mv):
                off += os.write(fd, mv[off:off + step])
        except (BrokenPipeError, OSError):
            pass
        finally:
            try:
                p.stdin.close()
            except OSError:
                pass

    def drain():
        fd = p.stdout.fileno()
        step = out_chunk if out_chunk > 0 else 1 << 20
        k = 0
        while True:
            b = os.read(fd, step)
            if not b:
                break
            outb.append(b)
            k += 1
            if out_chunk and k % 64 == 0:
                time.sleep(0.0005)
    errb = []
    ts = [threading.Thread(target=drain), threading.Thread(target=lambda: errb.append(p.stderr.read()))]
    if stdin_data is not None:
        ts.append(threading.Thread(target=feeder))
    for t in ts:
        t.start()
    try:
        rc = p.wait(timeout=timeout)
    except subprocess.TimeoutExpired:
        p.kill()
        rc = -999
    for t in ts:
        t.join()
    return rc, b"".join(outb), (errb[0] if errb else b"").decode("utf-8", "replace")


def feed_nonblocking_stdin(cmd, env, data, split, stall=0.3, timeout=120):
    """Run cmd with stdin = the read end of a pipe in O_NONBLOCK mode (the flag lives in the open file
    description the child inherits); write data[:split], stall, write the rest.  While the writer stalls the
    child's read() answers -1/EAGAIN (real kernel, no shim).  -> (rc, stderr text)"""
    import fcntl
    r, w = os.pipe()
    fcntl.fcntl(r, fcntl.F_SETFL, fcntl.fcntl(r, fcntl.F_GETFL) | os.O_NONBLOCK)
    p = subprocess.Popen(cmd, stdin=r, stdout=subprocess.DEVNULL, stderr=subprocess.PIPE, env=env)
    os.close(r)
    try:
        for part in (data[:split], None, data[split:]):
            if part is None:
                time.sleep(stall)
                continue
            mv = memoryview(part)
            while len(mv):
                try:
                    n = os.write(w, mv[:65536])
                except (BrokenPipeError, OSError):
                    mv = mv[:0]
                    break
                mv = mv[n:]
    finally:
        os.close(w)
    try:
        err = p.communicate(timeout=timeout)[1]
    except subprocess.TimeoutExpired:
        p.kill()
        err = p.communicate()[1]
    return p.returncode, (err or b"").decode("utf-8", "replace")


def collect_nonblocking_stdout(cmd, env, stall=0.3, timeout=120):
    """Run cmd with stdout = the write end of a pipe in O_NONBLOCK mode and start draining it only after a
    stall: once the pipe is full the child's write() answers -1/EAGAIN (real kernel).  -> (rc, bytes read)"""
    import fcntl
    r, w = os.pipe()
    fcntl.fcntl(w, fcntl.F_SETFL, fcntl.fcntl(w, fcntl.F_GETFL) | os.O_NONBLOCK)
    p = subprocess.Popen(cmd, stdin=subprocess.DEVNULL, stdout=w, stderr=subprocess.DEVNULL, env=env)
    os.close(w)
    time.sleep(stall)
    out = []
    while True:
        b = os.read(r, 1 << 16)
        if not b:
            break
        out.append(b)
    os.close(r)
    try:
        p.wait(timeout=timeout)
    except subprocess.TimeoutExpired:
        p.kill()
        p.wait()
    return p.returncode, b"".join(out)


def build_preload(ctx):
    so = os.path.join(ctx.scratch, "shim_io.so")
    r = subprocess.run(["gcc", "-O1", "-shared", "-fPIC", "-o", so, os.path.join(HERE, "shim_io.c"), "-ldl"],
                       capture_output=True, text=True)
    if r.returncode != 0:
        raise RuntimeError("cannot build preload shim: " + r.stderr[-2000:])
    return so


def make_tree(rnd, root, bufsz):
    os.makedirs(os.path.join(root, "sub/deep"))
    files = {
        "empty": b"", "one": b"x", "blk-1": rnd.randbytes(bufsz - 1), "blk": rnd.randbytes(bufsz),
        "blk+1": rnd.randbytes(bufsz + 1), "sub/text": b"".join(b"line %d\n" % i for i in range(20000)),
        "sub/deep/rnd": rnd.randbytes(rnd.randint(200000, 400000)), "sub/zeros": bytes(300000),
    }
    for k, v in files.items():
        with open(os.path.join(root, k), "wb") as f:
            f.write(v)
    with open(os.path.join(root, "sparse"), "wb") as f:
        f.seek(500000)
        f.write(b"tail")
        f.seek(1 << 20)
        f.write(b"end")
    os.symlink("sub/text", os.path.join(root, "lnk"))
    for d, dn, fs in os.walk(root):
        for f in fs + dn:
            p = os.path.join(d, f)
            if not os.path.islink(p):
                os.utime(p, (1000000000, 1000000000))
    os.utime(root, (1000000000, 1000000000))
    return sorted(files) + ["sparse"]


def tool_sweep(ctx, info, so, bufsz):
    """Returns (runs, list of (sig, what, replay))."""
    rnd = random.Random(ctx.seed * 31 + 5)
    T = info["tools"]
    d = os.path.join(ctx.scratch, "tools")
    os.makedirs(d)
    tree = os.path.join(d, "tree")
    names = make_tree(rnd, tree, bufsz)
    base_env = dict(os.environ, SOURCE_DATE_EPOCH="1000000000")
    base_env.pop("LD_PRELOAD", None)
    quick = ctx.tier == "quick"
    bad = []
    runs = [0]
    stats = dict(shim_calls=0, shim_short=0, shim_eintr=0)

    def shim_env(seed, mode, pm, fixed=0):
        e = dict(base_env, LD_PRELOAD=so, C12_SHIM="%d:%d:%d:%d" % (seed, mode, pm, fixed))
        return e

    def plans():
        ps = [("full-noshim", None)]
        ps.append(("mix", (rnd.getrandbits(30), MODE_MIX, 150, 0)))
        ps.append(("fixed7", (rnd.getrandbits(30), MODE_FIXED, 50, 7)))
        if not quick:
            ps.append(("one", (rnd.getrandbits(30), MODE_ONE, 20, 0)))
            ps.append(("fixed513", (rnd.getrandbits(30), MODE_FIXED, 300, 513)))
            ps.append(("mix2", (rnd.getrandbits(30), MODE_MIX, 400, 0)))
        return ps

    def compare(label, cmd_desc, ref, got, variant, replay):
        runs[0] += 1
        if ref != got:
            diffs = [k for k in ref if ref[k] != got.get(k)]
            bad.append(("tool:%s:%s" % (label, diffs[0] if diffs else "?"),
                        "%s: %s differs between a run with complete transfers and variant '%s': %s vs %s" % (
                            label, ",".join(diffs), variant, {k: ref[k] for k in diffs}, {k: got.get(k) for k in diffs}),
                        dict(kind="tool", label=label, cmd=cmd_desc, variant=variant, **replay)))

    def env_of(plan):
        return base_env if plan is None else shim_env(*plan)

    # --- 1. gensquashfs from a directory (reads every input file through the file istream, writes with pwrite)
    ref = None
    for name, plan in plans():
        img = os.path.join(d, "g-%s.sqfs" % name)
        r = subprocess.run([T["gensquashfs"], "-q", "-f", "-D", tree, "-b", "65536", img], capture_output=True, env=env_of(plan), timeout=300)
        got = dict(rc=r.returncode, sha=sha(img))
        if ref is None:
            ref = got
            ref_img = img
            if got["rc"] != 0:
                bad.append(("tool:gensquashfs:baseline", "gensquashfs fails without the shim: " + r.stderr.decode()[-300:], dict(kind="tool")))
                return runs[0], bad, stats
        else:
            compare("gensquashfs-dir", "gensquashfs -q -f -D tree -b 65536 img", ref, got, name, dict(plan=plan))
    # --- 2. gensquashfs from a description file + sort file (istream_get_line)
    pack = os.path.join(d, "pack.txt")
    with open(pack, "wb") as f:
        f.write(b"# comment\r\n\n   \n")
        f.write(b"dir /a 0755 0 0\n")
        for i in range(300):
            f.write(b"  file /a/f%d 0644 %d 0 %s  \r\n" % (i, i % 7, names[i % len(names)].encode()))
            if i % 50 == 0:
                f.write(b"\n" * 40)
        f.write(b"slink /a/l 0777 0 0 " + b"t" * 3000 + b"\n")
        f.write(b"nod /a/n 0600 0 0 c 1 2")
    sortf = os.path.join(d, "sort.txt")
    with open(sortf, "wb") as f:
        for i in range(0, 300, 3):
            f.write(b"%d a/f%d\n" % (300 - i, i))
    ref = None
    for name, plan in plans():
        img = os.path.join(d, "p-%s.sqfs" % name)
        r = subprocess.run([T["gensquashfs"], "-q", "-f", "-D", tree, "-F", pack, "-S", sortf, img], capture_output=True, env=env_of(plan), timeout=300)
        got = dict(rc=r.returncode, sha=sha(img))
        if ref is None:
            ref = got
            if got["rc"] != 0:
                bad.append(("tool:gensquashfs-packfile:baseline", "gensquashfs -F fails without the shim: " + r.stderr.decode()[-300:], dict(kind="tool")))
        else:
            compare("gensquashfs-packfile", "gensquashfs -q -f -D tree -F pack.txt -S sort.txt img", ref, got, name, dict(plan=plan))
    #     the same description through a real pipe (/dev/stdin) in small chunks: get_line across refills of a pipe
    pdata = open(pack, "rb").read()
    if ref is not None and ref["rc"] == 0:
        for ic in ([1, 513] if quick else PIPE_CHUNKS):
            img = os.path.join(d, "p-pipe%d.sqfs" % ic)
            rc, out, err = feed_and_collect([T["gensquashfs"], "-q", "-f", "-D", tree, "-F", "/dev/stdin", "-S", sortf, img],
                                            base_env, pdata, ic, 0)
            compare("gensquashfs-packfile", "gensquashfs -q -f -D tree -F /dev/stdin -S sort.txt img < pipe", ref,
                    dict(rc=rc, sha=sha(img)), "pipe-%d" % ic, dict(in_chunk=ic))
    # --- 3. sqfs2tar: stdout through the ostream (NO_SPARSE); shim and slow readers
    ref_tar = None
    ref = None
    variants = [(n, p, 0) for n, p in plans()] + [("pipe-read-%d" % c, None, c) for c in ([7, 4096] if quick else PIPE_CHUNKS[1:])]
    for name, plan, oc in variants:
        rc, out, err = feed_and_collect([T["sqfs2tar"], ref_img], env_of(plan), None, 0, oc)
        got = dict(rc=rc, sha=hashlib.sha256(out).hexdigest(), size=len(out))
        if ref is None:
            ref, ref_tar = got, out
        else:
            compare("sqfs2tar", "sqfs2tar img > pipe", ref, got, name, dict(plan=plan, out_chunk=oc))
    #     extension (EAGAIN, real kernel): stdout a NON-BLOCKING pipe whose reader stalls.  The model says a would-block is
    #     a hard error: the run may fail, but a run that exits 0 must have delivered the whole archive.
    if ref is not None and ref["rc"] == 0:
        rc, out = collect_nonblocking_stdout([T["sqfs2tar"], ref_img], base_env)
        runs[0] += 1
        stats["nonblock_runs"] = stats.get("nonblock_runs", 0) + 1
        stats["nonblock_failstop"] = stats.get("nonblock_failstop", 0) + (1 if rc != 0 else 0)
        if rc == 0 and hashlib.sha256(out).hexdigest() != ref["sha"]:
            bad.append(("tool:sqfs2tar-nonblock:sha", "sqfs2tar wrote to a non-blocking stdout whose reader stalled, exited 0 and "
                        "delivered %d bytes that are not the archive (%d bytes) of the blocking run: a would-block was taken for "
                        "success" % (len(out), ref["size"]), dict(kind="tool", label="sqfs2tar-nonblock")))
    # --- 4. tar2sqfs: stdin through real pipes in every chunk size, and under the shim
    tars = [("from-sqfs2tar", ref_tar)]
    st = os.path.join(B.REPO, "lib/tar/test/data/sparse-files/pax-gnu1-0.tar")
    if os.path.exists(st):
        tars.append(("sparse-pax-gnu1-0", open(st, "rb").read()))
    gen = make_tar(rnd, tarfile.PAX_FORMAT, 12, big=True)
    tars.append(("generated-pax", gen))
    import gzip
    import lzma
    tars.append(("generated-pax.gz", gzip.compress(gen, mtime=0)))
    if not quick:
        tars.append(("generated-gnu.xz", lzma.compress(make_tar(rnd, tarfile.GNU_FORMAT, 12, big=True))))
    for tname, tdata in tars:
        if not tdata:
            continue
        ref = None
        chunks = PIPE_CHUNKS if (not quick or len(tdata) < 400000) else PIPE_CHUNKS[1:]
        if len(tdata) > 1500000:
            chunks = [c for c in chunks if c >= 7]
        variants = [("full-noshim", None, 0)] + [(n, p, 0) for n, p in plans()[1:]] + [("pipe-%d" % c, None, c) for c in chunks]
        if not quick:
            variants.append(("pipe-7+mix", plans()[1][1], 7))
        for name, plan, ic in variants:
            img = os.path.join(d, "t-%s-%s.sqfs" % (tname, name))
            rc, out, err = feed_and_collect([T["tar2sqfs"], "-q", "-f", img], env_of(plan), tdata, ic, 0)
            got = dict(rc=rc, sha=sha(img))
            if ref is None:
                ref = got
            else:
                compare("tar2sqfs:" + tname, "tar2sqfs -q -f img < pipe", ref, got, name, dict(plan=plan, in_chunk=ic, tar=tname))
            if name != "full-noshim":
                try:
                    os.unlink(img)
                except OSError:
                    pass
        #     extension (EAGAIN, real kernel): stdin a NON-BLOCKING pipe whose writer stalls after `split` bytes.  The run may
        #     refuse (exit != 0: the model's verdict, SQFS_ERROR_IO); a run that exits 0 must have produced the reference image
        #     -- never an image of the bytes before the stall (end-of-file taken for would-block).
        if ref is not None and ref["rc"] == 0 and len(tdata) < 400000:
            for split in sorted({512, 1536, (len(tdata) // 1024) * 512}):
                if not (0 < split < len(tdata)):
                    continue
                img = os.path.join(d, "t-%s-nonblock%d.sqfs" % (tname, split))
                rc, err = feed_nonblocking_stdin([T["tar2sqfs"], "-q", "-f", img], base_env, tdata, split)
                runs[0] += 1
                stats["nonblock_runs"] = stats.get("nonblock_runs", 0) + 1
                stats["nonblock_failstop"] = stats.get("nonblock_failstop", 0) + (1 if rc != 0 else 0)
                if rc == 0 and sha(img) != ref["sha"]:
                    bad.append(("tool:tar2sqfs-nonblock:sha", "tar2sqfs:%s read from a non-blocking stdin whose writer stalled after %d "
                                "of %d bytes, exited 0 and produced an image different from the blocking run's: a would-block was taken "
                                "for end-of-file (silent truncation)" % (tname, split, len(tdata)),
                                dict(kind="tool", label="tar2sqfs-nonblock", tar=tname, split=split)))
                try:
                    os.unlink(img)
                except OSError:
                    pass
    # --- 5. rdsquashfs -c (stdout ostream) and -u (file ostreams, sparse), sqfsdiff-free
    for fn in (["sub/deep/rnd", "sparse"] if quick else ["sub/deep/rnd", "sparse", "blk", "sub/text", "empty"]):
        ref = None
        for name, plan, oc in [(n, p, 0) for n, p in plans()] + [("pipe-read-511", None, 511)]:
            rc, out, err = feed_and_collect([T["rdsquashfs"], "-c", fn, ref_img], env_of(plan), None, 0, oc)
            got = dict(rc=rc, sha=hashlib.sha256(out).hexdigest(), size=len(out))
            if ref is None:
                ref = got
            else:
                compare("rdsquashfs-cat:" + fn, "rdsquashfs -c %s img" % fn, ref, got, name, dict(plan=plan, out_chunk=oc))
    ref = None
    for name, plan in plans():
        ud = os.path.join(d, "u-%s" % name)
        r = subprocess.run([T["rdsquashfs"], "-q", "-u", "/", "-p", ud, ref_img], capture_output=True, env=env_of(plan), timeout=300)
        got = dict(rc=r.returncode, tree=tree_digest(ud))
        if ref is None:
            ref = got
            want = tree_digest(tree)
            if got["tree"] != want and got["rc"] == 0:
                ctx.notes.append("rdsquashfs -u baseline differs from the packed tree (not a C12 matter)")
        else:
            compare("rdsquashfs-unpack", "rdsquashfs -q -u / -p dir img", ref, got, name, dict(plan=plan))
        shutil.rmtree(ud, ignore_errors=True)
    # how much the shim actually did in one representative run
    try:
        rfd, wfd = os.pipe()
        e = shim_env(1, MODE_MIX, 150)
        e["C12_SHIM_STATS"] = str(wfd)
        subprocess.run([T["rdsquashfs"], "-c", "sub/deep/rnd", ref_img], stdout=subprocess.DEVNULL, env=e, pass_fds=[wfd], timeout=60)
        os.close(wfd)
        m = re.search(r"calls=(\d+) short=(\d+) eintr=(\d+)", os.read(rfd, 200).decode())
        os.close(rfd)
        if m:
            stats.update(shim_calls=int(m.group(1)), shim_short=int(m.group(2)), shim_eintr=int(m.group(3)))
    except OSError:
        pass
    return runs[0], bad, stats


# --------------------------------------------------------------------------
# main
# --------------------------------------------------------------------------

SYSCALL_RE = re.compile(r"(?<![A-Za-z0-9_>.])(read|write|pread|pwrite|pread64|pwrite64|readv|writev|preadv|pwritev|"
                        r"sendfile|copy_file_range|splice|recv|send|recvfrom|sendto)\s*\(")
EXPECTED_SITES = {
    "lib/sqfs/src/io/istream.c": {"read"},
    "lib/sqfs/src/io/ostream.c": {"write"},
    "lib/sqfs/src/io/file.c": {"pread", "pwrite"},
}


def syscall_sites():
    """the call-graph fact the tool-level reading of the process theorem rests on: byte-transfer system calls
    are made only in the three modelled files"""
    found = {}
    for top in ("lib", "bin"):
        for d, dn, fs in os.walk(os.path.join(B.REPO, top)):
            dn.sort()
            if "/test" in d or "/.deps" in d or "/.libs" in d:
                continue
            for f in sorted(fs):
                if not f.endswith(".c") or "win32" in f or f.startswith("w32_"):
                    continue
                rel = os.path.relpath(os.path.join(d, f), B.REPO)
                try:
                    txt = open(os.path.join(d, f), errors="replace").read()
                except OSError:
                    continue
                txt = re.sub(r"/\*.*?\*/", "", txt, flags=re.S)
                txt = re.sub(r"//[^\n]*", "", txt)
                txt = re.sub(r'"(?:\\.|[^"\\])*"', '""', txt)
                names = set(m.group(1) for m in SYSCALL_RE.finditer(txt))
                if names:
                    found[rel] = names
    return found


def build_all(ctx):
    info = B.build("asan")
    h = B.compile_harness(info, [os.path.join(HERE, "h_io.c"), os.path.join(HERE, "shim_io.c")], "h_io_c12",
                          extra=["-DSHIM_WRAP", WRAP, "-I" + HERE])
    drv = core.build_model_driver("C12", "ExtractC12.v", os.path.join(HERE, "driver.ml"))
    return info, h, drv


def run(ctx):
    t0 = time.time()
    info, h, drv = build_all(ctx)
    plain = B.build("plain")
    ctx.trusted += [
        "props/C12/shim_io.c (the outcomes it injects are ones POSIX allows the kernel: short counts >= 1, EINTR without transfer; "
        "EIO / 0-byte write / EAGAIN only on request in the component tie) and its log",
        "props/C12/h_io.c, props/C12/driver.ml (case parsing, canonical printing len:hash:prefix)",
        "OS model of IoModel.v: a descriptor is a byte sequence; read/pread return 0 only at its end; a pwrite gap reads as zeros",
        "ASan/UBSan verdict on the harness runs",
    ]
    ctx.assumptions += [
        "EAGAIN is inside the model as a hard error (coq/C12/Eagain.v, what the code does with it): the statement for a "
        "non-blocking descriptor is fail-stop (error, never a truncated success), not result-independence; it is injected at the "
        "call boundary, no real O_NONBLOCK descriptor is used; fsync/open/close/lseek failures and signals that kill are outside "
        "C12's quantifier",
        "stdio output of the tools (rdsquashfs -d/-l, messages) goes through glibc, not through the modelled loops",
    ]
    # ---- probe constants ----
    rc, out, err = run_proc([h, ctx.scratch], "", dict(os.environ, ASAN_OPTIONS="detect_leaks=0"))
    m = re.search(r"P bufsz=(\d+) zchunk=(\d+)", out)
    if not m or int(m.group(1)) == 0:
        ctx.violation("harness-probe", "harness probe failed rc=%d: %s %s" % (rc, out[-300:], err[-1500:]), dict(kind="machinery"), no_input=True)
        return
    bufsz, zchunk = int(m.group(1)), int(m.group(2))
    me = re.search(r"eintr=(\d+) eio=(\d+) eagain=(\d+)", out)
    if not me or tuple(map(int, me.groups())) != (4, 5, 11):
        ctx.violation("errno-constants", "EINTR/EIO/EAGAIN of the build are not the 4/5/11 of coq/C12/Eagain.v: %s" % out[-200:],
                      dict(kind="machinery"), no_input=True)
        return
    ctx.coverage["measured_constants"] = dict(BUFSZ=bufsz, zero_chunk=zchunk)

    # ---- cases ----
    rkind = None
    if ctx.replay:
        r = json.load(open(ctx.replay))
        rkind = r.get("kind") or "component"
        if rkind == "tool":
            cases, rule = [], "replay of a tool-level variant: the whole tool sweep is re-run"
        elif rkind == "tar":
            cases, rule = [], "replay of a tar-iterator variant: the tar-iterator differential is re-run"
        else:
            cases, rule = [load_case(c) for c in r.get("cases", [])], "replay of stored component cases"
    else:
        cases, rule = gen_cases(ctx, bufsz)
    ctx.coverage["rule"] = rule

    # ---- C side under the plan, C side with complete transfers, model on the logged outcomes ----
    hdr, c_out, c_prob = run_harness(h, ctx.scratch, [case_text(c) for c in cases])
    _, cf_out, cf_prob = run_harness(h, ctx.scratch, [case_text(c, full_plan=True) for c in cases])
    for rc_, err_, idx in c_prob + cf_prob:
        c = cases[min(max(idx, 0), len(cases) - 1)] if cases else None
        ctx.violation("harness-crash", "C12 harness died (rc=%s) near case %d: %s" % (rc_, idx, err_[-800:]),
                      dict(cases=[replay_case(c)] if c else [], stderr=err_[-3000:]))
    c_parsed = [parse_c_case(l) for l in c_out]
    cf_parsed = [parse_c_case(l) for l in cf_out]
    m_out, m_prob = run_model(drv, bufsz, zchunk, cases, c_parsed)
    for rc_, err_, idx in m_prob:
        ctx.violation("driver-crash", "model driver died (rc=%s) near case %d: %s" % (rc_, idx, err_[-500:]),
                      dict(cases=[replay_case(cases[min(max(idx, 0), len(cases) - 1)])] if cases else []), no_input=True)
    t_tie = time.time() - t0

    tie_bad, prop_bad, fuel_hit = [], [], []
    nontriv = 0
    tot = dict(short=0, eintr=0, fail=0, zero=0, eagain=0, calls=0, ops=0, pipe_cases=0, fail_cases=0, eagain_cases=0)
    for i, c in enumerate(cases):
        res, reqs, outcomes, end, st = c_parsed[i]
        fres, freqs, _, fend, fst = cf_parsed[i]
        mres, mreqs, mend = parse_m_case(m_out[i]) if i < len(m_out) else ([], [], None)
        for k in ("short", "eintr", "fail", "zero", "eagain", "calls"):
            tot[k] += st[k]
        tot["eagain_cases"] += 1 if st["eagain"] else 0
        tot["ops"] += len(res)
        tot["pipe_cases"] += 1 if c["pipe"] else 0
        tot["fail_cases"] += 1 if (st["fail"] or st["zero"]) else 0
        if st["short"] or st["eintr"]:
            nontriv += 1
        if st["illegal"]:
            ctx.violation("shim-illegal-outcome", "shim/kernel produced an outcome outside the OS model: %s" % st["illegal"][:3],
                          dict(cases=[replay_case(c)]), no_input=True)
        # (a) property oracle on the implementation: chunked run == complete-transfer run (no injected failure)
        if not (st["fail"] or st["zero"]):
            why = None
            for j in range(max(len(res), len(fres))):
                a = res[j] if j < len(res) else "<missing>"
                b = fres[j] if j < len(fres) else "<missing>"
                if a != b:
                    why = "op %d (%s): chunked run gives '%s', complete-transfer run gives '%s'" % (j, c["ops"][j][:40] if j < len(c["ops"]) else "?", a, b)
                    break
            if why is None and end_fields(end) != end_fields(fend):
                why = "final contents differ: chunked '%s' vs complete '%s'" % (end, fend)
            if why:
                prop_bad.append((c, why))
        # (b) tie: model on the logged outcomes == C
        why = None
        if any("FUEL" in r for r in mres):
            fuel_hit.append(c)
        for j in range(max(len(res), len(mres))):
            a = res[j] if j < len(res) else "<missing>"
            b = mres[j] if j < len(mres) else "<missing>"
            ra = reqs[j] if j < len(reqs) else None
            rb = mreqs[j] if j < len(mreqs) else None
            if a != b:
                why = "op %d (%s): C '%s' model '%s'" % (j, c["ops"][j][:40] if j < len(c["ops"]) else "?", a, b)
                break
            if ra != rb:
                k = next((x for x in range(min(len(ra or []), len(rb or []))) if ra[x] != rb[x]), min(len(ra or []), len(rb or [])))
                why = "op %d (%s): system calls differ at call %d: C %s model %s" % (
                    j, c["ops"][j][:40] if j < len(c["ops"]) else "?", k, (ra or [])[k:k + 3], (rb or [])[k:k + 3])
                break
        if why is None:
            ce, me = end_fields(end), end_fields(mend)
            unused = me.pop("unused", "0")
            if ce != me:
                why = "final state: C '%s' model '%s'" % (end, mend)
            elif unused != "0":
                why = "model left %s logged outcomes unused" % unused
        if why:
            tie_bad.append((c, why))
    # failing calls are reported (fail-stop direction of C12): evaluated on the C results
    misreported = []
    for i, c in enumerate(cases):
        res, reqs, outcomes, end, st = c_parsed[i]
        pos = 0
        for j, rq in enumerate(reqs):
            toks = outcomes[pos:pos + len(rq)]
            pos += len(rq)
            if ("F" in toks or "Z" in toks or "A" in toks) and j < len(res):
                body = res[j].split()
                code = body[1] if len(body) > 1 else ""
                ok = code.startswith("-") or (body and body[0] == "T" and code == "null")
                if not ok:
                    misreported.append((c, "op %d (%s) made a call that failed (%s) but returned '%s'" % (
                        j, c["ops"][j][:40], "EAGAIN" if "A" in toks else "EIO/0-byte", res[j])))
    ctx.coverage["evaluations"] = len(cases)
    ctx.coverage["distinct_nontrivial"] = nontriv
    ctx.coverage["traces_validated_against_impl"] = len(cases) - len(tie_bad)
    ctx.coverage["distribution"] = dict(tot, tie_seconds=round(t_tie, 1))
    for i in (0, len(cases) // 2, len(cases) - 1):
        if 0 <= i < len(cases) and c_out[i:i + 1]:
            ctx.add_samples([dict(ops=cases[i]["ops"][:3], plan=cases[i]["plan"], impl=c_out[i][:2], model=(m_out[i][:2] if i < len(m_out) else None))])

    seen_sig = set()
    for c, why in prop_bad:
        sig = "chunk-dependent:" + (c.get("profile") or "?")
        if sig in seen_sig:
            continue
        seen_sig.add(sig)
        ctx.violation(sig, "C12 violated by the implementation (component level): " + why, dict(cases=[replay_case(c)], why=why))
    for c, why in misreported:
        sig = "failure-not-reported:" + (c.get("profile") or "?")
        if sig in seen_sig:
            continue
        seen_sig.add(sig)
        ctx.violation(sig, "C12 (failing call must be an error): " + why, dict(cases=[replay_case(c)], why=why))
    for c in fuel_hit[:1]:
        ctx.violation("model-fuel", "extracted model ran out of fuel (theorem *_fuel_enough says it cannot with fuel > bytes)",
                      dict(cases=[replay_case(c)]), no_input=True)

    # ---- tar iterator differential ----
    tar_bad = []
    n_tar = 0
    if not ctx.replay or rkind == "tar":
        rnd = random.Random(ctx.seed * 131 + 7)
        tars = tar_corpus(ctx, rnd)
        if ctx.tier != "quick":
            for k in range(12):
                tars.append(("generated-big-%d" % k, make_tar(rnd, rnd.choice([tarfile.GNU_FORMAT, tarfile.PAX_FORMAT]), 8, big=True)))
        plans = [(0, MODE_FULL, 0), (rnd.getrandbits(30), MODE_MIX, 100), (rnd.getrandbits(30), MODE_ONE, 50),
                 (rnd.getrandbits(30), MODE_MIX, 400)]
        texts = []
        index = []
        for name, data in tars:
            for p in plans:
                if p[1] == MODE_ONE and len(data) > 40000:
                    p = (p[0], MODE_MIX, 30)
                texts.append(tar_lines(data, p))
                index.append((name, p))
        _, t_out, t_prob = run_harness(h, ctx.scratch, texts)
        for rc_, err_, idx in t_prob:
            ctx.violation("harness-crash-tar", "C12 harness died in tar mode (rc=%s): %s" % (rc_, err_[-800:]),
                          dict(tar=index[min(max(idx, 0), len(index) - 1)][0], stderr=err_[-3000:]))
        ref = {}
        for (name, p), lines in zip(index, t_out):
            n_tar += 1
            listing = parse_tar_out(lines)
            if p[1] == MODE_FULL:
                ref[name] = listing
            elif listing != ref.get(name):
                a, b = ref.get(name) or [], listing
                k = next((x for x in range(min(len(a), len(b))) if a[x] != b[x]), min(len(a), len(b)))
                tar_bad.append((name, p, "entry %d: complete '%s' vs chunked '%s'" % (k, (a[k:k + 1] or ["<none>"])[0][:200], (b[k:k + 1] or ["<none>"])[0][:200])))
        ctx.coverage["tar_iterator_runs"] = n_tar
        for name, p, why in tar_bad[:3]:
            ctx.violation("chunk-dependent:tar-iterator", "tar iterator result depends on the chunking of %s under plan %s: %s" % (name, p, why),
                          dict(tar=name, plan=list(p), why=why, kind="tar"))

    # ---- tie broke -> is it a property failure? ----
    if tie_bad and not (prop_bad or misreported or tar_bad):
        c, why = tie_bad[0]
        ctx.tie_broken.append("C12 trace tie")
        ctx.violation("tie-io", "correspondence IoModel.v vs lib/sqfs/src/io/*.c broken (%d of %d cases): %s; the implementation's results "
                      "are the same under complete and chunked transfers for every generated case" % (len(tie_bad), len(cases), why),
                      dict(cases=[replay_case(x[0]) for x in tie_bad[:3]], why=why,
                           correspondence="props/C12: run (op_client op) on the logged outcome stream = C (trace: results, requests, final contents)"),
                      no_input=True)

    # ---- independent re-check of the proofs (thorough tier) ----
    if ctx.tier != "quick" and not ctx.replay:
        rc, out = core.sh(["timeout", "900", "coqchk", "-silent", "-o", "-Q", ".", "SqfsV", "SqfsV.C12.IStreamProofs",
                           "SqfsV.C12.RetryProofs", "SqfsV.C12.GetLineProofs"], cwd=core.COQ)
        ok = rc == 0 and "Axioms: <none>" in out
        ctx.coverage["coqchk"] = "ok, no axioms" if ok else out[-600:]
        if not ok:
            ctx.violation("coqchk", "coqchk does not accept C12's proofs or reports axioms: " + out[-400:],
                          dict(kind="proof", detail=out[-3000:]), no_input=True)

    # ---- call sites ----
    if not ctx.replay:
        sites = syscall_sites()
        ctx.coverage["syscall_sites"] = {k: sorted(v) for k, v in sites.items()}
        for f, names in sorted(sites.items()):
            extra = names - EXPECTED_SITES.get(f, set())
            if extra:
                ctx.violation("callsite:%s:%s" % (f, ",".join(sorted(extra))),
                              "%s calls %s directly: a byte-transfer system call outside the modelled loops "
                              "(the tool-level reading of istream_chunk_free no longer covers it; the tool sweep below still ran)"
                              % (f, ",".join(sorted(extra))), dict(kind="callsite", file=f, calls=sorted(extra)), no_input=True)
        for f, names in EXPECTED_SITES.items():
            if not names <= sites.get(f, set()):
                ctx.violation("callsite-moved:%s" % f, "%s no longer calls %s: the modelled loop moved" % (f, ",".join(sorted(names))),
                              dict(kind="callsite", file=f), no_input=True)

    # ---- tool level ----
    if not ctx.replay or rkind == "tool":
        so = build_preload(ctx)
        runs, bad, sstats = tool_sweep(ctx, plain, so, bufsz)
        ctx.coverage["tool_runs"] = runs
        ctx.coverage["tool_shim_sample"] = sstats
        if sstats.get("shim_calls", 0) > 0 and sstats.get("shim_short", 0) == 0:
            ctx.violation("shim-inert", "the LD_PRELOAD shim did not shorten any call of the tools (search oracle would be vacuous)",
                          dict(kind="machinery", stats=sstats), no_input=True)
        for sig, what, rep in bad[:4]:
            ctx.violation(sig, "C12 violated at tool level: " + what, rep)


def setup():
    core.build_model_driver("C12", "ExtractC12.v", os.path.join(HERE, "driver.ml"))
