/* C12 component harness: runs operation lists against the working tree's real file istream /
 * file ostream / sqfs_file_t objects (and record_to_memory, istream_get_line, the tar iterator)
 * while shim_io.c (linked with -Wl,--wrap=...) splits, interrupts and fails the system calls.
 *
 * stdin (one token line each):
 *   C <seed> <mode> <eintr_pm> <fail_at> <zero_at> <nosparse> <pipechunk> [<ea0> <ea1> <ea2>]   begin case
 *     (ea*: call indices answered with -1/EAGAIN, -1 = unused; logged as "=A")
 *   D <hex|->      content of the istream's source            F <hex|->   initial content of the file object
 *   O <op> args    (read n | skip n | splice n | line flags | get want | adv n | record size |
 *                   put hex | hole n | flush | readat off size | writeat off hex | trunc len | fsize)
 *   T <hex>        tar mode: walk the archive <hex> with the tar iterator under the case's shim plan
 *   E              end of case
 * stdout: "P bufsz=.. zchunk=.." once, then per op "o <canonical result> | <syscall log>", per case
 *   "e out=<data> file=<data> fsize=<n>".
 * data canonical form: "<len>:<hash62>:<hex of first 24 bytes>". */
#include "config.h"
#include "sqfs/io.h"
#include "sqfs/error.h"
#include "sqfs/dir_entry.h"
#include "sqfs/xattr.h"
#include "util/parse.h"
#include "tar/tar.h"
#include "common.h"
#include "lib/tar/src/internal.h"

#include <stdio.h>
#include <stdlib.h>
#include <string.h>
#include <errno.h>
#include <fcntl.h>
#include <unistd.h>
#include <signal.h>
#include <sys/stat.h>
#include <sys/wait.h>

#include "shim_io.h"

static const char *tmpdir;
static char p_in[512], p_out[512], p_file[512];

static int hv(int c) { return c <= '9' ? c - '0' : (c | 32) - 'a' + 10; }

static unsigned char *unhex(const char *s, size_t *len)
{
	size_t n, i;
	unsigned char *b;

	if (strcmp(s, "-") == 0) {
		*len = 0;
		return calloc(1, 1);
	}
	n = strlen(s) / 2;
	b = malloc(n + 1);
	for (i = 0; i < n; ++i)
		b[i] = (unsigned char)(hv(s[2 * i]) * 16 + hv(s[2 * i + 1]));
	*len = n;
	return b;
}

static void canon(const unsigned char *d, size_t n)
{
	unsigned long long h = 0;
	size_t i;

	for (i = 0; i < n; ++i)
		h = ((h * 1000003ull) ^ (unsigned long long)d[i]) & ((1ull << 62) - 1);
	printf("%zu:%llu:", n, h);
	for (i = 0; i < n && i < 24; ++i)
		printf("%02x", d[i]);
}

static void print_log(void)
{
	size_t n, i;
	const struct shim_rec *r = shim_log(&n);

	printf(" |");
	for (i = 0; i < n; ++i) {
		printf(" %c%zu", r[i].kind, r[i].req);
		if (r[i].kind == 'R' || r[i].kind == 'W' || r[i].kind == 't')
			printf("@%lld", r[i].off);
		if (r[i].ret > 0)
			printf("=+%ld", r[i].ret);
		else if (r[i].ret == 0)
			printf("=0");
		else if (r[i].err == EINTR)
			printf("=I");
		else if (r[i].err == EAGAIN)
			printf("=A");
		else
			printf("=F");
	}
	printf("\n");
	shim_log_reset();
}

static void write_plain(const char *path, const unsigned char *d, size_t n)
{
	FILE *f = fopen(path, "wb");

	if (f == NULL || (n > 0 && fwrite(d, 1, n, f) != n) || fclose(f) != 0) {
		perror(path);
		exit(3);
	}
}

static unsigned char *read_plain(const char *path, size_t *n)
{
	FILE *f = fopen(path, "rb");
	unsigned char *b;
	long sz;

	if (f == NULL) {
		*n = 0;
		return calloc(1, 1);
	}
	fseek(f, 0, SEEK_END);
	sz = ftell(f);
	fseek(f, 0, SEEK_SET);
	b = malloc((size_t)sz + 1);
	if (sz > 0 && fread(b, 1, (size_t)sz, f) != (size_t)sz) {
		perror(path);
		exit(3);
	}
	fclose(f);
	*n = (size_t)sz;
	return b;
}

/* ---- per case state ---- */
static struct shim_cfg plan;
static int nosparse, pipechunk;
static unsigned char *src_data, *file_data;
static size_t src_len, file_len;
static sqfs_istream_t *in;
static sqfs_ostream_t *out;
static sqfs_file_t *file;
static pid_t feeder;
static int stopped;

static void open_objects(void)
{
	struct shim_cfg off;
	int ret, fd;

	memset(&off, 0, sizeof(off));
	off.fail_at = off.zero_at = -1;
	shim_configure(&off);

	if (pipechunk > 0) {
		int pfd[2];

		if (pipe(pfd) != 0) {
			perror("pipe");
			exit(3);
		}
		fflush(stdout);
		feeder = fork();
		if (feeder == 0) {
			size_t o = 0;

			close(pfd[0]);
			signal(SIGPIPE, SIG_DFL);
			while (o < src_len) {
				size_t n = src_len - o < (size_t)pipechunk ? src_len - o : (size_t)pipechunk;
				ssize_t w = write(pfd[1], src_data + o, n);	/* shim inactive here */

				if (w <= 0)
					_exit(1);
				o += (size_t)w;
				if ((o / (size_t)pipechunk) % 7 == 3)
					usleep(50);
			}
			_exit(0);
		}
		close(pfd[1]);
		ret = sqfs_istream_open_handle(&in, "pipe", pfd[0], 0);
	} else {
		write_plain(p_in, src_data, src_len);
		ret = sqfs_istream_open_file(&in, p_in, 0);
	}
	if (ret) {
		fprintf(stderr, "cannot open istream: %d\n", ret);
		exit(3);
	}
	unlink(p_out);
	ret = sqfs_ostream_open_file(&out, p_out, SQFS_FILE_OPEN_OVERWRITE |
				     (nosparse ? SQFS_FILE_OPEN_NO_SPARSE : 0));
	if (ret) {
		fprintf(stderr, "cannot open ostream: %d\n", ret);
		exit(3);
	}
	write_plain(p_file, file_data, file_len);
	fd = open(p_file, O_RDWR);
	ret = sqfs_file_open_handle(&file, p_file, fd, 0);
	if (ret) {
		fprintf(stderr, "cannot open file: %d\n", ret);
		exit(3);
	}
	shim_log_reset();
	shim_configure(&plan);
}

static void close_objects(void)
{
	struct shim_cfg off;
	unsigned char *d;
	size_t n;

	memset(&off, 0, sizeof(off));
	off.fail_at = off.zero_at = -1;
	shim_configure(&off);
	in = sqfs_drop(in);
	out = sqfs_drop(out);
	printf("e out=");
	d = read_plain(p_out, &n);
	canon(d, n);
	free(d);
	printf(" file=");
	d = read_plain(p_file, &n);
	canon(d, n);
	free(d);
	printf(" fsize=%llu\n", file ? (unsigned long long)file->get_size(file) : 0ull);
	file = sqfs_drop(file);
	if (feeder > 0) {
		int st;

		kill(feeder, SIGKILL);
		waitpid(feeder, &st, 0);
		feeder = 0;
	}
	free(src_data);
	free(file_data);
	src_data = file_data = NULL;
	src_len = file_len = 0;
}

static void do_op(char *line)
{
	char op[32];
	unsigned long long a = 0, b = 0;
	char *rest;
	int n = 0;

	if (sscanf(line, "%31s%n", op, &n) != 1)
		return;
	rest = line + n;
	while (*rest == ' ')
		++rest;
	if (in == NULL)
		open_objects();
	if (stopped) {
		printf("o stopped |\n");
		return;
	}
	printf("o ");
	if (strcmp(op, "read") == 0) {
		unsigned char *buf;
		sqfs_s32 ret;

		sscanf(rest, "%llu", &a);
		buf = malloc((size_t)a + 1);
		ret = sqfs_istream_read(in, buf, (size_t)a);
		printf("R %d", (int)ret);
		if (ret >= 0) {
			printf(" ");
			canon(buf, (size_t)ret);
		}
		free(buf);
	} else if (strcmp(op, "skip") == 0) {
		int ret;

		sscanf(rest, "%llu", &a);
		ret = sqfs_istream_skip(in, a);
		printf("K %d", ret);
	} else if (strcmp(op, "splice") == 0) {
		sqfs_s32 ret;

		sscanf(rest, "%llu", &a);
		ret = sqfs_istream_splice(in, out, (sqfs_u32)a);
		printf("S %d", (int)ret);
		if (ret < 0)
			stopped = 1;
	} else if (strcmp(op, "line") == 0) {
		char *l = NULL;
		size_t line_num = 0;
		int ret;

		sscanf(rest, "%llu", &a);
		ret = istream_get_line(in, &l, &line_num, (int)a);
		printf("L %d ", ret);
		if (ret == 0)
			canon((unsigned char *)l, strlen(l));
		else
			printf("-");
		if (ret >= 0)
			printf(" %zu", line_num);
		else
			printf(" -");
		free(l);
	} else if (strcmp(op, "get") == 0) {
		const sqfs_u8 *ptr = NULL;
		size_t sz = 0;
		int ret;

		sscanf(rest, "%llu", &a);
		ret = in->get_buffered_data(in, &ptr, &sz, (size_t)a);
		printf("G %d ", ret);
		if (ret == 0)
			canon(ptr, sz);
		else
			printf("-");
	} else if (strcmp(op, "adv") == 0) {
		sscanf(rest, "%llu", &a);
		in->advance_buffer(in, (size_t)a);
		printf("A");
	} else if (strcmp(op, "record") == 0) {
		char *p;
		int efd, nfd;

		sscanf(rest, "%llu", &a);
		/* record_to_memory reports on stderr; keep the harness log clean */
		fflush(stderr);
		efd = dup(2);
		nfd = open("/dev/null", O_WRONLY);
		dup2(nfd, 2);
		p = record_to_memory(in, (size_t)a);
		fflush(stderr);
		dup2(efd, 2);
		close(efd);
		close(nfd);
		printf("T ");
		if (p == NULL) {
			printf("null");
		} else {
			canon((unsigned char *)p, (size_t)a);
			printf(" nul=%d", p[a] == '\0');
		}
		free(p);
	} else if (strcmp(op, "put") == 0) {
		size_t len;
		unsigned char *d = unhex(rest, &len);
		int ret = out->append(out, d, len);

		printf("U %d", ret);
		if (ret)
			stopped = 1;
		free(d);
	} else if (strcmp(op, "hole") == 0) {
		int ret;

		sscanf(rest, "%llu", &a);
		ret = out->append(out, NULL, (size_t)a);
		printf("U %d", ret);
		if (ret)
			stopped = 1;
	} else if (strcmp(op, "flush") == 0) {
		int ret = out->flush(out);

		printf("U %d", ret);
		if (ret)
			stopped = 1;
	} else if (strcmp(op, "readat") == 0) {
		unsigned char *buf;
		int ret;

		sscanf(rest, "%llu %llu", &a, &b);
		buf = calloc(1, (size_t)b + 1);
		ret = file->read_at(file, a, buf, (size_t)b);
		printf("D %d ", ret);
		if (ret == 0)
			canon(buf, (size_t)b);
		else
			printf("-");
		free(buf);
	} else if (strcmp(op, "writeat") == 0) {
		char *sp;
		size_t len;
		unsigned char *d;
		int ret;

		a = strtoull(rest, &sp, 10);
		while (*sp == ' ')
			++sp;
		d = unhex(sp, &len);
		ret = file->write_at(file, a, d, len);
		printf("U %d", ret);
		if (ret)
			stopped = 1;
		free(d);
	} else if (strcmp(op, "trunc") == 0) {
		int ret;

		sscanf(rest, "%llu", &a);
		ret = file->truncate(file, a);
		printf("U %d", ret);
		if (ret)
			stopped = 1;
	} else if (strcmp(op, "fsize") == 0) {
		printf("N %llu", (unsigned long long)file->get_size(file));
	} else {
		printf("? %s", op);
	}
	print_log();
}

/* ---- tar mode: walk an archive with the real tar iterator; the listing must not depend on the plan */
static void do_tar(const char *hex)
{
	struct shim_cfg off;
	sqfs_dir_iterator_t *it;
	sqfs_istream_t *strm;
	unsigned char *d;
	size_t len;
	int ret, efd, nfd;
	unsigned long entries = 0;

	memset(&off, 0, sizeof(off));
	off.fail_at = off.zero_at = -1;
	shim_configure(&off);
	d = unhex(hex, &len);
	write_plain(p_in, d, len);
	free(d);
	ret = sqfs_istream_open_file(&strm, p_in, 0);
	if (ret) {
		printf("t open-failed %d\n", ret);
		return;
	}
	fflush(stderr);
	efd = dup(2);
	nfd = open("/dev/null", O_WRONLY);
	dup2(nfd, 2);
	shim_log_reset();
	shim_configure(&plan);
	it = tar_open_stream(strm, NULL);
	sqfs_drop(strm);
	if (it == NULL) {
		printf("t iterator-null\n");
		goto done;
	}
	for (;;) {
		sqfs_dir_entry_t *ent = NULL;
		char *target = NULL;
		sqfs_xattr_t *xattr = NULL, *x;

		ret = it->next(it, &ent);
		if (ret != 0) {
			printf("t end %d entries=%lu\n", ret, entries);
			break;
		}
		++entries;
		printf("t ent ");
		canon((unsigned char *)ent->name, strlen(ent->name));
		printf(" mode=%o uid=%llu gid=%llu size=%llu mtime=%lld rdev=%llu flags=%u",
		       (unsigned)ent->mode, (unsigned long long)ent->uid, (unsigned long long)ent->gid,
		       (unsigned long long)ent->size, (long long)ent->mtime,
		       (unsigned long long)ent->rdev, (unsigned)ent->flags);
		if (S_ISLNK(ent->mode)) {
			ret = it->read_link(it, &target);
			printf(" link=%d:", ret);
			if (target)
				canon((unsigned char *)target, strlen(target));
			free(target);
		}
		ret = it->read_xattr(it, &xattr);
		printf(" xattr=%d", ret);
		for (x = xattr; x != NULL; x = x->next) {
			printf(",");
			canon((unsigned char *)x->key, strlen(x->key));
			printf("=");
			canon(x->value, x->value_len);
		}
		sqfs_xattr_list_free(xattr);
		if (S_ISREG(ent->mode) && !(ent->flags & SQFS_DIR_ENTRY_FLAG_HARD_LINK)) {
			sqfs_istream_t *f = NULL;

			ret = it->open_file_ro(it, &f);
			printf(" open=%d", ret);
			if (ret == 0) {
				unsigned long long h = 0, total = 0;
				unsigned char buf[3001];

				for (;;) {
					sqfs_s32 r = sqfs_istream_read(f, buf, sizeof(buf));
					sqfs_s32 i;

					if (r <= 0) {
						printf(" data=%d:%llu:%llu", (int)r, total, h);
						break;
					}
					for (i = 0; i < r; ++i)
						h = ((h * 1000003ull) ^ buf[i]) & ((1ull << 62) - 1);
					total += (unsigned long long)r;
				}
				sqfs_drop(f);
			}
		}
		printf("\n");
		free(ent);
	}
	sqfs_drop(it);
done:
	shim_configure(&off);
	fflush(stderr);
	dup2(efd, 2);
	close(efd);
	close(nfd);
	{
		size_t n;

		shim_log(&n);
		printf("t calls=%zu\n", n);
		shim_log_reset();
	}
}

static void probe(void)
{
	struct shim_cfg full;
	const struct shim_rec *r;
	size_t n, i, bufsz = 0, zchunk = 0;
	const sqfs_u8 *ptr;
	size_t sz;
	unsigned char one = 'x';

	memset(&full, 0, sizeof(full));
	full.mode = SHIM_FULL;
	full.fail_at = full.zero_at = -1;
	full.active = 1;
	write_plain(p_in, &one, 1);
	if (sqfs_istream_open_file(&in, p_in, 0) != 0)
		exit(3);
	shim_configure(&full);
	in->get_buffered_data(in, &ptr, &sz, 1);
	r = shim_log(&n);
	if (n > 0)
		bufsz = r[0].req;
	shim_log_reset();
	in = sqfs_drop(in);
	unlink(p_out);
	if (sqfs_ostream_open_file(&out, p_out, SQFS_FILE_OPEN_OVERWRITE | SQFS_FILE_OPEN_NO_SPARSE) != 0)
		exit(3);
	out->append(out, NULL, 1 << 20);
	out->flush(out);
	r = shim_log(&n);
	for (i = 0; i < n; ++i)
		if (r[i].kind == 'w' && r[i].req > zchunk)
			zchunk = r[i].req;
	shim_log_reset();
	out = sqfs_drop(out);
	full.active = 0;
	shim_configure(&full);
	printf("P bufsz=%zu zchunk=%zu eintr=%d eio=%d eagain=%d\n", bufsz, zchunk, EINTR, EIO, EAGAIN);
}

int main(int argc, char **argv)
{
	char *line = NULL;
	size_t cap = 0;
	ssize_t len;

	if (argc < 2) {
		fprintf(stderr, "usage: h_io <scratch dir>\n");
		return 2;
	}
	tmpdir = argv[1];
	snprintf(p_in, sizeof(p_in), "%s/h_in.%d", tmpdir, (int)getpid());
	snprintf(p_out, sizeof(p_out), "%s/h_out.%d", tmpdir, (int)getpid());
	snprintf(p_file, sizeof(p_file), "%s/h_file.%d", tmpdir, (int)getpid());
	signal(SIGPIPE, SIG_IGN);
	probe();

	while ((len = getline(&line, &cap, stdin)) > 0) {
		while (len > 0 && (line[len - 1] == '\n' || line[len - 1] == '\r'))
			line[--len] = '\0';
		if (len == 0)
			continue;
		switch (line[0]) {
		case 'C': {
			unsigned long long seed = 0;
			int mode = 0, pm = 0;
			long fail_at = -1, zero_at = -1, ea[3] = { -1, -1, -1 };

			sscanf(line + 1, "%llu %d %d %ld %ld %d %d %ld %ld %ld", &seed, &mode, &pm, &fail_at,
			       &zero_at, &nosparse, &pipechunk, &ea[0], &ea[1], &ea[2]);
			memset(&plan, 0, sizeof(plan));
			plan.seed = seed;
			plan.mode = mode;
			plan.eintr_pm = pm;
			plan.max_burst = 3;
			plan.fail_at = fail_at;
			plan.zero_at = zero_at;
			plan.eagain_at[0] = ea[0];
			plan.eagain_at[1] = ea[1];
			plan.eagain_at[2] = ea[2];
			plan.eagain_on = (ea[0] >= 0 || ea[1] >= 0 || ea[2] >= 0);
			plan.active = 1;
			stopped = 0;
			src_data = calloc(1, 1);
			file_data = calloc(1, 1);
			src_len = file_len = 0;
			printf("c\n");
			break;
		}
		case 'D':
			free(src_data);
			src_data = unhex(line + 2, &src_len);
			break;
		case 'F':
			free(file_data);
			file_data = unhex(line + 2, &file_len);
			break;
		case 'O':
			do_op(line + 2);
			break;
		case 'T':
			do_tar(line + 2);
			break;
		case 'E':
			if (line[1] == 't') {
				free(src_data);
				free(file_data);
				src_data = file_data = NULL;
			} else {
				if (in == NULL)
					open_objects();
				close_objects();
			}
			fflush(stdout);
			break;
		default:
			break;
		}
	}
	free(line);
	unlink(p_in);
	unlink(p_out);
	unlink(p_file);
	return 0;
}
