(* C12 model driver: replays operation lists on the extracted model, feeding it the outcome
   stream the shim logged on the C side; prints the same canonical lines as h_io.c
   (per op: result | requests made).  Input: see h_io.c, plus
     B <bufsz> <zchunk>     measured constants          X <outcome tokens>   the case's outcome stream *)
open C12_model

let rec pos_of_int i = if i = 1 then XH else if i land 1 = 1 then XI (pos_of_int (i lsr 1)) else XO (pos_of_int (i lsr 1))
let n_of_int i = if i = 0 then N0 else Npos (pos_of_int i)
let rec int_of_pos = function XH -> 1 | XO p -> 2 * int_of_pos p | XI p -> 2 * int_of_pos p + 1
let int_of_n = function N0 -> 0 | Npos p -> int_of_pos p
let int_of_z = function Z0 -> 0 | Zpos p -> int_of_pos p | Zneg p -> - (int_of_pos p)

let byte_tab = Array.init 256 n_of_int

let hv c = if c <= '9' then Char.code c - 48 else (Char.code c lor 32) - 87
let unhex s =
  if s = "-" then [] else begin
    let n = String.length s / 2 in
    let r = ref [] in
    for i = n - 1 downto 0 do
      r := byte_tab.(hv s.[2*i] * 16 + hv s.[2*i+1]) :: !r
    done; !r
  end

let canon (l : n list) =
  let h = ref 0 and n = ref 0 in
  let b = Buffer.create 48 in
  List.iter (fun c ->
      let c = int_of_n c in
      h := ((!h * 1000003) lxor c) land ((1 lsl 62) - 1);
      if !n < 24 then Buffer.add_string b (Printf.sprintf "%02x" c);
      incr n) l;
  Printf.sprintf "%d:%d:%s" !n !h (Buffer.contents b)

let rec big_nat k acc = if k = 0 then acc else big_nat (k - 1) (S acc)
let fuel = big_nat 3_000_000 O

let kind_char = function KRead -> 'r' | KWrite -> 'w' | KPread -> 'R' | KPwrite -> 'W' | KTrunc -> 't'
let print_trace t =
  print_string " |";
  List.iter (fun (((k, req), off), _) ->
      match k with
      | KRead | KWrite -> Printf.printf " %c%d" (kind_char k) (int_of_n req)
      | _ -> Printf.printf " %c%d@%d" (kind_char k) (int_of_n req) (int_of_n off)) t;
  print_newline ()

let parse_outcomes s =
  let toks = List.filter (fun x -> x <> "") (String.split_on_char ' ' s) in
  List.map (fun t ->
      (* errno-carrying kernel answers (C12/Eagain.v): I = EINTR, F = EIO, A = EAGAIN, E<n> = errno n *)
      if t = "I" then KErrno c_EINTR else if t = "F" then KErrno c_EIO else if t = "A" then KErrno c_EAGAIN
      else if t = "Z" then KZero
      else if t.[0] = 'E' then KErrno (n_of_int (int_of_string (String.sub t 1 (String.length t - 1))))
      else KXfer (n_of_int (int_of_string (String.sub t 1 (String.length t - 1))))) toks

let words s = List.filter (fun x -> x <> "") (String.split_on_char ' ' s)

let () =
  let bufsz = ref (n_of_int 131072) and zchunk = ref (n_of_int 1024) in
  let src = ref [] and fdat = ref [] and nosparse = ref false in
  let ops = ref [] and outs = ref [] in
  let run_case () =
    let w = ref { w_in = istate_init; w_src = !src;
                  w_out = { o_content = []; o_sparse = N0; o_nosparse = !nosparse };
                  w_file = { f_content = !fdat; f_size = n_of_int (List.length !fdat) } } in
    let rest = ref !outs in
    let stopped = ref false in
    print_string "c\n";
    List.iter (fun line ->
        match words line with
        | [] -> ()
        | opname :: args ->
          if !stopped then print_string "o stopped |\n" else begin
            let a i = n_of_int (int_of_string (List.nth args i)) in
            let op = match opname with
              | "read" -> OpRead (a 0) | "skip" -> OpSkip (a 0) | "splice" -> OpSplice (a 0)
              | "line" -> OpLine (a 0) | "get" -> OpGet (a 0) | "adv" -> OpAdv (a 0)
              | "record" -> OpRecord (a 0) | "put" -> OpPut (unhex (List.nth args 0))
              | "hole" -> OpHole (a 0) | "flush" -> OpFlush
              | "readat" -> OpReadAt (a 0, a 1) | "writeat" -> OpWriteAt (a 0, unhex (List.nth args 1))
              | "trunc" -> OpTrunc (a 0) | "fsize" -> OpFSize
              | _ -> failwith ("bad op " ^ opname) in
            let pending_before = List.append (dropN !w.w_in.i_off !w.w_in.i_buf) !w.w_src in
            let consumed_before = List.length !rest in
            let (((x, w'), t), r'c) = run_k !bufsz !zchunk (op_client fuel op) !w !rest in
            (* run_k returns the classified rest; keep the errno-carrying one *)
            let rec drop k l = if k <= 0 then l else match l with [] -> [] | _ :: r -> drop (k - 1) r in
            let r' = drop (consumed_before - List.length r'c) !rest in
            (* unproved lemma re-observed: get_line on the buffered stream = spec_get_line on the unsplit bytes *)
            (match op, x with
             | OpLine fl, XL (LErr _) -> ()
             | OpLine fl, XL got ->
               let (want, _) = spec_gl fl [] N0 pending_before in
               if want <> got then print_string "SPEC-MISMATCH "
             | _ -> ());
            w := w'; rest := r';
            let stop_on_err = List.mem opname ["splice"; "put"; "hole"; "flush"; "writeat"; "trunc"] in
            print_string "o ";
            (match x with
             | XR RFuel | XL LFuel | XT TFuel -> print_string "FUEL"
             | XR (RRet (n, d)) ->
               (match opname with
                | "read" -> Printf.printf "R %d %s" (int_of_n n) (canon d)
                | "skip" -> Printf.printf "K 0"
                | _ -> Printf.printf "S %d" (int_of_n n))
             | XR (RErr e) ->
               if stop_on_err then stopped := true;
               (match opname with
                | "read" -> Printf.printf "R %d" (int_of_z e)
                | "skip" -> Printf.printf "K %d" (int_of_z e)
                | _ -> Printf.printf "S %d" (int_of_z e))
             | XL (LLine (l, k)) -> Printf.printf "L 0 %s %d" (canon l) (int_of_n k)
             | XL (LEof k) -> Printf.printf "L 1 - %d" (int_of_n k)
             | XL (LErr e) -> Printf.printf "L %d - -" (int_of_z e)
             | XT (TData d) -> Printf.printf "T %s nul=1" (canon d)
             | XT TShort | XT (TErr _) -> print_string "T null"
             | XG (GData wdw) -> Printf.printf "G 0 %s" (canon wdw)
             | XG GEof -> print_string "G 1 -"
             | XG (GErr e) -> Printf.printf "G %d -" (int_of_z e)
             | XU (Ok _) -> print_string "U 0"
             | XU (Err e) -> if stop_on_err then stopped := true; Printf.printf "U %d" (int_of_z e)
             | XD (Ok d) -> Printf.printf "D 0 %s" (canon d)
             | XD (Err e) -> Printf.printf "D %d -" (int_of_z e)
             | XN n -> Printf.printf "N %d" (int_of_n n)
             | XNone -> print_string "A");
            print_trace t
          end) (List.rev !ops);
    Printf.printf "e out=%s file=%s fsize=%d unused=%d\n" (canon !w.w_out.o_content)
      (canon !w.w_file.f_content) (int_of_n !w.w_file.f_size) (List.length !rest)
  in
  try
    while true do
      let line = input_line stdin in
      let n = String.length line in
      if n > 0 then begin
        let body = if n > 2 then String.sub line 2 (n - 2) else "" in
        match line.[0] with
        | 'B' -> (match words body with
            | [b; z] -> bufsz := n_of_int (int_of_string b); zchunk := n_of_int (int_of_string z)
            | _ -> ())
        | 'C' -> (match words body with
            | _ :: _ :: _ :: _ :: _ :: ns :: _ -> nosparse := (ns <> "0")
            | _ -> ());
          src := []; fdat := []; ops := []; outs := []
        | 'D' -> src := unhex body
        | 'F' -> fdat := unhex body
        | 'O' -> ops := body :: !ops
        | 'X' -> outs := parse_outcomes body
        | 'E' -> run_case ()
        | _ -> ()
      end
    done
  with End_of_file -> ()
