"""C05 leg "hostile COMPRESSED blocks for every compiled-in compressor" (strengthening, session 3: seed C05-9).

What was missing: the hostile images of the other legs store their metadata uncompressed (Builder) or are byte / bit / word
mutants of real images -- a mutated stream practically always fails to decode.  A block that IS a valid stream of the
codec but whose inner size field is forged, that expands to more or fewer bytes than its container expects, or that
stops early, never reached lib/sqfs/src/comp/*.c.  Two kinds of images, for gzip, xz, lzma, lz4 and zstd:

 A. real `gensquashfs -c X` images of the working tree, post-processed block by block (inode table, directory table,
    fragment / id / export table blocks, xattr key-value and id blocks, data blocks, fragment blocks):
      * same-length edits of the codec's inner header / trailer fields (lzma: props, dictionary size, the 32 bit size
        field at every boundary of the container; zstd: frame header descriptor, window descriptor, frame content size,
        first block header; zlib: CINFO / CM / FDICT with a valid check, first block type, Adler-32; xz: check id,
        dictionary size, the uncompressed size of the index with all CRCs fixed; lz4: first token, first match offset)
      * the stream of a metadata block replaced by another VALID stream that fits into the old space (container header
        updated): expands to 0 / 1 / half / 8191 bytes, to 8193, 16384, 64 KiB + 1, 1 MiB bytes; for lzma each of them
        again with the size field forged; the same stream truncated by 1 / 5 / half of its bytes
 B. Builder images with hand-made streams as data and fragment blocks (props/C10/sizeleg.py: valid streams that expand
    short / long; props/C10/errleg.py: streams aimed at each decoder's error exits), reused by path, extended here to lzma.

Oracle: sanitizers, signals, assertions, time-out on three harness modes and every tool (graceful refusal or a correct
answer, nothing else).  The model tie is NOT run on these images (only gzip is bound in the tie; a forged inner field is
exactly where a model of "the decompressor is a total function that respects the buffer" says nothing).
"""
import ctypes
import lzma
import os
import struct
import sys
import zlib

from vlib import sqfsimg as S

HERE = os.path.dirname(os.path.abspath(__file__))
_C10 = os.path.join(os.path.dirname(HERE), "C10")
if _C10 not in sys.path:
    sys.path.append(_C10)            # appended: C05's own modules win
import sizeleg  # noqa: E402
import errleg   # noqa: E402

CODECS = ["gzip", "xz", "lzma", "lz4", "zstd"]
COMP_ID = {"gzip": 1, "lzma": 2, "xz": 4, "lz4": 5, "zstd": 6}
META = 8192


# --------------------------------------------------------------------------
# codecs
# --------------------------------------------------------------------------

def lzma_alone(data, dict_size=1 << 16, size=None):
    """the stream lib/sqfs/src/comp/lzma.c writes: LZMA-alone with an end marker, the 64 bit size field overwritten with
    the 32 bit size (here: any value) and four zero bytes"""
    st = bytearray(lzma.compress(bytes(data), format=lzma.FORMAT_ALONE,
                                 filters=[{"id": lzma.FILTER_LZMA1, "preset": 6, "dict_size": dict_size}]))
    struct.pack_into("<II", st, 5, (len(data) if size is None else size) & 0xFFFFFFFF, 0)
    return bytes(st)


_orig_compress = sizeleg.compress


def compress(comp, data):
    if comp == "lzma":
        return lzma_alone(data)
    return _orig_compress(comp, data)


def lzma_hostile(rnd, good, data):
    """(name, stream): LZMA-alone streams aimed at lzma_uncomp_block's exits"""
    n = len(data)
    out = []
    for v in (0, 1, n - 1, n + 1, 2 * n, 0x10000, 0x7FFFFF00, 0x80000000, 0xFFFFFFFF):
        out.append(("size-%x" % v, lzma_alone(data, size=v)))
    for cut in (1, 5, len(good) // 2, len(good) - 14):
        out.append(("trunc-%d" % cut, good[:len(good) - cut]))
        out.append(("trunc-%d-size-big" % cut, lzma_alone(data, size=0x7FFFFF00)[:len(good) - cut]))
        out.append(("trunc-%d-size-small" % cut, lzma_alone(data, size=1)[:len(good) - cut]))
    g = bytearray(good)
    for nm, off, val in (("props-e1", 0, b"\xe1"), ("props-0", 0, b"\x00"), ("dict-0", 1, b"\0\0\0\0"), ("dict-max", 1, b"\xff\xff\xff\xff"),
                         ("dict-1g", 1, struct.pack("<I", 1 << 30)), ("size-hi", 9, b"\xff\xff\xff\xff")):
        h = bytearray(g)
        h[off:off + len(val)] = val
        out.append((nm, bytes(h)))
    out.append(("hdr-only", good[:13]))
    out.append(("hdr-short", good[:12]))
    out.append(("trailing", good + b"\0" * 7))
    out.append(("twice", good + good))
    half = data[:n // 2]
    out.append(("half-claims-full", lzma_alone(half, size=n)))          # decodes n/2 bytes, says n
    out.append(("full-claims-half", lzma_alone(data, size=n // 2)))
    h = bytearray(good)
    h[len(h) // 2] ^= 0x5A
    out.append(("bad-data", bytes(h)))
    return out


# the Builder legs of C10 extended to lzma (module attributes of the copies imported into THIS process only)
sizeleg.COMP_ID["lzma"] = COMP_ID["lzma"]
sizeleg.compress = compress
errleg.compress = compress
_orig_hostile = errleg.hostile_streams


def _hostile_streams(rnd, comp, good, data):
    if comp != "lzma":
        return _orig_hostile(rnd, comp, good, data)
    out = lzma_hostile(rnd, good, data)
    out.append(("random", bytes(rnd.getrandbits(8) for _ in range(rnd.choice([16, 200])))))
    out.append(("zero-byte", b"\0"))
    return out


errleg.hostile_streams = _hostile_streams


# --------------------------------------------------------------------------
# same-length edits of inner header / trailer fields
# --------------------------------------------------------------------------

def _put(st, off, val):
    st = bytearray(st)
    if off < 0 or off + len(val) > len(st):
        return None
    st[off:off + len(val)] = val
    return bytes(st)


def _vli(v):
    out = bytearray()
    while v >= 0x80:
        out.append((v & 0x7F) | 0x80)
        v >>= 7
    out.append(v)
    return bytes(out)


def _xz_index_size_edits(st, n):
    """forge the uncompressed size recorded in the xz index (same VLI length), index CRC fixed"""
    out = []
    try:
        bw = (struct.unpack_from("<I", st, len(st) - 8)[0] + 1) * 4
        ix = len(st) - 12 - bw
        if ix < 12 or st[ix] != 0:
            return out
        p = ix + 1

        def vli(p):
            v, sh = 0, 0
            while True:
                b = st[p]
                v |= (b & 0x7F) << sh
                sh += 7
                p += 1
                if not b & 0x80:
                    return v, p
        cnt, p = vli(p)
        unp, p = vli(p)
        q = p
        usz, p = vli(p)
        ln = p - q
        lo, hi = (0, 0x7F) if ln == 1 else (1 << (7 * (ln - 1)), (1 << (7 * ln)) - 1)
        for v in (usz + 1, usz - 1, lo, hi, min(hi, 8193), min(hi, 2 * usz)):
            if lo <= v <= hi and v != usz:
                h = bytearray(st)
                h[q:p] = _vli(v)
                struct.pack_into("<I", h, ix + bw - 4, zlib.crc32(bytes(h[ix:ix + bw - 4])))
                out.append(("xz-index-usize-%d" % v, bytes(h)))
    except (IndexError, struct.error):
        pass
    return out


def inner_edits(comp, st, n, bs):
    """[(label, stream of the SAME length)]: the codec's own size / window / type fields set to other values.
    st: a valid stream that expands to n bytes; bs: the data block size of the image."""
    out = []

    def add(label, s):
        if s is not None and s != st:
            out.append((label, s))
    if comp == "lzma":
        for v in (0, 1, n - 1, n + 1, 8191, 8192, 8193, bs, bs + 1, 0x10000, 0x7FFFFF00, 0x80000000, 0xFFFFFFFF):
            if v != n and v >= 0:
                add("lzma-size-%x" % v, _put(st, 5, struct.pack("<I", v)))
        add("lzma-size-hi", _put(st, 9, b"\1\0\0\0"))
        add("lzma-size-hi-ff", _put(st, 9, b"\xff\xff\xff\xff"))
        for v in (0, 1, 0xFFFFFFFF, 1 << 30, 1 << 26):
            add("lzma-dict-%x" % v, _put(st, 1, struct.pack("<I", v)))
        for v in (0xE1, 0x00, 0xFF, 0x5E):
            add("lzma-props-%x" % v, _put(st, 0, bytes([v])))
    elif comp == "zstd" and len(st) > 6 and st[:4] == b"\x28\xb5\x2f\xfd":
        fhd = st[4]
        fcs_flag, single, did = fhd >> 6, (fhd >> 5) & 1, fhd & 3
        off = 5
        if not single:
            for v in (0x00, 0x07, 0xA8, 0xFF):
                add("zstd-window-%x" % v, _put(st, off, bytes([v])))
            off += 1
        off += [0, 1, 2, 4][did]
        flen = [1 if single else 0, 2, 4, 8][fcs_flag]
        if flen == 1:
            vals = [bytes([v & 0xFF]) for v in (0, n - 1, n + 1, 255)]
        elif flen == 2:
            vals = [struct.pack("<H", max(0, min(65535, v - 256))) for v in (256, n - 1, n + 1, 8193, 65535 + 256)]
        elif flen == 4:
            vals = [struct.pack("<I", v & 0xFFFFFFFF) for v in (0, n - 1, n + 1, 8193, 0x7FFFFF00, 0xFFFFFFFF)]
        elif flen == 8:
            vals = [struct.pack("<Q", v & (2 ** 64 - 1)) for v in (0, n + 1, 8193, 1 << 32, 2 ** 64 - 1)]
        else:
            vals = []
        for k, v in enumerate(vals):
            add("zstd-fcs%d-%s" % (flen, v.hex()), _put(st, off, v))
        for v in (fhd | 0x08, fhd | 0x04, fhd ^ 0x20, fhd | 0x03, (fhd & 0x3F) | 0xC0, fhd & 0x3F):
            add("zstd-fhd-%x" % v, _put(st, 4, bytes([v])))
        bo = off + flen
        if bo + 3 <= len(st):
            bh = st[bo] | (st[bo + 1] << 8) | (st[bo + 2] << 16)
            size = bh >> 3
            for nb in (((size + 1) << 3) | (bh & 7), ((max(0, size - 1)) << 3) | (bh & 7), (bh & ~6) | 6, bh & ~1,
                       (0x1FFFFF << 3) | (bh & 7), (bh & ~6) | 2):
                add("zstd-block-%x" % nb, _put(st, bo, bytes([nb & 0xFF, (nb >> 8) & 0xFF, (nb >> 16) & 0xFF])))
    elif comp == "gzip" and len(st) > 6:
        cmf, flg = st[0], st[1]

        def hdr(c, f):
            f &= 0xE0
            f |= (31 - ((c << 8) | f) % 31) % 31
            return bytes([c, f])
        for ci in (0, 1, 4, 7, 8, 15):
            add("zlib-cinfo-%d" % ci, _put(st, 0, hdr((cmf & 0x0F) | (ci << 4), flg)))
        add("zlib-cm-7", _put(st, 0, hdr((cmf & 0xF0) | 7, flg)))
        add("zlib-fdict", _put(st, 0, hdr(cmf, flg | 0x20)))
        add("zlib-btype-3", _put(st, 2, bytes([st[2] | 0x06])))
        add("zlib-bfinal-0", _put(st, 2, bytes([st[2] & 0xFE])))
        ad = struct.unpack(">I", st[-4:])[0]
        add("zlib-adler+1", _put(st, len(st) - 4, struct.pack(">I", (ad + 1) & 0xFFFFFFFF)))
        add("zlib-adler-0", _put(st, len(st) - 4, b"\0\0\0\0"))
        if (st[2] >> 1) & 3 == 0 and len(st) > 7:        # stored block: LEN / NLEN
            ln = struct.unpack_from("<H", st, 3)[0]
            for v in (ln + 1, 0, 0xFFFF):
                add("zlib-stored-len-%x" % v, _put(st, 3, struct.pack("<HH", v & 0xFFFF, ~v & 0xFFFF)))
    elif comp == "xz" and len(st) > 24:
        for cid in (0, 2, 4, 10, 15):
            try:
                add("xz-check-%d" % cid, errleg.xz_set_check(st, cid))
            except Exception:
                pass
        for bits in (0, 30, 36, 40, 41):
            try:
                add("xz-dict-%d" % bits, errleg.xz_set_dict(st, bits))
            except Exception:
                pass
        out.extend(x for x in _xz_index_size_edits(st, n) if x[1] != st)
        add("xz-backward+1", (lambda h: (struct.pack_into("<I", h, len(h) - 8, struct.unpack_from("<I", h, len(h) - 8)[0] + 1),
                                         struct.pack_into("<I", h, len(h) - 12, zlib.crc32(bytes(h[-8:-2]))), bytes(h))[2])(bytearray(st)))
        add("xz-blockhdr-size+1", _put(st, 12, bytes([(st[12] + 1) & 0xFF])))
    elif comp == "lz4" and len(st) > 3:
        tok = st[0]
        for v in (0xFF, 0x0F, 0xF0, 0x00, tok ^ 0x10, tok ^ 0x01):
            add("lz4-token-%x" % v, _put(st, 0, bytes([v])))
        lit = tok >> 4
        if lit < 15 and 1 + lit + 2 <= len(st):
            for v in (0, 1, 0xFFFF, lit + 1):
                add("lz4-offset-%x" % v, _put(st, 1 + lit, struct.pack("<H", v)))
        add("lz4-last-ff", _put(st, len(st) - 1, b"\xff"))
    return out


# --------------------------------------------------------------------------
# where the blocks of a real image are
# --------------------------------------------------------------------------

def _chain(img, start, end, kind, out):
    pos = start
    k = 0
    while pos + 2 <= end and pos + 2 <= len(img):
        (h,) = struct.unpack_from("<H", img, pos)
        size = h & 0x7FFF
        if size == 0 or pos + 2 + size > len(img):
            break
        out.append(dict(kind=kind, pos=pos, size=size, comp=not (h & 0x8000), idx=k, meta=True))
        pos += 2 + size
        k += 1
    for b in out[::-1]:
        if b["kind"] == kind:
            b["last"] = True
            break


def locate_blocks(img):
    """list of dict(kind, pos (of the 2 byte header for metadata, of the stream for data), size, comp, meta, [last])"""
    sup = dict(zip(S.SUPER_FIELDS, struct.unpack_from(S.SUPER_FMT, img, 0)))
    NONE = 2 ** 64 - 1
    blocks = []

    def listed(start, count, esz, kind):
        locs = []
        if start == NONE or count == 0:
            return locs
        nblk = (count * esz + META - 1) // META
        for i in range(nblk):
            (l,) = struct.unpack_from("<Q", img, start + 8 * i)
            (h,) = struct.unpack_from("<H", img, l)
            blocks.append(dict(kind=kind, pos=l, size=h & 0x7FFF, comp=not (h & 0x8000), idx=i, meta=True, last=True))
            locs.append(l)
        return locs
    ends = []
    ends += listed(sup["frag_table_start"], sup["frag_count"], 16, "fragtable")
    ends += listed(sup["id_table_start"], sup["id_count"], 4, "idtable")
    ends += listed(sup["export_table_start"], sup["inode_count"], 8, "export")
    if sup["xattr_table_start"] != NONE:
        st = sup["xattr_table_start"]
        kv_start, count, _ = struct.unpack_from("<QII", img, st)
        xl = listed(st + 16, count, 16, "xattr-id")
        _chain(img, kv_start, min(xl) if xl else st, "xattr-kv", blocks)
        ends += [kv_start]
    for k in ("frag_table_start", "id_table_start", "export_table_start", "xattr_table_start"):
        if sup[k] != NONE:
            ends.append(sup[k])
    _chain(img, sup["inode_table_start"], sup["dir_table_start"], "inode", blocks)
    dir_end = min([x for x in ends if x > sup["dir_table_start"]] or [len(img)])
    _chain(img, sup["dir_table_start"], dir_end, "dir", blocks)
    im = S.Image(img)
    nd = 0
    for p, n in sorted(im.walk().items()):
        if n.type == S.T_FILE and n.block_sizes:
            pos = n.blocks_start
            for w in n.block_sizes:
                sz = w & 0xFFFFFF
                if sz and not (w & (1 << 24)) and nd < 4:
                    blocks.append(dict(kind="data", pos=pos, size=sz, comp=True, idx=nd, meta=False))
                    nd += 1
                pos += sz
    for k, fr in enumerate(im.frags or []):
        start, w = fr[0], fr[1]
        sz = w & 0xFFFFFF
        if sz and not (w & (1 << 24)) and k < 2:
            blocks.append(dict(kind="fragment", pos=start, size=sz, comp=True, idx=k, meta=False))
    return sup, blocks


def _stream(img, b):
    o = b["pos"] + (2 if b["meta"] else 0)
    return bytes(img[o:o + b["size"]])


def _beyond(comp, label, cap):
    """does this forged size field announce more than `cap` bytes"""
    try:
        if comp == "lzma" and label.startswith("lzma-size-") and "hi" not in label:
            return int(label.rsplit("-", 1)[1], 16) > cap
        if comp == "zstd" and "-fcs" in label:
            flen = int(label.split("-fcs")[1].split("-")[0])
            v = int.from_bytes(bytes.fromhex(label.rsplit("-", 1)[1]), "little")
            return (v + 256 if flen == 2 else v) > cap
        if comp == "xz" and "usize" in label:
            return int(label.rsplit("-", 1)[1]) > cap
    except ValueError:
        pass
    return False


def mutants_of(img, comp, rnd, quick):
    """[(name, image bytes, core)] -- core 2: evaluated by every run; 1: preferred sample; 0: sampled"""
    cid = COMP_ID[comp]
    sup, blocks = locate_blocks(img)
    bs = sup["block_size"]
    out = []
    for b in blocks:
        if not b["comp"]:
            continue
        st = _stream(img, b)
        cap = META if b["meta"] else bs
        try:
            data = S.decompress(cid, st, max(cap, 1 << 16))
        except Exception:
            continue
        o = b["pos"] + (2 if b["meta"] else 0)
        tag = "%s:%s%d" % (comp, b["kind"], b["idx"])
        # 1. same-length edits of inner fields
        for label, s2 in inner_edits(comp, st, len(data), bs):
            m = bytearray(img)
            m[o:o + len(s2)] = s2
            # 2: the codec's own size field says more than the container holds, in a block every reader path decodes;
            # 1: any other forged size field there; 0: the rest
            core = 0
            if ("size" in label or "fcs" in label or "usize" in label) and b["kind"] in ("inode", "dir", "fragment", "fragtable"):
                core = 2 if _beyond(comp, label, cap) else 1
            out.append(("comp:%s:%s" % (tag, label), bytes(m), core))
        if not b["meta"]:
            continue
        # 2. another valid stream in the old space (only where no later block is found through this one's length)
        if b.get("last"):
            pay = [("empty", b""), ("one", data[:1]), ("half", data[:len(data) // 2]), ("8191", (data + b"\0" * META)[:8191]),
                   ("8193", (data[:64] + b"\0" * 8200)[:8193]), ("16384", (data[:64] + b"\0" * 16384)[:16384]),
                   ("64k+1", (data[:64] + b"\0" * 65537)[:65537]), ("1m", (data[:64] + b"\0" * (1 << 20))[:1 << 20])]
            for nm, p in pay:
                variants = [(nm, None)]
                if comp == "lzma":
                    variants += [(nm + "-claims-%x" % v, v) for v in (len(data), 8192, 8193, 0x7FFFFF00) if v != len(p)]
                for vn, forged in variants:
                    try:
                        s2 = lzma_alone(p, size=forged) if comp == "lzma" else compress(comp, p)
                    except Exception:
                        continue
                    if not 0 < len(s2) <= b["size"]:
                        continue
                    m = bytearray(img)
                    struct.pack_into("<H", m, b["pos"], len(s2))
                    m[o:o + len(s2)] = s2
                    if b["kind"] == "inode" and forged is None and nm in ("8193", "1m"):
                        core = 2          # a truthful stream that expands beyond the container, in the first block every tool reads
                    elif b["kind"] in ("inode", "dir") and (forged is not None or len(p) > META):
                        core = 1
                    else:
                        core = 0
                    out.append(("comp:%s:expands-%s" % (tag, vn), bytes(m), core))
        # 3. the stream stops early
        for cut in (1, 5, b["size"] // 2):
            if 0 < cut < b["size"]:
                m = bytearray(img)
                struct.pack_into("<H", m, b["pos"], b["size"] - cut)
                out.append(("comp:%s:trunc-%d" % (tag, cut), bytes(m), 0))
    return out


# --------------------------------------------------------------------------
# the images
# --------------------------------------------------------------------------

def real_image(ctx, e, run_proc, comp, bs, rnd):
    src = os.path.join(ctx.scratch, "compleg-src")
    os.makedirs(src, exist_ok=True)
    if not os.path.exists(os.path.join(src, "pack.txt")):
        open(os.path.join(src, "a.txt"), "wb").write(b"hello compressed world\n" * 900)
        open(os.path.join(src, "b.txt"), "wb").write(b"".join(b"line %06d of b\n" % i for i in range(2000)))
        open(os.path.join(src, "t.txt"), "wb").write(b"tail of a small file\n" * 9)
        open(os.path.join(src, "u.txt"), "wb").write(b"another small one\n" * 30)
        lines = ["dir /d 0755 1000 100", "dir /d/e 0700 0 0", "file /d/a.txt 0644 1000 100 %s/a.txt" % src,
                 "file /d/b.txt 0600 0 0 %s/b.txt" % src, "file /t.txt 0644 0 0 %s/t.txt" % src,
                 "file /d/e/u.txt 0644 7 0 %s/u.txt" % src, "slink /lnk 0777 0 0 d/a.txt", "nod /chr 0600 0 0 c 5 1",
                 "pipe /fifo 0644 0 0", "sock /sock 0644 0 0", "link /hard 0 0 0 /d/a.txt"]
        xat = []
        for i in range(120):
            lines.append("dir /many%03d 0755 %d 0" % (i, i % 5))
            if i % 3 == 0:
                xat.append("# file: many%03d\nuser.k%d=\"value number %d\"\nuser.common=\"shared value shared value shared value\"\n" % (i, i, i))
        xat.append("# file: d/a.txt\nuser.a=\"b\"\nsecurity.x=0x%s\n" % ("ab" * 300))
        open(os.path.join(src, "pack.txt"), "w").write("\n".join(lines) + "\n")
        open(os.path.join(src, "xattr.txt"), "w").write("\n".join(xat))
    p = os.path.join(src, "c-%s-%d.sqfs" % (comp, bs))
    r = run_proc([e.T["gensquashfs"], "-q", "-f", "-e", "-F", os.path.join(src, "pack.txt"), "-A", os.path.join(src, "xattr.txt"),
                  "-c", comp, "-b", str(bs), "-j", "1", p], env=e.env, timeout=60)
    if r["rc"] != 0 or not os.path.exists(p):
        raise RuntimeError("gensquashfs -c %s failed: %s" % (comp, r["err"][:300]))
    return p, open(p, "rb").read()


def builder_images(rnd, comp, bs):
    """[(name, image, [file names to read in a process of their own])]"""
    out = []
    data, info = sizeleg.build_image(rnd, comp, bs)
    out.append(("comp:%s:builder-size" % comp, data, sorted(info["scen"]) + sorted(info["frag"])))
    data, info = errleg.build_image(rnd, comp, bs)
    names = ["x%02d" % k for k in range(len(info["only"]))] + ["m%02d" % k for k in range(len(info["mid"]))] + \
            ["f%02d" % k for k in range(len(info["frag"]) - 1)] + ["fb00"]
    out.append(("comp:%s:builder-err" % comp, data, names))
    return out


def run_leg(ctx, e, rnd, evaluate, run_proc, avail_ids):
    """returns (violations, stats dict of evaluate, summary)"""
    quick = ctx.tier == "quick"
    cases, targets, pristine = [], {}, {}
    summary = dict(codecs=[], real_mutants=0, real_mutants_run=0, builder_images=0, skipped=[])
    for comp in CODECS:
        if COMP_ID[comp] not in avail_ids:
            summary["skipped"].append(comp)
            continue
        summary["codecs"].append(comp)
        try:
            p, img = real_image(ctx, e, run_proc, comp, 4096, rnd)
            muts = mutants_of(img, comp, rnd, quick)
        except Exception as ex:
            ctx.violation("machinery:comp-leg", "cannot prepare the compressed-block images (%s): %r" % (comp, ex),
                          dict(kind="machinery", detail=repr(ex)), no_input=True)
            continue
        summary["real_mutants"] += len(muts)
        core = [m for m in muts if m[2] == 2]
        pref = [m for m in muts if m[2] == 1]
        rest = [m for m in muts if m[2] == 0]
        if quick:
            pref = rnd.sample(pref, min(len(pref), 6))
            rest = rnd.sample(rest, min(len(rest), 10 if core else 16))
        core = core + pref
        for nm, m, _ in core + rest:
            pristine[len(cases)] = p
            cases.append((nm, m))
        summary["real_mutants_run"] += len(core) + len(rest)
        try:
            for nm, data, names in builder_images(rnd, comp, 4096):
                targets[len(cases)] = [("-c", n.encode()) for n in (names if not quick else rnd.sample(names, min(len(names), 24)))]
                cases.append((nm, data))
                summary["builder_images"] += 1
        except Exception as ex:
            ctx.violation("machinery:comp-leg", "cannot build the hand-made stream images (%s): %r" % (comp, ex),
                          dict(kind="machinery", detail=repr(ex)), no_input=True)
    viol, st = evaluate(ctx, e, cases, model=False, targets=targets)
    summary["images"] = len(cases)
    return viol, st, summary
