/* Translator: prints coq/C05/GenC05.v (layout facts of the structs the C05 model parses) from
 * the working tree's headers.  Compiled and run by props/C05/check.py before the proofs are
 * re-checked, so that a layout / limit change in /repo re-checks the theorems against it. */
#include "config.h"
#include <stdio.h>
#include <stddef.h>
#include "sqfs/super.h"
#include "sqfs/block.h"
#include "sqfs/dir.h"
#include "sqfs/dir_entry.h"
#include "sqfs/inode.h"
#include "sqfs/error.h"
#include "sqfs/xattr.h"
#include "sqfs/meta_reader.h"

#define C(name) printf("Definition c5_%s : N := %llu.\n", #name, (unsigned long long)(name))
#define SZ(t) printf("Definition c5_sizeof_%s : N := %llu.\n", #t, (unsigned long long)sizeof(t))
#define OFF(t, f) printf("Definition o_%s_%s : N := %llu.\n", #t, #f, (unsigned long long)offsetof(t, f))

int main(void)
{
	printf("(* GENERATED from the working tree's headers by props/C05/gen_c05.c -- do not edit *)\n");
	printf("From Coq Require Import NArith.\nLocal Open Scope N_scope.\n");
	SZ(sqfs_inode_generic_t); SZ(sqfs_xattr_t);
	OFF(sqfs_inode_t, type); OFF(sqfs_inode_t, mode); OFF(sqfs_inode_t, uid_idx); OFF(sqfs_inode_t, gid_idx);
	OFF(sqfs_inode_t, mod_time); OFF(sqfs_inode_t, inode_number);
	OFF(sqfs_inode_dev_t, nlink); OFF(sqfs_inode_dev_t, devno);
	OFF(sqfs_inode_dev_ext_t, nlink); OFF(sqfs_inode_dev_ext_t, devno); OFF(sqfs_inode_dev_ext_t, xattr_idx);
	OFF(sqfs_inode_ipc_t, nlink); OFF(sqfs_inode_ipc_ext_t, nlink); OFF(sqfs_inode_ipc_ext_t, xattr_idx);
	OFF(sqfs_inode_slink_t, nlink); OFF(sqfs_inode_slink_t, target_size);
	OFF(sqfs_inode_file_t, blocks_start); OFF(sqfs_inode_file_t, fragment_index);
	OFF(sqfs_inode_file_t, fragment_offset); OFF(sqfs_inode_file_t, file_size);
	OFF(sqfs_inode_file_ext_t, blocks_start); OFF(sqfs_inode_file_ext_t, file_size); OFF(sqfs_inode_file_ext_t, sparse);
	OFF(sqfs_inode_file_ext_t, nlink); OFF(sqfs_inode_file_ext_t, fragment_idx);
	OFF(sqfs_inode_file_ext_t, fragment_offset); OFF(sqfs_inode_file_ext_t, xattr_idx);
	OFF(sqfs_inode_dir_t, start_block); OFF(sqfs_inode_dir_t, nlink); OFF(sqfs_inode_dir_t, size);
	OFF(sqfs_inode_dir_t, offset); OFF(sqfs_inode_dir_t, parent_inode);
	OFF(sqfs_inode_dir_ext_t, nlink); OFF(sqfs_inode_dir_ext_t, size); OFF(sqfs_inode_dir_ext_t, start_block);
	OFF(sqfs_inode_dir_ext_t, parent_inode); OFF(sqfs_inode_dir_ext_t, inodex_count);
	OFF(sqfs_inode_dir_ext_t, offset); OFF(sqfs_inode_dir_ext_t, xattr_idx);
	OFF(sqfs_dir_header_t, count); OFF(sqfs_dir_header_t, start_block); OFF(sqfs_dir_header_t, inode_number);
	OFF(sqfs_dir_node_t, offset); OFF(sqfs_dir_node_t, inode_diff); OFF(sqfs_dir_node_t, type); OFF(sqfs_dir_node_t, size);
	OFF(sqfs_dir_index_t, index); OFF(sqfs_dir_index_t, start_block); OFF(sqfs_dir_index_t, size);
	OFF(sqfs_fragment_t, start_offset); OFF(sqfs_fragment_t, size);
	OFF(sqfs_xattr_entry_t, type); OFF(sqfs_xattr_entry_t, size);
	OFF(sqfs_xattr_value_t, size);
	OFF(sqfs_xattr_id_t, xattr); OFF(sqfs_xattr_id_t, count); OFF(sqfs_xattr_id_t, size);
	OFF(sqfs_xattr_id_table_t, xattr_table_start); OFF(sqfs_xattr_id_table_t, xattr_ids);
	C(SQFS_INODE_MODE_FIFO); C(SQFS_INODE_MODE_CHR); C(SQFS_INODE_MODE_DIR); C(SQFS_INODE_MODE_BLK);
	C(SQFS_INODE_MODE_REG); C(SQFS_INODE_MODE_LNK); C(SQFS_INODE_MODE_SOCK); C(SQFS_INODE_MODE_MASK);
	C(SQFS_XATTR_USER); C(SQFS_XATTR_TRUSTED); C(SQFS_XATTR_SECURITY); C(SQFS_XATTR_FLAG_OOL); C(SQFS_XATTR_PREFIX_MASK);
	return 0;
}
