"""C05 leg "path / name lookup on hostile directory entry names" (strengthening after seed C05-10).

Builder images whose directory entries carry hostile names (embedded NUL with a long tail: size field > C string
length; '/', leading NUL, '.', '..', maximal 64 KiB names, names equal to / prefix of / extension of the component that
is looked up, before and after a benign entry of the same C string) are queried through every public lookup entry point
of the directory reader (props/C05/h_lookup.c: sqfs_dir_reader_resolve_path with root NULL / root inode / on a
DOT_ENTRIES reader + resolve_inum, sqfs_dir_reader_get_full_hierarchy with and without STORE_PARENTS), every path in a
heap buffer of exactly strlen+1 bytes, under ASan+UBSan, and through rdsquashfs -l/-s/-c <path>.

Oracle: no sanitizer report / signal / time-out; and the answer of sqfs_dir_reader_resolve_path equals the answer of
the EXTRACTED model of its component loop (coq/C05/Lookup.v `resolve` with rule LenStrlen, extracted by
coq/Extract/ExtractC05Lookup.v, run by props/C05/lookup_driver.ml on the directory listings the independent reader
vlib/sqfsimg.py takes from the image; all queries of a run go through one driver process): OK <ref> iff at every
component the first entry whose C string equals the component exists, NOT_DIR / NO_ENTRY otherwise.
`expect_resolve` (a Python transliteration of `resolve`) is no longer the oracle: `selftest` checks the driver against
the Examples of Lookup.v and against it, and it answers only the few queries whose evaluation in the list/unary-nat
model would take too long (a name AND a path of tens of KiB: cost estimate > MODEL_COST_LIMIT; counted as
`model_skipped`).  sqfs_dir_reader_get_full_hierarchy's component loop has a different shape (compare length from
strchrnul(path, '/'), then name[len] == 0; not `match_ent`): it is not in the Coq model, its answers are compared with
`expect_tree` (Python, observed)."""
import os
import re
import subprocess

from vlib import build as B
from vlib import core
from vlib.sqfsimg import Builder, BNode, Image, ParseError, T_DIR, T_FILE

HERE = os.path.dirname(os.path.abspath(__file__))


def err_codes():
    txt = open(os.path.join(B.REPO, "include", "sqfs", "error.h")).read()
    out = {}
    for k in ("SQFS_ERROR_NO_ENTRY", "SQFS_ERROR_NOT_DIR"):
        m = re.search(k + r"\s*=\s*(-?\d+)", txt)
        out[k] = int(m.group(1)) if m else None
    return out


def cstr(b):
    return b.split(b"\0")[0]


# ---- the extracted model (coq/Extract/ExtractC05Lookup.v + lookup_driver.ml) ----

MODEL_COST_LIMIT = 5 * 10 ** 6      # list cells touched by one `resolve` (rdc = nth_error (s ++ [0]) i is linear in the buffer): ~0.15 s


def model_driver():
    return core.build_model_driver("C05lookup", "ExtractC05Lookup.v", os.path.join(HERE, "lookup_driver.ml"))


def hx(b):
    return b.hex() or "-"


def fs_line(fs, root):
    return "fs %d %s\n" % (root, " ".join("%d=%s" % (r, ",".join("%s:%d" % (hx(nm), rf) for nm, rf in ents))
                                          for r, ents in fs.items() if ents is not None))


def parse_answer(l):
    w = l.split(" ")
    if w[0] == "OK":
        return ("OK", int(w[1]))
    if w[0] == "ERR":
        return ("ERR", "SQFS_ERROR_" + w[1])
    return (w[0],)          # CRASH / FUEL / BAD: never the answer of the library


def run_model(D, text, n, timeout=600):
    """one driver process; n answer lines expected"""
    r = subprocess.run([D], input=text.encode(), stdout=subprocess.PIPE, stderr=subprocess.PIPE, timeout=timeout)
    out = r.stdout.decode().split("\n")
    if out and out[-1] == "":
        out.pop()
    if r.returncode != 0 or len(out) != n:
        raise RuntimeError("C05lookup model driver: rc=%s, %d answers for %d queries: %s" % (
            r.returncode, len(out), n, r.stderr.decode()[-300:]))
    return [parse_answer(l) for l in out]


def model_cost(fs, root, path):
    """list cells the extracted `resolve` touches on this query (walk of the transliteration)"""
    cur, i, cost = root, 0, len(path)
    while i < len(path):
        if path[i:i + 1] == b"/":
            i += 1
            continue
        ents = fs.get(cur)
        if ents is None:
            break
        for nm, ref in ents:
            c = cstr(nm)
            L = len(c)
            k = len(os.path.commonprefix([c, path[i:i + L]]))
            cost += (k + 2) * (len(nm) + len(path) + 2)
            if k == L and (i + L == len(path) or path[i + L:i + L + 1] == b"/"):
                i += L
                cur = ref
                break
        else:
            break
    return cost


# ---- transliteration of coq/C05/Lookup.v (resolve LenStrlen); fs: ref -> None (not a directory) | [(name, ref)] ----
# (cross-check of the driver in selftest, and the answer for queries beyond MODEL_COST_LIMIT; NOT the oracle otherwise)

def expect_resolve(fs, root, path):
    cur, i = root, 0
    while i < len(path):
        if path[i:i + 1] == b"/":
            i += 1
            continue
        ents = fs.get(cur)
        if ents is None:
            return ("ERR", "SQFS_ERROR_NOT_DIR")
        for nm, ref in ents:
            c = cstr(nm)
            L = len(c)
            if path[i:i + L] == c and (i + L == len(path) or path[i + L:i + L + 1] == b"/"):
                # L = 0: path[i] is neither '/' nor the end here
                i += L
                cur = ref
                break
        else:
            return ("ERR", "SQFS_ERROR_NO_ENTRY")
    return ("OK", cur)


def expect_tree(fs, root, path):
    """sqfs_dir_reader_get_full_hierarchy: components cut at '/', match = C string of the name equals the component"""
    cur, name = root, b""
    for comp in path.split(b"/"):
        if comp == b"":
            continue
        ents = fs.get(cur)
        if ents is None:
            return ("ERR", "SQFS_ERROR_NOT_DIR")
        for nm, ref in ents:
            if cstr(nm) == comp:
                cur, name = ref, comp
                break
        else:
            return ("ERR", "SQFS_ERROR_NO_ENTRY")
    return ("OK", cur, name)


def selftest(D=None):
    """the Examples of coq/C05/Lookup.v through the extracted model (and the transliteration against the model)"""
    fs = {0: [(b"a\0XXXX", 1), (b"ab", 2), (b"a", 3)], 1: [(b"x", 4)], 2: None, 3: [(b"y", 5)], 4: None, 5: None}
    assert expect_resolve(fs, 0, b"a") == ("OK", 1)
    assert expect_resolve(fs, 0, b"/a//x/") == ("OK", 4)
    assert expect_resolve(fs, 0, b"ab") == ("OK", 2)
    assert expect_resolve(fs, 0, b"abc") == ("ERR", "SQFS_ERROR_NO_ENTRY")
    assert expect_resolve(fs, 0, b"ab/x") == ("ERR", "SQFS_ERROR_NOT_DIR")
    assert expect_resolve(fs, 0, b"a/y") == ("ERR", "SQFS_ERROR_NO_ENTRY")
    assert expect_resolve(fs, 0, b"") == ("OK", 0)
    if D is None:
        return
    # Lookup.v: resolve_size_len_refuted_l, resolve_ex_nested, resolve_ex_prefix, resolve_ex_notdir on wit_dirs
    wit = {0: [(b"a\0XXXX", 1), (b"ab", 2)], 1: [(b"x", 3)]}
    got = run_model(D, "w 61\nw 2f612f2f782f\nw 616263\nw 61622f78\n" + fs_line(wit, 0) + "s 61\nq 61\n", 6)
    want = [("OK", 1), ("OK", 3), ("ERR", "SQFS_ERROR_NO_ENTRY"), ("ERR", "SQFS_ERROR_NOT_DIR"), ("CRASH",), ("OK", 1)]
    if got != want:
        raise RuntimeError("C05lookup model driver does not reproduce the Examples of coq/C05/Lookup.v: %s" % (got,))
    qs = [b"a", b"/a//x/", b"ab", b"abc", b"ab/x", b"a/y", b"", b"a/x/z", b"//", b"b", b"a" * 300]
    got = run_model(D, fs_line(fs, 0) + "".join("q %s\n" % hx(q) for q in qs), len(qs))
    for q, g in zip(qs, got):
        if g != expect_resolve(fs, 0, q):
            raise RuntimeError("C05lookup: extracted model %s, transliteration %s on %r" % (g, expect_resolve(fs, 0, q), q))


# ---- images ----

def hostile_names(rnd, tier):
    big = [2998, 65534] if tier == "quick" else [2998, 8190, 8191, 8192, 20000, 65533, 65534]
    names = [b"a\0", b"a\0X", b"a\0" + b"X" * 5, b"a\0" + b"X" * 253, b"a\0" + b"X" * 254]
    names += [b"a\0" + bytes([rnd.randrange(1, 256)]) * k for k in big]
    names += [b"a\0/b", b"a\0a", b"ab\0" + b"Y" * 300, b"\0", b"\0a", b"\0" * 9, b"\0" + b"Z" * 4000]
    names += [b"a/b", b"/", b"a/", b"/a", b"//", b"a/b\0c"]
    names += [b".", b"..", b"...", b".\0" + b"x" * 100, b"..\0" + b"x" * 100, b"./a", b"../a"]
    names += [b"a" * 255, b"a" * 256, b"a" * 257, b"a" * 65536, b"a" * 65535 + b"\0"]
    names += [b"b\0" + b"\0" * 600, b"a\xff", b"\xff\0\xff" * 30]
    return names


def build_image(hostile, order, as_dir):
    """root: benign a/ (with b, c), ab, b + the hostile entry (a directory with x, y\\0zzz and a/ inside, or a file),
    before ('first') or after ('last') the benign entries, or alone ('only')."""
    def f(d=b"data"):
        return BNode(T_FILE, mode=0o644, data=d)

    def d(children):
        tot = sum(9 + len(n) for n, _ in children) + 3 + 12 * (len(children) // 256 + 1)
        return BNode(T_DIR, mode=0o755, children=children, ext=tot > 60000)
    inner = d([(b"x", f()), (b"y\0" + b"z" * 700, f()), (b"a", d([(b"b", f())]))])
    h = inner if as_dir else f(b"hostile")
    benign = [(b"a", d([(b"b", f()), (b"c", f())])), (b"ab", f()), (b"b", f())]
    if order == "first":
        ch = [(hostile, h)] + benign
    elif order == "last":
        ch = benign + [(hostile, h)]
    elif order == "mid":
        ch = benign[:1] + [(hostile, h)] + benign[1:]
    else:
        ch = [(hostile, h)]
    return Builder(d(ch)).build()


def queries(hostile):
    c = cstr(hostile)
    qs = [b"", b"/", b"//", b"a", b"/a", b"a/", b"ab", b"abc", b"b", b"a/b", b"/a//b/", b"a/b/c", b"a/c", b"a/x", b"ab/x",
          b"nonexistent", b".", b"..", b"./a", b"../a", b"a/.", b"a/..", b"a/../a", b"a/y", b"a/a/b", b"a/a/b/",
          b"aa", b"a" * 254, b"a" * 255, b"a" * 256, b"a" * 257]
    if c:
        qs += [c, c + b"/", b"/" + c, c + b"/x", c + b"/y", c + b"/a/b", c + b"//a//b//", c + b"/x/y", c + b"/nonexistent",
               c + b"x", c[:-1], c[:-1] + b"/x", c + c, c + b"/" + c]
    t = hostile.replace(b"\0", b"")
    if t and len(t) <= 70000:
        qs += [t, t + b"/x", t[:len(t) // 2]]
    if b"\0" in hostile:
        tail = hostile.split(b"\0", 1)[1]
        if tail and b"\0" not in tail:
            qs += [tail, c + tail]
    out, seen = [], set()
    for q in qs:
        if q not in seen and b"\0" not in q:
            seen.add(q)
            out.append(q)
    return out


def parse_fs(img):
    """ref -> None | [(name, ref)] by the independent reader (vlib/sqfsimg.py); None if it refuses anything"""
    try:
        im = Image(img)
        root = im.super["root_ref"]
        fs, ino, todo = {}, {}, [root]
        while todo:
            r = todo.pop()
            if r in fs:
                continue
            n = im.inode(r)
            ino[r] = (n.raw_type, n.ino)
            if n.type != T_DIR:
                fs[r] = None
                continue
            ents, _ = im.readdir(n)
            fs[r] = [(nm, rf) for nm, rf, _, _ in ents]
            todo += [rf for _, rf, _, _ in ents]
            if len(fs) > 5000:
                return None
        return fs, ino, root
    except (ParseError, Exception):
        return None


def run_leg(ctx, e, rnd, run_proc, died, timeout):
    D = model_driver()
    selftest(D)
    H = B.compile_harness(e.info, [os.path.join(HERE, "h_lookup.c")], "h_lookup_c05",
                          extra=["-I" + os.path.join(B.REPO, "include")])
    codes = err_codes()
    names = hostile_names(rnd, ctx.tier)
    cases = []
    for k, nm in enumerate(names):
        if ctx.tier == "quick":
            combos = [("first", True), ("last", k % 2 == 0)] if len(nm) < 60000 else [("first", True)]
            if k % 5 == 0:
                combos.append(("only", False))
        else:
            combos = [(o, a) for o in ("first", "last", "mid", "only") for a in (True, False)]
        for order, as_dir in combos:
            cases.append(dict(name="lookup:%s:%s:%s" % (nm[:12].hex() + ("+%d" % len(nm) if len(nm) > 12 else ""), order,
                                                       "dir" if as_dir else "file"),
                              hostile=nm, img=build_image(nm, order, as_dir), qs=queries(nm)))
    d = os.path.join(ctx.scratch, "lookup")
    os.makedirs(d, exist_ok=True)
    for k, c in enumerate(cases):
        c["path"] = os.path.join(d, "l%03d.sqfs" % k)
        c["qf"] = os.path.join(d, "l%03d.q" % k)
        open(c["path"], "wb").write(c["img"])
        open(c["qf"], "w").write("".join((q.hex() or "-") + "\n" for q in c["qs"]))
    from concurrent.futures import ThreadPoolExecutor

    # the extracted model on every (listing, path): ONE driver process for the run, beside the harness runs
    mtext, mslots, skipped = [], [], 0
    for c in cases:
        c["parsed"] = parse_fs(c["img"])
        c["model"] = {}
        if c["parsed"] is None:
            continue
        fs, _, root = c["parsed"]
        mtext.append(fs_line(fs, root))
        for q in c["qs"]:
            if model_cost(fs, root, q) > MODEL_COST_LIMIT:
                skipped += 1
                continue
            mtext.append("q %s\n" % hx(q))
            mslots.append((c, q))

    def runh(c):
        return run_proc([H, c["path"], c["qf"]], env=e.env, timeout=timeout * 3)
    with ThreadPoolExecutor(13) as ex:
        mfut = ex.submit(run_model, D, "".join(mtext), len(mslots))
        hres = list(ex.map(runh, cases))
        for (c, q), a in zip(mslots, mfut.result()):
            c["model"][q] = a
    viol = []
    st = dict(runs=len(cases), compared=0, agree=0, unk=0, nontrivial=set(), tree_ok=0, err_classes={}, tool_runs=0,
              verdict_checked=0, img_compared=0, img_agree=0, images=len(cases), queries=0, calls=0, answers_checked=0, found=0,
              model_answers=len(mslots), model_skipped=skipped)
    tool_jobs = []
    for c, r in zip(cases, hres):
        out = r["out"].decode("latin-1").split("\n")
        dd = died(r)
        lastq, done = None, []
        for l in out:
            if l.startswith("q "):
                lastq, done = l[2:], []
            elif l:
                done.append(l.split(" ")[0])
        if dd:
            q = b"" if lastq in (None, "-") else bytes.fromhex(lastq)
            viol.append(dict(sig="crash:lookup:%s" % dd, what="lookup harness on image '%s', path %r (calls of this path "
                             "completed before: %s): %s; %s" % (c["name"], q[:80], done, dd, r["err"][:300].replace("\n", " ")),
                             img=c["img"], name=c["name"], concrete=True,
                             detail=dict(leg="lookup", tool="h_lookup", path_hex=lastq, hostile_name_hex=c["hostile"][:64].hex(),
                                         hostile_name_len=len(c["hostile"]), stderr=r["err"][:3000])))
            continue
        if "end" not in out:
            viol.append(dict(sig="machinery:lookup-harness", what="h_lookup gave no complete transcript on '%s': rc=%s %s" % (
                c["name"], r["rc"], r["err"][:200]), img=c["img"], name=c["name"], concrete=False, detail=dict(leg="lookup")))
            continue
        parsed = c["parsed"]
        if parsed is None:
            st["unk"] += 1
            continue
        fs, ino, root = parsed
        cur = None
        ans = {}
        for l in out:
            if l.startswith("q "):
                cur = b"" if l[2:] == "-" else bytes.fromhex(l[2:])
                ans[cur] = {}
            elif cur is not None and l and l != "end":
                w = l.split(" ")
                ans[cur][w[0]] = w[1:]
        for q in c["qs"]:
            a = ans.get(q)
            st["queries"] += 1
            if a is None or any(t not in a for t in ("rp", "rr", "rd", "fh", "fp")):
                viol.append(dict(sig="machinery:lookup-harness", what="no answer for path %r on '%s'" % (q[:60], c["name"]),
                                 img=c["img"], name=c["name"], concrete=False, detail=dict(leg="lookup", path_hex=q.hex())))
                break
            st["calls"] += 5
            bad = None
            er = c["model"].get(q)
            src = "extracted model coq/C05/Lookup.v resolve LenStrlen"
            if er is None:          # beyond MODEL_COST_LIMIT (counted in model_skipped)
                er = expect_resolve(fs, root, q)
                src = "Python transliteration of coq/C05/Lookup.v (query too long for the extracted model)"
            for tag in ("rp", "rr"):
                got = a[tag]
                if tag == "rr" and not any(x for x in q.split(b"/")):
                    continue        # no component + explicit root = resolve_inum without DOT_ENTRIES: not a path lookup
                st["answers_checked"] += 1
                if er[0] == "OK":
                    if got[0] != "OK" or int(got[1]) != er[1]:
                        bad = (tag, got, er, src)
                elif er[0] != "ERR":
                    bad = (tag, got, er, src)
                elif got[0] != "ERR" or int(got[1]) != codes[er[1]]:
                    bad = (tag, got, (er[0], er[1], codes[er[1]]), src)
            comps = [x for x in q.split(b"/") if x]
            if not any(x in (b".", b"..") for x in comps) and a["rd"][:2] != a["rp"][:2]:
                bad = bad or ("rd", a["rd"], a["rp"], "the answer of the reader without DOT_ENTRIES")
            et = expect_tree(fs, root, q)
            for tag in ("fh", "fp"):
                got = a[tag]
                st["answers_checked"] += 1
                if et[0] == "OK":
                    want_name = (et[2].hex() or "-") if tag == "fh" else "-"
                    want_ino = ino[et[1]] if tag == "fh" else ino[root]
                    if got[0] != "OK" or got[1] != want_name or (int(got[2]), int(got[3])) != want_ino:
                        bad = bad or (tag, got, ("OK", want_name) + want_ino, "expect_tree (Python, observed)")
                elif got[0] != "ERR" or int(got[1]) != codes[et[1]]:
                    bad = bad or (tag, got, (et[0], et[1], codes[et[1]]), "expect_tree (Python, observed)")
            if er[0] == "OK":
                st["found"] += 1
            if bad:
                tag, got, want, src = bad
                viol.append(dict(sig="lookup-answer:%s" % tag, what="lookup %s of path %r on image '%s' (hostile entry name of %d "
                                 "bytes): library answers '%s', %s '%s'" % (
                                     tag, q[:80], c["name"], len(c["hostile"]), " ".join(got)[:80], src,
                                     " ".join(map(str, want))[:80]),
                                 img=c["img"], name=c["name"], concrete=False,
                                 detail=dict(leg="lookup", path_hex=q.hex(), call=tag, impl=got, model=list(map(str, want)),
                                             model_source=src,
                                             correspondence="props/C05/lookup.py: extracted coq/C05/Lookup.v resolve "
                                                            "LenStrlen (ExtractC05Lookup.v, lookup_driver.ml) on the image's "
                                                            "listings = h_lookup rp/rr answers; fh/fp = expect_tree")))
                break
        else:
            st["img_agree"] += 1
        st["img_compared"] += 1
        # the tools with a path argument (argv strings: sanitizer / signal / time-out oracle only)
        tq = [q for q in c["qs"] if q and len(q) < 4000 and expect_tree(fs, root, q)[0] == "OK"]
        pick = ([tq[0], tq[len(tq) // 2], tq[-1]] if tq else []) + [cstr(c["hostile"])[:200] + b"x"]
        for q in dict.fromkeys(pick):
            if not q:
                continue
            for fl in ("-l", "-s", "-c"):
                tool_jobs.append((c, fl, q))

    def runt(j):
        c, fl, q = j
        return j, run_proc([e.T["rdsquashfs"], fl, q, c["path"]], env=e.env, stdout=subprocess.DEVNULL, timeout=timeout)
    with ThreadPoolExecutor(16) as ex:
        tres = list(ex.map(runt, tool_jobs))
    st["tool_runs"] = len(tres)
    st["runs"] += len(tres)
    for (c, fl, q), r in tres:
        dd = died(r)
        if dd:
            sig = ("hang:rdsquashfs %s <path>" % fl) if dd == "timeout" else "crash:rdsquashfs %s <path>:%s" % (fl, dd)
            viol.append(dict(sig=sig, what="rdsquashfs %s %r on image '%s': %s; %s" % (fl, q[:80], c["name"], dd,
                                                                                      r["err"][:300].replace("\n", " ")),
                             img=c["img"], name=c["name"], concrete=True,
                             detail=dict(tool="rdsquashfs " + fl, targets=[[fl, q.decode("latin-1")]],
                                         stderr=r["err"][:3000])))
    for c in cases:
        for p in (c["path"], c["qf"]):
            try:
                os.unlink(p)
            except OSError:
                pass
    return viol, st


def replay(ctx, e, r, img, run_proc, died, timeout):
    """re-run one recorded lookup (image + path) through the harness"""
    H = B.compile_harness(e.info, [os.path.join(HERE, "h_lookup.c")], "h_lookup_c05",
                          extra=["-I" + os.path.join(B.REPO, "include")])
    d = os.path.join(ctx.scratch, "lookup")
    os.makedirs(d, exist_ok=True)
    p, qf = os.path.join(d, "replay.sqfs"), os.path.join(d, "replay.q")
    open(p, "wb").write(img)
    open(qf, "w").write((r.get("path_hex") or "-") + "\n")
    rr = run_proc([H, p, qf], env=e.env, timeout=timeout * 3)
    dd = died(rr)
    if dd:
        return [dict(sig="crash:lookup:%s" % dd, what="replayed lookup of path hex %s: %s; %s" % (
            r.get("path_hex"), dd, rr["err"][:300].replace("\n", " ")), img=img, name=r.get("image_name"), concrete=True,
            detail=dict(leg="lookup", path_hex=r.get("path_hex")))]
    ctx.log("replayed lookup: " + rr["out"].decode("latin-1").replace("\n", " | ")[:400])
    return []
