"""C05 hostile image generator: valid Builder trees x single-field overrides aimed at the
boundaries of every check the reader model makes, reference loops, plus byte/bit mutation of
real gensquashfs images.  Everything derives from the random.Random handed in."""
import copy
import struct

from vlib.sqfsimg import (Builder, BNode, T_DIR, T_FILE, T_SLINK, T_BDEV, T_CDEV, T_FIFO, T_SOCK, META, NOID,
                          NOTBL, SUPER_FMT, SUPER_FIELDS)

BS = 4096
M32 = 0xFFFFFFFF
M64 = 0xFFFFFFFFFFFFFFFF


# --------------------------------------------------------------------------
# valid base trees
# --------------------------------------------------------------------------

def pat(n, seed):
    return bytes(((i * 7 + seed * 13) & 0xFF) or 1 for i in range(n))


def tree_small(rnd, ext=False):
    f1 = BNode(T_FILE, data=pat(5000, 1), ext=ext)
    f2 = BNode(T_FILE, data=pat(100, 2), ext=ext)
    l = BNode(T_SLINK, mode=0o777, target=b"f1", ext=ext)
    d2 = BNode(T_DIR, mode=0o755, children=[(b"x", BNode(T_FILE, data=pat(10, 3), ext=ext))], ext=ext)
    return BNode(T_DIR, mode=0o755, uid=1000, gid=100, ext=ext,
                 children=[(b"d", d2), (b"f1", f1), (b"f2", f2), (b"l", l)])


def tree_types(rnd, ext=False):
    ch = [
        (b"blk", BNode(T_BDEV, mode=0o600, dev=0x801, ext=ext)),
        (b"chr", BNode(T_CDEV, mode=0o600, dev=0x501, ext=ext)),
        (b"empty", BNode(T_FILE, data=b"", ext=ext)),
        (b"fifo", BNode(T_FIFO, mode=0o644, ext=ext)),
        (b"hole", BNode(T_FILE, data=b"\0" * BS + pat(BS, 5) + b"\0" * BS + pat(17, 6), ext=ext)),
        (b"lnk", BNode(T_SLINK, mode=0o777, target=b"../some/where", uid=5, ext=ext)),
        (b"sock", BNode(T_SOCK, mode=0o644, gid=7, ext=ext)),
        (b"sub", BNode(T_DIR, mode=0o700, ext=ext, children=[
            (b"deep", BNode(T_DIR, mode=0o755, ext=ext, children=[(b"leaf", BNode(T_FILE, data=pat(BS, 9), ext=ext))])),
            (b"two", BNode(T_FILE, data=pat(2 * BS + 1, 4), ext=ext))])),
    ]
    return BNode(T_DIR, mode=0o755, children=ch, ext=ext)


def tree_bigdir(rnd, ext=True):
    ch = []
    for i in range(270):
        nm = b"e%04d" % i + b"x" * (i % 23)
        if i % 7 == 0:
            ch.append((nm, BNode(T_DIR, mode=0o755, children=[])))
        elif i % 5 == 0:
            ch.append((nm, BNode(T_SLINK, mode=0o777, target=b"t%d" % i)))
        else:
            ch.append((nm, BNode(T_FILE, data=pat(i % 40, i))))
    return BNode(T_DIR, mode=0o755, children=ch, ext=ext)


def tree_frag(rnd, ext=False):
    ch = []
    for i in range(6):
        ch.append((b"f%d" % i, BNode(T_FILE, data=pat(BS * (i % 3) + 700 + 13 * i, i), ext=(ext or i == 4))))
    return BNode(T_DIR, mode=0o755, children=ch)


def tree_nested(rnd, depth=12):
    d = BNode(T_DIR, mode=0o755, children=[(b"f", BNode(T_FILE, data=pat(33, 1)))])
    for i in range(depth):
        d = BNode(T_DIR, mode=0o755, children=[(b"n%d" % i, d)])
    return d


TEMPLATES = [
    ("small", lambda r: (tree_small(r), dict())),
    ("small-ext", lambda r: (tree_small(r, True), dict())),
    ("types", lambda r: (tree_types(r), dict())),
    ("types-ext", lambda r: (tree_types(r, True), dict())),
    ("frag", lambda r: (tree_frag(r), dict(frag=True))),
    ("frag-ext", lambda r: (tree_frag(r, True), dict(frag=True))),
    ("small-frag", lambda r: (tree_small(r), dict(frag=True))),
    ("bigdir", lambda r: (tree_bigdir(r), dict())),
    ("nested", lambda r: (tree_nested(r), dict())),
]


def all_nodes(root):
    out = []
    seen = set()

    def go(n, path):
        if id(n) in seen:
            return
        seen.add(id(n))
        out.append((path, n))
        for nm, c in n.children:
            go(c, path + b"/" + nm)
    go(root, b"")
    return out


def build(root, super_ov=None, **kw):
    return Builder(root, block_size=BS, super_ov=super_ov or {}, **kw).build()


def fresh(make, rnd):
    root, kw = make(rnd)
    return root, kw


# --------------------------------------------------------------------------
# single-field overrides
# --------------------------------------------------------------------------

def u(v, bits):
    return v & ((1 << bits) - 1)


def around(v, bits):
    return sorted({u(v - 1, bits), u(v, bits), u(v + 1, bits)})


def edge(bits):
    return [0, 1, (1 << bits) - 2, (1 << bits) - 1]


def node_overrides(n, lay_probe):
    """list of (ov key, value) for node n; lay_probe = dict of facts from a first build"""
    o = []
    t = n.typ
    ext = n.ext
    for v in [0, 15, 16, 0xFFFF, 1, 2, 3, 8, 9, 10, 14]:
        o.append(("type", v))
    for v in [0, 1, lay_probe["nids"] - 1, lay_probe["nids"], 0xFFFF]:
        o.append(("uid_idx", v))
        o.append(("gid_idx", v))
    for v in [0, 1, M32, lay_probe["root_ino"], lay_probe.get("parent_ino", 1)]:
        o.append(("ino", v))
    o.append(("mode", 0xFFFF))
    o.append(("mtime", M32))
    if t == T_DIR:
        real = n._dsize
        for v in sorted(set(edge(32 if ext else 16) + [2, 3, 4, 11, 12, 13, 14, 15, 20, 21, 22, real - 1, real + 1,
                                                        real - 9, real + 9, real + 12, real + 8, 8192, 8195])):
            if v >= 0:
                o.append(("size", v))
        for v in [0, 1, 8191, 8192, 0xFFFF, (n._dpos % META) + 1, (n._dpos % META) + 12, lay_probe["dir_len"] % META,
                  (lay_probe["dir_len"] % META) - 1]:
            o.append(("offset", v & 0xFFFF))
        for v in [0, 1, 2, META + 2, 2 * (META + 2), lay_probe["dir_len"], lay_probe["dir_len"] + 2, M32, M32 - 1,
                  lay_probe["dir_len"] - 1]:
            o.append(("start_block", v & M32))
        for v in [0, 1, M32]:
            o.append(("parent", v))
            o.append(("nlink", v))
        if ext:
            for v in [1, 2, 100, 0xFFFF]:
                o.append(("icount", v))
            for v in [0, 1, M32 - 1]:
                o.append(("xattr", v))
        if n.children:
            for v in [0, 1, len(n.children) - 2, len(n.children), 255, 256, 257, M32]:
                o.append(("hdr_count", v & M32))
            for v in [1, META + 2, lay_probe["ino_len"], M32]:
                o.append(("hdr_start", v))
            for v in [0, 1, M32]:
                o.append(("hdr_ino", v))
    if t == T_FILE:
        real = len(n.data)
        big = [M32, M32 - 1, 1 << 31] if not ext else [M32, 1 << 32, (1 << 32) + 1, 1 << 40, 1 << 52, 1 << 63, M64, M64 - 1,
                                                        BS << 29, (BS << 29) - 1, (BS << 19)]
        for v in sorted(set([0, 1, BS - 1, BS, BS + 1, 2 * BS - 1, 2 * BS, 2 * BS + 1, real - 1, real + 1, real + BS,
                             max(real - BS, 0), (real // BS) * BS, (real // BS + 1) * BS] + big)):
            if v >= 0:
                o.append(("file_size", v))
        for v in [0, 1, 95, 96, lay_probe["file_len"], lay_probe["file_len"] - 1, lay_probe["file_len"] - BS,
                  lay_probe["file_len"] + 1, M32, (1 << 63) - 1, 1 << 63, M64, M64 - BS]:
            if v >= 0 and (ext or v <= M32):
                o.append(("blocks_start", v))
        for v in [0, 1, lay_probe["nfrags"] - 1, lay_probe["nfrags"], lay_probe["nfrags"] + 1, M32, M32 - 1]:
            if v >= 0:
                o.append(("frag_idx", v))
        tail = real % BS
        for v in [0, 1, BS - tail - 1, BS - tail, BS - tail + 1, BS - 1, BS, BS + 1, M32, M32 - tail, M32 - tail + 1,
                  0xFFFFFFF0, (1 << 31), lay_probe.get("frag_used", 0) - tail, lay_probe.get("frag_used", 0) - tail + 1]:
            if v >= 0:
                o.append(("frag_off", v & M32))
        sizes = list(n._sizes)
        words = [0, 1, BS - 1, BS, BS + 1, (1 << 24) - 1, 1 << 24, (1 << 24) | 1, (1 << 24) | (BS - 1), (1 << 24) | BS,
                 (1 << 24) | (BS + 1), (1 << 24) | ((1 << 24) - 1), 1 << 25, (1 << 25) | (1 << 24) | BS, M32,
                 (1 << 24) | 904, 903, 905, (1 << 24) | 905, (1 << 24) | 903, 2 * BS, (1 << 24) | (2 * BS)]
        for i in range(len(sizes)):
            for w in words:
                s2 = list(sizes)
                s2[i] = w
                o.append(("block_sizes", s2))
        o.append(("block_sizes", sizes + [(1 << 24) | 10]))
        if sizes:
            o.append(("block_sizes", sizes[:-1]))
        o.append(("block_sizes", []))
        o.append(("block_sizes", sizes + [0] * 3))
        if ext:
            for v in [0, 1, M32]:
                o.append(("xattr", v))
            o.append(("sparse", M64))
    if t == T_SLINK:
        real = len(n.target)
        for v in [0, 1, real - 1, real + 1, real + 4, 255, 8192, 65536, (1 << 31) - 66, (1 << 31) - 65, (1 << 31) - 64,
                  1 << 31, M32 - 1, M32]:
            if v >= 0:
                o.append(("target_size", v))
        if ext:
            for v in [0, 1, M32]:
                o.append(("xattr", v))
    if t in (T_BDEV, T_CDEV):
        o.append(("dev", M32))
        if ext:
            o.append(("xattr", 0))
    if t in (T_FIFO, T_SOCK) and ext:
        o.append(("xattr", 0))
    # directory entry of this node (in its parent)
    for v in [0, 1, 254, 255, 256, 4095, 8191, 0xFFFF]:
        o.append(("ent_nsize", v))
    for v in [0, 1, 8191, 8192, 0xFFFF, (n.ref & 0xFFFF) + 1, (n.ref & 0xFFFF) + 16]:
        o.append(("ent_off", v & 0xFFFF))
    for v in [0, 1, -1, 32767, -32768]:
        o.append(("ent_diff", v))
    for v in [0, 1, 2, 3, 7, 8, 14, 15, 0xFFFF]:
        o.append(("ent_type", v))
    for nm in [b"", b"\0", b".", b"..", b"a/b", b"a\0b", b"x" * 256, b"\xff\xfe", n.ov.get("_name", b"dup")]:
        if nm:
            o.append(("ent_name", nm))
    return o


def super_overrides(sv, layout, imglen):
    o = []
    for k in ("id_table_start", "xattr_table_start", "inode_table_start", "dir_table_start", "frag_table_start",
              "export_table_start", "bytes_used"):
        real = sv[k]
        vals = {0, 1, 95, 96, 97, imglen - 1, imglen, imglen + 1, sv["bytes_used"], sv["bytes_used"] - 1,
                sv["bytes_used"] + 1, (1 << 63) - 1, 1 << 63, M64, M64 - 1, M64 - 2, M64 - 7, 1 << 32}
        for t in ("inode_start", "dir_start", "frag_start", "id_start"):
            x = layout[t]
            if x != NOTBL:
                vals |= {x - 1, x, x + 1, x + 2, x - 8, x + 8}
        if real != NOTBL:
            vals |= {real - 1, real + 1, real + 2, real - 2, real - 8, real + 8}
        for v in sorted(vals):
            if 0 <= v <= M64 and v != real:
                o.append((k, v))
    for v in [0, 1, sv["id_count"] - 1, sv["id_count"] + 1, 2048, 2049, 0xFFFF, 0x8000]:
        if v != sv["id_count"] and v >= 0:
            o.append(("id_count", v))
    for v in [0, 1, sv["frag_count"] - 1, sv["frag_count"] + 1, 512, 513, 1 << 27, (1 << 27) + 1, 1 << 28, M32, M32 - 1]:
        if v != sv["frag_count"] and v >= 0:
            o.append(("frag_count", v))
    for v in [0, 1, 2048, 4095, 4097, 8192, 1 << 20, 1 << 21, 3 * 4096, M32, 1 << 31]:
        o.append(("block_size", v))
    for v in [0, 11, 13, 20, 21, 0xFFFF]:
        o.append(("block_log", v))
    o.append(("block_size+log", (8192, 13)))
    o.append(("block_size+log", (1 << 20, 20)))
    o.append(("block_size+log", (2048, 11)))
    o.append(("block_size+log", (1 << 21, 21)))
    for v in [0, 2, 3, 4, 5, 6, 7, 0xFFFF]:
        o.append(("comp_id", v))
    for v in [0, 0xFFFF, sv["flags"] ^ 0x10, sv["flags"] ^ 0x200, sv["flags"] | 0x400, sv["flags"] ^ 0x80]:
        o.append(("flags", v))
    for v in [0, 1, 0x7368, M32]:
        o.append(("magic", v))
    for v in [(3, 0), (4, 1), (5, 0), (0, 0)]:
        o.append(("version", v))
    root = sv["root_ref"]
    for v in [0, 1, root + 1, root - 1, root + 16, root ^ 0x10000, root | 0xFFFF, (root & ~0xFFFF) | 8191,
              (root & ~0xFFFF) | 8192, 1 << 32, 1 << 47, 1 << 48, (1 << 48) - 1, M64, (layout["ino_len"]) << 16,
              ((layout["ino_len"] - 1) & 0xFFFF)]:
        if v >= 0 and v != root:
            o.append(("root_ref", v))
    for v in [0, M32]:
        o.append(("inode_count", v))
    return o


def probe(root, kw):
    b = Builder(root, block_size=BS, **kw)
    img = b.build()
    lay = b.layout
    sv = dict(zip(SUPER_FIELDS, struct.unpack_from(SUPER_FMT, img, 0)))
    facts = dict(nids=len(lay["ids"]), root_ino=root.ino, dir_len=lay["frag_start"] - lay["dir_start"] - 2
                 if lay["frag_start"] != NOTBL else 0, file_len=len(img), nfrags=sv["frag_count"])
    facts["ino_len"] = lay["dir_start"] - lay["inode_start"] - 2
    # dir table length (uncompressed bytes of the last block are enough for the boundary values)
    nxt = lay["frag_start"] if lay["frag_start"] != NOTBL else lay["id_start"]
    facts["dir_len"] = max(nxt - lay["dir_start"] - 2, 0)
    lay["ino_len"] = facts["ino_len"]
    return img, sv, lay, facts


def reset(root):
    for _, n in all_nodes(root):
        n.ino = None
        n.ref = None


def field_cases(rnd, tier):
    """yield (name, image bytes).  Every (template, node, field, value) combination is a candidate; the quick
    tier samples them."""
    for tname, make in TEMPLATES:
        root, kw = make(rnd)
        img, sv, lay, facts = probe(root, kw)
        yield ("valid:%s" % tname, img)
        nodes = all_nodes(root)
        if tname == "bigdir":
            nodes = nodes[:1] + rnd.sample(nodes[1:], 5)
        cands = []
        for path, n in nodes:
            for k, v in node_overrides(n, facts):
                cands.append((path, n, k, v))
        sov = super_overrides(sv, lay, len(img))
        if tier == "quick":
            cands = rnd.sample(cands, min(len(cands), 70 if tname != "bigdir" else 20))
            sov = rnd.sample(sov, min(len(sov), 30))
        for path, n, k, v in cands:
            old = n.ov
            n.ov = dict(old)
            n.ov[k] = v
            reset(root)
            try:
                im = build(root, **kw)
            except Exception:
                im = None
            n.ov = old
            if im is not None:
                yield ("ov:%s:%s:%s=%s" % (tname, path.decode("latin-1"), k, str(v)[:40]), im)
        for k, v in sov:
            so = {}
            if k == "block_size+log":
                so = dict(block_size=v[0], block_log=v[1])
            elif k == "version":
                so = dict(ver_major=v[0], ver_minor=v[1])
            else:
                so = {k: v}
            reset(root)
            yield ("super:%s:%s=%s" % (tname, k, v), build(root, super_ov=so, **kw))


def loop_cases(rnd):
    """references forming loops / sharing: an entry pointing at an ancestor, itself, a sibling directory"""
    for variant in ("self", "parent", "root", "sibling", "grand"):
        leaf = BNode(T_DIR, mode=0o755, children=[])
        c = BNode(T_DIR, mode=0o755, children=[(b"v", leaf), (b"w", BNode(T_FILE, data=pat(20, 1)))])
        b = BNode(T_DIR, mode=0o755, children=[(b"c", c)])
        sib = BNode(T_DIR, mode=0o755, children=[(b"s", BNode(T_FILE, data=pat(5, 2)))])
        a = BNode(T_DIR, mode=0o755, children=[(b"b", b), (b"sib", sib)])
        root = BNode(T_DIR, mode=0o755, children=[(b"a", a)])
        Builder(root, block_size=BS).build()
        tgt = dict(self=c, parent=b, root=root, sibling=sib, grand=a)[variant]
        ov = {"ent_off": tgt.ref & 0xFFFF, "ent_diff": tgt.ino - leaf.ino}
        reset(root)
        leaf.ov = ov
        yield ("loop:" + variant, build(root))
    # moderate fan-out sharing (a DAG, not a loop): 2^8 paths
    d = BNode(T_DIR, mode=0o755, children=[(b"f", BNode(T_FILE, data=pat(9, 9)))])
    for i in range(8):
        d = BNode(T_DIR, mode=0o755, children=[(b"a", d), (b"b", d)])
    yield ("dag:8", build(d))


def insert_pad(img, sv, lay, at, n):
    """insert n filler bytes at absolute position `at` (a table boundary) of a Builder image without fragments,
    fixing up the absolute positions behind it"""
    b = bytearray(img[:at]) + b"\xa5" * n + bytearray(img[at:])
    names = ["bytes_used", "id_table_start", "xattr_table_start", "inode_table_start", "dir_table_start",
             "frag_table_start", "export_table_start"]
    for i, k in enumerate(names):
        v = sv[k]
        if v != NOTBL and v >= at:
            struct.pack_into("<Q", b, 40 + 8 * i, v + n)
    ids = lay["id_start"] + (n if lay["id_start"] >= at else 0)
    loc = struct.unpack_from("<Q", b, ids)[0]
    if loc >= at:
        struct.pack_into("<Q", b, ids, loc + n)
    return b


def meta_header_cases(rnd, tier):
    """edits of the 16 bit metadata block headers (size / compressed flag) of every table; for the inode and
    directory tables also with 40000 filler bytes behind the table inside the reader's window, so that an unchecked
    size really reaches readable bytes"""
    vals = [0, 1, 2, 0x1FFF, 0x2000, 0x2001, 0x3FFF, 0x4000, 0x7FFF, 0x8000, 0x8001, 0x9FFF, 0xA000, 0xA001, 0xBFFF,
            0xC000, 0xC001, 0xFFFE, 0xFFFF]
    root, kw = TEMPLATES[4][1](rnd)            # frag: has inode, dir, fragment and id blocks
    img, sv, lay, facts = probe(root, kw)
    spots = [("inode", lay["inode_start"]), ("dir", lay["dir_start"]),
             ("id", struct.unpack_from("<Q", img, lay["id_start"])[0]),
             ("frag", struct.unpack_from("<Q", img, lay["frag_start"])[0])]
    for nm, pos in spots:
        real = struct.unpack_from("<H", img, pos)[0]
        for v in vals + [real - 1, real + 1, real ^ 0x8000]:
            b = bytearray(img)
            struct.pack_into("<H", b, pos, v & 0xFFFF)
            yield ("methdr:%s=%#x" % (nm, v & 0xFFFF), bytes(b))
    root, kw = TEMPLATES[2][1](rnd)            # types: no fragments
    img, sv, lay, facts = probe(root, kw)
    idloc = struct.unpack_from("<Q", img, lay["id_start"])[0]
    for nm, pos, at in (("inode", lay["inode_start"], lay["dir_start"]), ("dir", lay["dir_start"], idloc)):
        for v in vals:
            b = insert_pad(img, sv, lay, at, 40000)
            struct.pack_into("<H", b, pos, v)
            yield ("methdr-pad:%s=%#x" % (nm, v), bytes(b))


# --------------------------------------------------------------------------
# xattr tables (the Builder has none): appended behind the id table
# --------------------------------------------------------------------------

def add_xattrs(img, sets, ov=None):
    """sets: list of lists of (type, key bytes, value bytes); returns new image with an xattr table holding one
    id per set.  ov: overrides {"count": .., "ref": .., "ids": .., "kv_start": .., "loc": .., "vsize": ..,
    "ksize": .., "ool": bool}"""
    ov = ov or {}
    sv = dict(zip(SUPER_FIELDS, struct.unpack_from(SUPER_FMT, img, 0)))
    out = bytearray(img[:sv["bytes_used"]])
    kv = bytearray()
    descs = []
    for s in sets:
        start = len(kv)
        for t, k, v in s:
            kv += struct.pack("<HH", ov.get("ktype", t), ov.get("ksize", len(k))) + k
            if ov.get("ool"):
                # value stored out of line: reference to the first value of the stream
                kv += struct.pack("<I", 8) + struct.pack("<Q", ov.get("ool_ref", 4 + len(sets[0][0][1])))
            else:
                kv += struct.pack("<I", ov.get("vsize", len(v))) + v
        descs.append((start, len(s), len(kv) - start))
    kv_start = len(out)
    for i in range(0, max(len(kv), 1), META):
        ch = kv[i:i + META]
        out += struct.pack("<H", len(ch) | 0x8000) + ch
    idb = bytearray()
    for start, cnt, size in descs:
        ref = ((start // META) * (META + 2) << 16) | (start % META)
        idb += struct.pack("<QII", ov.get("ref", ref), ov.get("count", cnt), size)
    locs = []
    for i in range(0, max(len(idb), 1), META):
        locs.append(len(out))
        ch = idb[i:i + META]
        out += struct.pack("<H", len(ch) | 0x8000) + ch
    tbl = len(out)
    out += struct.pack("<QII", ov.get("kv_start", kv_start), ov.get("ids", len(descs)), 0)
    for l in locs:
        out += struct.pack("<Q", ov.get("loc", l))
    bytes_used = len(out)
    if len(out) % 4096:
        out += b"\0" * (4096 - len(out) % 4096)
    sv["xattr_table_start"] = ov.get("table_start", tbl)
    sv["bytes_used"] = ov.get("bytes_used", bytes_used)
    sv["flags"] = ov.get("flags", sv["flags"] & ~0x200)
    struct.pack_into(SUPER_FMT, out, 0, *[sv[k] for k in SUPER_FIELDS])
    return bytes(out)


def xattr_cases(rnd, tier):
    def base():
        f = BNode(T_FILE, data=pat(50, 1), ext=True, ov={"xattr": 0})
        l = BNode(T_SLINK, mode=0o777, target=b"f", ext=True, ov={"xattr": 1})
        d = BNode(T_DIR, mode=0o755, ext=True, children=[], ov={"xattr": 1})
        p = BNode(T_FIFO, ext=True, ov={"xattr": 0})
        return BNode(T_DIR, mode=0o755, ext=True, children=[(b"d", d), (b"f", f), (b"l", l), (b"p", p)], ov={"xattr": 2})
    sets = [[(0, b"mime", b"text/plain"), (2, b"selinux", b"system_u:object_r:etc_t\0")],
            [(1, b"overlay.opaque", b"y")],
            [(0, b"a", b""), (0, b"b", bytes(range(256)) * 3)]]
    img = build(base())
    yield ("xattr:valid", add_xattrs(img, sets))
    ovs = []
    for v in [0, 1, 2, 3, 4, 100, M32]:
        ovs.append({"count": v})
    for v in [0, 1, 2, 4, 1000, M32]:
        ovs.append({"ids": v})
    for v in [0, 1, 0xFFFF, 8191, 8192, 1 << 16, (META + 2) << 16, M64, 1 << 47]:
        ovs.append({"ref": v})
    for v in [0, 1, 96, M64, (1 << 63), len(img), len(img) - 1]:
        ovs.append({"kv_start": v})
        ovs.append({"loc": v})
        ovs.append({"table_start": v})
    for v in [0, 1, 100, 8192, M32, M32 - 1, (1 << 31) - 100, 1 << 31]:
        ovs.append({"vsize": v})
    for v in [0, 1, 100, 0xFFFF]:
        ovs.append({"ksize": v})
    for v in [3, 0xFF, 0x100, 0x101, 0x1FF, 0x200, 0xFFFF]:
        ovs.append({"ktype": v})
    ovs.append({"ool": True})
    for v in [0, 1, 8191, 8192, 1 << 16, M64, 0xFFFF]:
        ovs.append({"ool": True, "ool_ref": v})
    ovs.append({"flags": 0x0b | 0x800 | 0x200})
    ovs.append({"bytes_used": 0})
    ovs.append({"bytes_used": 96})
    if tier == "quick":
        ovs = rnd.sample(ovs, 25)
    for o in ovs:
        yield ("xattr:%s" % (",".join("%s=%s" % kv for kv in o.items())), add_xattrs(img, sets, o))
    # no table, index 0 / 1 (F22)
    for idx, fl in ((0, True), (1, True), (0, False)):
        f = BNode(T_FILE, data=pat(50, 1), ext=True, ov={"xattr": idx})
        root = BNode(T_DIR, mode=0o755, children=[(b"f", f)])
        Builder(root, block_size=BS).build()
        flags = 0x0b | 0x800 | 0x10 | (0 if fl else 0x200)
        reset(root)
        yield ("xattr:notable:idx=%d:flag=%s" % (idx, fl), build(root, super_ov={"flags": flags}))


# --------------------------------------------------------------------------
# mutation of real images
# --------------------------------------------------------------------------

def mutate(rnd, img, n):
    """n mutants of a real image, biased to superblock, table location lists, metadata block headers"""
    sv = dict(zip(SUPER_FIELDS, struct.unpack_from(SUPER_FMT, img, 0)))
    hot = list(range(0, 96))
    for k in ("id_table_start", "frag_table_start", "export_table_start", "xattr_table_start"):
        if sv[k] != NOTBL and sv[k] + 32 <= len(img):
            hot += list(range(sv[k], sv[k] + 32))
            # the metadata block the first location points at
            loc = struct.unpack_from("<Q", img, sv[k])[0]
            if loc + 40 <= len(img):
                hot += list(range(loc, loc + 40))
    for k in ("inode_table_start", "dir_table_start"):
        if sv[k] + 64 <= len(img):
            hot += list(range(sv[k], sv[k] + 64))
    out = []
    for i in range(n):
        b = bytearray(img)
        r = rnd.random()
        kind = ""
        for _ in range(rnd.choice([1, 1, 1, 2, 3])):
            pos = rnd.choice(hot) if rnd.random() < 0.7 else rnd.randrange(96, max(sv["bytes_used"], 97))
            pos = min(pos, len(b) - 1)
            m = rnd.random()
            if m < 0.4:
                b[pos] ^= 1 << rnd.randrange(8)
                kind += "bit@%d " % pos
            elif m < 0.7:
                b[pos] = rnd.choice([0, 1, 0x7F, 0x80, 0xFF, rnd.randrange(256)])
                kind += "byte@%d " % pos
            elif m < 0.85 and pos + 4 <= len(b):
                struct.pack_into("<I", b, pos, rnd.choice([0, 1, M32, M32 - 1, 1 << 31, 1 << 24, (1 << 24) - 1]))
                kind += "u32@%d " % pos
            elif pos + 8 <= len(b):
                struct.pack_into("<Q", b, pos, rnd.choice([0, 1, M64, 1 << 63, len(b), len(b) - 1, sv["bytes_used"]]))
                kind += "u64@%d " % pos
        if r < 0.08:
            cut = rnd.randrange(0, len(b))
            b = b[:cut]
            kind += "trunc@%d" % cut
        out.append((kind.strip(), bytes(b)))
    return out
