/* Translator: prints coq/CompOpt/GenCompOpt.v from the working tree's headers and sources
 * (include/sqfs/compressor.h, lib/sqfs/src/comp/{gzip,xz,lzma,lz4,zstd}.c, lib/common/src/comp_opt.c) and from
 * the compression libraries the build links (ZSTD_maxCLevel).  Compiled and run by props/C05/check.py before the
 * proofs are re-checked, so that a layout / limit / table change in /repo re-checks the theorems against it. */
#include "config.h"
#include "sqfs/predef.h"
#include "sqfs/super.h"
#include "sqfs/block.h"
#include "sqfs/meta_writer.h"
#include "sqfs/compressor.h"
#include "sqfs/error.h"
#include "gen_common.h"

void gen_gzip(void); void gen_xz(void); void gen_lzma(void); void gen_lz4(void); void gen_zstd(void); void gen_cli(void);

#define OOFF(n, m) DN("off_opt_" #n, offsetof(sqfs_compressor_config_t, opt.m) - offsetof(sqfs_compressor_config_t, opt))
#define OSZ(n, m) DN("sizeof_opt_" #n, sizeof(((sqfs_compressor_config_t *)0)->opt.m))
#define AV(name, on) printf("Definition co_with_%s : bool := %s.\n", name, on ? "true" : "false")

int main(void)
{
	printf("(* GENERATED from the working tree by props/C05/compopt/gen_*.c -- do not edit *)\n");
	printf("From Coq Require Import NArith ZArith List.\nImport ListNotations.\nLocal Open Scope N_scope.\n");
	SZ(sqfs_compressor_config_t);
	WID(sqfs_compressor_config_t, id); WID(sqfs_compressor_config_t, flags);
	WID(sqfs_compressor_config_t, block_size); WID(sqfs_compressor_config_t, level);
	OSZ(padd0, padd0);
	DN("sizeof_opt", sizeof(((sqfs_compressor_config_t *)0)->opt));
	OOFF(gzip_window_size, gzip.window_size); OSZ(gzip_window_size, gzip.window_size); OOFF(gzip_padd0, gzip.padd0); OSZ(gzip_padd0, gzip.padd0);
	OOFF(lzo_algorithm, lzo.algorithm); OSZ(lzo_algorithm, lzo.algorithm); OOFF(lzo_padd0, lzo.padd0); OSZ(lzo_padd0, lzo.padd0);
	OOFF(xz_dict_size, xz.dict_size); OSZ(xz_dict_size, xz.dict_size); OOFF(xz_lc, xz.lc); OSZ(xz_lc, xz.lc); OOFF(xz_lp, xz.lp); OSZ(xz_lp, xz.lp); OOFF(xz_pb, xz.pb); OSZ(xz_pb, xz.pb);
	OOFF(xz_padd0, xz.padd0); OSZ(xz_padd0, xz.padd0);
	OOFF(lzma_dict_size, lzma.dict_size); OSZ(lzma_dict_size, lzma.dict_size); OOFF(lzma_lc, lzma.lc); OSZ(lzma_lc, lzma.lc); OOFF(lzma_lp, lzma.lp); OSZ(lzma_lp, lzma.lp);
	OOFF(lzma_pb, lzma.pb); OSZ(lzma_pb, lzma.pb); OOFF(lzma_padd0, lzma.padd0); OSZ(lzma_padd0, lzma.padd0);
	C(SQFS_COMP_FLAG_LZ4_HC); C(SQFS_COMP_FLAG_LZ4_ALL); C(SQFS_COMP_FLAG_LZMA_EXTREME); C(SQFS_COMP_FLAG_LZMA_ALL);
	C(SQFS_COMP_FLAG_XZ_X86); C(SQFS_COMP_FLAG_XZ_POWERPC); C(SQFS_COMP_FLAG_XZ_IA64); C(SQFS_COMP_FLAG_XZ_ARM);
	C(SQFS_COMP_FLAG_XZ_ARMTHUMB); C(SQFS_COMP_FLAG_XZ_SPARC); C(SQFS_COMP_FLAG_XZ_EXTREME); C(SQFS_COMP_FLAG_XZ_ALL);
	C(SQFS_COMP_FLAG_GZIP_DEFAULT); C(SQFS_COMP_FLAG_GZIP_FILTERED); C(SQFS_COMP_FLAG_GZIP_HUFFMAN);
	C(SQFS_COMP_FLAG_GZIP_RLE); C(SQFS_COMP_FLAG_GZIP_FIXED); C(SQFS_COMP_FLAG_GZIP_ALL);
	C(SQFS_COMP_FLAG_UNCOMPRESS); C(SQFS_COMP_FLAG_GENERIC_ALL);
	C(SQFS_LZO1X_1); C(SQFS_LZO1X_999); C(SQFS_LZO_DEFAULT_ALG); C(SQFS_LZO_DEFAULT_LEVEL);
	C(SQFS_LZO_MIN_LEVEL); C(SQFS_LZO_MAX_LEVEL);
	C(SQFS_GZIP_DEFAULT_LEVEL); C(SQFS_GZIP_DEFAULT_WINDOW); C(SQFS_GZIP_MIN_LEVEL); C(SQFS_GZIP_MAX_LEVEL);
	C(SQFS_GZIP_MIN_WINDOW); C(SQFS_GZIP_MAX_WINDOW);
	C(SQFS_ZSTD_DEFAULT_LEVEL); C(SQFS_ZSTD_MIN_LEVEL); C(SQFS_ZSTD_MAX_LEVEL);
	C(SQFS_XZ_MIN_LEVEL); C(SQFS_XZ_MAX_LEVEL); C(SQFS_XZ_DEFAULT_LEVEL);
	C(SQFS_XZ_MIN_LC); C(SQFS_XZ_MAX_LC); C(SQFS_XZ_DEFAULT_LC);
	C(SQFS_XZ_MIN_LP); C(SQFS_XZ_MAX_LP); C(SQFS_XZ_DEFAULT_LP);
	C(SQFS_XZ_MIN_PB); C(SQFS_XZ_MAX_PB); C(SQFS_XZ_DEFAULT_PB);
	C(SQFS_XZ_MIN_DICT_SIZE); C(SQFS_XZ_MAX_DICT_SIZE);
	C(SQFS_LZMA_MIN_LEVEL); C(SQFS_LZMA_MAX_LEVEL); C(SQFS_LZMA_DEFAULT_LEVEL);
	C(SQFS_LZMA_MIN_LC); C(SQFS_LZMA_MAX_LC); C(SQFS_LZMA_DEFAULT_LC);
	C(SQFS_LZMA_MIN_LP); C(SQFS_LZMA_MAX_LP); C(SQFS_LZMA_DEFAULT_LP);
	C(SQFS_LZMA_MIN_PB); C(SQFS_LZMA_MAX_PB); C(SQFS_LZMA_DEFAULT_PB);
	C(SQFS_LZMA_MIN_DICT_SIZE); C(SQFS_LZMA_MAX_DICT_SIZE);
#ifdef WITH_GZIP
	AV("gzip", 1);
#else
	AV("gzip", 0);
#endif
#ifdef WITH_XZ
	AV("xz", 1);
#else
	AV("xz", 0);
#endif
#ifdef WITH_LZ4
	AV("lz4", 1);
#else
	AV("lz4", 0);
#endif
#ifdef WITH_ZSTD
	AV("zstd", 1);
#else
	AV("zstd", 0);
#endif
	gen_gzip(); gen_xz(); gen_lzma(); gen_lz4(); gen_zstd(); gen_cli();
	return 0;
}

