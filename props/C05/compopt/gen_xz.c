#include "lib/sqfs/src/comp/xz.c"
#include "gen_common.h"
void gen_xz(void)
{
	SZ(xz_options_t); OFF(xz_options_t, dict_size); OFF(xz_options_t, flags);
	WID(xz_options_t, dict_size); WID(xz_options_t, flags);
	WID(xz_compressor_t, level); WID(xz_compressor_t, lc); WID(xz_compressor_t, lp); WID(xz_compressor_t, pb);
}
