/* the static tables of lib/common/src/comp_opt.c */
#include "lib/common/src/comp_opt.c"
#include "gen_common.h"
void gen_cli(void)
{
	size_t i, j;
	C(OPT_WINDOW); C(OPT_LEVEL); C(OPT_ALG); C(OPT_DICT); C(OPT_LC); C(OPT_LP); C(OPT_PB); C(OPT_COUNT);
	printf("Definition co_tokens : list (list N) := [");
	for (i = 0; token[i] != NULL; ++i) {
		printf("%s", i ? "; " : "");
		gen_str(token[i]);
	}
	printf("].\n");
	printf("Definition co_opt_available : list N := [");
	for (i = 0; i <= SQFS_COMP_MAX; ++i)
		printf("%s%u", i ? "; " : "", (unsigned)opt_available[i]);
	printf("].\n");
	printf("Definition co_value_range : list (list (Z * Z)) := [\n");
	for (i = 0; i <= SQFS_COMP_MAX; ++i) {
		printf("  [");
		for (j = 0; j < OPT_COUNT; ++j)
			printf("%s((%d)%%Z, (%d)%%Z)", j ? "; " : "", value_range[i][j].min, value_range[i][j].max);
		printf("]%s\n", i < SQFS_COMP_MAX ? ";" : "");
	}
	printf("].\n");
	printf("Definition co_comp_flags : list (list (list N * N)) := [\n");
	for (i = 0; i <= SQFS_COMP_MAX; ++i) {
		printf("  [");
		for (j = 0; j < comp_flags[i].count; ++j) {
			printf("%s(", j ? "; " : "");
			gen_str(comp_flags[i].flags[j].name);
			printf(", %u)", (unsigned)comp_flags[i].flags[j].flag);
		}
		printf("]%s\n", i < SQFS_COMP_MAX ? ";" : "");
	}
	printf("].\n");
	printf("Definition co_lzo_algs : list (list N) := [");
	for (i = 0; i < sizeof(lzo_algs) / sizeof(lzo_algs[0]); ++i) {
		printf("%s", i ? "; " : "");
		gen_str(lzo_algs[i] ? lzo_algs[i] : "");
	}
	printf("].\n");
}
