/* option struct layout of lib/sqfs/src/comp/gzip.c (static to that file: include it) */
#include "lib/sqfs/src/comp/gzip.c"
#include "gen_common.h"
void gen_gzip(void)
{
	SZ(gzip_options_t); OFF(gzip_options_t, level); OFF(gzip_options_t, window); OFF(gzip_options_t, strategies);
	WID(gzip_options_t, level); WID(gzip_options_t, window); WID(gzip_options_t, strategies);
}
