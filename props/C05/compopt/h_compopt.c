/* C05 / CompOpt tie: the REAL sqfs_compressor_config_init, compressor_cfg_init_options, sqfs_compressor_create,
 * cmp->write_options, cmp->read_options, cmp->get_configuration and (case O) sqfs_super_read of the working tree,
 * one case per stdin line, one canonical result line per case (same text as props/C05/compopt/driver.ml prints from
 * the extracted model coq/CompOpt).
 *
 *   I <id> <block_size> <flags>                      sqfs_compressor_config_init
 *   S <id> <block_size> <hex of option string | - | NULL>   compressor_cfg_init_options, then the chain
 *   C <id> <flags> <block_size> <level> <hex of the 16 opt bytes>   raw configuration, then the chain
 *   R <id> <block_size> <hex bytes | ->              hostile options block behind a 96 byte super block area
 *   O <hex image>                                    open the image the way sqfsdiff does
 *
 * chain (cfg) = create; get_configuration; write_options into a fresh file; a default uncompressor for the same id
 * and block size reads the block back; get_configuration; create on that configuration.
 *
 * argv[1] = scratch file.  stderr of the library (diagnostics of the option parser) is captured per case and
 * classified.
 */
#define _GNU_SOURCE
#include "config.h"
#include "common.h"
#include "compress_cli.h"
#include "sqfs/compressor.h"
#include "sqfs/super.h"
#include "sqfs/io.h"
#include "sqfs/error.h"

#include <stdio.h>
#include <stdlib.h>
#include <string.h>
#include <unistd.h>
#include <sys/mman.h>
#include <sys/stat.h>
#include <fcntl.h>

static const char *scratch;
static int errfd = -1;

static size_t unhex(const char *s, unsigned char *out, size_t max)
{
	size_t n = 0;
	unsigned int v;

	if (strcmp(s, "-") == 0)
		return 0;
	while (s[0] && s[1] && n < max) {
		sscanf(s, "%2x", &v);
		out[n++] = v;
		s += 2;
	}
	return n;
}

static void put_hex(const unsigned char *p, size_t n)
{
	size_t i;

	if (n == 0) {
		fputs("-", stdout);
		return;
	}
	for (i = 0; i < n; ++i)
		printf("%02x", p[i]);
}

static void put_cfg(const sqfs_compressor_config_t *cfg)
{
	printf("%u:%u:%u:%u:", (unsigned)cfg->id, (unsigned)cfg->flags, (unsigned)cfg->block_size, (unsigned)cfg->level);
	put_hex((const unsigned char *)&cfg->opt, sizeof(cfg->opt));
}

static void write_file(const unsigned char *data, size_t n)
{
	FILE *f = fopen(scratch, "wb");

	if (f == NULL || (n > 0 && fwrite(data, 1, n, f) != n)) {
		perror(scratch);
		exit(2);
	}
	fclose(f);
}

/* what the library printed to stderr since the last call, classified */
static void put_diag(int rc)
{
	static char buf[4096];
	char tok[64], *p;
	int a, b;
	ssize_t n;

	fflush(stderr);
	n = pread(errfd, buf, sizeof(buf) - 1, 0);
	if (n < 0)
		n = 0;
	buf[n] = '\0';
	if (ftruncate(errfd, 0) != 0 || lseek(errfd, 0, SEEK_SET) != 0)
		exit(2);

	if (rc == 0) {
		fputs(n == 0 ? "none" : "unexpected-output", stdout);
	} else if (n == 0) {
		fputs("init", stdout);
	} else if (strncmp(buf, "Sum of XZ lc + lp", 17) == 0) {
		fputs("sum", stdout);
	} else if (strncmp(buf, "Unknown lzo variant", 19) == 0) {
		fputs("lzoalg", stdout);
	} else if (sscanf(buf, "`%60[^`]` must be a number between %d and %d.", tok, &a, &b) == 3) {
		printf("range:%s:%d:%d", tok, a, b);
	} else if (strncmp(buf, "Unknown compressor option", 25) == 0) {
		fputs("opt", stdout);
	} else if (strncmp(buf, "Missing value for compressor option '", 37) == 0) {
		p = strchr(buf + 37, '\'');
		if (p != NULL)
			*p = '\0';
		printf("value:%s", buf + 37);
	} else if (strstr(buf, "is not a number.") != NULL) {
		fputs("nan", stdout);
	} else if (strstr(buf, "numeric overflow parsing") != NULL) {
		fputs("ov", stdout);
	} else if (strstr(buf, "unknown suffix in") != NULL) {
		fputs("suffix", stdout);
	} else {
		fputs("other", stdout);
	}
}

/* read_options of [cmp] on the scratch file, configuration afterwards, create on it */
static void read_back(sqfs_compressor_t *cmp)
{
	sqfs_compressor_config_t after;
	sqfs_compressor_t *again = NULL;
	sqfs_file_t *file = NULL;
	int ret;

	ret = sqfs_file_open(&file, scratch, SQFS_FILE_OPEN_READ_ONLY);
	if (ret != 0 || file == NULL) {
		printf(" read=OPENFAIL");
		return;
	}
	ret = cmp->read_options(cmp, file);
	sqfs_drop(file);
	cmp->get_configuration(cmp, &after);
	printf(" read=%d conf=", ret);
	put_cfg(&after);
	ret = sqfs_compressor_create(&after, &again);
	printf(" recreate=%d", ret);
	if (again != NULL)
		sqfs_drop(again);
}

static void chain(const sqfs_compressor_config_t *cfg)
{
	static unsigned char buf[4096];
	sqfs_compressor_config_t conf, rcfg;
	sqfs_compressor_t *cmp = NULL, *rd = NULL;
	sqfs_file_t *file = NULL;
	struct stat sb;
	size_t n = 0;
	FILE *f;
	int ret;

	ret = sqfs_compressor_create(cfg, &cmp);
	printf(" create=%d", ret);
	if (ret != 0 || cmp == NULL)
		return;

	cmp->get_configuration(cmp, &conf);
	printf(" conf=");
	put_cfg(&conf);

	unlink(scratch);
	ret = sqfs_file_open(&file, scratch, SQFS_FILE_OPEN_OVERWRITE);
	if (ret != 0 || file == NULL) {
		printf(" write=OPENFAIL");
		sqfs_drop(cmp);
		return;
	}
	ret = cmp->write_options(cmp, file);
	sqfs_drop(file);
	sqfs_drop(cmp);

	if (stat(scratch, &sb) == 0 && sb.st_size > (off_t)sizeof(sqfs_super_t)) {
		f = fopen(scratch, "rb");
		if (f != NULL) {
			fseek(f, sizeof(sqfs_super_t), SEEK_SET);
			n = fread(buf, 1, sizeof(buf), f);
			fclose(f);
		}
	}
	printf(" write=%d bytes=", ret);
	put_hex(buf, n);

	/* the reading side: default uncompressor for this id and block size */
	ret = sqfs_compressor_config_init(&rcfg, cfg->id, cfg->block_size, SQFS_COMP_FLAG_UNCOMPRESS);
	printf(" rinit=%d", ret);
	ret = sqfs_compressor_create(&rcfg, &rd);
	printf(" rcreate=%d", ret);
	if (ret != 0 || rd == NULL)
		return;
	if (n > 0)
		read_back(rd);
	sqfs_drop(rd);
}

int main(int argc, char **argv)
{
	static char line[1 << 16], arg[1 << 16];
	static unsigned char bytes[1 << 15];
	sqfs_compressor_config_t cfg;
	unsigned long long id, bs, flags, level;
	size_t n;
	int ret;

	if (argc < 2)
		return 2;
	scratch = argv[1];

	errfd = memfd_create("c05-compopt-stderr", 0);
	if (errfd < 0 || dup2(errfd, 2) < 0)
		return 2;
	setvbuf(stderr, NULL, _IONBF, 0);

	while (fgets(line, sizeof(line), stdin) != NULL) {
		line[strcspn(line, "\n")] = '\0';

		if (line[0] == 'I' && sscanf(line + 1, "%llu %llu %llu", &id, &bs, &flags) == 3) {
			memset(&cfg, 0xA5, sizeof(cfg));
			ret = sqfs_compressor_config_init(&cfg, id, bs, flags);
			printf("I rc=%d cfg=", ret);
			put_cfg(&cfg);
		} else if (line[0] == 'S' && sscanf(line + 1, "%llu %llu %65000s", &id, &bs, arg) == 3) {
			char *opts = NULL;

			if (strcmp(arg, "NULL") != 0) {
				n = unhex(arg, bytes, sizeof(bytes) - 1);
				bytes[n] = '\0';
				opts = (char *)bytes;
			}
			memset(&cfg, 0xA5, sizeof(cfg));
			ret = compressor_cfg_init_options(&cfg, id, bs, opts);
			printf("S rc=%d diag=", ret);
			put_diag(ret);
			if (ret == 0) {
				printf(" cfg=");
				put_cfg(&cfg);
				chain(&cfg);
			}
		} else if (line[0] == 'C' && sscanf(line + 1, "%llu %llu %llu %llu %65000s", &id, &flags, &bs, &level, arg) == 5) {
			memset(&cfg, 0, sizeof(cfg));
			cfg.id = id;
			cfg.flags = flags;
			cfg.block_size = bs;
			cfg.level = level;
			n = unhex(arg, bytes, sizeof(cfg.opt));
			memcpy(&cfg.opt, bytes, n);
			printf("C");
			chain(&cfg);
		} else if (line[0] == 'R' && sscanf(line + 1, "%llu %llu %65000s", &id, &bs, arg) == 3) {
			sqfs_compressor_t *cmp = NULL;

			memset(bytes, 0, sizeof(sqfs_super_t));
			n = unhex(arg, bytes + sizeof(sqfs_super_t), sizeof(bytes) - sizeof(sqfs_super_t));
			write_file(bytes, sizeof(sqfs_super_t) + n);
			sqfs_compressor_config_init(&cfg, id, bs, SQFS_COMP_FLAG_UNCOMPRESS);
			ret = sqfs_compressor_create(&cfg, &cmp);
			printf("R create=%d", ret);
			if (ret == 0 && cmp != NULL) {
				read_back(cmp);
				sqfs_drop(cmp);
			}
		} else if (line[0] == 'O' && sscanf(line + 1, "%65000s", arg) == 1) {
			sqfs_compressor_t *cmp = NULL;
			sqfs_file_t *file = NULL;
			sqfs_super_t super;

			n = unhex(arg, bytes, sizeof(bytes));
			write_file(bytes, n);
			ret = sqfs_file_open(&file, scratch, SQFS_FILE_OPEN_READ_ONLY);
			if (ret != 0 || file == NULL) {
				puts("O OPENFAIL");
				continue;
			}
			ret = sqfs_super_read(&super, file);
			sqfs_drop(file);
			printf("O super=%d", ret);
			if (ret == 0) {
				sqfs_compressor_config_init(&cfg, super.compression_id, super.block_size,
							    SQFS_COMP_FLAG_UNCOMPRESS);
				ret = sqfs_compressor_create(&cfg, &cmp);
				printf(" create=%d", ret);
				if (ret == 0 && cmp != NULL) {
					if (super.flags & SQFS_FLAG_COMPRESSOR_OPTIONS) {
						read_back(cmp);
					} else {
						sqfs_compressor_config_t now;

						cmp->get_configuration(cmp, &now);
						printf(" read=none conf=");
						put_cfg(&now);
					}
					sqfs_drop(cmp);
				}
			}
		} else {
			printf("? bad case");
		}
		putchar('\n');
		fflush(stdout);
	}
	return 0;
}
