#include "lib/sqfs/src/comp/lz4.c"
#include "gen_common.h"
void gen_lz4(void)
{
	SZ(lz4_options); OFF(lz4_options, version); OFF(lz4_options, flags);
	WID(lz4_options, version); WID(lz4_options, flags);
	C(LZ4LEGACY);
}
