#include "lib/sqfs/src/comp/zstd.c"
#include "gen_common.h"
void gen_zstd(void)
{
	SZ(zstd_options_t); OFF(zstd_options_t, level); WID(zstd_options_t, level);
	DN("ZSTD_maxCLevel", ZSTD_maxCLevel());
}
