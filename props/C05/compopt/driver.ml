(* C05 / CompOpt model driver: same case lines as props/C05/compopt/h_compopt.c, same result lines, computed by
   the extracted model (coq/CompOpt/{Model,Parse}.v).  argv: the three repair switches of the modelled tree
   (fx_shape fx_pct fx_num as 0/1), as determined by the probes of props/C05/compopt.py. *)
open C05_compopt_model

let rec pos_of_int i = if i = 1 then XH else if i land 1 = 1 then XI (pos_of_int (i lsr 1)) else XO (pos_of_int (i lsr 1))
let n_of_int i = if i = 0 then N0 else Npos (pos_of_int i)
let rec int_of_pos = function XH -> 1 | XO p -> 2 * int_of_pos p | XI p -> 2 * int_of_pos p + 1
let int_of_n = function N0 -> 0 | Npos p -> int_of_pos p
let int_of_z = function Z0 -> 0 | Zpos p -> int_of_pos p | Zneg p -> - (int_of_pos p)

let unhex s =
  if s = "-" then [] else
  let n = String.length s / 2 in
  List.init n (fun i -> n_of_int (int_of_string ("0x" ^ String.sub s (2*i) 2)))
let hex l =
  let b = Buffer.create 64 in
  List.iter (fun c -> Buffer.add_string b (Printf.sprintf "%02x" (int_of_n c))) l;
  if Buffer.length b = 0 then "-" else Buffer.contents b
let str l = String.concat "" (List.map (fun c -> String.make 1 (Char.chr (int_of_n c))) l)

let fx =
  let b i = Array.length Sys.argv > i && Sys.argv.(i) = "1" in
  { fx_shape = b 1; fx_pct = b 2; fx_num = b 3 }

let zeros k = List.init k (fun _ -> N0)
let rec take k l = if k = 0 then [] else match l with [] -> [] | x :: r -> x :: take (k - 1) r

let cfg_s c =
  Printf.sprintf "%d:%d:%d:%d:%s" (int_of_n c.c_id) (int_of_n c.c_flags) (int_of_n c.c_bs) (int_of_n c.c_level) (hex c.c_opt)

let rc_s = function
  | Ok _ -> "0"
  | Err e -> string_of_int (int_of_z e)
  | Crash -> "CRASH"
  | OutOfFuel -> "FUEL"

let token o = match List.nth_opt co_tokens (int_of_n o) with Some t -> str t | None -> "?"

let diag_s = function
  | DInit -> "init" | DSum -> "sum" | DLzoAlg -> "lzoalg"
  | DRange (o, a, b) -> Printf.sprintf "range:%s:%d:%d" (token o) (int_of_z a) (int_of_z b)
  | DOpt -> "opt" | DValue o -> "value:" ^ token o
  | DSizeNan -> "nan" | DSizeOv -> "ov" | DSizeSuffix -> "suffix"

let super_size = 96

(* read_options of [st] on the image, configuration afterwards, create on it *)
let read_back b st img =
  let (r, st') = read_options fx st img in
  let after = get_configuration st' in
  Buffer.add_string b (Printf.sprintf " read=%s conf=%s" (rc_s r) (cfg_s after));
  Buffer.add_string b (Printf.sprintf " recreate=%s" (rc_s (compressor_create fx build_avail after)))

let chain b c =
  let r = compressor_create fx build_avail c in
  Buffer.add_string b (" create=" ^ rc_s r);
  match r with
  | Ok st ->
    Buffer.add_string b (" conf=" ^ cfg_s (get_configuration st));
    let w = write_options st in
    let bytes = match w with Ok l -> l | _ -> [] in
    let wrc = match w with Ok l -> string_of_int (List.length l) | _ -> rc_s w in
    Buffer.add_string b (Printf.sprintf " write=%s bytes=%s" wrc (hex bytes));
    let (irc, rcfg) = config_init c.c_id c.c_bs (n_of_int 0x8000) in
    Buffer.add_string b (Printf.sprintf " rinit=%d" (int_of_z irc));
    let rr = compressor_create fx build_avail rcfg in
    Buffer.add_string b (" rcreate=" ^ rc_s rr);
    (match rr with
     | Ok rst -> if bytes <> [] then read_back b rst (zeros super_size @ bytes)
     | _ -> ())
  | _ -> ()

let () =
  try
    while true do
      let line = input_line stdin in
      let w = Array.of_list (String.split_on_char ' ' line) in
      let b = Buffer.create 256 in
      let num i = n_of_int (int_of_string w.(i)) in
      (match w.(0) with
       | "I" ->
         let (rc, c) = config_init (num 1) (num 2) (num 3) in
         Buffer.add_string b (Printf.sprintf "I rc=%d cfg=%s" (int_of_z rc) (cfg_s c))
       | "S" ->
         let opts = if w.(3) = "NULL" then None else Some (unhex w.(3)) in
         (match cfg_init_options fx (num 1) (num 2) opts with
          | POk c ->
            Buffer.add_string b ("S rc=0 diag=none cfg=" ^ cfg_s c);
            chain b c
          | PFail d -> Buffer.add_string b ("S rc=-1 diag=" ^ diag_s d)
          | PFuel -> Buffer.add_string b "S FUEL")
       | "C" ->
         let o = unhex w.(5) in
         let o = take 16 (o @ zeros 16) in
         Buffer.add_string b "C";
         chain b { c_id = num 1; c_flags = num 2; c_bs = num 3; c_level = num 4; c_opt = o }
       | "R" ->
         let img = zeros super_size @ unhex w.(3) in
         let (_, c) = config_init (num 1) (num 2) (n_of_int 0x8000) in
         let r = compressor_create fx build_avail c in
         Buffer.add_string b ("R create=" ^ rc_s r);
         (match r with Ok st -> read_back b st img | _ -> ())
       | "O" ->
         let img = unhex w.(1) in
         (match open_image fx build_avail img with
          | OSuperErr r -> Buffer.add_string b ("O super=" ^ rc_s r)
          | OCreateErr r -> Buffer.add_string b ("O super=0 create=" ^ rc_s r)
          | ONoOptions st -> Buffer.add_string b ("O super=0 create=0 read=none conf=" ^ cfg_s (get_configuration st))
          | OOptions (r, st) ->
            let after = get_configuration st in
            Buffer.add_string b (Printf.sprintf "O super=0 create=0 read=%s conf=%s recreate=%s" (rc_s r) (cfg_s after)
                                   (rc_s (compressor_create fx build_avail after))))
       | _ -> Buffer.add_string b "? bad case");
      print_endline (Buffer.contents b)
    done
  with End_of_file -> ()
