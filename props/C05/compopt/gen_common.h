/* shared by the translation units of the CompOpt constants generator (props/C05/compopt/gen_*.c) */
#ifndef GEN_COMMON_H
#define GEN_COMMON_H
#include <stdio.h>
#include <stddef.h>
#define DN(name, val) printf("Definition co_%s : N := %llu.\n", name, (unsigned long long)(val))
#define C(name) DN(#name, name)
#define SZ(t) DN("sizeof_" #t, sizeof(t))
#define OFF(t, f) DN("off_" #t "_" #f, offsetof(t, f))
#define WID(t, f) DN("width_" #t "_" #f, sizeof(((t *)0)->f))
static void gen_str(const char *s)
{
	const unsigned char *p = (const unsigned char *)s;
	printf("[");
	for (; *p; ++p)
		printf("%s%u", p == (const unsigned char *)s ? "" : "; ", (unsigned)*p);
	printf("]");
}
#endif
