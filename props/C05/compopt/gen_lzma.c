#include "lib/sqfs/src/comp/lzma.c"
#include "gen_common.h"
void gen_lzma(void)
{
	WID(lzma_compressor_t, level); WID(lzma_compressor_t, lc); WID(lzma_compressor_t, lp); WID(lzma_compressor_t, pb);
	WID(lzma_compressor_t, flags);
}
