/* C05 model driver stub: zlib inflate with the exact return convention of
 * lib/sqfs/src/comp/gzip.c gzip_do_block in uncompress mode (system zlib). */
#include <string.h>
#include <stdlib.h>
#include <zlib.h>
#include <caml/mlvalues.h>
#include <caml/memory.h>
#include <caml/alloc.h>

/* c05_gunzip : string -> int -> (int * string); int < 0: error code, 0 = "does not fit", > 0 bytes */
CAMLprim value c05_gunzip(value vin, value vcap)
{
	CAMLparam2(vin, vcap);
	CAMLlocal2(res, out);
	size_t size = caml_string_length(vin);
	long cap = Long_val(vcap);
	z_stream strm;
	unsigned char *buf;
	int ret, code = 0;
	size_t written = 0;

	buf = (unsigned char *)malloc(cap > 0 ? cap : 1);
	memset(&strm, 0, sizeof(strm));
	if (size >= 0x7FFFFFFF) {
		code = -16;
	} else if (inflateInit(&strm) != Z_OK) {
		code = -3;
	} else {
		strm.next_in = (Bytef *)String_val(vin);
		strm.avail_in = size;
		strm.next_out = buf;
		strm.avail_out = cap;
		ret = inflate(&strm, Z_FINISH);
		if (ret == Z_STREAM_END) {
			written = strm.total_out;
			code = (int)written;
		} else if (ret != Z_OK && ret != Z_BUF_ERROR) {
			code = -3;
		} else {
			code = 0;
		}
		inflateEnd(&strm);
	}
	out = caml_alloc_string(code > 0 ? written : 0);
	if (code > 0)
		memcpy(Bytes_val(out), buf, written);
	free(buf);
	res = caml_alloc_tuple(2);
	Store_field(res, 0, Val_long(code));
	Store_field(res, 1, out);
	CAMLreturn(res);
}
